/-
Connector isolation of the greedy/balanced step (`ruleStep`, Model/Strategies.lean): the part of the
world that belongs to one grid connector evolves on its own.  Purely structural — no arithmetic, so
it holds for every number type the model runs on (`Rat`, `Float`, ℝ).
-/
import SpiceEv.Model.Strategies
import Mathlib.Data.String.Basic
import Mathlib.Data.List.Basic
import Mathlib.Data.List.Nodup
set_option linter.unusedSectionVars false
set_option linter.unusedSimpArgs false
set_option linter.unusedVariables false
namespace SpiceEv
namespace Frame

/-! ### generic list / fold facts -/

theorem filter_map_comm {β : Type} (p : β → Bool) (f : β → β) (h : ∀ x, p (f x) = p x) (l : List β) :
    (l.map f).filter p = (l.filter p).map f := by
  induction l with
  | nil => rfl
  | cons x xs ih =>
    simp only [List.map_cons, List.filter_cons, h x]
    split <;> simp [ih]

theorem filter_map_skip {β : Type} (p : β → Bool) (f : β → β) (h : ∀ x, p (f x) = p x)
    (hid : ∀ x, p x = true → f x = x) (l : List β) :
    (l.map f).filter p = l.filter p := by
  induction l with
  | nil => rfl
  | cons x xs ih =>
    simp only [List.map_cons, List.filter_cons, h x]
    split
    · rename_i hp; rw [hid x hp, ih]
    · exact ih

theorem find?_filter_of_found {β : Type} (p q : β → Bool) (l : List β) (a : β)
    (h : l.find? q = some a) (hp : p a = true) : (l.filter p).find? q = some a := by
  induction l with
  | nil => simp at h
  | cons x xs ih =>
    simp only [List.find?_cons] at h
    cases hq : q x with
    | true =>
      simp only [hq, Option.some.injEq] at h
      subst h
      simp [List.filter_cons, hp, hq]
    | false =>
      simp only [hq] at h
      simp only [List.filter_cons]
      split
      · simp only [List.find?_cons, hq]; exact ih h
      · exact ih h

theorem find?_filter_none {β : Type} (p q : β → Bool) (l : List β)
    (h : l.find? q = none) : (l.filter p).find? q = none := by
  rw [List.find?_eq_none] at h ⊢
  intro x hx
  exact h x (List.mem_filter.mp hx).1

/-- simulation of a monadic fold on a filtered list: the elements that are filtered out do not
change the projected state, the others commute with the projection -/
theorem foldlM_sim {σ τ ι ε : Type} (f : σ → ι → Except ε σ) (f' : τ → ι → Except ε τ)
    (π : σ → τ) (p : ι → Bool) (I : σ → Prop)
    (hI : ∀ s x s', I s → f s x = .ok s' → I s')
    (hp : ∀ s x s', I s → p x = true → f s x = .ok s' → f' (π s) x = .ok (π s'))
    (hn : ∀ s x s', I s → p x = false → f s x = .ok s' → π s' = π s) :
    ∀ (l : List ι) (s s' : σ), I s → l.foldlM f s = .ok s' →
      (l.filter p).foldlM f' (π s) = .ok (π s') ∧ I s' := by
  intro l
  induction l with
  | nil =>
    intro s s' hi h
    simp only [List.foldlM_nil, pure, Except.pure, Except.ok.injEq] at h
    subst h
    exact ⟨rfl, hi⟩
  | cons x xs ih =>
    intro s s' hi h
    simp only [List.foldlM_cons, bind, Except.bind] at h
    cases hs : f s x with
    | error e => simp [hs] at h
    | ok s1 =>
      simp only [hs] at h
      have hi1 := hI s x s1 hi hs
      obtain ⟨h2, hi2⟩ := ih s1 s' hi1 h
      refine ⟨?_, hi2⟩
      cases hpx : p x with
      | true =>
        simp only [List.filter_cons, hpx, if_true, List.foldlM_cons, bind, Except.bind]
        rw [hp s x s1 hi hpx hs]
        exact h2
      | false =>
        simp only [List.filter_cons, hpx, Bool.false_eq_true, if_false]
        rw [← hn s x s1 hi hpx hs]
        exact h2

theorem foldlM_filter_noop {σ ι ε : Type} (f : σ → ι → Except ε σ) (p : ι → Bool) :
    ∀ (l : List ι) (s : σ), (∀ s x, x ∈ l → p x = false → f s x = .ok s) →
      (l.filter p).foldlM f s = l.foldlM f s := by
  intro l
  induction l with
  | nil => intro s _; rfl
  | cons x xs ih =>
    intro s h
    have ih' := fun s => ih s (fun s y hy hp => h s y (List.mem_cons_of_mem _ hy) hp)
    cases hpx : p x with
    | true =>
      simp only [List.filter_cons, hpx, if_true, List.foldlM_cons, bind, Except.bind]
      cases f s x with
      | error e => rfl
      | ok s1 => exact ih' s1
    | false =>
      simp only [List.filter_cons, hpx, Bool.false_eq_true, if_false, List.foldlM_cons, bind, Except.bind]
      rw [h s x (List.mem_cons_self) hpx]
      exact ih' s

theorem mapM_filter_sim {β γ ε : Type} (f f' : β → Except ε γ) (p : β → Bool) (q : γ → Bool)
    (hq : ∀ x y, f x = .ok y → q y = p x) (hf : ∀ x y, p x = true → f x = .ok y → f' x = .ok y) :
    ∀ (l : List β) (r : List γ), l.mapM f = .ok r → (l.filter p).mapM f' = .ok (r.filter q) := by
  intro l
  induction l with
  | nil =>
    intro r h
    simp only [List.mapM_nil, pure, Except.pure, Except.ok.injEq] at h
    subst h; rfl
  | cons x xs ih =>
    intro r h
    simp only [List.mapM_cons, bind, Except.bind, pure, Except.pure] at h
    cases hx : f x with
    | error e => simp [hx] at h
    | ok y =>
      simp only [hx] at h
      cases hxs : xs.mapM f with
      | error e => simp [hxs] at h
      | ok ys =>
        simp only [hxs, Except.ok.injEq] at h
        subst h
        have ih' := ih ys hxs
        cases hpx : p x with
        | true =>
          simp only [List.filter_cons, hpx, if_true, hq x y hx, List.mapM_cons, bind, Except.bind,
            pure, Except.pure, hf x y hpx hx, ih']
        | false =>
          simp only [List.filter_cons, hpx, Bool.false_eq_true, if_false, hq x y hx, ih']

/-! ### insertion-ordered dicts and key filters -/

section Dict
variable {β : Type} (q : String → Bool)

theorem sdGet_filter (l : List (String × β)) (k : String) (hk : q k = true) :
    sdGet (l.filter (fun kv => q kv.1)) k = sdGet l k := by
  induction l with
  | nil => rfl
  | cons x xs ih =>
    obtain ⟨xk, xv⟩ := x
    simp only [List.filter_cons]
    by_cases hx : xk = k
    · subst hx
      simp [hk, sdGet]
    · have hb : (xk == k) = false := by simpa using hx
      split
      · simp only [sdGet, hb, Bool.false_eq_true, if_false]; exact ih
      · simp only [sdGet, hb, Bool.false_eq_true, if_false]; exact ih

theorem sdSet_filter_in (l : List (String × β)) (k : String) (v : β) (hk : q k = true) :
    (sdSet l k v).filter (fun kv => q kv.1) = sdSet (l.filter (fun kv => q kv.1)) k v := by
  induction l with
  | nil => simp [sdSet, hk]
  | cons x xs ih =>
    obtain ⟨xk, xv⟩ := x
    by_cases hx : xk = k
    · subst hx
      simp [sdSet, List.filter_cons, hk]
    · have hb : (xk == k) = false := by simpa using hx
      simp only [sdSet, hb, Bool.false_eq_true, if_false, List.filter_cons]
      split
      · simp only [sdSet, hb, Bool.false_eq_true, if_false, ih]
      · exact ih

theorem sdSet_filter_out (l : List (String × β)) (k : String) (v : β) (hk : q k = false) :
    (sdSet l k v).filter (fun kv => q kv.1) = l.filter (fun kv => q kv.1) := by
  induction l with
  | nil => simp [sdSet, hk]
  | cons x xs ih =>
    obtain ⟨xk, xv⟩ := x
    by_cases hx : xk = k
    · subst hx
      simp [sdSet, List.filter_cons, hk]
    · have hb : (xk == k) = false := by simpa using hx
      simp only [sdSet, hb, Bool.false_eq_true, if_false, List.filter_cons, ih]

theorem sdUpdate_filter (l o : List (String × β)) :
    (sdUpdate l o).filter (fun kv => q kv.1)
      = sdUpdate (l.filter (fun kv => q kv.1)) (o.filter (fun kv => q kv.1)) := by
  unfold sdUpdate
  induction o generalizing l with
  | nil => rfl
  | cons x xs ih =>
    simp only [List.foldl_cons, List.filter_cons]
    cases hx : q x.1 with
    | true =>
      simp only [if_true, List.foldl_cons]
      rw [ih, sdSet_filter_in q l x.1 x.2 hx]
    | false =>
      simp only [Bool.false_eq_true, if_false]
      rw [ih, sdSet_filter_out q l x.1 x.2 hx]

end Dict

/-! ### the part of a world that belongs to connector `g` -/

section World
variable {α B : Type} [Add α] [Sub α] [Mul α] [Div α] [Neg α] [LT α] [LE α]
  [DecidableLT α] [DecidableLE α] [OfNat α 0] [OfNat α 1] [NatCast α] [IntCast α]

/-- `S`, `V`, `Bs`: the ids of the stations, vehicles and stationary batteries at connector `g` -/
structure Sel where
  g : String
  S : List String
  V : List String
  Bs : List String

def part (σ : Sel) (w : SWorld α B) : SWorld α B :=
  { gcs := w.gcs.filter (fun x => x.id == σ.g),
    stations := w.stations.filter (fun s => σ.S.contains s.id),
    vehicles := w.vehicles.filter (fun v => σ.V.contains v.id),
    batteries := w.batteries.filter (fun b => σ.Bs.contains b.id) }

/-- the id lists describe the connector: a station is selected iff its parent is `g`, a vehicle iff
it is connected to a selected station, a battery iff its parent is `g` -/
structure Link (σ : Sel) (w : SWorld α B) : Prop where
  st : ∀ s ∈ w.stations, σ.S.contains s.id = (s.parent == σ.g)
  ve : ∀ v ∈ w.vehicles, σ.V.contains v.id = (match v.cs with | some c => σ.S.contains c | none => false)
  ba : ∀ b ∈ w.batteries, σ.Bs.contains b.id = (b.parent == σ.g)

variable (σ : Sel)

theorem part_setGc (w : SWorld α B) (g' : GcS α) :
    part σ (w.setGc g') = (part σ w).setGc g' := by
  unfold part SWorld.setGc
  simp only [SWorld.mk.injEq, and_true, true_and]
  apply filter_map_comm
  intro x; split <;> rename_i h
  · simp only [beq_iff_eq] at h; simp [h]
  · rfl

theorem part_setGc_out (w : SWorld α B) (g' : GcS α) (h : (g'.id == σ.g) = false) :
    part σ (w.setGc g') = part σ w := by
  unfold part SWorld.setGc
  simp only [SWorld.mk.injEq, and_true, true_and]
  apply filter_map_skip
  · intro x; split <;> rename_i hx
    · simp only [beq_iff_eq] at hx; simp [hx]
    · rfl
  · intro x hx
    have : (x.id == g'.id) = false := by
      simp only [beq_iff_eq] at hx
      simp only [beq_eq_false_iff_ne, ne_eq] at h ⊢
      intro he; exact h (he ▸ hx)
    simp [this]

theorem part_setStation (w : SWorld α B) (s' : StationS α) :
    part σ (w.setStation s') = (part σ w).setStation s' := by
  unfold part SWorld.setStation
  simp only [SWorld.mk.injEq, and_true, true_and]
  apply filter_map_comm
  intro x; split <;> rename_i h
  · simp only [beq_iff_eq] at h; simp [h]
  · rfl

theorem part_setStation_out (w : SWorld α B) (s' : StationS α) (h : σ.S.contains s'.id = false) :
    part σ (w.setStation s') = part σ w := by
  unfold part SWorld.setStation
  simp only [SWorld.mk.injEq, and_true, true_and]
  apply filter_map_skip
  · intro x; split <;> rename_i hx
    · simp only [beq_iff_eq] at hx; simp [hx]
    · rfl
  · intro x hx
    have : (x.id == s'.id) = false := by
      simp only [beq_eq_false_iff_ne, ne_eq]
      intro he; rw [he, h] at hx; exact Bool.false_ne_true hx
    simp [this]

theorem part_setVehicle (w : SWorld α B) (v' : VehicleS α B) :
    part σ (w.setVehicle v') = (part σ w).setVehicle v' := by
  unfold part SWorld.setVehicle
  simp only [SWorld.mk.injEq, and_true, true_and]
  apply filter_map_comm
  intro x; split <;> rename_i h
  · simp only [beq_iff_eq] at h; simp [h]
  · rfl

theorem part_setVehicle_out (w : SWorld α B) (v' : VehicleS α B) (h : σ.V.contains v'.id = false) :
    part σ (w.setVehicle v') = part σ w := by
  unfold part SWorld.setVehicle
  simp only [SWorld.mk.injEq, and_true, true_and]
  apply filter_map_skip
  · intro x; split <;> rename_i hx
    · simp only [beq_iff_eq] at hx; simp [hx]
    · rfl
  · intro x hx
    have : (x.id == v'.id) = false := by
      simp only [beq_eq_false_iff_ne, ne_eq]
      intro he; rw [he, h] at hx; exact Bool.false_ne_true hx
    simp [this]

theorem part_setBattery (w : SWorld α B) (b' : StatBatS α B) :
    part σ (w.setBattery b') = (part σ w).setBattery b' := by
  unfold part SWorld.setBattery
  simp only [SWorld.mk.injEq, and_true, true_and]
  apply filter_map_comm
  intro x; split <;> rename_i h
  · simp only [beq_iff_eq] at h; simp [h]
  · rfl

theorem part_setBattery_out (w : SWorld α B) (b' : StatBatS α B) (h : σ.Bs.contains b'.id = false) :
    part σ (w.setBattery b') = part σ w := by
  unfold part SWorld.setBattery
  simp only [SWorld.mk.injEq, and_true, true_and]
  apply filter_map_skip
  · intro x; split <;> rename_i hx
    · simp only [beq_iff_eq] at hx; simp [hx]
    · rfl
  · intro x hx
    have : (x.id == b'.id) = false := by
      simp only [beq_eq_false_iff_ne, ne_eq]
      intro he; rw [he, h] at hx; exact Bool.false_ne_true hx
    simp [this]

/-! lookups in the part -/

theorem part_gc? (w : SWorld α B) : (part σ w).gc? σ.g = w.gc? σ.g := by
  unfold part SWorld.gc?
  simp only [List.find?_filter]
  congr 1
  funext a
  cases h : (a.id == σ.g) <;> simp [h]

theorem part_station? (w : SWorld α B) (c : String) (s : StationS α)
    (h : w.station? c = some s) (hs : σ.S.contains c = true) : (part σ w).station? c = some s := by
  unfold part SWorld.station? at *
  apply find?_filter_of_found _ _ _ _ h
  have := List.find?_some h
  simp only [beq_iff_eq] at this
  rw [this]; exact hs

theorem part_vehicle? (w : SWorld α B) (vid : String) (v : VehicleS α B)
    (h : w.vehicle? vid = some v) (hv : σ.V.contains vid = true) : (part σ w).vehicle? vid = some v := by
  unfold part SWorld.vehicle? at *
  apply find?_filter_of_found _ _ _ _ h
  have := List.find?_some h
  simp only [beq_iff_eq] at this
  rw [this]; exact hv

theorem vehicle?_some (w : SWorld α B) (id : String) (v : VehicleS α B) (h : w.vehicle? id = some v) :
    v ∈ w.vehicles ∧ v.id = id := by
  unfold SWorld.vehicle? at h
  exact ⟨List.mem_of_find?_eq_some h, by simpa using List.find?_some h⟩

theorem station?_some' (w : SWorld α B) (id : String) (s : StationS α) (h : w.station? id = some s) :
    s ∈ w.stations ∧ s.id = id := by
  unfold SWorld.station? at h
  exact ⟨List.mem_of_find?_eq_some h, by simpa using List.find?_some h⟩

theorem gc?_some' (w : SWorld α B) (id : String) (g : GcS α) (h : w.gc? id = some g) :
    g ∈ w.gcs ∧ g.id = id := by
  unfold SWorld.gc? at h
  exact ⟨List.mem_of_find?_eq_some h, by simpa using List.find?_some h⟩

/-! the link is kept by the four setters -/

theorem link_setGc (w : SWorld α B) (g' : GcS α) (h : Link σ w) : Link σ (w.setGc g') :=
  ⟨h.st, h.ve, h.ba⟩

theorem link_setVehicle (w : SWorld α B) (v' : VehicleS α B) (h : Link σ w)
    (hv : σ.V.contains v'.id = (match v'.cs with | some c => σ.S.contains c | none => false)) :
    Link σ (w.setVehicle v') := by
  refine ⟨h.st, ?_, h.ba⟩
  intro v hvm
  unfold SWorld.setVehicle at hvm
  simp only [List.mem_map] at hvm
  obtain ⟨x, hx, rfl⟩ := hvm
  split
  · exact hv
  · exact h.ve x hx

theorem link_setStation (w : SWorld α B) (s' : StationS α) (h : Link σ w)
    (hs : σ.S.contains s'.id = (s'.parent == σ.g)) : Link σ (w.setStation s') := by
  refine ⟨?_, h.ve, h.ba⟩
  intro s hsm
  unfold SWorld.setStation at hsm
  simp only [List.mem_map] at hsm
  obtain ⟨x, hx, rfl⟩ := hsm
  split
  · exact hs
  · exact h.st x hx

theorem link_setBattery (w : SWorld α B) (b' : StatBatS α B) (h : Link σ w)
    (hb : σ.Bs.contains b'.id = (b'.parent == σ.g)) : Link σ (w.setBattery b') := by
  refine ⟨h.st, h.ve, ?_⟩
  intro b hbm
  unfold SWorld.setBattery at hbm
  simp only [List.mem_map] at hbm
  obtain ⟨x, hx, rfl⟩ := hbm
  split
  · exact hb
  · exact h.ba x hx

theorem addLoad_id (g : GcS α) (k : String) (v : α) : (g.addLoad k v).1.id = g.id := by
  unfold GcS.addLoad; split <;> rfl

/-- projection of the state of the vehicle pass -/
def projA (st : SWorld α B × List (String × α) × List (String × α)) :
    SWorld α B × List (String × α) × List (String × α) :=
  (part σ st.1, st.2.1.filter (fun kv => σ.S.contains kv.1), st.2.2.filter (fun kv => kv.1 == σ.g))

/-- everything `allocVehicle` looks up for a connected vehicle, and how its result is built -/
theorem allocVehicle_cases (rule : Rule) (ops : BatOps α B) (env : StratEnv α)
    (st st' : SWorld α B × List (String × α) × List (String × α)) (vid : String)
    (h : allocVehicle rule ops env st vid = .ok st') :
    ∃ v, st.1.vehicle? vid = some v ∧
      ((v.cs = none ∧ st' = st) ∨
       ∃ csId cs gc cheap power used bat' avg, v.cs = some csId ∧ st.1.station? csId = some cs ∧
        st.1.gc? cs.parent = some gc ∧ gcCheap env gc = .ok cheap ∧
        planPower rule ops env cheap (gc.curMax - gc.currentLoad) ((sdGet st.2.2 cs.parent).getD 0) cs v
          = .ok (power, used) ∧
        chargeCall rule ops env cheap v power = .ok (bat', avg) ∧
        st' = ((((st.1.setVehicle { v with bat := bat' }).setGc (gc.addLoad csId avg).1).setStation
                { cs with currentPower := cs.currentPower + avg }),
               sdSet st.2.1 csId (gc.addLoad csId avg).2,
               if used then sdSet st.2.2 cs.parent (pymax ((sdGet st.2.2 cs.parent).getD 0 - avg) 0)
               else st.2.2)) := by
  unfold allocVehicle at h
  simp only at h
  split at h
  · cases h
  · rename_i v hv
    refine ⟨v, hv, ?_⟩
    split at h
    · rename_i hcs
      left
      simp only [Except.ok.injEq] at h
      exact ⟨hcs, h.symm⟩
    · rename_i csId hcs
      right
      split at h
      · cases h
      · rename_i cs hst
        split at h
        · cases h
        · rename_i gc hgc
          cases hch : gcCheap env gc with
          | error e => simp [hch, bind, Except.bind] at h
          | ok cheap =>
            simp only [hch, bind, Except.bind] at h
            cases hpl : planPower rule ops env cheap (gc.curMax - gc.currentLoad)
                ((sdGet st.2.2 cs.parent).getD 0) cs v with
            | error e => simp [hpl] at h
            | ok pu =>
              obtain ⟨power, used⟩ := pu
              simp only [hpl] at h
              cases hcc : chargeCall rule ops env cheap v power with
              | error e => simp [hcc] at h
              | ok ba =>
                obtain ⟨bat', avg⟩ := ba
                simp only [hcc, Except.ok.injEq] at h
                exact ⟨csId, cs, gc, cheap, power, used, bat', avg, hcs, hst, hgc, hch, hpl, hcc, h.symm⟩

theorem allocVehicle_eval_none (rule : Rule) (ops : BatOps α B) (env : StratEnv α)
    (st : SWorld α B × List (String × α) × List (String × α)) (vid : String) (v : VehicleS α B)
    (hv : st.1.vehicle? vid = some v) (hcs : v.cs = none) :
    allocVehicle rule ops env st vid = .ok st := by
  unfold allocVehicle
  simp only [hv, hcs]

theorem allocVehicle_eval (rule : Rule) (ops : BatOps α B) (env : StratEnv α)
    (st : SWorld α B × List (String × α) × List (String × α)) (vid : String) (v : VehicleS α B)
    (csId : String) (cs : StationS α) (gc : GcS α) (cheap : Bool) (power : α) (used : Bool) (bat' : B)
    (avg : α)
    (hv : st.1.vehicle? vid = some v) (hcs : v.cs = some csId) (hst : st.1.station? csId = some cs)
    (hgc : st.1.gc? cs.parent = some gc) (hch : gcCheap env gc = .ok cheap)
    (hpl : planPower rule ops env cheap (gc.curMax - gc.currentLoad) ((sdGet st.2.2 cs.parent).getD 0) cs v
          = .ok (power, used))
    (hcc : chargeCall rule ops env cheap v power = .ok (bat', avg)) :
    allocVehicle rule ops env st vid = .ok
      ((((st.1.setVehicle { v with bat := bat' }).setGc (gc.addLoad csId avg).1).setStation
                { cs with currentPower := cs.currentPower + avg }),
               sdSet st.2.1 csId (gc.addLoad csId avg).2,
               if used then sdSet st.2.2 cs.parent (pymax ((sdGet st.2.2 cs.parent).getD 0 - avg) 0)
               else st.2.2) := by
  unfold allocVehicle
  simp only [hv, hcs, hst, hgc, hch, bind, Except.bind, hpl, hcc]

/-- the vehicle pass keeps the link -/
theorem allocVehicle_link (rule : Rule) (ops : BatOps α B) (env : StratEnv α)
    (st st' : SWorld α B × List (String × α) × List (String × α)) (vid : String)
    (hl : Link σ st.1) (h : allocVehicle rule ops env st vid = .ok st') : Link σ st'.1 := by
  obtain ⟨v, hv, hc⟩ := allocVehicle_cases rule ops env st st' vid h
  rcases hc with ⟨_, rfl⟩ | ⟨csId, cs, gc, cheap, power, used, bat', avg, hcs, hst, hgc, _, _, _, rfl⟩
  · exact hl
  · obtain ⟨hvm, hvid⟩ := vehicle?_some _ _ _ hv
    obtain ⟨hsm, hsid⟩ := station?_some' _ _ _ hst
    apply link_setStation
    · apply link_setGc
      apply link_setVehicle _ _ _ hl
      exact hl.ve v hvm
    · exact hl.st cs hsm

/-- a vehicle of the connector: the pass on the part does the same -/
theorem allocVehicle_in (rule : Rule) (ops : BatOps α B) (env : StratEnv α)
    (st st' : SWorld α B × List (String × α) × List (String × α)) (vid : String)
    (hl : Link σ st.1) (hin : σ.V.contains vid = true)
    (h : allocVehicle rule ops env st vid = .ok st') :
    allocVehicle rule ops env (projA σ st) vid = .ok (projA σ st') := by
  obtain ⟨v, hv, hc⟩ := allocVehicle_cases rule ops env st st' vid h
  have hv' : (projA σ st).1.vehicle? vid = some v := part_vehicle? σ _ _ _ hv hin
  rcases hc with ⟨hcs, rfl⟩ | ⟨csId, cs, gc, cheap, power, used, bat', avg, hcs, hst, hgc, hch, hpl, hcc, rfl⟩
  · exact allocVehicle_eval_none rule ops env _ vid v hv' hcs
  · obtain ⟨hvm, hvid⟩ := vehicle?_some _ _ _ hv
    obtain ⟨hsm, hsid⟩ := station?_some' _ _ _ hst
    have hS : σ.S.contains csId = true := by
      have := hl.ve v hvm
      rw [hvid, hin, hcs] at this
      exact this.symm
    have hpar : (cs.parent == σ.g) = true := by
      have := hl.st cs hsm
      rw [hsid, hS] at this
      exact this.symm
    have hparg : cs.parent = σ.g := by simpa using hpar
    have hst' : (projA σ st).1.station? csId = some cs := part_station? σ _ _ _ hst hS
    have hgc' : (projA σ st).1.gc? cs.parent = some gc := by
      show (part σ st.1).gc? cs.parent = some gc
      rw [hparg, part_gc?, ← hparg]; exact hgc
    have hav : sdGet (projA σ st).2.2 cs.parent = sdGet st.2.2 cs.parent :=
      sdGet_filter (fun k => k == σ.g) st.2.2 cs.parent hpar
    rw [allocVehicle_eval rule ops env (projA σ st) vid v csId cs gc cheap power used bat' avg hv' hcs hst'
      hgc' hch (by rw [hav]; exact hpl) hcc]
    congr 1
    unfold projA
    simp only [Prod.mk.injEq]
    refine ⟨?_, ?_, ?_⟩
    · rw [part_setStation, part_setGc, part_setVehicle]
    · exact (sdSet_filter_in (fun k => σ.S.contains k) st.2.1 csId _ hS).symm
    · have hav' : sdGet (List.filter (fun kv => kv.1 == σ.g) st.2.2) cs.parent = sdGet st.2.2 cs.parent := hav
      rw [hav']
      cases used with
      | false => simp
      | true =>
        simp only [if_true]
        exact (sdSet_filter_in (fun k => k == σ.g) st.2.2 cs.parent _ hpar).symm

/-- a vehicle of another connector: the part does not change -/
theorem allocVehicle_out (rule : Rule) (ops : BatOps α B) (env : StratEnv α)
    (st st' : SWorld α B × List (String × α) × List (String × α)) (vid : String)
    (hl : Link σ st.1) (hout : σ.V.contains vid = false)
    (h : allocVehicle rule ops env st vid = .ok st') : projA σ st' = projA σ st := by
  obtain ⟨v, hv, hc⟩ := allocVehicle_cases rule ops env st st' vid h
  rcases hc with ⟨hcs, rfl⟩ | ⟨csId, cs, gc, cheap, power, used, bat', avg, hcs, hst, hgc, hch, hpl, hcc, rfl⟩
  · rfl
  · obtain ⟨hvm, hvid⟩ := vehicle?_some _ _ _ hv
    obtain ⟨hsm, hsid⟩ := station?_some' _ _ _ hst
    obtain ⟨hgm, hgid⟩ := gc?_some' _ _ _ hgc
    have hS : σ.S.contains csId = false := by
      have := hl.ve v hvm
      rw [hvid, hout, hcs] at this
      exact this.symm
    have hpar : (cs.parent == σ.g) = false := by
      have := hl.st cs hsm
      rw [hsid, hS] at this
      exact this.symm
    unfold projA
    simp only [Prod.mk.injEq]
    refine ⟨?_, ?_, ?_⟩
    · rw [part_setStation_out σ _ _ (by simpa [hsid] using hS),
        part_setGc_out σ _ _ (by rw [addLoad_id, hgid]; exact hpar),
        part_setVehicle_out σ _ _ (by simpa [hvid] using hout)]
    · exact sdSet_filter_out (fun k => σ.S.contains k) st.2.1 csId _ hS
    · cases used with
      | false => simp
      | true =>
        simp only [if_true]
        exact sdSet_filter_out (fun k => k == σ.g) st.2.2 cs.parent _ hpar

theorem strLe_trans (a b c : String) (h1 : decide (a ≤ b) = true) (h2 : decide (b ≤ c) = true) :
    decide (a ≤ c) = true := by
  simp only [decide_eq_true_eq] at *; exact le_trans h1 h2

theorem strLe_total (a b : String) : (decide (a ≤ b) || decide (b ≤ a)) = true := by
  simp only [Bool.or_eq_true, decide_eq_true_eq]; exact le_total _ _

/-- sorting ids and selecting commute (a sorted list of strings is determined by its elements) -/
theorem mergeSort_filter_ids (p : String → Bool) (l : List String) :
    (l.filter p).mergeSort (fun a b => decide (a ≤ b))
      = (l.mergeSort (fun a b => decide (a ≤ b))).filter p := by
  apply List.Perm.eq_of_pairwise (le := fun a b => decide (a ≤ b) = true)
  · intro a b _ _ hab hba
    exact le_antisymm (by simpa using hab) (by simpa using hba)
  · exact List.pairwise_mergeSort strLe_trans strLe_total _
  · exact (List.pairwise_mergeSort strLe_trans strLe_total l).sublist List.filter_sublist
  · exact (List.mergeSort_perm _ _).trans ((List.mergeSort_perm l _).filter p).symm

theorem sortedVehicleIds_part (w : SWorld α B) :
    sortedVehicleIds (part σ w) = (sortedVehicleIds w).filter (fun id => σ.V.contains id) := by
  unfold sortedVehicleIds part
  simp only
  rw [← mergeSort_filter_ids]
  congr 1
  induction w.vehicles with
  | nil => rfl
  | cons x xs ih =>
    simp only [List.filter_cons, List.map_cons]
    split
    · rw [List.map_cons, ih]
    · exact ih

/-- **the vehicle pass on the part** -/
theorem allocFold_part (rule : Rule) (ops : BatOps α B) (env : StratEnv α) (ids : List String)
    (st st' : SWorld α B × List (String × α) × List (String × α)) (hl : Link σ st.1)
    (h : ids.foldlM (allocVehicle rule ops env) st = .ok st') :
    (ids.filter (fun id => σ.V.contains id)).foldlM (allocVehicle rule ops env) (projA σ st)
      = .ok (projA σ st') ∧ Link σ st'.1 :=
  foldlM_sim (allocVehicle rule ops env) (allocVehicle rule ops env) (projA σ)
    (fun id => σ.V.contains id) (fun s => Link σ s.1)
    (fun s x s' hi hs => allocVehicle_link σ rule ops env s s' x hi hs)
    (fun s x s' hi hp hs => allocVehicle_in σ rule ops env s s' x hi hp hs)
    (fun s x s' hi hp hs => allocVehicle_out σ rule ops env s s' x hi hp hs)
    ids st st' hl h

/-! ### the surplus pass and the battery pass factor through local decisions -/

/-- what `distribute_surplus_power` decides for one vehicle from the vehicle, its station and its
connector alone: the new battery, the load added at the connector, the new station power -/
def surplusLocal (ops : BatOps α B) (env : StratEnv α) (isCheap : Bool) (v : VehicleS α B)
    (csId : String) (cs : StationS α) (gc : GcS α) : Py (Option (B × α × α)) :=
  let surplus := -gc.currentLoad
  if env.eps < surplus then
    match ops.load v.bat
      (some (clampPower surplus cs.currentPower cs.maxPower cs.minPower v.minChargingPower)) none none with
    | .error e => .error e
    | .ok (bat', avg) => .ok (some (bat', avg, cs.currentPower + avg))
  else
    if surplus < -env.eps ∧ v.desiredSoc - ops.soc v.bat < -env.eps ∧ v.v2g = true
        ∧ pyabs ((sdGet gc.loads csId).getD 0) < env.eps ∧ isCheap = false then
      match ops.unload v.bat (some (pymin (pymin (-surplus) (ops.unloadMaxPower v.bat)) cs.maxPower))
        (some (pymax v.desiredSoc v.dischargeLimit)) none with
      | .error e => .error e
      | .ok (bat', avg) => .ok (some (bat', -avg, cs.currentPower - avg))
    else .ok none

def surplusWrite (w : SWorld α B) (cmds : List (String × α)) (v : VehicleS α B) (csId : String)
    (cs : StationS α) (gc : GcS α) : Option (B × α × α) → SWorld α B × List (String × α)
  | none => (w, cmds)
  | some (bat', d, cur') =>
    ((((w.setVehicle { v with bat := bat' }).setGc (gc.addLoad csId d).1).setStation
        { cs with currentPower := cur' }), sdSet cmds csId (gc.addLoad csId d).2)

theorem surplusVehicle_eq (ops : BatOps α B) (env : StratEnv α) (cheap : List (String × Bool))
    (w : SWorld α B) (cmds : List (String × α)) (v : VehicleS α B) :
    surplusVehicle ops env cheap w cmds v =
      match v.cs with
      | none => .ok (w, cmds)
      | some csId =>
        match w.station? csId with
        | none => .error .keyError
        | some cs =>
          match w.gc? cs.parent with
          | none => .error .keyError
          | some gc =>
            match surplusLocal ops env ((sdGet cheap cs.parent).getD false) v csId cs gc with
            | .error e => .error e
            | .ok r => .ok (surplusWrite w cmds v csId cs gc r) := by
  unfold surplusVehicle
  cases hcs : v.cs with
  | none => rfl
  | some csId =>
    dsimp only
    cases hst : w.station? csId with
    | none => rfl
    | some cs =>
      dsimp only
      cases hgc : w.gc? cs.parent with
      | none => rfl
      | some gc =>
        dsimp only
        unfold surplusLocal
        dsimp only
        split
        · -- surplus: charge
          cases hl : ops.load v.bat
            (some (clampPower (-gc.currentLoad) cs.currentPower cs.maxPower cs.minPower v.minChargingPower))
            none none with
          | error e => simp [hl, bind, Except.bind]
          | ok r =>
            obtain ⟨bat', avg⟩ := r
            simp [hl, bind, Except.bind, surplusWrite, hcs]
        · split
          · cases hu : ops.unload v.bat
              (some (pymin (pymin (- -gc.currentLoad) (ops.unloadMaxPower v.bat)) cs.maxPower))
              (some (pymax v.desiredSoc v.dischargeLimit)) none with
            | error e => simp [hu, bind, Except.bind]
            | ok r =>
              obtain ⟨bat', avg⟩ := r
              simp [hu, bind, Except.bind, surplusWrite, hcs]
          · simp [surplusWrite]

/-- what `update_batteries` decides for one battery from the battery and its connector alone: the
new battery and the load added at the connector -/
def batLocal (ops : BatOps α B) (isCheap : Bool) (b : StatBatS α B) (gc : GcS α) : Py (B × α) :=
  let load := gc.currentLoad
  if isCheap then
    let p := gc.curMax - load
    let p := if p < b.minChargingPower then 0 else p
    match ops.load b.bat (some p) none none with
    | .error e => .error e
    | .ok (bat', avg) => .ok (bat', avg)
  else if load < 0 then
    let p := -load
    let p := if p < b.minChargingPower then 0 else p
    match ops.load b.bat none none (some p) with
    | .error e => .error e
    | .ok (bat', avg) => .ok (bat', avg)
  else
    match ops.unload b.bat none none (some load) with
    | .error e => .error e
    | .ok (bat', avg) => .ok (bat', -avg)

theorem updateBattery_eq (ops : BatOps α B) (env : StratEnv α) (cheap : List (String × Bool))
    (w : SWorld α B) (b : StatBatS α B) :
    updateBattery ops env cheap w b =
      match w.gc? b.parent with
      | none => .ok w
      | some gc =>
        match sdGet cheap b.parent with
        | none => .error .keyError
        | some isCheap =>
          match batLocal ops isCheap b gc with
          | .error e => .error e
          | .ok r => .ok ((w.setBattery { b with bat := r.1 }).setGc (gc.addLoad b.id r.2).1) := by
  unfold updateBattery
  cases hgc : w.gc? b.parent with
  | none => rfl
  | some gc =>
    dsimp only [bind, Except.bind]
    cases hch : sdGet cheap b.parent with
    | none => rfl
    | some isCheap =>
      dsimp only
      unfold batLocal
      dsimp only
      split
      · cases hl : ops.load b.bat
          (some (if gc.curMax - gc.currentLoad < b.minChargingPower then 0 else gc.curMax - gc.currentLoad))
          none none with
        | error e => simp [hl]
        | ok r => obtain ⟨bat', avg⟩ := r; simp [hl]
      · split
        · cases hl : ops.load b.bat none none
            (some (if -gc.currentLoad < b.minChargingPower then 0 else -gc.currentLoad)) with
          | error e => simp [hl]
          | ok r => obtain ⟨bat', avg⟩ := r; simp [hl]
        · cases hu : ops.unload b.bat none none (some gc.currentLoad) with
          | error e => simp [hu]
          | ok r => obtain ⟨bat', avg⟩ := r; simp [hu]

/-- body of the vehicle loop of `distribute_surplus_power` -/
def surplusBody (ops : BatOps α B) (env : StratEnv α) (cheap : List (String × Bool))
    (st : SWorld α B × List (String × α)) (v0 : VehicleS α B) : Py (SWorld α B × List (String × α)) :=
  match st.1.vehicle? v0.id with
  | none => .ok st
  | some v => surplusVehicle ops env cheap st.1 st.2 v

def projS (st : SWorld α B × List (String × α)) : SWorld α B × List (String × α) :=
  (part σ st.1, st.2.filter (fun kv => σ.S.contains kv.1))

/-- case analysis of one step of the surplus loop -/
theorem surplusBody_cases (ops : BatOps α B) (env : StratEnv α) (cheap : List (String × Bool))
    (st st' : SWorld α B × List (String × α)) (v0 : VehicleS α B)
    (h : surplusBody ops env cheap st v0 = .ok st') :
    (st.1.vehicle? v0.id = none ∧ st' = st) ∨
    ∃ v, st.1.vehicle? v0.id = some v ∧
      ((v.cs = none ∧ st' = st) ∨
       ∃ csId cs gc r, v.cs = some csId ∧ st.1.station? csId = some cs ∧ st.1.gc? cs.parent = some gc ∧
         surplusLocal ops env ((sdGet cheap cs.parent).getD false) v csId cs gc = .ok r ∧
         st' = surplusWrite st.1 st.2 v csId cs gc r) := by
  unfold surplusBody at h
  cases hv : st.1.vehicle? v0.id with
  | none =>
    left
    simp only [hv, Except.ok.injEq] at h
    exact ⟨rfl, h.symm⟩
  | some v =>
    right
    refine ⟨v, rfl, ?_⟩
    simp only [hv, surplusVehicle_eq] at h
    cases hcs : v.cs with
    | none =>
      left
      simp only [hcs, Except.ok.injEq] at h
      exact ⟨rfl, h.symm⟩
    | some csId =>
      right
      simp only [hcs] at h
      cases hst : st.1.station? csId with
      | none => simp [hst] at h
      | some cs =>
        simp only [hst] at h
        cases hgc : st.1.gc? cs.parent with
        | none => simp [hgc] at h
        | some gc =>
          simp only [hgc] at h
          cases hloc : surplusLocal ops env ((sdGet cheap cs.parent).getD false) v csId cs gc with
          | error e => simp [hloc] at h
          | ok r =>
            simp only [hloc, Except.ok.injEq] at h
            exact ⟨csId, cs, gc, r, rfl, hst, hgc, hloc, h.symm⟩

theorem surplusBody_eval (ops : BatOps α B) (env : StratEnv α) (cheap : List (String × Bool))
    (st : SWorld α B × List (String × α)) (v0 v : VehicleS α B) (csId : String) (cs : StationS α)
    (gc : GcS α) (r : Option (B × α × α))
    (hv : st.1.vehicle? v0.id = some v) (hcs : v.cs = some csId) (hst : st.1.station? csId = some cs)
    (hgc : st.1.gc? cs.parent = some gc)
    (hloc : surplusLocal ops env ((sdGet cheap cs.parent).getD false) v csId cs gc = .ok r) :
    surplusBody ops env cheap st v0 = .ok (surplusWrite st.1 st.2 v csId cs gc r) := by
  unfold surplusBody
  simp only [hv, surplusVehicle_eq, hcs, hst, hgc, hloc]

theorem surplusWrite_link (w : SWorld α B) (cmds : List (String × α)) (v : VehicleS α B) (csId : String)
    (cs : StationS α) (gc : GcS α) (r : Option (B × α × α)) (hl : Link σ w)
    (hvm : v ∈ w.vehicles) (hsm : cs ∈ w.stations) : Link σ (surplusWrite w cmds v csId cs gc r).1 := by
  cases r with
  | none => exact hl
  | some t =>
    obtain ⟨bat', d, cur'⟩ := t
    unfold surplusWrite
    apply link_setStation
    · apply link_setGc
      apply link_setVehicle _ _ _ hl
      exact hl.ve v hvm
    · exact hl.st cs hsm

theorem surplusBody_link (ops : BatOps α B) (env : StratEnv α) (cheap : List (String × Bool))
    (st st' : SWorld α B × List (String × α)) (v0 : VehicleS α B) (hl : Link σ st.1)
    (h : surplusBody ops env cheap st v0 = .ok st') : Link σ st'.1 := by
  rcases surplusBody_cases ops env cheap st st' v0 h with ⟨_, rfl⟩ | ⟨v, hv, hc⟩
  · exact hl
  · rcases hc with ⟨_, rfl⟩ | ⟨csId, cs, gc, r, hcs, hst, hgc, hloc, rfl⟩
    · exact hl
    · exact surplusWrite_link σ _ _ _ _ _ _ _ hl (vehicle?_some _ _ _ hv).1 (station?_some' _ _ _ hst).1

theorem surplusBody_in (ops : BatOps α B) (env : StratEnv α) (cheap : List (String × Bool))
    (st st' : SWorld α B × List (String × α)) (v0 : VehicleS α B) (hl : Link σ st.1)
    (hin : σ.V.contains v0.id = true) (h : surplusBody ops env cheap st v0 = .ok st') :
    surplusBody ops env (cheap.filter (fun kv => kv.1 == σ.g)) (projS σ st) v0 = .ok (projS σ st') := by
  rcases surplusBody_cases ops env cheap st st' v0 h with ⟨hv, he⟩ | ⟨v, hv, hc⟩
  · rw [he]
    unfold surplusBody
    have : (projS σ st).1.vehicle? v0.id = none := by
      unfold projS part SWorld.vehicle?
      exact find?_filter_none _ _ _ hv
    simp only [this]
  · have hv' : (projS σ st).1.vehicle? v0.id = some v := part_vehicle? σ _ _ _ hv hin
    rcases hc with ⟨hcs, he⟩ | ⟨csId, cs, gc, r, hcs, hst, hgc, hloc, rfl⟩
    · rw [he]
      unfold surplusBody
      simp only [hv', surplusVehicle_eq, hcs]
    · obtain ⟨hvm, hvid⟩ := vehicle?_some _ _ _ hv
      obtain ⟨hsm, hsid⟩ := station?_some' _ _ _ hst
      have hS : σ.S.contains csId = true := by
        have := hl.ve v hvm
        rw [hvid, hin, hcs] at this
        exact this.symm
      have hpar : (cs.parent == σ.g) = true := by
        have := hl.st cs hsm
        rw [hsid, hS] at this
        exact this.symm
      have hparg : cs.parent = σ.g := by simpa using hpar
      have hst' : (projS σ st).1.station? csId = some cs := part_station? σ _ _ _ hst hS
      have hgc' : (projS σ st).1.gc? cs.parent = some gc := by
        show (part σ st.1).gc? cs.parent = some gc
        rw [hparg, part_gc?, ← hparg]; exact hgc
      have hch : sdGet (cheap.filter (fun kv => kv.1 == σ.g)) cs.parent = sdGet cheap cs.parent :=
        sdGet_filter (fun k => k == σ.g) cheap cs.parent hpar
      rw [surplusBody_eval ops env _ (projS σ st) v0 v csId cs gc r hv' hcs hst' hgc' (by rw [hch]; exact hloc)]
      congr 1
      cases r with
      | none => rfl
      | some t =>
        obtain ⟨bat', d, cur'⟩ := t
        unfold surplusWrite projS
        simp only [Prod.mk.injEq]
        refine ⟨?_, ?_⟩
        · rw [part_setStation, part_setGc, part_setVehicle]
        · exact (sdSet_filter_in (fun k => σ.S.contains k) st.2 csId _ hS).symm

theorem surplusBody_out (ops : BatOps α B) (env : StratEnv α) (cheap : List (String × Bool))
    (st st' : SWorld α B × List (String × α)) (v0 : VehicleS α B) (hl : Link σ st.1)
    (hout : σ.V.contains v0.id = false) (h : surplusBody ops env cheap st v0 = .ok st') :
    projS σ st' = projS σ st := by
  rcases surplusBody_cases ops env cheap st st' v0 h with ⟨hv, rfl⟩ | ⟨v, hv, hc⟩
  · rfl
  · rcases hc with ⟨hcs, rfl⟩ | ⟨csId, cs, gc, r, hcs, hst, hgc, hloc, rfl⟩
    · rfl
    · obtain ⟨hvm, hvid⟩ := vehicle?_some _ _ _ hv
      obtain ⟨hsm, hsid⟩ := station?_some' _ _ _ hst
      obtain ⟨hgm, hgid⟩ := gc?_some' _ _ _ hgc
      have hS : σ.S.contains csId = false := by
        have := hl.ve v hvm
        rw [hvid, hout, hcs] at this
        exact this.symm
      have hpar : (cs.parent == σ.g) = false := by
        have := hl.st cs hsm
        rw [hsid, hS] at this
        exact this.symm
      cases r with
      | none => rfl
      | some t =>
        obtain ⟨bat', d, cur'⟩ := t
        unfold surplusWrite projS
        simp only [Prod.mk.injEq]
        refine ⟨?_, ?_⟩
        · rw [part_setStation_out σ _ _ (by simpa [hsid] using hS),
            part_setGc_out σ _ _ (by rw [addLoad_id, hgid]; exact hpar),
            part_setVehicle_out σ _ _ (by simpa [hvid] using hout)]
        · exact sdSet_filter_out (fun k => σ.S.contains k) st.2 csId _ hS

/-- body of the loop of `update_batteries` -/
def batBody (ops : BatOps α B) (env : StratEnv α) (cheap : List (String × Bool))
    (w : SWorld α B) (b0 : StatBatS α B) : Py (SWorld α B) :=
  match w.batteries.find? (·.id == b0.id) with
  | none => .ok w
  | some b => updateBattery ops env cheap w b

theorem batBody_cases (ops : BatOps α B) (env : StratEnv α) (cheap : List (String × Bool))
    (w w' : SWorld α B) (b0 : StatBatS α B) (h : batBody ops env cheap w b0 = .ok w') :
    (w.batteries.find? (·.id == b0.id) = none ∧ w' = w) ∨
    ∃ b, w.batteries.find? (·.id == b0.id) = some b ∧
      ((w.gc? b.parent = none ∧ w' = w) ∨
       ∃ gc isCheap r, w.gc? b.parent = some gc ∧ sdGet cheap b.parent = some isCheap ∧
         batLocal ops isCheap b gc = .ok r ∧
         w' = (w.setBattery { b with bat := r.1 }).setGc (gc.addLoad b.id r.2).1) := by
  unfold batBody at h
  cases hb : w.batteries.find? (·.id == b0.id) with
  | none =>
    left
    simp only [hb, Except.ok.injEq] at h
    exact ⟨rfl, h.symm⟩
  | some b =>
    right
    refine ⟨b, rfl, ?_⟩
    simp only [hb, updateBattery_eq] at h
    cases hgc : w.gc? b.parent with
    | none =>
      left
      simp only [hgc, Except.ok.injEq] at h
      exact ⟨rfl, h.symm⟩
    | some gc =>
      right
      simp only [hgc] at h
      cases hch : sdGet cheap b.parent with
      | none => simp [hch] at h
      | some isCheap =>
        simp only [hch] at h
        cases hloc : batLocal ops isCheap b gc with
        | error e => simp [hloc] at h
        | ok r =>
          simp only [hloc, Except.ok.injEq] at h
          exact ⟨gc, isCheap, r, rfl, rfl, hloc, h.symm⟩

theorem batBody_link (ops : BatOps α B) (env : StratEnv α) (cheap : List (String × Bool))
    (w w' : SWorld α B) (b0 : StatBatS α B) (hl : Link σ w)
    (h : batBody ops env cheap w b0 = .ok w') : Link σ w' := by
  rcases batBody_cases ops env cheap w w' b0 h with ⟨_, he⟩ | ⟨b, hb, hc⟩
  · rw [he]; exact hl
  · rcases hc with ⟨_, he⟩ | ⟨gc, isCheap, r, hgc, hch, hloc, he⟩
    · rw [he]; exact hl
    · rw [he]
      apply link_setGc
      apply link_setBattery _ _ _ hl
      exact hl.ba b (List.mem_of_find?_eq_some hb)

theorem batBody_in (ops : BatOps α B) (env : StratEnv α) (cheap : List (String × Bool))
    (w w' : SWorld α B) (b0 : StatBatS α B) (hl : Link σ w)
    (hin : σ.Bs.contains b0.id = true) (h : batBody ops env cheap w b0 = .ok w') :
    batBody ops env (cheap.filter (fun kv => kv.1 == σ.g)) (part σ w) b0 = .ok (part σ w') := by
  rcases batBody_cases ops env cheap w w' b0 h with ⟨hb, he⟩ | ⟨b, hb, hc⟩
  · rw [he]
    unfold batBody
    have : (part σ w).batteries.find? (·.id == b0.id) = none := by
      unfold part
      exact find?_filter_none _ _ _ hb
    simp only [this]
  · have hbid : b.id = b0.id := by simpa using List.find?_some hb
    have hbm : b ∈ w.batteries := List.mem_of_find?_eq_some hb
    have hb' : (part σ w).batteries.find? (·.id == b0.id) = some b := by
      unfold part
      exact find?_filter_of_found _ _ _ _ hb (by rw [hbid]; exact hin)
    have hpar : (b.parent == σ.g) = true := by
      have := hl.ba b hbm
      rw [hbid, hin] at this
      exact this.symm
    have hparg : b.parent = σ.g := by simpa using hpar
    have hgceq : (part σ w).gc? b.parent = w.gc? b.parent := by rw [hparg, part_gc?]
    rcases hc with ⟨hgc, he⟩ | ⟨gc, isCheap, r, hgc, hch, hloc, he⟩
    · rw [he]
      unfold batBody
      simp only [hb', updateBattery_eq, hgceq, hgc]
    · rw [he]
      have hch' : sdGet (cheap.filter (fun kv => kv.1 == σ.g)) b.parent = some isCheap := by
        rw [sdGet_filter (fun k => k == σ.g) cheap b.parent hpar]; exact hch
      unfold batBody
      simp only [hb', updateBattery_eq, hgceq, hgc, hch', hloc]
      rw [part_setGc, part_setBattery]

theorem batBody_out (ops : BatOps α B) (env : StratEnv α) (cheap : List (String × Bool))
    (w w' : SWorld α B) (b0 : StatBatS α B) (hl : Link σ w)
    (hout : σ.Bs.contains b0.id = false) (h : batBody ops env cheap w b0 = .ok w') :
    part σ w' = part σ w := by
  rcases batBody_cases ops env cheap w w' b0 h with ⟨hb, he⟩ | ⟨b, hb, hc⟩
  · rw [he]
  · have hbid : b.id = b0.id := by simpa using List.find?_some hb
    have hbm : b ∈ w.batteries := List.mem_of_find?_eq_some hb
    have hpar : (b.parent == σ.g) = false := by
      have := hl.ba b hbm
      rw [hbid, hout] at this
      exact this.symm
    rcases hc with ⟨hgc, he⟩ | ⟨gc, isCheap, r, hgc, hch, hloc, he⟩
    · rw [he]
    · rw [he]
      obtain ⟨_, hgid⟩ := gc?_some' _ _ _ hgc
      rw [part_setGc_out σ _ _ (by rw [addLoad_id, hgid]; exact hpar),
        part_setBattery_out σ _ _ (by simpa [hbid] using hout)]

/-! ### the lists computed per connector -/

def cheapEntry (env : StratEnv α) (g : GcS α) : Py (String × Bool) := do
  let c ← gcCheap env g; pure (g.id, c)

theorem cheapEntry_fst (env : StratEnv α) (g : GcS α) (y : String × Bool) (h : cheapEntry env g = .ok y) :
    y.1 = g.id := by
  unfold cheapEntry at h
  cases hc : gcCheap env g with
  | error e => simp [hc, bind, Except.bind] at h
  | ok c =>
    simp only [hc, bind, Except.bind, pure, Except.pure, Except.ok.injEq] at h
    rw [← h]

theorem cheapList_part (env : StratEnv α) (w : SWorld α B) (cheap : List (String × Bool))
    (h : w.gcs.mapM (cheapEntry env) = .ok cheap) :
    (part σ w).gcs.mapM (cheapEntry env) = .ok (cheap.filter (fun kv => kv.1 == σ.g)) := by
  unfold part
  exact mapM_filter_sim (cheapEntry env) (cheapEntry env) (fun x => x.id == σ.g) (fun kv => kv.1 == σ.g)
    (fun x y hy => by simp only [cheapEntry_fst env x y hy]) (fun x y _ hy => hy) w.gcs cheap h

def availEntry (ops : BatOps α B) (bats : List (StatBatS α B)) (g : GcS α) : Py (String × α) := do
  let p ← bats.foldlM (fun (acc : α) b =>
    if b.parent == g.id then do let a ← ops.available b.bat; pure (acc + a) else pure acc) 0
  pure (g.id, p)

theorem availEntry_fst (ops : BatOps α B) (bats : List (StatBatS α B)) (g : GcS α) (y : String × α)
    (h : availEntry ops bats g = .ok y) : y.1 = g.id := by
  unfold availEntry at h
  simp only [bind, Except.bind, pure, Except.pure] at h
  split at h
  · cases h
  · simp only [Except.ok.injEq] at h
    rw [← h]

theorem availBatPower_part (ops : BatOps α B) (w : SWorld α B) (avail : List (String × α))
    (hl : Link σ w) (h : availBatPower ops w = .ok avail) :
    availBatPower ops (part σ w) = .ok (avail.filter (fun kv => kv.1 == σ.g)) := by
  have h' : w.gcs.mapM (availEntry ops w.batteries) = .ok avail := h
  show (part σ w).gcs.mapM (availEntry ops (part σ w).batteries) = _
  refine mapM_filter_sim (availEntry ops w.batteries) (availEntry ops (part σ w).batteries)
    (fun x => x.id == σ.g) (fun kv => kv.1 == σ.g)
    (fun x y hy => by simp only [availEntry_fst ops _ x y hy]) ?_ w.gcs avail h'
  intro x y hx hy
  have hxg : x.id = σ.g := by simpa using hx
  unfold availEntry at hy ⊢
  have : (part σ w).batteries.foldlM (fun (acc : α) b =>
      if b.parent == x.id then do let a ← ops.available b.bat; pure (acc + a) else pure acc) 0
      = w.batteries.foldlM (fun (acc : α) b =>
      if b.parent == x.id then do let a ← ops.available b.bat; pure (acc + a) else pure acc) 0 := by
    unfold part
    apply foldlM_filter_noop
    intro s b hbm hp
    have := hl.ba b hbm
    rw [hp, ← hxg] at this
    simp only [← this, Bool.false_eq_true, if_false]
    rfl
  rw [this]
  exact hy

theorem part_resetStations (w : SWorld α B) : part σ (resetStations w) = resetStations (part σ w) := by
  unfold part resetStations
  simp only [SWorld.mk.injEq, and_true, true_and]
  exact filter_map_comm (fun s : StationS α => σ.S.contains s.id)
    (fun s => { s with currentPower := 0 }) (fun x => rfl) _

theorem link_resetStations (w : SWorld α B) (hl : Link σ w) : Link σ (resetStations w) := by
  refine ⟨?_, hl.ve, hl.ba⟩
  intro s hs
  unfold resetStations at hs
  simp only [List.mem_map] at hs
  obtain ⟨x, hx, rfl⟩ := hs
  exact hl.st x hx

/-! ### the three passes and the whole step -/

theorem distributeSurplus_unfold (ops : BatOps α B) (env : StratEnv α) (w : SWorld α B) :
    distributeSurplus ops env w =
      (w.gcs.mapM (cheapEntry env)) >>= fun cheap => w.vehicles.foldlM (surplusBody ops env cheap) (w, []) :=
  rfl

theorem updateBatteries_unfold (ops : BatOps α B) (env : StratEnv α) (w : SWorld α B) :
    updateBatteries ops env w =
      (w.gcs.mapM (cheapEntry env)) >>= fun cheap => w.batteries.foldlM (batBody ops env cheap) w :=
  rfl

theorem distributeSurplus_part (ops : BatOps α B) (env : StratEnv α) (w w' : SWorld α B)
    (cmds : List (String × α)) (hl : Link σ w) (h : distributeSurplus ops env w = .ok (w', cmds)) :
    distributeSurplus ops env (part σ w) = .ok (part σ w', cmds.filter (fun kv => σ.S.contains kv.1))
      ∧ Link σ w' := by
  rw [distributeSurplus_unfold] at h ⊢
  cases hc : w.gcs.mapM (cheapEntry env) with
  | error e => simp [hc, bind, Except.bind] at h
  | ok cheap =>
    simp only [hc, bind, Except.bind] at h
    rw [cheapList_part σ env w cheap hc]
    simp only [bind, Except.bind]
    have := foldlM_sim (surplusBody ops env cheap)
      (surplusBody ops env (cheap.filter (fun kv => kv.1 == σ.g))) (projS σ)
      (fun v : VehicleS α B => σ.V.contains v.id) (fun s => Link σ s.1)
      (fun s x s' hi hs => surplusBody_link σ ops env cheap s s' x hi hs)
      (fun s x s' hi hp hs => surplusBody_in σ ops env cheap s s' x hi hp hs)
      (fun s x s' hi hp hs => surplusBody_out σ ops env cheap s s' x hi hp hs)
      w.vehicles (w, []) (w', cmds) hl h
    exact this

theorem updateBatteries_part (ops : BatOps α B) (env : StratEnv α) (w w' : SWorld α B)
    (hl : Link σ w) (h : updateBatteries ops env w = .ok w') :
    updateBatteries ops env (part σ w) = .ok (part σ w') ∧ Link σ w' := by
  rw [updateBatteries_unfold] at h ⊢
  cases hc : w.gcs.mapM (cheapEntry env) with
  | error e => simp [hc, bind, Except.bind] at h
  | ok cheap =>
    simp only [hc, bind, Except.bind] at h
    rw [cheapList_part σ env w cheap hc]
    simp only [bind, Except.bind]
    exact foldlM_sim (batBody ops env cheap)
      (batBody ops env (cheap.filter (fun kv => kv.1 == σ.g))) (part σ)
      (fun b : StatBatS α B => σ.Bs.contains b.id) (fun s => Link σ s)
      (fun s x s' hi hs => batBody_link σ ops env cheap s s' x hi hs)
      (fun s x s' hi hp hs => batBody_in σ ops env cheap s s' x hi hp hs)
      (fun s x s' hi hp hs => batBody_out σ ops env cheap s s' x hi hp hs)
      w.batteries w w' hl h

/-- **Connector isolation of the greedy/balanced step.** If the step succeeds on a world, it succeeds
on the part of the world that belongs to connector `g` (its stations, the vehicles connected to them,
its stationary batteries) and yields exactly the part of the result and the commands of `g`'s
stations. -/
theorem ruleStep_part (rule : Rule) (ops : BatOps α B) (env : StratEnv α) (w w' : SWorld α B)
    (cmds : List (String × α)) (hl : Link σ w) (h : ruleStep rule ops env w = .ok (w', cmds)) :
    ruleStep rule ops env (part σ w)
      = .ok (part σ w', cmds.filter (fun kv => σ.S.contains kv.1)) := by
  unfold ruleStep at h ⊢
  cases ha : availBatPower ops w with
  | error e => simp [ha, bind, Except.bind] at h
  | ok avail =>
    simp only [ha, bind, Except.bind] at h
    rw [availBatPower_part σ ops w avail hl ha]
    simp only [bind, Except.bind]
    cases hf : (sortedVehicleIds (resetStations w)).foldlM (allocVehicle rule ops env)
        (resetStations w, [], avail) with
    | error e => simp [hf] at h
    | ok st1 =>
      obtain ⟨w1, c1, a1⟩ := st1
      simp only [hf] at h
      obtain ⟨hf', hl1⟩ := allocFold_part σ rule ops env _ _ _ (link_resetStations σ w hl) hf
      rw [← part_resetStations, sortedVehicleIds_part]
      have hproj : projA σ (resetStations w, ([] : List (String × α)), avail)
          = (part σ (resetStations w), [], avail.filter (fun kv => kv.1 == σ.g)) := rfl
      rw [hproj] at hf'
      rw [hf']
      simp only [projA]
      cases hd : distributeSurplus ops env w1 with
      | error e => simp [hd] at h
      | ok r2 =>
        obtain ⟨w2, c2⟩ := r2
        simp only [hd] at h
        obtain ⟨hd', hl2⟩ := distributeSurplus_part σ ops env w1 w2 c2 hl1 hd
        rw [hd']
        simp only
        cases hu : updateBatteries ops env w2 with
        | error e => simp [hu] at h
        | ok w3 =>
          simp only [hu, Except.ok.injEq, Prod.mk.injEq] at h
          obtain ⟨rfl, rfl⟩ := h
          obtain ⟨hu', _⟩ := updateBatteries_part σ ops env w2 w3 hl2 hu
          rw [hu']
          simp only [Except.ok.injEq, Prod.mk.injEq, true_and]
          exact (sdUpdate_filter (fun k => σ.S.contains k) c1 c2).symm

/-! ### selecting a connector of a well-formed world; adding an unrelated world -/

/-- the ids of connector `g`'s stations, of the vehicles connected to them, and of its batteries -/
def selOf (w : SWorld α B) (g : String) : Sel :=
  let S := (w.stations.filter (fun s => s.parent == g)).map (·.id)
  { g := g, S := S,
    V := (w.vehicles.filter (fun v => match v.cs with | some c => S.contains c | none => false)).map (·.id),
    Bs := (w.batteries.filter (fun b => b.parent == g)).map (·.id) }

/-- ids are unique (they are dict keys in the implementation) -/
structure UniqueIds (w : SWorld α B) : Prop where
  stations : (w.stations.map (·.id)).Nodup
  vehicles : (w.vehicles.map (·.id)).Nodup
  batteries : (w.batteries.map (·.id)).Nodup

theorem contains_map_filter {β : Type} (l : List β) (f : β → String) (p : β → Bool)
    (hn : (l.map f).Nodup) (x : β) (hx : x ∈ l) :
    ((l.filter p).map f).contains (f x) = p x := by
  cases hp : p x with
  | true =>
    simp only [List.contains_eq_mem, List.mem_map, List.mem_filter, decide_eq_true_eq]
    exact ⟨x, ⟨hx, hp⟩, rfl⟩
  | false =>
    simp only [List.contains_eq_mem, List.mem_map, List.mem_filter, decide_eq_false_iff_not, not_exists,
      not_and]
    intro y hy hf
    have := List.inj_on_of_nodup_map hn hy.1 hx hf
    rw [this, hp] at hy
    exact Bool.false_ne_true hy.2

theorem link_selOf (w : SWorld α B) (g : String) (hu : UniqueIds w) : Link (selOf w g) w := by
  refine ⟨?_, ?_, ?_⟩
  · intro s hs
    exact contains_map_filter w.stations (·.id) (fun s => s.parent == g) hu.stations s hs
  · intro v hv
    exact contains_map_filter w.vehicles (·.id) _ hu.vehicles v hv
  · intro b hb
    exact contains_map_filter w.batteries (·.id) (fun b => b.parent == g) hu.batteries b hb

/-- both worlds side by side (`w`'s entries first, as when a connector is appended to a scenario) -/
def union (w x : SWorld α B) : SWorld α B :=
  { gcs := w.gcs ++ x.gcs, stations := w.stations ++ x.stations,
    vehicles := w.vehicles ++ x.vehicles, batteries := w.batteries ++ x.batteries }

/-- `x` is unrelated to `w`: its ids are new, its stations and batteries hang on its own connectors,
its vehicles are connected to its own stations (or to none) -/
structure Unrelated (w x : SWorld α B) : Prop where
  gcs : ∀ g ∈ x.gcs, ∀ g' ∈ w.gcs, g.id ≠ g'.id
  stationIds : ∀ s ∈ x.stations, ∀ s' ∈ w.stations, s.id ≠ s'.id
  stationParents : ∀ s ∈ x.stations, ∀ g' ∈ w.gcs, s.parent ≠ g'.id
  vehicleIds : ∀ v ∈ x.vehicles, ∀ v' ∈ w.vehicles, v.id ≠ v'.id
  vehicleCs : ∀ v ∈ x.vehicles, ∀ c, v.cs = some c → ∀ s' ∈ w.stations, c ≠ s'.id
  batteryIds : ∀ b ∈ x.batteries, ∀ b' ∈ w.batteries, b.id ≠ b'.id
  batteryParents : ∀ b ∈ x.batteries, ∀ g' ∈ w.gcs, b.parent ≠ g'.id

theorem selOf_S_mem (w : SWorld α B) (g c : String) (h : (selOf w g).S.contains c = true) :
    ∃ s ∈ w.stations, s.id = c := by
  unfold selOf at h
  simp only [List.contains_eq_mem, List.mem_map, List.mem_filter, decide_eq_true_eq] at h
  obtain ⟨s, ⟨hs, _⟩, rfl⟩ := h
  exact ⟨s, hs, rfl⟩

theorem selOf_V_mem (w : SWorld α B) (g c : String) (h : (selOf w g).V.contains c = true) :
    ∃ v ∈ w.vehicles, v.id = c := by
  unfold selOf at h
  simp only [List.contains_eq_mem, List.mem_map, List.mem_filter, decide_eq_true_eq] at h
  obtain ⟨v, ⟨hv, _⟩, rfl⟩ := h
  exact ⟨v, hv, rfl⟩

theorem selOf_Bs_mem (w : SWorld α B) (g c : String) (h : (selOf w g).Bs.contains c = true) :
    ∃ b ∈ w.batteries, b.id = c := by
  unfold selOf at h
  simp only [List.contains_eq_mem, List.mem_map, List.mem_filter, decide_eq_true_eq] at h
  obtain ⟨b, ⟨hb, _⟩, rfl⟩ := h
  exact ⟨b, hb, rfl⟩

theorem bool_eq_false_of_not {b : Bool} (h : b = true → False) : b = false := by
  cases b with
  | false => rfl
  | true => exact (h rfl).elim

/-- the selection of a connector of `w` selects nothing of an unrelated `x` -/
theorem link_union (w x : SWorld α B) (g : GcS α) (hg : g ∈ w.gcs) (hu : UniqueIds w)
    (hx : Unrelated w x) : Link (selOf w g.id) (union w x) := by
  have hl := link_selOf w g.id hu
  refine ⟨?_, ?_, ?_⟩
  · intro s hs
    rcases List.mem_append.mp hs with h | h
    · exact hl.st s h
    · have h1 : (selOf w g.id).S.contains s.id = false := bool_eq_false_of_not (fun hc => by
        obtain ⟨s', hs', he⟩ := selOf_S_mem w g.id s.id hc
        exact hx.stationIds s h s' hs' he.symm)
      have h2 : (s.parent == (selOf w g.id).g) = false := by
        simp only [beq_eq_false_iff_ne, ne_eq]
        exact hx.stationParents s h g hg
      rw [h1, h2]
  · intro v hv
    rcases List.mem_append.mp hv with h | h
    · exact hl.ve v h
    · have h1 : (selOf w g.id).V.contains v.id = false := bool_eq_false_of_not (fun hc => by
        obtain ⟨v', hv', he⟩ := selOf_V_mem w g.id v.id hc
        exact hx.vehicleIds v h v' hv' he.symm)
      rw [h1]
      cases hcs : v.cs with
      | none => rfl
      | some c =>
        simp only
        exact (bool_eq_false_of_not (fun hc => by
          obtain ⟨s', hs', he⟩ := selOf_S_mem w g.id c hc
          exact hx.vehicleCs v h c hcs s' hs' he.symm)).symm
  · intro b hb
    rcases List.mem_append.mp hb with h | h
    · exact hl.ba b h
    · have h1 : (selOf w g.id).Bs.contains b.id = false := bool_eq_false_of_not (fun hc => by
        obtain ⟨b', hb', he⟩ := selOf_Bs_mem w g.id b.id hc
        exact hx.batteryIds b h b' hb' he.symm)
      have h2 : (b.parent == (selOf w g.id).g) = false := by
        simp only [beq_eq_false_iff_ne, ne_eq]
        exact hx.batteryParents b h g hg
      rw [h1, h2]

theorem filter_append_none {β : Type} (p : β → Bool) (l m : List β) (h : ∀ y ∈ m, p y = false) :
    (l ++ m).filter p = l.filter p := by
  rw [List.filter_append]
  have : m.filter p = [] := by
    rw [List.filter_eq_nil_iff]
    intro y hy; rw [h y hy]; exact Bool.false_ne_true
  rw [this, List.append_nil]

theorem part_union (w x : SWorld α B) (g : GcS α) (hg : g ∈ w.gcs) (hx : Unrelated w x) :
    part (selOf w g.id) (union w x) = part (selOf w g.id) w := by
  unfold part union
  simp only [SWorld.mk.injEq]
  refine ⟨?_, ?_, ?_, ?_⟩
  · apply filter_append_none
    intro y hy
    simp only [beq_eq_false_iff_ne, ne_eq]
    exact hx.gcs y hy g hg
  · apply filter_append_none
    intro s hs
    exact bool_eq_false_of_not (fun hc => by
      obtain ⟨s', hs', he⟩ := selOf_S_mem w g.id s.id hc
      exact hx.stationIds s hs s' hs' he.symm)
  · apply filter_append_none
    intro v hv
    exact bool_eq_false_of_not (fun hc => by
      obtain ⟨v', hv', he⟩ := selOf_V_mem w g.id v.id hc
      exact hx.vehicleIds v hv v' hv' he.symm)
  · apply filter_append_none
    intro b hb
    exact bool_eq_false_of_not (fun hc => by
      obtain ⟨b', hb', he⟩ := selOf_Bs_mem w g.id b.id hc
      exact hx.batteryIds b hb b' hb' he.symm)

end World

end Frame
end SpiceEv
