/-
Helper lemmas for C02: the closed forms used by `_adjust_soc` solve the section's ODE,
compose (semigroup), reach the boundary exactly at the computed time, and are monotone in time.
-/
import SpiceEv.Proofs.BatteryLoad
import Mathlib.Analysis.SpecialFunctions.ExpDeriv

set_option linter.unusedSectionVars false
set_option linter.unusedSimpArgs false
set_option linter.unusedVariables false
namespace SpiceEv

/-- closed form of the exponential section, exactly the expression of `newSocOf` -/
noncomputable def expSol (c m n s t : ℝ) : ℝ := -n / m + (n / m + s) * Real.exp (m / c * t)
/-- closed form of the constant-power section -/
noncomputable def linSol (c n s t : ℝ) : ℝ := s + n / c * t

theorem expSol_zero (c m n s : ℝ) (hm : m ≠ 0) : expSol c m n s 0 = s := by
  unfold expSol; rw [mul_zero, Real.exp_zero]; field_simp; ring

theorem linSol_zero (c n s : ℝ) : linSol c n s 0 = s := by unfold linSol; ring

theorem expSol_hasDerivAt (c m n s t : ℝ) (hm : m ≠ 0) (hc : c ≠ 0) :
    HasDerivAt (fun t => expSol c m n s t) ((m * expSol c m n s t + n) / c) t := by
  have h1 : HasDerivAt (fun t : ℝ => m / c * t) (m / c) t := by
    simpa using (hasDerivAt_id t).const_mul (m / c)
  have h2 := (h1.exp).const_mul (n / m + s)
  have h3 := h2.const_add (-n / m)
  have e : (n / m + s) * (Real.exp (m / c * t) * (m / c)) = (m * expSol c m n s t + n) / c := by
    unfold expSol; field_simp; ring
  rw [e] at h3
  exact h3

theorem linSol_hasDerivAt (c n s t : ℝ) : HasDerivAt (fun t => linSol c n s t) (n / c) t := by
  have h1 : HasDerivAt (fun t : ℝ => n / c * t) (n / c) t := by
    simpa using (hasDerivAt_id t).const_mul (n / c)
  exact h1.const_add s

/-- semigroup of the exponential flow on one section (`exp_add`) -/
theorem expSol_add (c m n s t1 t2 : ℝ) (hm : m ≠ 0) :
    expSol c m n (expSol c m n s t1) t2 = expSol c m n s (t1 + t2) := by
  unfold expSol
  rw [mul_add, Real.exp_add]
  field_simp; ring

theorem linSol_add (c n s t1 t2 : ℝ) : linSol c n (linSol c n s t1) t2 = linSol c n s (t1 + t2) := by
  unfold linSol; ring

/-- the line through `(x1, y1)` and `(x2, y2)` (slope `m`, intercept `n` as computed by the code) is
the curve's own affine piece when both points lie on one section `a — b` of the curve -/
theorem section_line (a b : ℝ × ℝ) (hab : a.1 < b.1) (x1 x2 x : ℝ) (hx : x1 ≠ x2) :
    let y1 := lerp a b x1
    let y2 := lerp a b x2
    let m := (y2 - y1) / (x2 - x1)
    let n := y1 - m * x1
    m * x + n = lerp a b x := by
  intro y1 y2 m n
  have h1 : x2 - x1 ≠ 0 := sub_ne_zero.mpr (Ne.symm hx)
  have h2 : b.1 - a.1 ≠ 0 := sub_ne_zero.mpr (ne_of_gt hab)
  simp only [m, n, y1, y2, lerp]
  field_simp
  ring

/-! ### one section as a function of the remaining time -/

/-- time actually spent in a section: all of `rem`, or the time `τ0` to the boundary if shorter -/
noncomputable def clip (τ0 : Option ℝ) (rem : ℝ) : ℝ :=
  match τ0 with
  | none => rem
  | some t => min t rem

theorem clip_mono (τ0 : Option ℝ) {a b : ℝ} (h : a ≤ b) : clip τ0 a ≤ clip τ0 b := by
  cases τ0 with
  | none => exact h
  | some t => exact min_le_min (le_refl _) h

theorem clip_le (τ0 : Option ℝ) (a : ℝ) : clip τ0 a ≤ a := by
  cases τ0 with
  | none => exact le_refl _
  | some t => exact min_le_right _ _

theorem expGain_mono {c y1 μ : ℝ} (hc : 0 < c) (hy1 : 0 < y1) (hμ : μ ≠ 0) {a b : ℝ} (h : a ≤ b) :
    (y1 / μ) * (Real.exp (μ * a / c) - 1) ≤ (y1 / μ) * (Real.exp (μ * b / c) - 1) := by
  rcases lt_or_gt_of_ne hμ with hn | hp
  · have h1 : μ * b / c ≤ μ * a / c :=
      div_le_div_of_nonneg_right (mul_le_mul_of_nonpos_left h hn.le) hc.le
    have h2 := Real.exp_le_exp.mpr h1
    have h3 : y1 / μ < 0 := div_neg_of_pos_of_neg hy1 hn
    nlinarith
  · have h1 : μ * a / c ≤ μ * b / c :=
      div_le_div_of_nonneg_right (mul_le_mul_of_nonneg_left h hp.le) hc.le
    have h2 := Real.exp_le_exp.mpr h1
    have h3 : 0 < y1 / μ := div_pos hy1 hp
    nlinarith

/-- **One section as a function of the remaining time.**  There are a time to the boundary `τ0`
(`none`: the boundary is never reached because the power is 0 there) and a monotone distance
function `G` such that for every remaining time `rem > 0` the step spends `clip τ0 rem` and moves
the SoC by `G (clip τ0 rem)` in the direction of travel; `G τ0` is the full distance. -/
theorem sectionStep_fun {c eps σ x1 x2 y1 y2 : ℝ} (hc : 0 < c) (heps : 0 < eps)
    (hσ : σ = 1 ∨ σ = -1) (hdx : eps ≤ σ * (x2 - x1)) (hy1 : eps ≤ y1) (hy2 : 0 ≤ y2)
    (hx1 : |x1| ≤ 1) :
    ∃ (τ0 : Option ℝ) (G : ℝ → ℝ),
      (∀ t0, τ0 = some t0 → 0 < t0 ∧ G t0 = σ * (x2 - x1)) ∧
      (∀ a b, a ≤ b → G a ≤ G b) ∧
      (∀ rem, 0 < rem → sectionStep c eps σ x1 x2 y1 y2 rem
        = .ok (σ * clip τ0 rem, x1 + σ * G (clip τ0 rem))) := by
  have hσ2 := sigma_sq hσ
  have hDpos : 0 < σ * (x2 - x1) := lt_of_lt_of_le heps hdx
  have hdx0 : x2 - x1 ≠ 0 := by
    intro h; rw [h, mul_zero] at hDpos; exact lt_irrefl _ hDpos
  have hy1pos : 0 < y1 := lt_of_lt_of_le heps hy1
  have hc0 : c ≠ 0 := ne_of_gt hc
  obtain ⟨m, hm⟩ : ∃ m, m = (y2 - y1) / (x2 - x1) := ⟨_, rfl⟩
  obtain ⟨n, hn⟩ : ∃ n, n = y1 - m * x1 := ⟨_, rfl⟩
  obtain ⟨D, hD⟩ : ∃ D, D = σ * (x2 - x1) := ⟨_, rfl⟩
  have hdxD : x2 - x1 = σ * D := by rw [hD, ← mul_assoc, hσ2, one_mul]
  have hmdx : m * (x2 - x1) = y2 - y1 := by rw [hm, div_mul_cancel₀ _ hdx0]
  have hstep : ∀ rem, sectionStep c eps σ x1 x2 y1 y2 rem = (do
      let t0 ← timeToBreak eps c x1 x2 m n σ rem
      let t := signum t0 * pymin (BatNum.abs t0) rem
      let newSoc ← newSocOf eps c x1 m n t
      (.ok (t, newSoc) : Py (ℝ × ℝ))) := by
    intro rem
    unfold sectionStep
    simp only [fdiv_ok _ hdx0, bind, Except.bind, ← hm, ← hn]
  rw [← hD]
  rw [← hD] at hdx hDpos
  by_cases hlin : |m| < eps
  · have hmx : |m * x1| < eps := by
      rw [abs_mul]
      calc |m| * |x1| ≤ |m| * 1 := mul_le_mul_of_nonneg_left hx1 (abs_nonneg _)
        _ < eps := by rw [mul_one]; exact hlin
    have hnpos : 0 < n := by
      have := (abs_lt.mp hmx).2; rw [hn]; linarith
    have hτ0 : 0 < D * c / n := div_pos (mul_pos hDpos hc) hnpos
    have ht0 : (x2 - x1) * c / n = σ * (D * c / n) := by rw [hdxD]; ring
    refine ⟨some (D * c / n), fun τ => n / c * τ, ?_, ?_, ?_⟩
    · intro t0 h
      cases h
      exact ⟨hτ0, by field_simp⟩
    · intro a b hab
      exact mul_le_mul_of_nonneg_left hab (div_pos hnpos hc).le
    · intro rem hrem
      rw [hstep, timeToBreak_lin hlin (ne_of_gt hnpos)]
      simp only [bind, Except.bind]
      rw [ht0, tClip_eq hσ hτ0, newSocOf_lin hlin hc0]
      simp only [clip, Except.ok.injEq, Prod.mk.injEq, true_and]; ring
  · have hmabs : eps ≤ |m| := not_lt.mp hlin
    have hm0 : m ≠ 0 := by
      intro h; rw [h, abs_zero] at hmabs; linarith
    obtain ⟨μ, hμ⟩ : ∃ μ, μ = σ * m := ⟨_, rfl⟩
    have hμ0 : μ ≠ 0 := by
      rw [hμ]; rcases hσ with rfl | rfl <;> simpa using hm0
    have hmμ : m = σ * μ := by rw [hμ, ← mul_assoc, hσ2, one_mul]
    have hμD : y2 = y1 + μ * D := by
      have : μ * D = (σ * σ) * (m * (x2 - x1)) := by rw [hμ, hD]; ring
      rw [this, hσ2, hmdx]; ring
    have hA : x1 + n / m = y1 / m := by rw [hn]; field_simp; ring
    have hA0 : x1 + n / m ≠ 0 := by rw [hA]; exact div_ne_zero (ne_of_gt hy1pos) hm0
    have hB : x2 + n / m = y2 / m := by
      have : x2 = x1 + (y2 - y1) / m := by rw [← hmdx]; field_simp; ring
      rw [this, hn]; field_simp; ring
    have hq : (x2 + n / m) / (x1 + n / m) = y2 / y1 := by
      rw [hA, hB]; field_simp
    have hnew : ∀ τ : ℝ, -n / m + (n / m + x1) * Real.exp (m / c * (σ * τ))
        = x1 + σ * ((y1 / μ) * (Real.exp (μ * τ / c) - 1)) := by
      intro τ
      have e1 : m / c * (σ * τ) = μ * τ / c := by rw [hμ]; ring
      have e2 : n / m + x1 = y1 / m := by rw [add_comm]; exact hA
      have e3 : -n / m = x1 - y1 / m := by rw [← hA]; ring
      have e4 : y1 / m = σ * (y1 / μ) := by rw [hmμ]; exact div_sigma_mul hσ _ _
      rw [e1, e2, e3, e4]; ring
    rcases eq_or_lt_of_le hy2 with h0 | h0
    · have hq0 : (x2 + n / m) / (x1 + n / m) ≤ 0 := by rw [hq, ← h0, zero_div]
      refine ⟨none, fun τ => (y1 / μ) * (Real.exp (μ * τ / c) - 1), ?_, ?_, ?_⟩
      · intro t0 h; cases h
      · intro a b hab; exact expGain_mono hc hy1pos hμ0 hab
      · intro rem hrem
        rw [hstep, timeToBreak_fallback hlin hm0 hA0 hq0]
        simp only [bind, Except.bind]
        rw [tClip_eq hσ hrem, min_self, newSocOf_exp hlin hm0 hc0, hnew rem]
        rfl
    · have hq1 : 0 < (x2 + n / m) / (x1 + n / m) := by rw [hq]; exact div_pos h0 hy1pos
      have hτpos := expTau_pos hc hy1pos h0 hμ0 hDpos hμD
      have ht0 : Real.log ((x2 + n / m) / (x1 + n / m)) * c / m
          = σ * (Real.log (y2 / y1) * c / μ) := by
        rw [hq, hmμ]; exact div_sigma_mul hσ _ _
      refine ⟨some (Real.log (y2 / y1) * c / μ),
        fun τ => (y1 / μ) * (Real.exp (μ * τ / c) - 1), ?_, ?_, ?_⟩
      · intro t0 h; cases h
        exact ⟨hτpos, expGain_at hc hy1pos h0 hμ0 hμD⟩
      · intro a b hab; exact expGain_mono hc hy1pos hμ0 hab
      · intro rem hrem
        rw [hstep, timeToBreak_log hlin hm0 hA0 hq1]
        simp only [bind, Except.bind]
        rw [ht0, tClip_eq hσ hτpos, newSocOf_exp hlin hm0 hc0, hnew]
        rfl

/-- a section on which the (clamped) power is the same constant `y` at both ends -/
theorem sectionStep_const {c eps σ x1 x2 y rem : ℝ} (hc : 0 < c) (heps : 0 < eps)
    (hσ : σ = 1 ∨ σ = -1) (hdx : eps ≤ σ * (x2 - x1)) (hy : eps ≤ y) (hrem : 0 < rem) :
    sectionStep c eps σ x1 x2 y y rem
      = .ok (σ * min (σ * (x2 - x1) * c / y) rem, x1 + σ * (y / c * min (σ * (x2 - x1) * c / y) rem)) := by
  have hσ2 := sigma_sq hσ
  have hDpos : 0 < σ * (x2 - x1) := lt_of_lt_of_le heps hdx
  have hdx0 : x2 - x1 ≠ 0 := by
    intro h; rw [h, mul_zero] at hDpos; exact lt_irrefl _ hDpos
  have hypos : 0 < y := lt_of_lt_of_le heps hy
  have hlin : |(0 : ℝ)| < eps := by rw [abs_zero]; exact heps
  have hτ0 : 0 < σ * (x2 - x1) * c / y := div_pos (mul_pos hDpos hc) hypos
  have ht0 : (x2 - x1) * c / y = σ * (σ * (x2 - x1) * c / y) := by
    have : σ * (σ * (x2 - x1) * c / y) = (σ * σ) * ((x2 - x1) * c / y) := by ring
    rw [this, hσ2, one_mul]
  unfold sectionStep
  simp only [sub_self, fdiv_ok _ hdx0, zero_div, zero_mul, sub_zero, bind, Except.bind]
  rw [timeToBreak_lin hlin (ne_of_gt hypos)]
  simp only
  rw [ht0, tClip_eq hσ hτ0, newSocOf_lin hlin (ne_of_gt hc)]
  simp only [Except.ok.injEq, Prod.mk.injEq, true_and]; ring

/-- EPS enters the arithmetic of a section only through the guard `abs(m) < EPS` -/
theorem sectionStep_eps_indep {c eps eps' σ x1 x2 y1 y2 rem : ℝ} (hx : x2 - x1 ≠ 0)
    (hg : |(y2 - y1) / (x2 - x1)| < eps ↔ |(y2 - y1) / (x2 - x1)| < eps') :
    sectionStep c eps σ x1 x2 y1 y2 rem = sectionStep c eps' σ x1 x2 y1 y2 rem := by
  unfold sectionStep
  simp only [fdiv_ok _ hx, bind, Except.bind]
  by_cases h : |(y2 - y1) / (x2 - x1)| < eps
  · have h' := hg.mp h
    simp only [timeToBreak, timeToBreakRaw, newSocOf, batAbs_real, h, h', if_true]
  · have h' : ¬ |(y2 - y1) / (x2 - x1)| < eps' := fun hc => h (hg.mpr hc)
    simp only [timeToBreak, timeToBreakRaw, newSocOf, batAbs_real, h, h', if_false]

/-! ### more time never transfers less (coupled runs of the outer loop) -/

theorem adjustLoop_stop (cv : Curve ℝ) (dis : Bool) (c eps target σ : ℝ) (fuel : Nat) (st : AdjState ℝ)
    (h : ¬ (eps < st.remaining ∧ eps < σ * (target - st.soc))) (hf : 1 ≤ fuel) :
    adjustLoop cv dis c eps target σ fuel st = .ok st := by
  cases fuel with
  | zero => omega
  | succ fuel => unfold adjustLoop; rw [if_neg h]

theorem clip_lt_eq (τ0 : Option ℝ) {a b : ℝ} (hab : a ≤ b) (h : clip τ0 a < clip τ0 b) : clip τ0 a = a := by
  cases τ0 with
  | none => rfl
  | some t =>
    simp only [clip] at h ⊢
    by_contra hne
    have hta : t ≤ a := by
      by_contra hcon
      exact hne (min_eq_right (le_of_lt (not_le.mp hcon)))
    rw [min_eq_left hta, min_eq_left (le_trans hta hab)] at h
    exact lt_irrefl _ h

theorem adjustLoop_charge_mono (cv : Curve ℝ) (c eps target Y : ℝ) (hcv : CurveOK cv Y) (hc : 0 < c)
    (heps : 0 < eps) (ht1 : target ≤ 1) :
    ∀ (fuel : Nat) (st1 st2 : AdjState ℝ) (k : Nat),
      InvC cv.points target st1 k → InvC cv.points target st2 k →
      st1.soc = st2.soc → st1.bidx = st2.bidx → st1.bsoc = st2.bsoc →
      st1.remaining ≤ st2.remaining →
      (st2.remaining ≤ eps ∨ measC cv.points eps st2 k + 2 ≤ fuel) → 1 ≤ fuel →
      ∃ f1 f2, adjustLoop cv false c eps target 1 fuel st1 = .ok f1 ∧
        adjustLoop cv false c eps target 1 fuel st2 = .ok f2 ∧ f1.soc ≤ f2.soc := by
  intro fuel
  induction fuel with
  | zero => intro st1 st2 k _ _ _ _ _ _ _ h; omega
  | succ fuel ih =>
    intro st1 st2 k hinv1 hinv2 hsoc hbidx hbsoc hrem hfuel _
    by_cases hc2 : eps < st2.remaining ∧ eps < 1 * (target - st2.soc)
    · by_cases hc1 : eps < st1.remaining
      · -- both runs pass through the body
        have hc1' : eps < st1.remaining ∧ eps < 1 * (target - st1.soc) := ⟨hc1, by rw [hsoc]; exact hc2.2⟩
        obtain ⟨hb1, hbd1, hsm1, hs1, hr01⟩ := hinv1
        obtain ⟨hb2, hbd2, hsm2, hs2, hr02⟩ := hinv2
        have htgt : eps < target - st2.soc := by have := hc2.2; rwa [one_mul] at this
        have hfuel' : measC cv.points eps st2 k + 2 ≤ fuel + 1 := by
          rcases hfuel with h | h
          · exact absurd hc2.1 (not_lt.mpr h)
          · exact h
        obtain ⟨k', bs, hadv, hkk', hb', hgap, hstrict⟩ :=
          advance_charge cv.points eps target st2.soc hcv.last ht1 htgt (cv.points.length + 2) k st2.bsoc
            hbd2 (by omega)
        obtain ⟨p', hp', hbs'⟩ := hb'
        have hbst : bs ≤ target := by rw [hbs']; exact min_le_left _ _
        have hgap' : eps ≤ 1 * (bs - st2.soc) := by rw [one_mul]; exact hgap
        have hadv2 := hadv
        rw [← hb2] at hadv2
        have hadv1 := hadv
        rw [← hb2, ← hsoc, ← hbidx, ← hbsoc] at hadv1
        obtain ⟨s2', cont2, hiter2, hbi2, hbsoc2, hd02, hd12, hr0_2, hr1_2, _, _, hcontT2, hcontF2, hz2, hzc2,
            hsec2⟩ :=
          adjustIter_core cv false c eps target 1 Y st2 (k' : Int) bs hcv hc heps (by simp) hadv2
            (le_trans hbst ht1) hs2 hsm2 hgap' (lt_trans heps hc2.1)
        obtain ⟨s1', cont1, hiter1, hbi1, hbsoc1, hd01, hd11, hr0_1, hr1_1, _, _, hcontT1, hcontF1, hz1, hzc1,
            hsec1⟩ :=
          adjustIter_core cv false c eps target 1 Y st1 (k' : Int) bs hcv hc heps (by simp) hadv1
            (le_trans hbst ht1) hs1 hsm1 (by rw [hsoc]; exact hgap') (lt_trans heps hc1)
        have hL1 : adjustLoop cv false c eps target 1 (fuel + 1) st1
            = (if cont1 then adjustLoop cv false c eps target 1 fuel s1' else .ok s1') := by
          conv_lhs => unfold adjustLoop
          rw [if_pos hc1']; simp only [hiter1, bind, Except.bind]
        have hL2 : adjustLoop cv false c eps target 1 (fuel + 1) st2
            = (if cont2 then adjustLoop cv false c eps target 1 fuel s2' else .ok s2') := by
          conv_lhs => unfold adjustLoop
          rw [if_pos hc2]; simp only [hiter2, bind, Except.bind]
        rw [hL1, hL2]
        by_cases hzero : interp cv.points st2.soc < eps
        · -- no power at the SoC: both break
          have e2 := hz2 hzero
          have e1 := hz1 (by rw [hsoc]; exact hzero)
          subst e1; subst e2
          simp only [Bool.false_eq_true, if_false]
          refine ⟨s1', s2', rfl, rfl, ?_⟩
          rw [(hcontF1 rfl).1, (hcontF2 rfl).1, hsoc]
        · have e2 : cont2 = true := by
            cases cont2 with
            | true => rfl
            | false => exact absurd (hzc2 rfl) hzero
          have e1 : cont1 = true := by
            cases cont1 with
            | true => rfl
            | false => exact absurd (hzc1 rfl) (by rw [hsoc]; exact hzero)
          subst e1; subst e2
          simp only [if_true]
          obtain ⟨τ1, g1, hst1, hs1', hr1', _⟩ := hsec1 rfl
          obtain ⟨τ2, g2, hst2, hs2', hr2', _⟩ := hsec2 rfl
          obtain ⟨τ0, G, hτ0, hG, hfun⟩ := sectionStep_fun (c := c) (eps := eps) (σ := 1) (x1 := st2.soc)
            (x2 := bs) (y1 := interp cv.points st2.soc) (y2 := interp cv.points bs) hc heps (Or.inl rfl) hgap'
            (not_lt.mp hzero) (interp_nonneg cv.points hcv.sorted hcv.nonneg bs) (abs_le.mpr ⟨hsm2, hs2⟩)
          have hf2 := hfun st2.remaining (lt_trans heps hc2.1)
          have hf1 := hfun st1.remaining (lt_trans heps hc1)
          rw [hst2] at hf2
          rw [← hsoc, hst1] at hf1
          simp only [one_mul, Except.ok.injEq, Prod.mk.injEq, add_right_inj] at hf1 hf2
          obtain ⟨hτ1e, hg1e⟩ := hf1
          obtain ⟨hτ2e, hg2e⟩ := hf2
          have hττ : τ1 ≤ τ2 := by rw [hτ1e, hτ2e]; exact clip_mono τ0 hrem
          have hgg : g1 ≤ g2 := by rw [hg1e, hg2e]; exact hG _ _ (clip_mono τ0 hrem)
          simp only [one_mul] at hs1' hs2' hd02 hd12 hd01 hd11
          have hklen : k' < cv.points.length := by
            by_contra hcon
            rw [List.getElem?_eq_none (by omega)] at hp'; cases hp'
          have hinv2' : InvC cv.points target s2' k' :=
            ⟨hbi2, ⟨p', hp', by rw [hbsoc2]; exact hbs'⟩, by linarith, by linarith, hr0_2⟩
          have hinv1' : InvC cv.points target s1' k' :=
            ⟨hbi1, ⟨p', hp', by rw [hbsoc1]; exact hbs'⟩, by linarith, by linarith, hr0_1⟩
          have hfuel2 : s2'.remaining ≤ eps ∨ measC cv.points eps s2' k' + 2 ≤ fuel := by
            rcases hcontT2 rfl with h | h
            · left; rw [h]; exact heps.le
            · right
              have hflag : s2'.bsoc - s2'.soc < eps := by rw [hbsoc2, h, sub_self]; exact heps
              unfold measC at hfuel' ⊢
              rw [if_pos hflag]
              by_cases hf : st2.bsoc - st2.soc < eps
              · have := hstrict hf
                rw [if_pos hf] at hfuel'; omega
              · rw [if_neg hf] at hfuel'; omega
          have hfuel1 : 1 ≤ fuel := by unfold measC at hfuel'; omega
          by_cases heq : τ1 = τ2
          · -- same time spent in this section: the runs stay coupled
            have hg : g1 = g2 := by rw [hg1e, hg2e, ← hτ1e, ← hτ2e, heq]
            exact ih s1' s2' k' hinv1' hinv2' (by rw [hs1', hs2', hsoc, hg]) (by rw [hbi1, hbi2])
              (by rw [hbsoc1, hbsoc2]) (by rw [hr1', hr2', heq]; linarith) hfuel2 hfuel1
          · -- the shorter run has used up its time
            have hlt : τ1 < τ2 := lt_of_le_of_ne hττ heq
            have hτ1r : τ1 = st1.remaining := by
              rw [hτ1e]; rw [hτ1e, hτ2e] at hlt; exact clip_lt_eq τ0 hrem hlt
            have hstop : adjustLoop cv false c eps target 1 fuel s1' = .ok s1' :=
              adjustLoop_stop cv false c eps target 1 fuel s1' (by
                rw [hr1', hτ1r, sub_self]; intro h; exact absurd h.1 (not_lt.mpr heps.le)) hfuel1
            obtain ⟨f2, hloop2, q1, _⟩ :=
              adjustLoop_charge cv c eps target Y hcv hc heps ht1 fuel s2' k' hinv2' hfuel2 hfuel1
            refine ⟨s1', f2, hstop, hloop2, ?_⟩
            rw [hs1']; rw [hs2'] at q1; rw [hsoc]; linarith
      · -- the shorter run does not enter the loop any more
        have h1 : adjustLoop cv false c eps target 1 (fuel + 1) st1 = .ok st1 :=
          adjustLoop_stop cv false c eps target 1 (fuel + 1) st1 (fun h => hc1 h.1) (by omega)
        obtain ⟨f2, hloop2, q1, _⟩ :=
          adjustLoop_charge cv c eps target Y hcv hc heps ht1 (fuel + 1) st2 k hinv2 hfuel (by omega)
        exact ⟨st1, f2, h1, hloop2, by rw [hsoc]; exact q1⟩
    · have h2 : adjustLoop cv false c eps target 1 (fuel + 1) st2 = .ok st2 :=
        adjustLoop_stop cv false c eps target 1 (fuel + 1) st2 hc2 (by omega)
      have h1 : adjustLoop cv false c eps target 1 (fuel + 1) st1 = .ok st1 :=
        adjustLoop_stop cv false c eps target 1 (fuel + 1) st1 (by
          intro h; apply hc2
          exact ⟨lt_of_lt_of_le h.1 hrem, by rw [← hsoc]; exact h.2⟩) (by omega)
      exact ⟨st1, st2, h1, h2, by rw [hsoc]⟩

theorem adjustSoc_charge_mono (b : Battery ℝ) (T1 T2 : ℝ) (cv : Curve ℝ) (target Y : ℝ)
    (hcv : CurveOK cv Y) (hlen : 2 ≤ cv.points.length) (hc : 0 < b.capacity) (heps : 0 < b.eps)
    (hT1 : 0 ≤ T1) (hT : T1 ≤ T2) (hst : b.soc ≤ target) (ht1 : target ≤ 1) (hsm1 : -1 ≤ b.soc) :
    ∃ s1 a1 s2 a2, b.adjustSoc T1 cv target = .ok ({ b with soc := s1 }, a1) ∧
      b.adjustSoc T2 cv target = .ok ({ b with soc := s2 }, a2) ∧ s1 ≤ s2 := by
  have hd : decide (target < b.soc) = false := by simp; exact hst
  obtain ⟨_, hi2⟩ := sectionBoundary_bounds cv b.soc hlen
  obtain ⟨p, hp⟩ : ∃ p, cv.points[(cv.sectionBoundary b.soc).2]? = some p :=
    ⟨_, List.getElem?_eq_getElem hi2⟩
  unfold Battery.adjustSoc
  simp only [hd, Bool.false_eq_true, if_false, pyIndex_nat _ _ _ hp, bind, Except.bind, pymin_eq]
  set k := (cv.sectionBoundary b.soc).2 with hk
  have hinv : ∀ T, 0 ≤ T → InvC cv.points target ⟨b.soc, T, (k : Int), min target p.1, []⟩ k :=
    fun T hT0 => ⟨rfl, ⟨p, hp, rfl⟩, hsm1, le_trans hst ht1, hT0⟩
  obtain ⟨f1, f2, h1, h2, hle⟩ :=
    adjustLoop_charge_mono cv b.capacity b.eps target Y hcv hc heps ht1 (adjustFuel cv)
      ⟨b.soc, T1, (k : Int), min target p.1, []⟩ ⟨b.soc, T2, (k : Int), min target p.1, []⟩ k
      (hinv T1 hT1) (hinv T2 (le_trans hT1 hT)) rfl rfl rfl hT
      (Or.inr (by unfold measC adjustFuel; split <;> omega)) (by unfold adjustFuel; omega)
  simp only [h1, h2]
  exact ⟨f1.soc, _, f2.soc, _, rfl, rfl, hle⟩

/-- `load` without a target power, written through `_adjust_soc` (the clamped curve and the target do
not depend on the duration) -/
theorem load_via_adjust (b : Battery ℝ) (hb : BatOK b) (mp ts : Option ℝ)
    (hmp : ∀ L, mp = some L → 0 ≤ L) :
    ∃ cv, CurveOK cv (b.efficiency * limitOf mp b.loadingCurve) ∧ 2 ≤ cv.points.length ∧
      ∀ T, b.load T mp ts none =
        if b.eps < b.soc - loadTarget b 0 ts none then .ok (b, 0, 0)
        else (match b.adjustSoc T cv (min 1 (loadTarget b 0 ts none)) with
          | .error e => .error e
          | .ok r => .ok (r.1, r.2 / b.efficiency, r.1.soc - b.soc)) := by
  have hη0 : b.efficiency ≠ 0 := ne_of_gt hb.eff0
  have hL : 0 ≤ limitOf mp b.loadingCurve := by
    cases mp with
    | none => exact hb.lcMax
    | some L => exact hmp L rfl
  obtain ⟨cv, hcl, hcv, hlen, _⟩ :=
    clamped_curveOK b.loadingCurve hb.lc (limitOf mp b.loadingCurve) b.efficiency hL hb.eff0
  have hcl' : b.loadingCurve.clamped (mp.getD b.loadingCurve.maxPower) 1 b.efficiency = .ok cv := hcl
  refine ⟨cv, hcv, hlen, ?_⟩
  intro T
  have htgt : b.loadRequest T ts none = .ok (loadTarget b 0 ts none) := by
    unfold Battery.loadRequest
    cases ts with
    | none => rfl
    | some t => simp [loadTarget, pyassert, bind, Except.bind]
  unfold Battery.load
  simp only [htgt, bind, Except.bind, hcl', pymin_eq]
  by_cases hearly : b.eps < b.soc - loadTarget b 0 ts none
  · rw [if_pos hearly, if_pos hearly]
  · rw [if_neg hearly, if_neg hearly]
    cases b.adjustSoc T cv (min 1 (loadTarget b 0 ts none)) with
    | error e => rfl
    | ok r => simp only [fdiv_ok _ hη0]

theorem load_mono_time (b : Battery ℝ) (hb : BatOK b) (T1 T2 : ℝ) (hT1 : 0 ≤ T1) (hT : T1 ≤ T2)
    (mp ts : Option ℝ) (hmp : ∀ L, mp = some L → 0 ≤ L) :
    ∃ s1 a1 d1 s2 a2 d2, b.load T1 mp ts none = .ok ({ b with soc := s1 }, a1, d1) ∧
      b.load T2 mp ts none = .ok ({ b with soc := s2 }, a2, d2) ∧ s1 ≤ s2 := by
  obtain ⟨cv, hcv, hlen, hload⟩ := load_via_adjust b hb mp ts hmp
  rw [hload T1, hload T2]
  set tgt := loadTarget b 0 ts none with htg
  by_cases hearly : b.eps < b.soc - tgt
  · simp only [if_pos hearly]
    exact ⟨b.soc, 0, 0, b.soc, 0, 0, by rw [battery_eta b], by rw [battery_eta b], le_refl _⟩
  · simp only [if_neg hearly]
    by_cases hdir : b.soc ≤ min 1 tgt
    · obtain ⟨s1, a1, s2, a2, h1, h2, hle⟩ :=
        adjustSoc_charge_mono b T1 T2 cv (min 1 tgt) _ hcv hlen hb.cap hb.eps hT1 hT hdir
          (min_le_left _ _) hb.socm1
      simp only [h1, h2]
      exact ⟨s1, _, _, s2, _, _, rfl, rfl, hle⟩
    · have hlt : min 1 tgt < b.soc := not_le.mp hdir
      have htl : min 1 tgt = tgt := by
        apply min_eq_right
        by_contra hcon
        rw [min_eq_left (le_of_lt (not_le.mp hcon))] at hlt
        exact absurd hb.soc1 (not_le.mpr hlt)
      have hno : ∀ T, ¬ (b.eps < T ∧ b.eps < (if min 1 tgt < b.soc then -1 else 1) * (min 1 tgt - b.soc)) := by
        intro T
        rw [if_pos hlt, htl]
        intro h
        have := h.2
        apply hearly; linarith
      obtain ⟨a1, h1, _⟩ := adjustSoc_noop b T1 cv (min 1 tgt) hlen (hno T1)
      obtain ⟨a2, h2, _⟩ := adjustSoc_noop b T2 cv (min 1 tgt) hlen (hno T2)
      simp only [h1, h2]
      exact ⟨b.soc, _, _, b.soc, _, _, rfl, rfl, le_refl _⟩

/-! ### the same for discharging -/

theorem adjustLoop_discharge_mono (cv : Curve ℝ) (c eps target Y : ℝ) (hcv : CurveOK cv Y) (hc : 0 < c)
    (heps : 0 < eps) (htm1 : -1 ≤ target) :
    ∀ (fuel : Nat) (st1 st2 : AdjState ℝ) (k : Option Nat),
      InvD cv.points target st1 k → InvD cv.points target st2 k →
      st1.soc = st2.soc → st1.bidx = st2.bidx → st1.bsoc = st2.bsoc →
      st1.remaining ≤ st2.remaining →
      (st2.remaining ≤ eps ∨ measD eps st2 k + 2 ≤ fuel) → 1 ≤ fuel →
      ∃ f1 f2, adjustLoop cv true c eps target (-1) fuel st1 = .ok f1 ∧
        adjustLoop cv true c eps target (-1) fuel st2 = .ok f2 ∧ f2.soc ≤ f1.soc := by
  intro fuel
  induction fuel with
  | zero => intro st1 st2 k _ _ _ _ _ _ _ h; omega
  | succ fuel ih =>
    intro st1 st2 k hinv1 hinv2 hsoc hbidx hbsoc hrem hfuel _
    by_cases hc2 : eps < st2.remaining ∧ eps < -1 * (target - st2.soc)
    · by_cases hc1 : eps < st1.remaining
      · have hc1' : eps < st1.remaining ∧ eps < -1 * (target - st1.soc) := ⟨hc1, by rw [hsoc]; exact hc2.2⟩
        obtain ⟨hb1, hbd1, hs1, hr01⟩ := hinv1
        obtain ⟨hb2, hbd2, hs2, hr02⟩ := hinv2
        have htgt := hc2.2
        have hfuel' : measD eps st2 k + 2 ≤ fuel + 1 := by
          rcases hfuel with h | h
          · exact absurd hc2.1 (not_lt.mpr h)
          · exact h
        have hdl := disDist_le_length hbd2
        obtain ⟨k', bs, hadv, hkk', hb', hgap, hstrict⟩ :=
          advance_discharge cv.points eps target st2.soc htgt (cv.points.length + 2) k st2.bsoc hbd2
            (by omega)
        have hbst : target ≤ bs := disBoundary_ge hb'
        have hsm2 : -1 ≤ st2.soc := by linarith
        have hsm1 : -1 ≤ st1.soc := by rw [hsoc]; exact hsm2
        have hadv2 := hadv
        rw [← hb2] at hadv2
        have hadv1 := hadv
        rw [← hb2, ← hsoc, ← hbidx, ← hbsoc] at hadv1
        obtain ⟨s2', cont2, hiter2, hbi2, hbsoc2, hd02, hd12, hr0_2, hr1_2, _, _, hcontT2, hcontF2, hz2, hzc2,
            hsec2⟩ :=
          adjustIter_core cv true c eps target (-1) Y st2 (disIdx k') bs hcv hc heps (by simp) hadv2
            (by linarith) hs2 hsm2 hgap (lt_trans heps hc2.1)
        obtain ⟨s1', cont1, hiter1, hbi1, hbsoc1, hd01, hd11, hr0_1, hr1_1, _, _, hcontT1, hcontF1, hz1, hzc1,
            hsec1⟩ :=
          adjustIter_core cv true c eps target (-1) Y st1 (disIdx k') bs hcv hc heps (by simp) hadv1
            (by linarith) hs1 hsm1 (by rw [hsoc]; exact hgap) (lt_trans heps hc1)
        have hL1 : adjustLoop cv true c eps target (-1) (fuel + 1) st1
            = (if cont1 then adjustLoop cv true c eps target (-1) fuel s1' else .ok s1') := by
          conv_lhs => unfold adjustLoop
          rw [if_pos hc1']; simp only [hiter1, bind, Except.bind]
        have hL2 : adjustLoop cv true c eps target (-1) (fuel + 1) st2
            = (if cont2 then adjustLoop cv true c eps target (-1) fuel s2' else .ok s2') := by
          conv_lhs => unfold adjustLoop
          rw [if_pos hc2]; simp only [hiter2, bind, Except.bind]
        rw [hL1, hL2]
        by_cases hzero : interp cv.points st2.soc < eps
        · have e2 := hz2 hzero
          have e1 := hz1 (by rw [hsoc]; exact hzero)
          subst e1; subst e2
          simp only [Bool.false_eq_true, if_false]
          refine ⟨s1', s2', rfl, rfl, ?_⟩
          rw [(hcontF1 rfl).1, (hcontF2 rfl).1, hsoc]
        · have e2 : cont2 = true := by
            cases cont2 with
            | true => rfl
            | false => exact absurd (hzc2 rfl) hzero
          have e1 : cont1 = true := by
            cases cont1 with
            | true => rfl
            | false => exact absurd (hzc1 rfl) (by rw [hsoc]; exact hzero)
          subst e1; subst e2
          simp only [if_true]
          obtain ⟨τ1, g1, hst1, hs1', hr1', _⟩ := hsec1 rfl
          obtain ⟨τ2, g2, hst2, hs2', hr2', _⟩ := hsec2 rfl
          obtain ⟨τ0, G, hτ0, hG, hfun⟩ := sectionStep_fun (c := c) (eps := eps) (σ := -1) (x1 := st2.soc)
            (x2 := bs) (y1 := interp cv.points st2.soc) (y2 := interp cv.points bs) hc heps (Or.inr rfl) hgap
            (not_lt.mp hzero) (interp_nonneg cv.points hcv.sorted hcv.nonneg bs) (abs_le.mpr ⟨hsm2, hs2⟩)
          have hf2 := hfun st2.remaining (lt_trans heps hc2.1)
          have hf1 := hfun st1.remaining (lt_trans heps hc1)
          rw [hst2] at hf2
          rw [← hsoc, hst1] at hf1
          have hτ1e : τ1 = clip τ0 st1.remaining := by
            have := (Prod.mk.inj (Except.ok.inj hf1)).1; linarith
          have hg1e : g1 = G (clip τ0 st1.remaining) := by
            have := (Prod.mk.inj (Except.ok.inj hf1)).2; linarith
          have hτ2e : τ2 = clip τ0 st2.remaining := by
            have := (Prod.mk.inj (Except.ok.inj hf2)).1; linarith
          have hg2e : g2 = G (clip τ0 st2.remaining) := by
            have := (Prod.mk.inj (Except.ok.inj hf2)).2; linarith
          have hττ : τ1 ≤ τ2 := by rw [hτ1e, hτ2e]; exact clip_mono τ0 hrem
          have hgg : g1 ≤ g2 := by rw [hg1e, hg2e]; exact hG _ _ (clip_mono τ0 hrem)
          have hinv2' : InvD cv.points target s2' k' :=
            ⟨hbi2, by rw [hbsoc2]; exact hb', by linarith, hr0_2⟩
          have hinv1' : InvD cv.points target s1' k' :=
            ⟨hbi1, by rw [hbsoc1]; exact hb', by linarith, hr0_1⟩
          have hfuel2 : s2'.remaining ≤ eps ∨ measD eps s2' k' + 2 ≤ fuel := by
            rcases hcontT2 rfl with h | h
            · left; rw [h]; exact heps.le
            · right
              have hflag : -1 * (s2'.bsoc - s2'.soc) < eps := by
                rw [hbsoc2, h, sub_self, mul_zero]; exact heps
              unfold measD at hfuel' ⊢
              rw [if_pos hflag]
              by_cases hf : -1 * (st2.bsoc - st2.soc) < eps
              · have := hstrict hf
                rw [if_pos hf] at hfuel'; omega
              · rw [if_neg hf] at hfuel'; omega
          have hfuel1 : 1 ≤ fuel := by unfold measD at hfuel'; omega
          by_cases heq : τ1 = τ2
          · have hg : g1 = g2 := by rw [hg1e, hg2e, ← hτ1e, ← hτ2e, heq]
            exact ih s1' s2' k' hinv1' hinv2' (by rw [hs1', hs2', hsoc, hg]) (by rw [hbi1, hbi2])
              (by rw [hbsoc1, hbsoc2]) (by rw [hr1', hr2', heq]; linarith) hfuel2 hfuel1
          · have hlt : τ1 < τ2 := lt_of_le_of_ne hττ heq
            have hτ1r : τ1 = st1.remaining := by
              rw [hτ1e]; rw [hτ1e, hτ2e] at hlt; exact clip_lt_eq τ0 hrem hlt
            have hstop : adjustLoop cv true c eps target (-1) fuel s1' = .ok s1' :=
              adjustLoop_stop cv true c eps target (-1) fuel s1' (by
                rw [hr1', hτ1r, sub_self]; intro h; exact absurd h.1 (not_lt.mpr heps.le)) hfuel1
            obtain ⟨f2, hloop2, q1, _⟩ :=
              adjustLoop_discharge cv c eps target Y hcv hc heps htm1 fuel s2' k' hinv2' hfuel2 hfuel1
            refine ⟨s1', f2, hstop, hloop2, ?_⟩
            rw [hs1']; rw [hs2'] at q1; rw [hsoc]; linarith
      · have h1 : adjustLoop cv true c eps target (-1) (fuel + 1) st1 = .ok st1 :=
          adjustLoop_stop cv true c eps target (-1) (fuel + 1) st1 (fun h => hc1 h.1) (by omega)
        obtain ⟨f2, hloop2, q1, _⟩ :=
          adjustLoop_discharge cv c eps target Y hcv hc heps htm1 (fuel + 1) st2 k hinv2 hfuel (by omega)
        exact ⟨st1, f2, h1, hloop2, by rw [hsoc]; exact q1⟩
    · have h2 : adjustLoop cv true c eps target (-1) (fuel + 1) st2 = .ok st2 :=
        adjustLoop_stop cv true c eps target (-1) (fuel + 1) st2 hc2 (by omega)
      have h1 : adjustLoop cv true c eps target (-1) (fuel + 1) st1 = .ok st1 :=
        adjustLoop_stop cv true c eps target (-1) (fuel + 1) st1 (by
          intro h; apply hc2
          exact ⟨lt_of_lt_of_le h.1 hrem, by rw [← hsoc]; exact h.2⟩) (by omega)
      exact ⟨st1, st2, h1, h2, by rw [hsoc]⟩

theorem adjustSoc_discharge_mono (b : Battery ℝ) (T1 T2 : ℝ) (cv : Curve ℝ) (target Y : ℝ)
    (hcv : CurveOK cv Y) (hlen : 2 ≤ cv.points.length) (hc : 0 < b.capacity) (heps : 0 < b.eps)
    (hT1 : 0 ≤ T1) (hT : T1 ≤ T2) (hst : target < b.soc) (htm1 : -1 ≤ target) (hs1 : b.soc ≤ 1) :
    ∃ s1 a1 s2 a2, b.adjustSoc T1 cv target = .ok ({ b with soc := s1 }, a1) ∧
      b.adjustSoc T2 cv target = .ok ({ b with soc := s2 }, a2) ∧ s2 ≤ s1 := by
  have hd : decide (target < b.soc) = true := by simp; exact hst
  obtain ⟨hi1, _⟩ := sectionBoundary_bounds cv b.soc hlen
  obtain ⟨p, hp⟩ : ∃ p, cv.points[(cv.sectionBoundary b.soc).1]? = some p :=
    ⟨_, List.getElem?_eq_getElem hi1⟩
  unfold Battery.adjustSoc
  simp only [hd, if_true, pyIndex_nat _ _ _ hp, bind, Except.bind, pymax_eq]
  set k := (cv.sectionBoundary b.soc).1 with hk
  have hinv : ∀ T, 0 ≤ T → InvD cv.points target ⟨b.soc, T, (k : Int), max target p.1, []⟩ (some k) :=
    fun T hT0 => ⟨rfl, ⟨p, hp, rfl⟩, hs1, hT0⟩
  obtain ⟨f1, f2, h1, h2, hle⟩ :=
    adjustLoop_discharge_mono cv b.capacity b.eps target Y hcv hc heps htm1 (adjustFuel cv)
      ⟨b.soc, T1, (k : Int), max target p.1, []⟩ ⟨b.soc, T2, (k : Int), max target p.1, []⟩ (some k)
      (hinv T1 hT1) (hinv T2 (le_trans hT1 hT)) rfl rfl rfl hT
      (Or.inr (by
        have hm : measD b.eps ⟨b.soc, T2, (k : Int), max target p.1, []⟩ (some k) ≤ 2 * (k + 1) + 1 := by
          unfold measD; simp only [disDist]; split_ifs <;> omega
        unfold adjustFuel; omega)) (by unfold adjustFuel; omega)
  simp only [h1, h2]
  exact ⟨f1.soc, _, f2.soc, _, rfl, rfl, hle⟩

theorem unload_via_adjust (b : Battery ℝ) (hb : BatOK b) (mp ts : Option ℝ)
    (hmp : ∀ L, mp = some L → 0 ≤ L) :
    ∃ cv, CurveOK cv (1 / b.efficiency * limitOf mp b.unloadingCurve) ∧ 2 ≤ cv.points.length ∧
      ∀ T, b.unload T mp ts none =
        if b.eps < max (min b.soc 0) (unloadTarget b 0 ts none) - b.soc then .ok (b, 0, 0)
        else (match b.adjustSoc T cv (max (min b.soc 0) (unloadTarget b 0 ts none)) with
          | .error e => .error e
          | .ok r => .ok (r.1, r.2 * b.efficiency, b.soc - r.1.soc)) := by
  have hη0 : b.efficiency ≠ 0 := ne_of_gt hb.eff0
  have hL : 0 ≤ limitOf mp b.unloadingCurve := by
    cases mp with
    | none => exact hb.ulcMax
    | some L => exact hmp L rfl
  have hpost : 0 < 1 / b.efficiency := div_pos one_pos hb.eff0
  obtain ⟨cv, hcl, hcv, hlen, _⟩ :=
    clamped_curveOK b.unloadingCurve hb.ulc (limitOf mp b.unloadingCurve) (1 / b.efficiency) hL hpost
  have hcl' : b.unloadingCurve.clamped (mp.getD b.unloadingCurve.maxPower) 1 (1 / b.efficiency)
      = .ok cv := hcl
  refine ⟨cv, hcv, hlen, ?_⟩
  intro T
  have htgt : b.unloadRequest T ts none = .ok (unloadTarget b 0 ts none) := by
    unfold Battery.unloadRequest
    cases ts with
    | none => rfl
    | some t => simp [unloadTarget, pyassert, bind, Except.bind]
  unfold Battery.unload
  simp only [htgt, bind, Except.bind, pymax_eq, pymin_eq, fdiv_ok _ hη0, hcl']
  by_cases hearly : b.eps < max (min b.soc 0) (unloadTarget b 0 ts none) - b.soc
  · simp only [if_pos hearly]
  · simp only [if_neg hearly]
    cases b.adjustSoc T cv (max (min b.soc 0) (unloadTarget b 0 ts none)) with
    | error e => rfl
    | ok r => rfl

theorem unload_mono_time (b : Battery ℝ) (hb : BatOK b) (T1 T2 : ℝ) (hT1 : 0 ≤ T1) (hT : T1 ≤ T2)
    (mp ts : Option ℝ) (hmp : ∀ L, mp = some L → 0 ≤ L) :
    ∃ s1 a1 d1 s2 a2 d2, b.unload T1 mp ts none = .ok ({ b with soc := s1 }, a1, d1) ∧
      b.unload T2 mp ts none = .ok ({ b with soc := s2 }, a2, d2) ∧ s2 ≤ s1 := by
  obtain ⟨cv, hcv, hlen, hun⟩ := unload_via_adjust b hb mp ts hmp
  rw [hun T1, hun T2]
  set tgt := max (min b.soc 0) (unloadTarget b 0 ts none) with htg
  have htm1 : -1 ≤ tgt := by
    have h1 : min b.soc 0 ≤ tgt := le_max_left _ _
    have h2 : -1 ≤ min b.soc 0 := le_min hb.socm1 (by norm_num)
    linarith
  by_cases hearly : b.eps < tgt - b.soc
  · simp only [if_pos hearly]
    exact ⟨b.soc, 0, 0, b.soc, 0, 0, by rw [battery_eta b], by rw [battery_eta b], le_refl _⟩
  · simp only [if_neg hearly]
    by_cases hdir : tgt < b.soc
    · obtain ⟨s1, a1, s2, a2, h1, h2, hle⟩ :=
        adjustSoc_discharge_mono b T1 T2 cv tgt _ hcv hlen hb.cap hb.eps hT1 hT hdir htm1 hb.soc1
      simp only [h1, h2]
      exact ⟨s1, _, _, s2, _, _, rfl, rfl, hle⟩
    · have hno : ∀ T, ¬ (b.eps < T ∧ b.eps < (if tgt < b.soc then -1 else 1) * (tgt - b.soc)) := by
        intro T
        rw [if_neg hdir]
        intro h
        have := h.2
        apply hearly; linarith
      obtain ⟨a1, h1, _⟩ := adjustSoc_noop b T1 cv tgt hlen (hno T1)
      obtain ⟨a2, h2, _⟩ := adjustSoc_noop b T2 cv tgt hlen (hno T2)
      simp only [h1, h2]
      exact ⟨b.soc, _, _, b.soc, _, _, rfl, rfl, le_refl _⟩

end SpiceEv
