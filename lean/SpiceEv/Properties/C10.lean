/-
C10 — Greedy and balanced charging follow their documented rule exactly.

The transliterated step (Model/Strategies.lean) is the executable model that is compared with the
real strategies step by step.  The theorems state the documented rule on that model: which power a
vehicle is offered in each case, that nothing is charged beyond the desired SoC without surplus or
cheap price, the id order, and the stationary-battery policy.
-/
import SpiceEv.Proofs.Strategies
import Mathlib.Data.String.Basic
set_option linter.unusedSectionVars false
set_option linter.unusedVariables false
namespace SpiceEv
variable {α B : Type} [Field α] [LinearOrder α] [IsStrictOrderedRing α]

/-- **Greedy rule.** Price above the threshold and the vehicle below its desired SoC: it is offered
the power that reaches the desired SoC within this step, limited by the connector headroom plus
stationary-battery support, clamped to station/vehicle limits — and charged with it as target. -/
theorem C10_greedy_rule (ops : BatOps α B) (env : StratEnv α) (left availGc : α)
    (cs : StationS α) (v : VehicleS α B) (hneed : env.eps < v.desiredSoc - ops.soc v.bat) :
    planPower .greedy ops env false left availGc cs v =
      .ok (clampPower
            (min ((v.desiredSoc - ops.soc v.bat) * ops.capacity v.bat / ops.efficiency v.bat * env.tsPerHour)
                 (left + availGc))
            cs.currentPower cs.maxPower cs.minPower v.minChargingPower, true) ∧
    ∀ p, chargeCall .greedy ops env false v p = ops.load v.bat none none (some p) := by
  constructor
  · unfold planPower
    simp [hneed, pymin_eq]
  · intro p; unfold chargeCall; simp [hneed]

/-- **Balanced rule.** Same situation: the constant power that delivers the missing energy in the
`⌈(departure − now)/Δ⌉` remaining steps, limited by the headroom; past the announced departure the
full headroom. -/
theorem C10_balanced_rule (ops : BatOps α B) (env : StratEnv α) (left availGc : α)
    (cs : StationS α) (v : VehicleS α B) (etd : Int) (hetd : v.etd = some etd)
    (hneed : env.eps < v.desiredSoc - ops.soc v.bat) :
    planPower .balanced ops env false left availGc cs v =
      .ok (clampPower
            (if 0 < ceilDiv (etd - env.now) env.interval then
              min ((v.desiredSoc - ops.soc v.bat) * ops.capacity v.bat / ops.efficiency v.bat * env.tsPerHour
                    / ((ceilDiv (etd - env.now) env.interval : Int) : α)) left
             else left)
            cs.currentPower cs.maxPower cs.minPower v.minChargingPower, true) := by
  unfold planPower
  simp only [Bool.false_eq_true, if_false, hneed, if_true, hetd]
  split <;> simp [pymin_eq]

/-- `⌈a/b⌉` for `b > 0`: the remaining-steps count covers the remaining time
(`(n−1)·Δ < dt ≤ n·Δ`); rounding the other way would lose the last step. -/
theorem C10_remaining_steps (a b : Int) (hb : 0 < b) :
    a ≤ ceilDiv a b * b ∧ (ceilDiv a b - 1) * b < a := by
  unfold ceilDiv
  rw [Int.fdiv_neg (ne_of_gt hb), Int.fdiv_eq_ediv_of_nonneg a hb.le]
  have h1 := Int.emod_add_mul_ediv a b
  have h2 := Int.emod_nonneg a (ne_of_gt hb)
  have h3 := Int.emod_lt_of_pos a hb
  by_cases hd : b ∣ a
  · have h4 : a % b = 0 := Int.emod_eq_zero_of_dvd hd
    simp only [hd, if_true]
    constructor <;> nlinarith
  · have h4 : a % b ≠ 0 := fun h => hd (Int.dvd_of_emod_eq_zero h)
    have h5 : 0 < a % b := lt_of_le_of_ne h2 (Ne.symm h4)
    simp only [hd, if_false]
    constructor <;> nlinarith

/-- **Cheap price.** At or below the threshold both strategies offer the whole clamped headroom
(greedy as a power limit, i.e. up to a full battery). -/
theorem C10_cheap_rule (rule : Rule) (ops : BatOps α B) (env : StratEnv α) (left availGc : α)
    (cs : StationS α) (v : VehicleS α B) :
    planPower rule ops env true left availGc cs v =
      .ok (clampPower left cs.currentPower cs.maxPower cs.minPower v.minChargingPower, false) ∧
    ∀ p, chargeCall .greedy ops env true v p = ops.load v.bat (some p) none none := by
  constructor
  · unfold planPower; simp
  · intro p; unfold chargeCall; simp

/-- **No overcharge.** Price above the threshold and the vehicle at/above its desired SoC (within
ε): the allocation pass offers 0 kW; greedy does not touch the battery, balanced requests target
power 0, which delivers nothing. -/
theorem C10_no_overcharge (rule : Rule) (ops : BatOps α B) (law : BatLaw ops) (env : StratEnv α)
    (left availGc : α) (cs : StationS α) (v : VehicleS α B)
    (hfull : ¬ env.eps < v.desiredSoc - ops.soc v.bat) :
    planPower rule ops env false left availGc cs v = .ok (0, false) ∧
    ∀ b' avg, chargeCall rule ops env false v 0 = .ok (b', avg) → avg = 0 := by
  constructor
  · unfold planPower; simp [hfull]
  · intro b' avg h
    have := chargeCall_bound rule ops law env false v 0 (le_refl _) b' avg h
    exact le_antisymm this.2 this.1

/-- **Order.** The allocation pass visits the vehicles in ascending id order whatever the
insertion order of the vehicle dict. -/
theorem C10_order (w1 w2 : SWorld α B) (hperm : (w1.vehicles.map (·.id)).Perm (w2.vehicles.map (·.id))) :
    sortedVehicleIds w1 = sortedVehicleIds w2 := by
  unfold sortedVehicleIds
  apply List.Perm.eq_of_pairwise (le := fun a b => decide (a ≤ b) = true)
  · intro a b _ _ hab hba
    exact le_antisymm (by simpa using hab) (by simpa using hba)
  · exact List.pairwise_mergeSort (fun a b c h1 h2 => by
      simp only [decide_eq_true_eq] at *; exact le_trans h1 h2)
      (fun a b => by simp only [Bool.or_eq_true, decide_eq_true_eq]; exact le_total _ _) _
  · exact List.pairwise_mergeSort (fun a b c h1 h2 => by
      simp only [decide_eq_true_eq] at *; exact le_trans h1 h2)
      (fun a b => by simp only [Bool.or_eq_true, decide_eq_true_eq]; exact le_total _ _) _
  · exact (List.mergeSort_perm _ _).trans (hperm.trans (List.mergeSort_perm _ _).symm)

/-- **Stationary-battery policy.** A battery's connector load rises (the battery charges) only when
the price is at/below the threshold or the connector has surplus (negative load); otherwise the
battery only discharges, never below zero grid draw. -/
theorem C10_battery_policy (ops : BatOps α B) (law : BatLaw ops) (env : StratEnv α)
    (cheap : List (String × Bool)) (w w' : SWorld α B) (b : StatBatS α B) (gc : GcS α)
    (isCheap : Bool) (hgc : w.gc? b.parent = some gc) (hch : sdGet cheap b.parent = some isCheap)
    (h : updateBattery ops env cheap w b = .ok w') :
    ∃ bat' d, w' = (w.setBattery { b with bat := bat' }).setGc (gc.addLoad b.id d).1 ∧
      ((isCheap = true ∨ gc.currentLoad < 0) → 0 ≤ d) ∧
      (isCheap = false → 0 ≤ gc.currentLoad → d ≤ 0 ∧ 0 ≤ gc.currentLoad + d) ∧
      (isCheap = false → gc.currentLoad < 0 → gc.currentLoad + d ≤ 0) := by
  unfold updateBattery at h
  simp only [hgc, hch, bind, Except.bind] at h
  split at h
  · -- cheap: charge with the headroom
    rename_i hc
    split at h
    · cases h
    · rename_i ba hl
      obtain ⟨bat', avg⟩ := ba
      simp only [Except.ok.injEq] at h
      obtain ⟨ha0, _⟩ := law.load_max _ _ _ _ hl
      exact ⟨bat', avg, h.symm, fun _ => ha0, by simp [hc], by simp [hc]⟩
  · rename_i hc
    have hc' : isCheap = false := by simpa using hc
    split at h
    · -- surplus: charge with the surplus as target
      rename_i hneg
      split at h
      · cases h
      · rename_i ba hl
        obtain ⟨bat', avg⟩ := ba
        simp only [Except.ok.injEq] at h
        obtain ⟨ha0, hap⟩ := law.load_target _ _ _ _ hl
        refine ⟨bat', avg, h.symm, fun _ => ha0, fun _ hpos => absurd hneg (not_lt.mpr hpos), fun _ _ => ?_⟩
        have hp : (if -gc.currentLoad < b.minChargingPower then (0 : α) else -gc.currentLoad)
            ≤ -gc.currentLoad := by
          split
          · linarith
          · exact le_refl _
        have : avg ≤ max (-gc.currentLoad) 0 := le_trans hap (max_le_max hp (le_refl _))
        rw [max_eq_left (by linarith)] at this
        linarith
    · -- grid draw: discharge towards zero
      rename_i hpos
      have hpos' : 0 ≤ gc.currentLoad := not_lt.mp hpos
      split at h
      · cases h
      · rename_i ba hl
        obtain ⟨bat', avg⟩ := ba
        simp only [Except.ok.injEq] at h
        obtain ⟨ha0, hap⟩ := law.unload_target _ _ _ _ hl
        rw [max_eq_left hpos'] at hap
        refine ⟨bat', -avg, h.symm, ?_, fun _ _ => ⟨by linarith, by linarith⟩,
          fun _ hneg => absurd hneg hpos⟩
        rintro (h1 | h1)
        · simp [hc'] at h1
        · exact absurd h1 hpos

end SpiceEv
