/-
Model of the charging strategy `schedule` (spice_ev/strategies/schedule.py, class `Schedule`),
transliterated statement by statement: `step`, `charge_individually` (with its look-ahead over
future schedule-change / departure events and the additional-power bisection),
`utilize_stationary_batteries`, and the collective mode: `evaluate_core_standing_time_ahead`,
`collect_future_gc_info` (with `GridConnector.get_avg_fixed_load`), `sim_balanced_charging`,
`charge_vehicles_during_core_standing_time`, `charge_vehicles_during_core_standing_time_v2g`,
`charge_vehicles`, `charge_vehicles_after_core_standing_time`.

The model is the behaviour of the code REPAIRED by fixes/SCH1.diff, SCH2.diff, SCH3.diff, SCH4.diff and H4.diff:
  * H4 `dt_to_end_of_time_window` stops its one-minute scan after eight days (pinned: no bound — a core standing time
    that covers the whole week never left the loop);
  * SCH1 `step` uses the dict returned by the V2G pass (pinned: return value ignored, the pass's
    commands were lost when the first pass had produced none);
  * SCH2 the excess branch of `charge_vehicles_during_core_standing_time` searches below
    `gc.cur_max_power − gc.get_current_load()` (pinned: below the charging curve's maximum only);
  * SCH3 `remaining_power_on_schedule = min(…, gc.cur_max_power − gc.get_current_load())` and a V2G
    charge window is bounded by `min(gc.target, gc.cur_max_power) − load` (pinned: by `gc.target − load`);
  * SCH4 a V2G discharge window is bounded by `min(|gc.target − load|, gc.cur_max_power + load)`
    (pinned: by `|gc.target − load|` only — the connector could be pushed below `−cur_max_power`).
Every other defect of the class is reproduced as it is (notes/S_SCHEDULE.md: S1, S3, S4).

World state: `SWorld` of Model/Strategies.lean (connectors with loads, stations, vehicles,
stationary batteries); what the schedule strategy reads in addition and never writes is in `Env`
(connector target and average-fixed-load table, vehicle schedule and `vehicle_type.charging_curve
.max_power`, the visible future events, the core standing time, options); the attributes the class
keeps between steps are `CState`.  The battery is a parameter (`Ops`): calls take the duration in
microseconds; an in-place simulation on the real battery object followed by `battery.soc = old_soc`
is a pure call whose resulting battery is dropped.  Times are `Int` microseconds on the axis of
`DateTime.instant` (UTC microseconds since ordinal 0); all datetimes are assumed aware.

Python locals that survive a `for` iteration are carried explicitly: `add_power` in
`charge_individually` and `discharge_limit` in the V2G pass keep the value of the previous vehicle
when their `while` loop does not run (`none` = `UnboundLocalError`, rendered through
`PyErr.noneResult`).
-/
import SpiceEv.Py
import SpiceEv.Time
import SpiceEv.Model.Util
import SpiceEv.Model.StrategyUtil
import SpiceEv.Model.Battery
import SpiceEv.Model.Strategies
import SpiceEv.Model.Bisect
namespace SpiceEv.Sched
open SpiceEv

/-- what the schedule strategy needs from a battery object (`spice_ev/battery.py`); durations are
`timedelta`s in microseconds -/
structure Ops (α B : Type) where
  soc : B → α
  capacity : B → α
  efficiency : B → α
  /-- `unloading_curve.max_power` -/
  unloadMaxPower : B → α
  /-- `load(timedelta, max_power, target_soc, target_power)` ↦ (battery', avg_power, soc_delta) -/
  load : B → Int → (maxPower targetSoc targetPower : Option α) → Py (B × α × α)
  /-- `unload(timedelta, max_power, target_soc, target_power)` ↦ (battery', avg_power, soc_delta) -/
  unload : B → Int → (maxPower targetSoc targetPower : Option α) → Py (B × α × α)
  /-- `get_available_power(timedelta)` -/
  available : B → Int → Py α
  /-- builtin `sum` on a list of numbers -/
  sum : List α → α

/-- payload of an event in `world_state.future_events`, as far as `schedule.py` looks at it -/
inductive FEv (α : Type) where
  /-- `GridOperatorSignal`: `target`, `window` -/
  | gridSignal (target : Option α) (window : Option Bool)
  /-- `LocalEnergyGeneration`: `name`, `value` -/
  | localGen (name : String) (value : α)
  /-- `VehicleEvent` with `event_type == 'schedule'`: `update["schedule"]` (`none` = no such key) -/
  | vehSchedule (vid : String) (schedule : Option α)
  /-- `VehicleEvent` with `event_type == 'departure'` -/
  | vehDeparture (vid : String)
  /-- anything else (`FixedLoad`, other vehicle events): only consumes its slot -/
  | other

structure FutureEvent (α : Type) where
  start : Int
  ev : FEv α

/-- per-connector data the strategy only reads: `gc.target`, `gc.avg_fixed_load` -/
structure GcX (α : Type) where
  target : Option α
  avgFixed : Option (List (List α))

/-- per-vehicle data the strategy only reads: `vehicle.schedule`,
`vehicle.vehicle_type.charging_curve.max_power` -/
structure VehX (α : Type) where
  schedule : Option α
  curveMax : α

structure Env (α : Type) where
  eps : α
  tsPerHour : α
  now : DateTime
  interval : Int
  /-- `self.ITERATIONS` -/
  iterations : Nat
  /-- fuel of every `while max - min > EPS` bisection -/
  fuel : Nat
  /-- fuel of the retry loop `while len(vehicles) > 0` of the on-schedule branch (each re-queue needs
  `avg_power ≥ EPS` or a larger offer, so the loop can legitimately run for thousands of iterations) -/
  retryFuel : Nat
  /-- `LOAD_STRAT == "collective"` (otherwise `"individual"`) -/
  collective : Bool
  warnCst : Bool
  cst : Option CoreStandingTime
  gx : List (String × GcX α)
  vx : List (String × VehX α)
  future : List (FutureEvent α)

/-- attributes the class keeps between steps (collective mode) -/
structure CState (α : Type) where
  inCst : Bool                         -- currently_in_core_standing_time
  overcharge : Bool                    -- overcharge_necessary
  powerPerTS : List α                  -- power_for_vehicles_per_TS
  chargeWindow : List Bool             -- charge_window
  energyAvail : α                      -- energy_available_for_vehicles_on_schedule
  energyNeeded : List (String × α)     -- energy_needed_per_vehicle
  extraEnergy : List (String × α)      -- extra_energy_per_vehicle
  batPower : α                         -- bat_power_for_vehicles

/-- one entry of `collect_future_gc_info` -/
structure GcInfo (α : Type) where
  loads : List (String × α)
  target : Option α
  charge : Bool

section
variable {α B : Type} [Add α] [Sub α] [Mul α] [Div α] [Neg α] [LT α] [LE α]
  [DecidableLT α] [DecidableLE α] [OfNat α 0] [OfNat α 1] [OfNat α 2] [NatCast α] [IntCast α]

def Env.nowI (env : Env α) : Int := env.now.instant

def getGc (w : SWorld α B) (id : String) : Py (GcS α) :=
  match w.gc? id with | some g => .ok g | none => .error .keyError
def getStation (w : SWorld α B) (id : String) : Py (StationS α) :=
  match w.station? id with | some s => .ok s | none => .error .keyError
def getVehicle (w : SWorld α B) (id : String) : Py (VehicleS α B) :=
  match w.vehicle? id with | some v => .ok v | none => .error .keyError
def getGx (env : Env α) (id : String) : Py (GcX α) :=
  match sdGet env.gx id with | some x => .ok x | none => .error .keyError
def getVx (env : Env α) (id : String) : Py (VehX α) :=
  match sdGet env.vx id with | some x => .ok x | none => .error .keyError
/-- `list(self.world_state.grid_connectors.values())[0]` -/
def firstGcId (w : SWorld α B) : Py String :=
  match w.gcs with | g :: _ => .ok g.id | [] => .error .indexError

/-- `clamp_power(p, vehicle, cs)` -/
def clampV (cs : StationS α) (v : VehicleS α B) (p : α) : α :=
  clampPower p cs.currentPower cs.maxPower cs.minPower v.minChargingPower

/-- `charging_stations[cs_id] = cs.current_power = gc.add_load(cs_id, avg_power)` together with the
battery state left by the real `load` call -/
def commit (w : SWorld α B) (cmds : List (String × α)) (v : VehicleS α B) (bat' : B)
    (cs : StationS α) (gc : GcS α) (csId : String) (avg : α) : SWorld α B × List (String × α) :=
  let r := gc.addLoad csId avg
  let w := (w.setVehicle { v with bat := bat' }).setGc r.1
  let w := w.setStation { cs with currentPower := r.2 }
  (w, sdSet cmds csId r.2)

/-- `while max - min > EPS: mid = (max + min) / 2; if ok(mid): max = mid else: min = mid`;
returns the last midpoint (`last` if the loop body never ran) -/
def bisectM (ok : α → Py Bool) (eps : α) : Nat → α → α → Option α → Py (Option α)
  | 0, lo, hi, last => if eps < hi - lo then .error .fuel else .ok last
  | f + 1, lo, hi, last =>
    if eps < hi - lo then do
      let mid := (hi + lo) / 2
      if (← ok mid) then bisectM ok eps f lo mid (some mid) else bisectM ok eps f mid hi (some mid)
    else .ok last

/-! ## charge_individually -/

/-- inner `while True:` of the look-ahead: consume the events that start at or before `curTime`;
result: remaining events, current schedule value, `false` if `charging` was set to `False` -/
def indPeek (vid : String) (curTime : Int) :
    List (FutureEvent α) → α → Py (List (FutureEvent α) × α × Bool)
  | [], cur => .ok ([], cur, false)                       -- IndexError: no more events
  | e :: rest, cur =>
    if curTime < e.start then .ok (e :: rest, cur, true)  -- not this timestep
    else match e.ev with
      | .vehSchedule v s =>
        if v == vid then
          match s with
          | none => .error .keyError
          | some s => indPeek vid curTime rest s
        else indPeek vid curTime rest cur
      | .vehDeparture v =>
        if v == vid then .ok (rest, cur, false) else indPeek vid curTime rest cur
      | _ => indPeek vid curTime rest cur

/-- `while charging and cur_time < vehicle.estimated_time_of_departure:` -/
def indLook (vid : String) (etd interval : Int) :
    Nat → Int → List (FutureEvent α) → α → List α → Py (List α)
  | 0, curTime, _, _, acc => if curTime < etd then .error .fuel else .ok acc
  | f + 1, curTime, evs, cur, acc =>
    if curTime < etd then do
      let r ← indPeek vid curTime evs cur
      let acc := acc ++ [r.2.1]
      if r.2.2 then indLook vid etd interval f (curTime + interval) r.1 r.2.1 acc else .ok acc
    else .ok acc

/-- fuel of `indLook`: the number of steps until the estimated departure -/
def indLookFuel (now etd interval : Int) : Nat := (ceilDiv (etd - now) interval).toNat

/-- `for s in schedule: power = clamp_power(s [+ add_power], vehicle, cs);
vehicle.battery.load(self.interval, target_power=power)` -/
def simSchedule (ops : Ops α B) (env : Env α) (cs : StationS α) (v : VehicleS α B)
    (add : Option α) (schedule : List α) (bat : B) : Py B :=
  schedule.foldlM (fun b s => do
    let p := match add with | none => s | some a => s + a
    let r ← ops.load b env.interval none none (some (clampV cs v p))
    pure r.1) bat

/-- the known part of the vehicle's schedule: the look-ahead loop of `charge_individually` -/
def indSchedule (env : Env α) (v : VehicleS α B) (sched : α) : Py (List α) :=
  match v.etd with
  | none => .ok []
  | some etd =>
    indLook v.id etd env.interval (indLookFuel env.nowI etd env.interval) env.nowI env.future sched []

/-- `standing is None or standing > len(schedule)` -/
def indTooLong (env : Env α) (v : VehicleS α B) (schedule : List α) : Bool :=
  match v.etd with
  | none => true
  | some etd => decide ((schedule.length : Int) < floorDiv (etd - env.nowI) env.interval)

/-- the `if standing is None or … elif … else: <bisection>` chain that sets `add_power`
(`bat1` = the vehicle's battery after the simulation of the known schedule, `prev` = value of the
Python local left by the previous vehicle; `none` = unbound) -/
def indAddDecide (ops : Ops α B) (env : Env α) (prev : Option α) (cs : StationS α) (gc : GcS α)
    (v : VehicleS α B) (schedule : List α) (bat1 : B) : Py (Option α) :=
  if indTooLong env v schedule then .ok (some 0)
  else if v.desiredSoc - ops.soc bat1 < env.eps then .ok (some 0)
  else if gc.curMax - gc.currentLoad < env.eps then .ok (some 0)
  else if schedule.isEmpty then .ok (some 0)
  else
    match bisectM (fun a =>
        match simSchedule ops env cs v (some a) schedule v.bat with
        | .error e => .error e
        | .ok b => .ok (decide (v.desiredSoc - ops.soc b < env.eps))) env.eps env.fuel 0 cs.maxPower none with
    | .error e => .error e
    | .ok (some a) => .ok (some a)
    | .ok none => .ok prev

/-- the part of the loop body of `charge_individually` between the schedule check and "charge for
real": look-ahead, simulation of the known schedule, and the additional power `add_power` -/
def indAdd (ops : Ops α B) (env : Env α) (prev : Option α) (cs : StationS α) (gc : GcS α)
    (v : VehicleS α B) (sched : α) : Py (Option α) :=
  match indSchedule env v sched with
  | .error e => .error e
  | .ok schedule =>
    match simSchedule ops env cs v none schedule v.bat with
    | .error e => .error e
    | .ok bat1 => indAddDecide ops env prev cs gc v schedule bat1

/-- body of `for vid, vehicle in self.world_state.vehicles.items()` of `charge_individually`;
the third component is the Python local `add_power` -/
def indVehicle (ops : Ops α B) (env : Env α)
    (st : SWorld α B × List (String × α) × Option α) (v0 : VehicleS α B) :
    Py (SWorld α B × List (String × α) × Option α) :=
  match st.1.vehicle? v0.id with
  | none => .ok st
  | some v =>
    match v.cs with
    | none => .ok st
    | some csId =>
      match getStation st.1 csId with
      | .error e => .error e
      | .ok cs =>
        match getGc st.1 cs.parent with
        | .error e => .error e
        | .ok gc =>
          match getVx env v.id with
          | .error e => .error e
          | .ok x =>
            match x.schedule with
            | none => .error .runtime
            | some sched =>
              match indAdd ops env st.2.2 cs gc v sched with
              | .error e => .error e
              | .ok none => .error .noneResult
              | .ok (some addP) =>
                let power := individualPower sched addP (gc.curMax - gc.currentLoad) cs.currentPower
                  cs.maxPower cs.minPower v.minChargingPower
                match ops.load v.bat env.interval none none (some power) with
                | .error e => .error e
                | .ok r =>
                  let c := commit st.1 st.2.1 v r.1 cs gc csId r.2.1
                  .ok (c.1, c.2, some addP)

/-- `Schedule.charge_individually()` -/
def chargeIndividually (ops : Ops α B) (env : Env α) (w : SWorld α B) :
    Py (SWorld α B × List (String × α)) := do
  let r ← w.vehicles.foldlM (indVehicle ops env) (w, [], none)
  pure (r.1, r.2.1)

/-! ## utilize_stationary_batteries -/

def utilBattery (ops : Ops α B) (env : Env α) (w : SWorld α B) (b0 : StatBatS α B) :
    Py (SWorld α B) :=
  match w.batteries.find? (·.id == b0.id) with
  | none => .ok w
  | some b =>
    match getGc w b.parent with
    | .error e => .error e
    | .ok gc =>
      match getGx env b.parent with
      | .error e => .error e
      | .ok x =>
        match x.target with
        | none => .ok w
        | some target =>
          let cur := gc.currentLoad
          let needed := target - cur
          let availPos := gc.curMax - cur
          let availNeg := gc.curMax + cur
          if needed < -env.eps then
            let power := pymin (-needed) availNeg
            match ops.unload b.bat env.interval none none (some power) with
            | .error e => .error e
            | .ok r => .ok ((w.setBattery { b with bat := r.1 }).setGc (gc.addLoad b.id (-r.2.1)).1)
          else if env.eps < needed then
            let power := pymin needed availPos
            let power := if power < b.minChargingPower then 0 else power
            match ops.load b.bat env.interval (some power) none none with
            | .error e => .error e
            | .ok r => .ok ((w.setBattery { b with bat := r.1 }).setGc (gc.addLoad b.id r.2.1).1)
          else .ok (w.setGc (gc.addLoad b.id 0).1)

/-- `Schedule.utilize_stationary_batteries()` -/
def utilizeBatteries (ops : Ops α B) (env : Env α) (w : SWorld α B) : Py (SWorld α B) :=
  w.batteries.foldlM (utilBattery ops env) w

/-! ## collective mode -/

/-- `GridConnector.get_avg_fixed_load(dt, interval)`:
`midnight = dt.replace(hour=0, minute=0); timeslot = int((dt - midnight) / interval)` -/
def avgFixedLoad (tbl : Option (List (List α))) (t : DateTime) (interval : Int) : Py α :=
  match tbl with
  | none => .ok 0
  | some tbl => do
    let tod := t.time
    let sinceMidnight := tod - tod % usPerMinute
    let row ← pyIndex tbl t.weekday
    pyIndex row (sinceMidnight / interval)

/-- inner `while True:` of `collect_future_gc_info` -/
def cfPeek (curTime : Int) : List (FutureEvent α) → GcInfo α → List (FutureEvent α) × GcInfo α
  | [], info => ([], info)
  | e :: rest, info =>
    if curTime < e.start then (e :: rest, info)
    else match e.ev with
      | .gridSignal t wd =>
        cfPeek curTime rest { info with
          target := (match t with | some x => some x | none => info.target),
          charge := (match wd with | some b => b | none => info.charge) }
      | .localGen name value => cfPeek curTime rest { info with loads := sdSet info.loads name (-value) }
      | _ => cfPeek curTime rest info

/-- `for timestep_idx in range(timesteps):` -/
def cfLoop (tbl : Option (List (List α))) (interval : Int) :
    Nat → DateTime → List (FutureEvent α) → GcInfo α → Py (List (GcInfo α))
  | 0, _, _, _ => .ok []
  | n + 1, t, evs, prev => do
    let fl ← avgFixedLoad tbl t interval
    let info : GcInfo α := { prev with loads := sdSet prev.loads "fixed_load" fl }
    let r := cfPeek t.instant evs info
    let rest ← cfLoop tbl interval n (t.add interval) r.1 r.2
    .ok (r.2 :: rest)

/-- `Schedule.collect_future_gc_info(dt)` -/
def collectFuture (env : Env α) (x : GcX α) (dt : Int) : Py (List (GcInfo α)) :=
  let info0 : GcInfo α := ⟨[], x.target, false⟩
  let timesteps := floorDiv dt env.interval
  if timesteps ≤ 0 then .ok [info0]
  else cfLoop x.avgFixed env.interval timesteps.toNat env.now env.future info0

/-- the `while` of `sim_balanced_charging` -/
def sbLoop (ops : Ops α B) (env : Env α) (bat : B) (dt : Int) (delta : α) :
    Nat → Nat → Bool → α → α → α → Py α
  | fuel, idx, safe, mn, mx, power =>
    if (decide (idx < env.iterations) || !safe) && decide (env.eps < mx - mn) then
      match fuel with
      | 0 => .error .fuel
      | f + 1 => do
        let power := (mx + mn) / 2
        let r ← ops.load bat dt none none (some power)
        if env.eps < delta - r.2.2 then sbLoop ops env bat dt delta f (idx + 1) false power mx power
        else sbLoop ops env bat dt delta f (idx + 1) true mn power power
    else .ok power

/-- `Schedule.sim_balanced_charging(vehicle, dt, max_power, delta_soc)["opt_power"]` for a connected
vehicle (`cs` = its station) -/
def simBalanced (ops : Ops α B) (env : Env α) (cs : StationS α) (v : VehicleS α B) (x : VehX α)
    (dt : Int) (maxPower : α) (deltaSoc : Option α) : Py α :=
  let delta := match deltaSoc with | some d => d | none => v.desiredSoc - ops.soc v.bat
  if env.eps < delta then
    let minP := pymax v.minChargingPower cs.minPower
    let maxP := pymin maxPower x.curveMax
    let maxP := clampV cs v maxP
    sbLoop ops env v.bat dt delta env.fuel 0 false minP maxP 0
  else .ok 0

/-- `Schedule.dt_to_end_of_time_window()` as repaired by fixes/H4.diff:
`while duration < timedelta(days=8) and dt_within_core_standing_time(now + duration, cst): duration += 1 min`;
the first argument counts the minutes left until eight days (the pinned code scanned without a bound:
`dtToEndOfTimeWindow` of Model/Util.lean, characterised in C15) -/
def dtToEndScan (cur : DateTime) (cst : Option CoreStandingTime) : Nat → Int → Py Int
  | 0, duration => pure duration
  | n + 1, duration => do
    if (← dtWithinCoreStandingTime (cur.add duration) cst) then dtToEndScan cur cst n (duration + usPerMinute)
    else pure duration

/-- eight days in minutes -/
def dtToEndMinutes : Nat := 8 * 1440

def dtToEnd (env : Env α) : Py Int :=
  dtToEndScan env.now env.cst dtToEndMinutes 0

/-- `Schedule.evaluate_core_standing_time_ahead()` (the world is left unchanged: every battery
simulation is undone) -/
def evaluate (ops : Ops α B) (env : Env α) (w : SWorld α B) (st : CState α) : Py (CState α) := do
  let dtEnd ← dtToEnd env
  let tsEnd := floorDiv dtEnd env.interval
  let gid ← firstGcId w
  let x ← getGx env gid
  let infos ← collectFuture env x dtEnd
  let powerPerTS ← infos.mapM (fun i => match i.target with
    | none => (.error .typeError : Py α)
    | some t => .ok (t - ops.sum (i.loads.map (·.2))))
  let chargeWindow := powerPerTS.map (fun p => decide (0 < p))
  let tsCharge : Nat := chargeWindow.count true
  let energyAvail := ops.sum ((powerPerTS.filter (fun p => decide (env.eps < p))).map
    (fun p => p / env.tsPerHour))
  let nt ← w.vehicles.foldlM (fun (acc : List (String × α) × α) v => do
      let delta := v.desiredSoc - ops.soc v.bat
      let e ← if env.eps < delta then fdiv (delta * ops.capacity v.bat) (ops.efficiency v.bat)
              else pure 0
      pure (sdSet acc.1 v.id e, acc.2 + e)) ([], 0)
  let extra ← w.vehicles.foldlM (fun (ex : List (String × α)) v =>
      match v.cs with
      | none => if env.warnCst then .ok ex else .error .exception
      | some csId => do
        let cs ← getStation w csId
        let vx ← getVx env v.id
        let mcp := pymin vx.curveMax cs.maxPower
        let r ← ops.load v.bat ((tsCharge : Int) * env.interval) (some mcp) (some v.desiredSoc) none
        let d := v.desiredSoc - ops.soc r.1
        pure (sdSet ex v.id (if env.eps < d then d else 0))) []
  let missing := nt.2 - energyAvail
  let batEnergy : α :=
    if env.eps < missing then
      pymin missing (w.batteries.foldl (fun acc b =>
        acc + (ops.soc b.bat * ops.capacity b.bat) * ops.efficiency b.bat) 0)
    else 0
  if tsEnd == 0 then .error .zeroDivision
  else
    .ok { st with
      inCst := true, powerPerTS := powerPerTS, chargeWindow := chargeWindow,
      energyAvail := energyAvail, energyNeeded := nt.1, extraEnergy := extra,
      batPower := batEnergy * env.tsPerHour / ((tsEnd : Int) : α) }

/-- excess branch of `charge_vehicles_during_core_standing_time`: body of
`for vehicle_id, delta_soc in self.extra_energy_per_vehicle.items()` -/
def excessVehicle (ops : Ops α B) (env : Env α) (dt : Int)
    (st : SWorld α B × List (String × α) × List (String × α)) (kv : String × α) :
    Py (SWorld α B × List (String × α) × List (String × α)) := do
  let v ← getVehicle st.1 kv.1
  match v.cs with
  | none => .ok st
  | some csId => do
    let cs ← getStation st.1 csId
    let gc ← getGc st.1 cs.parent
    let x ← getVx env v.id
    -- repaired (fixes/SCH2.diff): the search is bounded by the connector headroom
    let power ← simBalanced ops env cs v x dt (gc.curMax - gc.currentLoad) (some kv.2)
    let r ← ops.load v.bat env.interval none none (some power)
    let c := commit st.1 st.2.2 v r.1 cs gc csId r.2.1
    .ok (c.1, sdSet st.2.1 kv.1 (kv.2 - r.2.2), c.2)

/-- the re-queue test at the end of the `while` body of the on-schedule branch -/
def csRetry (ops : Ops α B) (env : Env α) (cs : StationS α) (v : VehicleS α B) (bat' : B)
    (csPower rem avg offered : α) (lo : List (String × α)) (vid : String) : Bool :=
  decide (env.eps < cs.maxPower - csPower ∧ cs.minPower ≤ rem ∧ v.minChargingPower ≤ rem ∧
    env.eps < v.desiredSoc - ops.soc bat' ∧
    (env.eps ≤ avg ∨ (match sdGet lo vid with | some x => x | none => -1) + env.eps < offered))

/-- `while len(vehicles) > 0:` of the on-schedule branch; state: iteration counter, queue,
`last_offer`, `extra_power`, `remaining_power_on_schedule`, world, commands -/
def csLoop (ops : Ops α B) (env : Env α) (fraction : α) (nVeh : Nat) (gid : String) :
    Nat → Nat → List (String × α) → List (String × α) → α → α → SWorld α B → List (String × α) →
    Py (SWorld α B × List (String × α))
  | _, _, [], _, _, _, w, cmds => .ok (w, cmds)
  | 0, _, _ :: _, _, _, _, _, _ => .error .fuel
  | f + 1, i, (vid, en) :: q, lo, extra, rem, w, cmds =>
    match getVehicle w vid with
    | .error e => .error e
    | .ok v =>
      match v.cs with
      | none => csLoop ops env fraction nVeh gid f (i + 1) q lo extra rem w cmds
      | some csId =>
        match getStation w csId with
        | .error e => .error e
        | .ok cs =>
          match getGc w gid with
          | .error e => .error e
          | .ok gc =>
            let alloc := fraction * en * env.tsPerHour + extra
            let offered := pymin rem alloc
            match ops.load v.bat env.interval none none (some (clampV cs v offered)) with
            | .error e => .error e
            | .ok r =>
              let avg := r.2.1
              let c := commit w cmds v r.1 cs gc csId avg
              if rem - avg < env.eps then .ok c
              else if decide (nVeh ≤ i + 1) && decide (pymax (alloc - avg) 0 < env.eps) then .ok c
              else if csRetry ops env cs v r.1 (gc.addLoad csId avg).2 (rem - avg) avg offered lo vid then
                csLoop ops env fraction nVeh gid f (i + 1) (q ++ [(vid, en)]) (sdSet lo vid offered)
                  (pymax (alloc - avg) 0) (rem - avg) c.1 c.2
              else csLoop ops env fraction nVeh gid f (i + 1) q lo (pymax (alloc - avg) 0) (rem - avg) c.1 c.2

/-- the excess branch (`power_to_charge_vehicles < self.EPS`) -/
def dcExcess (ops : Ops α B) (env : Env α) (w : SWorld α B) (st : CState α) (dtEnd : Int)
    (tsCharge : Nat) : Py (SWorld α B × CState α × List (String × α)) :=
  let dt := dtEnd - (tsCharge : Int) * env.interval
  match st.extraEnergy.foldlM (excessVehicle ops env dt) (w, st.extraEnergy, []) with
  | .error e => .error e
  | .ok r => .ok (r.1, { st with extraEnergy := r.2.1 }, r.2.2)

/-- `remaining_power_on_schedule` at the start of the on-schedule branch:
`min(gc.target − current load + min(bat_power_for_vehicles, Σ available battery power / ts_per_hour),
gc.cur_max_power − current load)` -/
def dcRemaining (ops : Ops α B) (env : Env α) (w : SWorld α B) (st : CState α) (gc : GcS α)
    (target : α) : Py α :=
  match w.batteries.mapM (fun b => ops.available b.bat env.interval) with
  | .error e => .error e
  | .ok avails =>
    -- repaired (fixes/SCH3.diff): `min(…, gc.cur_max_power − current load)`
    .ok (pymin (target - gc.currentLoad + pymin st.batPower (ops.sum avails / env.tsPerHour))
      (gc.curMax - gc.currentLoad))

/-- the on-schedule branch (`else:` — charge according to schedule) with `p` the power allotted to
this timestep -/
def dcOnSchedule (ops : Ops α B) (env : Env α) (w : SWorld α B) (st : CState α) (p : α) :
    Py (SWorld α B × CState α × List (String × α)) :=
  let fraction : α := if eqZero st.energyAvail then 0 else p / env.tsPerHour / st.energyAvail
  let vehicles := st.energyNeeded.mergeSort (fun a b => decide (a.2 ≤ b.2))
  match firstGcId w with
  | .error e => .error e
  | .ok gid =>
    match getGc w gid with
    | .error e => .error e
    | .ok gc =>
      match getGx env gid with
      | .error e => .error e
      | .ok x =>
        match (match x.target with
            | none =>
              -- `sum([b.get_available_power(...)])` is evaluated before `gc.target - …` raises
              (match w.batteries.mapM (fun b => ops.available b.bat env.interval) with
               | .error e => .error e
               | .ok _ => .error .typeError)
            | some target => dcRemaining ops env w st gc target : Py α) with
        | .error e => .error e
        | .ok remaining =>
          match csLoop ops env fraction vehicles.length gid env.retryFuel 0 vehicles [] 0 remaining w [] with
          | .error e => .error e
          | .ok r => .ok (r.1, st, r.2)

/-- the closing block of `charge_vehicles_during_core_standing_time`
(`if dt_to_end_core_standing_time <= self.interval:`) -/
def dcClose (ops : Ops α B) (env : Env α) (dtEnd : Int) (w : SWorld α B) (st : CState α) : CState α :=
  if dtEnd ≤ env.interval then
    { st with
      overcharge := st.overcharge ||
        !(w.vehicles.all (fun v => decide (v.desiredSoc - ops.soc v.bat < env.eps))),
      inCst := false }
  else st

/-- `Schedule.charge_vehicles_during_core_standing_time()` -/
def duringCst (ops : Ops α B) (env : Env α) (w : SWorld α B) (st : CState α) :
    Py (SWorld α B × CState α × List (String × α)) :=
  match dtToEnd env with
  | .error e => .error e
  | .ok dtEnd =>
    let tsCharge : Nat := (st.powerPerTS.filter (fun p => decide (env.eps < p))).length
    match st.powerPerTS with
    | [] => .error .indexError
    | p :: restP =>
      match (if p < env.eps then dcExcess ops env w { st with powerPerTS := restP } dtEnd tsCharge
             else dcOnSchedule ops env w { st with powerPerTS := restP } p) with
      | .error e => .error e
      | .ok r => .ok (r.1, dcClose ops env dtEnd r.1 r.2.1, r.2.2)

/-- body of the inner `for vehicle, cs in vehicles:` of `charge_vehicles` (surplus only) -/
def cvVehicle (ops : Ops α B) (env : Env α) (gid : String)
    (st : SWorld α B × List (String × α)) (kid : α × String) : Py (SWorld α B × List (String × α)) :=
  match getVehicle st.1 kid.2 with
  | .error e => .error e
  | .ok v =>
    match v.cs with
    | none => .error .keyError
    | some csId =>
      match getStation st.1 csId with
      | .error e => .error e
      | .ok cs =>
        match getGc st.1 gid with
        | .error e => .error e
        | .ok gc =>
          match ops.load v.bat env.interval (some (clampV cs v (pymax (-gc.currentLoad) 0)))
              (some v.desiredSoc) none with
          | .error e => .error e
          | .ok r => .ok (commit st.1 st.2 v r.1 cs gc csId r.2.1)

/-- `sorted(vehicles, key=self.sort_key)` with the keys `get_delta_soc() * capacity` -/
def cvSorted (ops : Ops α B) (w : SWorld α B) (vids : List String) : Py (List (α × String)) := do
  let keyed ← vids.mapM (fun id => do
    let v ← getVehicle w id
    pure ((v.desiredSoc - ops.soc v.bat) * ops.capacity v.bat, id))
  pure (keyed.mergeSort (fun a b => decide (a.1 ≤ b.1)))

/-- body of `for gc_id, vehicles in vehicles_at_gc.items():` -/
def cvGroup (ops : Ops α B) (env : Env α)
    (st : SWorld α B × List (String × α)) (grp : String × List String) :
    Py (SWorld α B × List (String × α)) :=
  match getGc st.1 grp.1 with
  | .error e => .error e
  | .ok gc =>
    match getGx env grp.1 with
    | .error e => .error e
    | .ok x =>
      match x.target with
      | none => .error .assertion
      | some target =>
        match cvSorted ops st.1 grp.2 with
        | .error e => .error e
        | .ok sorted =>
          if target - gc.currentLoad < env.eps ∨ ops.sum (sorted.map (·.1)) < env.eps then .ok st
          else sorted.foldlM (cvVehicle ops env grp.1) st

/-- `vehicles_at_gc`: the connected vehicles per connector, in dict order -/
def cvGroups (w : SWorld α B) : Py (List (String × List String)) :=
  w.vehicles.foldlM (fun (groups : List (String × List String)) v =>
      match v.cs with
      | none => .ok groups
      | some csId => do
        let cs ← getStation w csId
        match sdGet groups cs.parent with
        | none => .error .keyError
        | some l => pure (sdSet groups cs.parent (l ++ [v.id]))) (w.gcs.map (fun g => (g.id, [])))

/-- `Schedule.charge_vehicles()` (outside the core standing time) -/
def chargeVehicles (ops : Ops α B) (env : Env α) (w : SWorld α B) :
    Py (SWorld α B × List (String × α)) :=
  match cvGroups w with
  | .error e => .error e
  | .ok groups => groups.foldlM (cvGroup ops env) (w, [])

/-- body of the charging loop of `charge_vehicles_after_core_standing_time` -/
def acVehicle (ops : Ops α B) (env : Env α) (gid : String)
    (s : SWorld α B × List (String × α)) (v0 : VehicleS α B) : Py (SWorld α B × List (String × α)) :=
  match s.1.vehicle? v0.id with
  | none => .ok s
  | some v =>
    match v.cs with
    | none => .ok s
    | some csId =>
      match getStation s.1 csId with
      | .error e => .error e
      | .ok cs =>
        match v.etd with
        | none => .error .typeError
        | some etd =>
          match getGc s.1 gid with
          | .error e => .error e
          | .ok gc =>
            match getVx env v.id with
            | .error e => .error e
            | .ok x =>
              match simBalanced ops env cs v x (etd - env.nowI) (gc.curMax - gc.currentLoad) none with
              | .error e => .error e
              | .ok power =>
                match ops.load v.bat env.interval (some (clampV cs v power)) (some v.desiredSoc) none with
                | .error e => .error e
                | .ok r => .ok (commit s.1 s.2 v r.1 cs gc csId r.2.1)

/-- `Schedule.charge_vehicles_after_core_standing_time(charging_stations)` -/
def afterCst (ops : Ops α B) (env : Env α) (w : SWorld α B) (st : CState α)
    (cmds : List (String × α)) : Py (SWorld α B × CState α × List (String × α)) :=
  match firstGcId w with
  | .error e => .error e
  | .ok gid =>
    match getGc w gid with
    | .error e => .error e
    | .ok gc =>
      let powerNeeded := (w.vehicles.filter (fun v => v.cs.isSome)).map
        (fun v => (v.desiredSoc - ops.soc v.bat) * ops.capacity v.bat)
      if ops.sum powerNeeded < env.eps then .ok (w, { st with overcharge := false }, cmds)
      else if gc.curMax - gc.currentLoad < env.eps then .ok (w, st, cmds)
      else
        match w.vehicles.foldlM (acVehicle ops env gid) (w, cmds) with
        | .error e => .error e
        | .ok r => .ok (r.1, st, r.2)

/-! ### V2G pass of the core standing time -/

/-- `for w in self.charge_window:` — connected timesteps and number of window changes -/
def v2gScan (etd interval : Int) : List Bool → Int → Bool → List Bool → Nat → List Bool × Nat
  | [], _, _, acc, wc => (acc, wc)
  | wd :: rest, curTime, window, acc, wc =>
    let curTime := curTime + interval
    if etd < curTime then (acc, wc)
    else if wd != window then v2gScan etd interval rest curTime (!window) (acc ++ [wd]) (wc + 1)
    else v2gScan etd interval rest curTime window (acc ++ [wd]) wc

/-- the simulation inside the discharge-limit bisection -/
def v2gSimLimit (ops : Ops α B) (env : Env α) (cs : StationS α) (v : VehicleS α B) (gcCurMax mdp dl : α)
    (connected : List Bool) (bat : B) : Py B :=
  connected.foldlM (fun b chargeTS =>
    if chargeTS then do
      let r ← ops.load b env.interval (some (clampV cs v gcCurMax)) none none
      pure r.1
    else do
      let r ← ops.unload b env.interval (some (pymin cs.maxPower mdp)) (some dl) none
      pure r.1) bat

/-- `for _ in range(duration_current_window):` of the power bisection; returns the simulated battery
and `sufficiently_charged` -/
def v2gSimPower (ops : Ops α B) (env : Env α) (cs : StationS α) (v : VehicleS α B) (chargeNow : Bool)
    (mdp total desired : α) (dl : Option α) : Nat → B → Bool → Py (B × Bool)
  | 0, b, suff => .ok (b, suff)
  | n + 1, b, suff => do
    let b ← (if 0 < total then
        if chargeNow then do
          let r ← ops.load b env.interval (some (clampV cs v total)) none none
          pure r.1
        else do
          let r ← ops.unload b env.interval (some (pymin (clampV cs v total) mdp)) dl none
          pure r.1
      else pure b : Py B)
    if chargeNow then
      if desired ≤ ops.soc b then .ok (b, true) else v2gSimPower ops env cs v chargeNow mdp total desired dl n b suff
    else
      match dl with
      | none => .error .noneResult
      | some d =>
        if ops.soc b < d + env.eps then .ok (b, false)
        else v2gSimPower ops env cs v chargeNow mdp total desired dl n b suff

/-- `while max_power - min_power > self.EPS:` of the V2G pass; state: min, max, total_power,
simulated battery -/
def v2gPowerLoop (ops : Ops α B) (env : Env α) (cs : StationS α) (v : VehicleS α B) (chargeNow : Bool)
    (mdp desired : α) (dl : Option α) (dur : Nat) (bat0 : B) :
    Nat → α → α → α → B → Py α
  | fuel, mn, mx, total, sim =>
    if env.eps < mx - mn then
      match fuel with
      | 0 => .error .fuel
      | f + 1 => do
        let total := (mn + mx) / 2
        let suff := decide (desired ≤ ops.soc sim)
        let r ← v2gSimPower ops env cs v chargeNow mdp total desired dl dur bat0 suff
        if chargeNow then
          if r.2 then v2gPowerLoop ops env cs v chargeNow mdp desired dl dur bat0 f mn total total r.1
          else v2gPowerLoop ops env cs v chargeNow mdp desired dl dur bat0 f total mx total r.1
        else
          if r.2 then v2gPowerLoop ops env cs v chargeNow mdp desired dl dur bat0 f total mx total r.1
          else v2gPowerLoop ops env cs v chargeNow mdp desired dl dur bat0 f mn total total r.1
    else .ok total

/-- the `discharge_limit` a vehicle of the V2G pass works with (`prev` = the Python local as the
previous vehicle left it) -/
def v2gLimit (ops : Ops α B) (env : Env α) (chargeNow : Bool) (cs : StationS α) (v : VehicleS α B)
    (gcCurMax mdp : α) (connected : List Bool) (wc : Nat) (prev : Option α) : Py (Option α) :=
  if !chargeNow && decide (1 ≤ wc) then
    match bisectM (fun d =>
        match v2gSimLimit ops env cs v gcCurMax mdp d connected v.bat with
        | .error e => .error e
        | .ok b => .ok (!(decide (ops.soc b ≤ v.desiredSoc - env.eps)))) env.eps env.fuel v.dischargeLimit 1 none with
    | .error e => .error e
    | .ok (some d) => .ok (some d)
    | .ok none => .ok prev
  else if !chargeNow then .ok (some v.desiredSoc)
  else .ok prev

/-- the power `total_power` the V2G pass settles on for one vehicle (the `while max_power − min_power >
EPS` search); `diff` = `min(gc.target, gc.cur_max_power) − gc.get_current_load()` in a charge window,
`gc.target − gc.get_current_load()` in a discharge window -/
def v2gTotal (ops : Ops α B) (env : Env α) (chargeNow : Bool) (chargeWindow : List Bool)
    (cs : StationS α) (v : VehicleS α B) (mdp diff headNeg : α) (wc : Nat) (dl : Option α) : Py α :=
  let dur : Nat := match chargeWindow.findIdx? (fun b => b == !chargeNow) with
    | some i => i
    | none => chargeWindow.length
  -- repaired (fixes/SCH4.diff): a discharge window is bounded by `cur_max_power + load` (`headNeg`)
  let maxP : α := if chargeNow then pymax 0 diff else pymax 0 (pymin (pyabs diff) headNeg)
  let maxP := pymin cs.maxPower maxP
  match (if chargeNow then .ok (if wc == 0 then v.desiredSoc else 1)
      else if wc == 0 then .ok v.desiredSoc
      else match dl with
        | none => .error .noneResult
        | some d => .ok d : Py α) with
  | .error e => .error e
  | .ok desired => v2gPowerLoop ops env cs v chargeNow mdp desired dl dur v.bat env.fuel 0 maxP 0 v.bat

/-- "apply power" of the V2G pass: the real `load` / `unload` and the bookkeeping
(`commands[cs_id] = gc.add_load(cs_id, ±power)`, `cs.current_power ±= power`) -/
def v2gApply (ops : Ops α B) (env : Env α) (chargeNow : Bool)
    (w : SWorld α B) (cmds : List (String × α)) (v : VehicleS α B) (cs : StationS α) (gc : GcS α)
    (csId : String) (mdp : α) (dl : Option α) (total : α) : Py (SWorld α B × List (String × α)) :=
  if chargeNow then
    match (if total ≤ 0 then .ok (v.bat, 0)
        else match ops.load v.bat env.interval (some (clampV cs v total)) none none with
          | .error e => .error e
          | .ok r => .ok (r.1, r.2.1) : Py (B × α)) with
    | .error e => .error e
    | .ok r =>
      let gl := gc.addLoad csId r.2
      let w := (w.setVehicle { v with bat := r.1 }).setGc gl.1
      let w := w.setStation { cs with currentPower := cs.currentPower + r.2 }
      .ok (w, sdSet cmds csId gl.2)
  else
    match (if total ≤ 0 then .ok (v.bat, 0)
        else match ops.unload v.bat env.interval (some (pymin (clampV cs v total) mdp)) dl none with
          | .error e => .error e
          | .ok r => .ok (r.1, r.2.1) : Py (B × α)) with
    | .error e => .error e
    | .ok r =>
      let gl := gc.addLoad csId (-r.2)
      let w := (w.setVehicle { v with bat := r.1 }).setGc gl.1
      let w := w.setStation { cs with currentPower := cs.currentPower - r.2 }
      .ok (w, sdSet cmds csId gl.2)

/-- body of `for vehicle, vehicle_id in vehicles:` of the V2G pass; the third component is the
Python local `discharge_limit` -/
def v2gVehicle (ops : Ops α B) (env : Env α) (gid : String) (chargeNow : Bool)
    (chargeWindow : List Bool) (issues : List String)
    (st : SWorld α B × List (String × α) × Option α) (vid : String) :
    Py (SWorld α B × List (String × α) × Option α) :=
  if issues.contains vid then .ok st
  else
    match getVehicle st.1 vid with
    | .error e => .error e
    | .ok v =>
      match v.cs with
      | none => .error .keyError
      | some csId =>
        match getStation st.1 csId with
        | .error e => .error e
        | .ok cs =>
          match v.etd with
          | none => .error .typeError
          | some etd =>
            let mdp := ops.unloadMaxPower v.bat
            let sc := v2gScan etd env.interval chargeWindow (env.nowI - env.interval) chargeNow [] 0
            match getGc st.1 gid with
            | .error e => .error e
            | .ok gc =>
              match v2gLimit ops env chargeNow cs v gc.curMax mdp sc.1 sc.2 st.2.2 with
              | .error e => .error e
              | .ok dl =>
                match (match (if !chargeNow then
                        match dl with
                        | none => .error .noneResult
                        | some d => .ok (decide (ops.soc v.bat ≤ d))
                      else .ok false : Py Bool) with
                    | .error e => .error e
                    | .ok true => .ok none
                    | .ok false =>
                      match getGx env gid with
                      | .error e => .error e
                      | .ok x =>
                        match x.target with
                        | none => .error .typeError
                        | some target => .ok (some target) : Py (Option α)) with
                | .error e => .error e
                | .ok none => .ok (st.1, st.2.1, dl)
                | .ok (some target) =>
                  -- repaired (fixes/SCH3.diff): a charge window is bounded by `min(target, cur_max_power)`
                  match v2gTotal ops env chargeNow chargeWindow cs v mdp
                      (if chargeNow then pymin target gc.curMax - gc.currentLoad else target - gc.currentLoad)
                      (gc.curMax + gc.currentLoad) sc.2 dl with
                  | .error e => .error e
                  | .ok total =>
                    match v2gApply ops env chargeNow st.1 st.2.1 v cs gc csId mdp dl total with
                    | .error e => .error e
                    | .ok r => .ok (r.1, r.2, dl)

/-- `Schedule.charge_vehicles_during_core_standing_time_v2g(commands)` ↦ (world, state, the dict
the function returns) -/
def v2gCst (ops : Ops α B) (env : Env α) (w : SWorld α B) (st : CState α)
    (cmds : List (String × α)) : Py (SWorld α B × CState α × List (String × α)) := do
  let gid ← firstGcId w
  let vids := ((w.vehicles.filter (fun v => v.cs.isSome && v.v2g)).map (·.id)).mergeSort
    (fun a b => decide (a ≤ b))
  let issues := (st.extraEnergy.filter (fun kv => decide (env.eps < kv.2))).map (·.1)
  match st.chargeWindow with
  | [] => .error .indexError
  | chargeNow :: restW => do
    let r ← vids.foldlM (v2gVehicle ops env gid chargeNow st.chargeWindow issues) (w, cmds, none)
    .ok (r.1, { st with chargeWindow := restW }, r.2.1)

/-! ## step -/

/-- `Schedule.step()` ↦ (world', attributes', commands) -/
def step (ops : Ops α B) (env : Env α) (w : SWorld α B) (st : CState α) :
    Py (SWorld α B × CState α × List (String × α)) := do
  let w := resetStations w
  let r ← (if env.collective then do
      if (← dtWithinCoreStandingTime env.now env.cst) then do
        let st ← (if st.inCst then pure st else evaluate ops env w st)
        let r ← duringCst ops env w st
        if r.1.vehicles.any (·.v2g) then do
          let r2 ← v2gCst ops env r.1 r.2.1 r.2.2
          -- repaired (fixes/SCH1.diff): `step` uses the dict the V2G pass returns (the pass replaces an
          -- empty dict by a fresh one, so its commands used to be lost)
          pure r2
        else pure r
      else do
        let r ← chargeVehicles ops env w
        if st.overcharge then afterCst ops env r.1 st r.2 else pure (r.1, st, r.2)
    else do
      let r ← chargeIndividually ops env w
      pure (r.1, st, r.2) : Py (SWorld α B × CState α × List (String × α)))
  let w ← utilizeBatteries ops env r.1
  pure (w, r.2.1, r.2.2)

end
end SpiceEv.Sched
