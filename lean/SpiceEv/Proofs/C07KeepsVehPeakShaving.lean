/-
C07 — vehicle frame of the `peak_shaving` strategy's own step (`PeakShaving.step`, `PeakShaving.stepGc`,
Model/StratPeakShaving.lean): the step changes a vehicle only through its battery.  Same control flow as
`Proofs/C07KeepsPeakShaving.lean`; invariant `KeepsVeh.VInv K ids0` threaded through every function that returns /
updates a world (the accumulator `Acc`: `VInv K ids0 acc.world`).  Purely structural, instance-free, no extra hypotheses.

The only vehicle write of the model is `acc.world.setVehicle { v with bat := bat' }` in `applyVehicles`, with `v` the
*real* vehicle found by `acc.world.vehicle? vi.vid` — the simulated copy `vi.veh` (whose `desiredSoc` `scaleVehicle`
changes) is never written back, so no planning data has to be tracked.

Covered (one lemma each): `applyVehicles`, `applyPass`, `batteryStep`, the battery fold, `stepGc`, `step`.
(`initialArrivals`, `applyEvent`, `peek`, `lookAhead`, `forecast`, `orderVehicles`, `scaleVehicle`, `adjustVehicle`,
`adjustAll`, `fastCharge`, `batteryPlan`, `applyBattery`, `offerSurplus` return planning data / numbers / battery values
only.)  Nothing missing.
-/
import SpiceEv.Proofs.C07KeepsVeh
import SpiceEv.Model.StratPeakShaving
set_option linter.unusedSectionVars false
set_option linter.unusedSimpArgs false
set_option linter.unusedVariables false
namespace SpiceEv
namespace KeepsVeh
namespace PeakShaving
open SpiceEv.PeakShaving

variable {α B : Type} [Add α] [Sub α] [Mul α] [Div α] [Neg α] [LT α] [LE α]
  [DecidableLT α] [DecidableLE α] [OfNat α 0] [OfNat α 1] [NatCast α] [IntCast α]
variable {K : List (String × Option String × α × Option Int × α × Bool × α)} {ids0 : List String}

theorem applyVehicles_vinv (ops : Ops α B) (s0 : α) (vs : List (VInfo α B)) (used : α) (acc acc' : Acc α B)
    (hi : VInv K ids0 acc.world)
    (h : applyVehicles ops s0 vs used acc = .ok acc') : VInv K ids0 acc'.world := by
  induction vs generalizing used acc with
  | nil =>
    simp only [applyVehicles, Except.ok.injEq] at h
    subst h
    exact hi
  | cons vi rest ih =>
    unfold applyVehicles at h
    split at h
    · exact ih _ _ hi h
    · split at h
      · cases h
      · split at h
        · split at h
          · cases h
          · rename_i v hv
            split at h
            · cases h
            · rename_i bat' avg hl
              simp only at h
              refine ih _ _ ?_ h
              exact hi.setBat (hi.key_of_vehicle? hv) bat'
        · exact ih _ _ hi h

theorem applyPass_vinv (ops : Ops α B) (w : SWorld α B) (gc : GcS α) (ts : List (TS α))
    (vehicles : List (VInfo α B)) (acc : Acc α B)
    (hi : VInv K ids0 w)
    (h : applyPass ops w gc ts vehicles = .ok acc) : VInv K ids0 acc.world := by
  unfold applyPass at h
  split at h
  · split at h
    · cases h
    · exact applyVehicles_vinv ops _ vehicles 0 ⟨w, gc, []⟩ acc hi h
  · simp only [Except.ok.injEq] at h
    subst h
    exact hi

theorem batteryStep_vinv (ops : Ops α B) (env : Env α) (nAhead : Int) (gcId : String)
    (st st' : Acc α B × List (TS α)) (b0 : StatBatS α B) (hi : VInv K ids0 st.1.world)
    (h : batteryStep ops env nAhead gcId st b0 = .ok st') : VInv K ids0 st'.1.world := by
  unfold batteryStep at h
  split at h
  · simp only [Except.ok.injEq] at h; subst h; exact hi
  · split at h
    · simp only [Except.ok.injEq] at h; subst h; exact hi
    · rename_i b hb
      split at h
      · cases h
      · simp only at h
        split at h
        · cases h
        · split at h
          · cases h
          · rename_i bat' p hap
            simp only [Except.ok.injEq] at h
            subst h
            exact hi.setBattery _

/-- **peak_shaving, one connector.**  `step_gc` keeps the vehicle invariant. -/
theorem stepGc_vinv (ops : PeakShaving.Ops α B) (env : PeakShaving.Env α) (events : List (PeakShaving.Ev α))
    (w w' : SWorld α B) (gc : GcS α) (cmds : List (String × α)) (fc : List α)
    (hi : VInv K ids0 w)
    (h : PeakShaving.stepGc ops env events w gc = .ok (w', cmds, fc)) : VInv K ids0 w' := by
  unfold stepGc at h
  split at h
  · cases h
  · rename_i nAhead hn
    split at h
    · cases h
    · rename_i arr ts0 hfc
      split at h
      · cases h
      · rename_i ts vehicles hadj
        split at h
        · cases h
        · rename_i acc1 hap
          have i1 : VInv K ids0 acc1.world := applyPass_vinv ops w gc ts vehicles acc1 hi hap
          split at h
          · cases h
          · rename_i acc2 ts2 hfold
            simp only [Except.ok.injEq, Prod.mk.injEq] at h
            obtain ⟨rfl, -, -⟩ := h
            have i2 : VInv K ids0 acc2.world :=
              foldlM_inv _ (fun (st : Acc α B × List (TS α)) => VInv K ids0 st.1.world)
                (fun st b0 st' hst hf => batteryStep_vinv ops env nAhead gc.id st st' b0 hst hf)
                w.batteries (acc1, ts) (acc2, ts2) i1 hfold
            exact i2.setGc _

/-- **peak_shaving.**  The step keeps the vehicle invariant: vehicle ids in order, and every vehicle record carries the
non-battery data (id, `cs`, `desired_soc`, `etd`, type data) of a vehicle before the step. -/
theorem step_vinv (ops : PeakShaving.Ops α B) (env : PeakShaving.Env α) (events : List (PeakShaving.Ev α))
    (w w' : SWorld α B) (cmds : List (String × α)) (sched : List α)
    (hi : VInv K ids0 w) (h : PeakShaving.step ops env events w = .ok (w', cmds, sched)) : VInv K ids0 w' := by
  unfold PeakShaving.step at h
  refine foldlM_inv _ (fun (st : SWorld α B × List (String × α) × List α) => VInv K ids0 st.1) ?_
    w.gcs (w, [], []) (w', cmds, sched) hi h
  intro st g0 st' hst hf
  split at hf
  · simp only [Except.ok.injEq] at hf; subst hf; exact hst
  · rename_i gc hgc
    simp only [bind, Except.bind] at hf
    split at hf
    · cases hf
    · rename_i r hr
      obtain ⟨w1, cmds1, sched1⟩ := r
      simp only [Except.ok.injEq] at hf
      subst hf
      exact stepGc_vinv ops env events st.1 w1 gc cmds1 sched1 hst hr

theorem step_vkeeps (ops : PeakShaving.Ops α B) (env : PeakShaving.Env α) (events : List (PeakShaving.Ev α))
    (w w' : SWorld α B) (cmds : List (String × α)) (sched : List α)
    (h : PeakShaving.step ops env events w = .ok (w', cmds, sched)) :
    VehKeeps (w.vehicles.map vehKey) (w.vehicles.map (·.id)) w'.vehicles :=
  step_vinv ops env events w w' cmds sched (VInv.init w) h

end PeakShaving
end KeepsVeh
end SpiceEv
