/-
C14, third sentence ("with a station count configured, never more than that many vehicles are charged simultaneously
at that connector"), for the COMPLETE `Distributed.step` (Model/StratDistributed.lean): reset of the station powers,
look-ahead, ranking, the charging loop over all connectors and the final surplus pass.

Setting of the property: no stationary batteries (`gc_battery` empty), sub-strategies greedy / balanced; local
generation and V2G are allowed, so the final surplus pass (`distribute_surplus_power` over the holders) may book
power and is covered.  Well-formedness: the station ids and the vehicle ids of the world are distinct (dict keys).

* `C14_distributed_only_holders_charged`: a station that carries power after the step has a vehicle connected to it
  that holds a charging point of the station's connector (is among `candidates` of that connector with respect to the
  new `self.connected`; without `number_cs` every vehicle is a candidate);
* `C14_distributed_number_cs_complete`: with `number_cs = n` at connector `g` at most `n` stations of `g` carry power
  after the step.
-/
import SpiceEv.Proofs.StratDistributedNcs
import SpiceEv.Proofs.StratDistributedNcsToy
set_option linter.unusedSectionVars false
set_option linter.unusedVariables false
namespace SpiceEv
open SpiceEv.Distrib
variable {α : Type} [Field α] [LinearOrder α] [IsStrictOrderedRing α]

/-- **Only holders of a charging point are charged (complete step).** Whenever `Distributed.step` returns — no
stationary batteries, greedy / balanced sub-strategies, distinct station ids and distinct vehicle ids — every station
that carries power afterwards (`current_power ≠ 0`: charging or V2G discharging, booked by the sub-strategy of its
connector or by the final surplus pass) has a vehicle connected to it that holds a charging point of the station's
connector: its id is in `candidates` of that connector for the new `self.connected` (the ranking result). -/
theorem C14_distributed_only_holders_charged {B : Type} (dops : DOps α B) (de : DEnv α)
    (hd : de.deps.isRule) (ho : de.opps.isRule) (s s' : DState α B) (cmds : List (String × α))
    (hgcb : ∀ k, (sdGet s.init.gcBattery k).getD [] = [])
    (hstN : (s.world.stations.map (·.id)).Nodup) (hveN : (s.world.vehicles.map (·.id)).Nodup)
    (h : step dops de s = .ok (s', cmds)) :
    ∀ cs ∈ s'.world.stations, cs.currentPower ≠ 0 →
      ∃ v ∈ s'.world.vehicles, v.cs = some cs.id ∧
        ∃ cands, candidates s'.world s'.numberCs s'.connected cs.parent = .ok cands ∧ v.id ∈ cands := by
  obtain ⟨hn, hi, _, _⟩ := DistRun.step_ninv dops de hd ho s s' cmds hgcb hstN hveN h
  intro cs hcs hp
  have := DistRun.Good_congr _ s'.world s.numberCs s'.connected cs.id cs.parent hi.vm.symm (hi.good cs hcs hp)
  rw [hn]
  exact this

/-- **Station count (complete step).** Same setting; if connector `g` of the world has `number_cs = n`, then after
the complete step — charging loop and final surplus pass — at most `n` stations of `g` carry power: never more than
`number_cs` vehicles are charged (or discharged) simultaneously at that connector. -/
theorem C14_distributed_number_cs_complete {B : Type} (dops : DOps α B) (de : DEnv α)
    (hd : de.deps.isRule) (ho : de.opps.isRule) (s s' : DState α B) (cmds : List (String × α))
    (hgcb : ∀ k, (sdGet s.init.gcBattery k).getD [] = [])
    (hstN : (s.world.stations.map (·.id)).Nodup) (hveN : (s.world.vehicles.map (·.id)).Nodup)
    (h : step dops de s = .ok (s', cmds)) (g : String) (n : Int)
    (hn : (sdGet s.numberCs g).getD none = some n) (hg : g ∈ s.world.gcs.map (·.id)) :
    ((s'.world.stations.filter (fun cs => cs.parent == g && !(decide (cs.currentPower = 0)))).length : Int) ≤ n := by
  obtain ⟨_, hi, hr, hsN0⟩ := DistRun.step_ninv dops de hd ho s s' cmds hgcb hstN hveN h
  obtain ⟨x, hx, rfl⟩ := List.mem_map.mp hg
  obtain ⟨c, hc, hl⟩ := DistRun.candidates_of_rankOK s'.world s.numberCs s'.connected x.id n hn (hr x hx)
  have := DistRun.charged_count s'.world s.numberCs s'.connected x.id c
    (DistRun.nodup_of_smeta _ _ hi.sm hsN0) (DistRun.nodup_of_vmeta _ _ hi.vm hveN) hc
    (fun cs hcs hp => DistRun.Good_congr _ s'.world s.numberCs s'.connected cs.id cs.parent hi.vm.symm
      (hi.good cs hcs hp))
  omega

/-- Non-vacuity: the toy state `ncsState 30` (one opportunity connector GC1 with ONE charging point, 30 kW of local
generation, two connected vehicles that both want energy, `v1` holds the charging point) satisfies every premise of the
two theorems, the step returns, and afterwards exactly one station carries power: `v1` takes the 11 kW its station
allows, and although 19 kW of surplus remain the final pass does not charge `v2` (it holds no charging point). -/
example : (DistRun.runEnv 0).deps.isRule ∧ (DistRun.runEnv 0).opps.isRule ∧
    (∀ k, (sdGet (DistRun.ncsState 30).init.gcBattery k).getD [] = []) ∧
    ((DistRun.ncsState 30).world.stations.map (·.id)).Nodup ∧
    ((DistRun.ncsState 30).world.vehicles.map (·.id)).Nodup ∧
    (sdGet (DistRun.ncsState 30).numberCs "GC1").getD none = some 1 ∧
    "GC1" ∈ (DistRun.ncsState 30).world.gcs.map (·.id) ∧
    DistRun.ncsPowers 30 = some [("CS_a_opps", 11), ("CS_b_opps", 0)] :=
  ⟨⟨rfl, rfl⟩, ⟨rfl, rfl⟩, fun _ => rfl, by decide, by decide, by decide, by decide, by decide +kernel⟩

/-- Non-vacuity, without local generation: `v1` charges with the connector's 10 kW, `v2` waits. -/
example : DistRun.ncsPowers 0 = some [("CS_a_opps", 10), ("CS_b_opps", 0)] := by decide +kernel

/-- The bound of `C14_distributed_number_cs_complete` applied to the toy step (and attained: one station charges). -/
example (s' : DState ℚ ℚ) (cmds : List (String × ℚ))
    (h : step DistRun.runDOps (DistRun.runEnv 0) (DistRun.ncsState 30) = .ok (s', cmds)) :
    ((s'.world.stations.filter (fun cs => cs.parent == "GC1" && !(decide (cs.currentPower = 0)))).length : Int) ≤ 1 :=
  C14_distributed_number_cs_complete DistRun.runDOps (DistRun.runEnv 0) ⟨rfl, rfl⟩ ⟨rfl, rfl⟩ _ s' cmds
    (fun _ => rfl) (by decide) (by decide) h "GC1" 1 (by decide) (by decide)

end SpiceEv
