/-
C13 — the grid situation file: text handling of `util.read_grid_file` (and `util.sanitize`).

Property theorems only (lemmas: SpiceEv/Proofs/GridFile.lean).  The statements are about the
executable model SpiceEv/Model/GridFile.lean — file text → lines → `_csv` records → DictReader rows →
`float()` / `strptime` → the row loop — which the driver runs against the real function on generated
file texts inside check C13 (harness/c13_gridfile.py, exact stream).
-/
import SpiceEv.Proofs.GridFile
set_option linter.unusedSectionVars false
set_option linter.unusedSimpArgs false
set_option linter.unusedVariables false
namespace SpiceEv
open SpiceEv.GridFile

/-- **Well-formed file ⇒ the rows in file order with exact values.**  Let the csv records of the text
be `names :: rest` and `rows` the non-empty records of `rest` (DictReader skips empty lines).  If there
is at least one data row, every data row has a text in the columns `residual load` and `curtailment`
that `float()` accepts (`rowValues`: found BY NAME, the last column of that name), no first-row
timestamp is missing from a short row, and the curtailment values do not show both signs, then
`read_grid_file` returns: residual load = the parsed values of the rows in file order, curtailment =
their absolute values in file order (so both lists have one entry per non-empty data row), and the
start time = `strptime` of the first row's `timestamp` cell if that column exists and the text
matches `%Y-%m-%d %H:%M` and the date exists, else `None` (`startOf`) — never an error. -/
theorem C13_gridfile_wellformed (text : List Char) (names : List String) (rest : List (List String))
    (vals : List (FVal × FVal)) (row0 : List String) (rows' : List (List String))
    (hrec : readRecords text = .ok (names :: rest))
    (hrows : rest.filter (fun r => !r.isEmpty) = row0 :: rows')
    (hvals : (row0 :: rows').map (rowValues names) = vals.map some)
    (hts : ∀ row ∈ row0 :: rows', rowGet names row "timestamp" ≠ some none)
    (hsign : (∀ v ∈ vals, v.2.ltZero = false) ∨ (∀ v ∈ vals, v.2.gtZero = false)) :
    readGridFile text = .ok
      { residual := vals.map (·.1), curtailment := vals.map (fun v => v.2.abs),
        start := startOf names row0 } ∧
    (vals.map (·.1)).length = (row0 :: rows').length := by
  obtain ⟨a', h1, h2, h3, h4⟩ := rows_wellformed names (row0 :: rows') 0 Acc.init vals hvals hts (by
    rcases hsign with h | h
    · exact Or.inl ⟨rfl, h⟩
    · exact Or.inr ⟨rfl, h⟩)
  have hlen : vals.length = (row0 :: rows').length := by
    have := congrArg List.length hvals
    simpa using this.symm
  refine ⟨?_, by simpa using hlen⟩
  unfold readGridFile
  simp only [hrec, bind, Except.bind, dictRows, hrows, h1]
  have e2 : a'.residual = (vals.map (·.1)).reverse := by simpa [Acc.init] using h2
  have e3 : a'.curtailment = (vals.map (fun v => v.2.abs)).reverse := by simpa [Acc.init] using h3
  have e4 : a'.start = startOf names row0 := by simpa using h4
  simp [e2, e3, e4, pure, Except.pure]

/-- **The row loop ends in the value model of the schedule generator** (`ScheduleGen.readResidual` /
`readCurtailment`, the functions whose results C13's generator model consumes and which C13 ties to
the real function's lists): if every data row has a text in both columns (`RowTexts`: found by name,
no `None` timestamp) and every cell is a finite number or not a number at all (`cellRat`: `none` =
`float()` raises ValueError), then `read_grid_file` returns exactly the value model's lists — the
previous-value rule for non-numeric cells (0 in the first row), `abs`, and the sign assertion
included: it raises AssertionError iff the value model does. -/
theorem C13_gridfile_value_model (text : List Char) (names : List String) (rest : List (List String))
    (row0 : List String) (rows' : List (List String)) (cells : List (String × String))
    (hrec : readRecords text = .ok (names :: rest))
    (hrows : rest.filter (fun r => !r.isEmpty) = row0 :: rows')
    (hcells : List.Forall₂ (RowTexts names) (row0 :: rows') cells) :
    match ScheduleGen.readCurtailment (cells.map (fun p => cellRat p.2)) none false false with
    | .ok lc => readGridFile text = .ok
        { residual := (ScheduleGen.readResidual (cells.map (fun p => cellRat p.1)) none).map FVal.num,
          curtailment := lc.map FVal.num, start := startOf names row0 }
    | .error _ => readGridFile text = .error (.py .assertion) := by
  have key := rows_value_model names (row0 :: rows') cells hcells 0 Acc.init none none rfl rfl
  have hn : Acc.init.neg = false := rfl
  have hp : Acc.init.pos = false := rfl
  rw [hn, hp] at key
  have hclen : cells.length = (row0 :: rows').length := hcells.length_eq.symm
  cases hrc : ScheduleGen.readCurtailment (cells.map (fun p => cellRat p.2)) none false false with
  | error e =>
    rw [hrc] at key
    unfold readGridFile
    simp only [hrec, bind, Except.bind, dictRows, hrows]
    have : (List.zipIdx (row0 :: rows')).foldlM (rowStep names) Acc.init = .error (.py .assertion) := key
    rw [this]
  | ok lc =>
    rw [hrc] at key
    obtain ⟨a', h1, h2, h3, h4, h5⟩ := key
    have e2 : a'.residual
        = ((ScheduleGen.readResidual (cells.map (fun p => cellRat p.1)) none).map FVal.num).reverse := by
      simpa [Acc.init] using h2
    have e3 : a'.curtailment = (lc.map FVal.num).reverse := by simpa [Acc.init] using h3
    have e4 : a'.start = startOf names row0 := by simpa using h4
    have hl : a'.residual.length = a'.curtailment.length := by
      rw [e2, e3]; simp [readResidual_length, h5]
    unfold readGridFile
    simp only [hrec, bind, Except.bind, dictRows, hrows]
    have h1' : (List.zipIdx (row0 :: rows')).foldlM (rowStep names) Acc.init = .ok a' := h1
    rw [h1']
    have hl2 : (ScheduleGen.readResidual (cells.map (fun p => cellRat p.1)) none).length = lc.length := by
      rw [readResidual_length, h5]; simp
    simp [hl, hl2, e2, e3, e4, pure, Except.pure]

/-- **A data row is rejected exactly for the named malformed kinds** (`RowRejected`): the first
row's `timestamp` is `None` (row shorter than the header: `strptime(None, …)`, TypeError); the column
`residual load` / `curtailment` does not exist (KeyError) or is `None` in a short row (`float(None)`,
TypeError); or the curtailment value has the opposite sign of an earlier one (AssertionError).  In
particular a cell that `float()` rejects is NOT an error (the previous value, 0 in the first row, is
used), and neither is an unparsable or absent timestamp. -/
theorem C13_gridfile_row_rejected_iff (names : List String) (a : Acc) (row : List String) (idx : Nat) :
    (∃ e, rowStep names a (row, idx) = .error e) ↔ RowRejected names a row idx :=
  rowStep_error_iff names a row idx

/-- **Columns are found by name**: a row at least as long as the header has a text for every header
name; a name missing from the header is a KeyError whatever the row; the names a short row does not
reach are `None`. -/
theorem C13_gridfile_columns_by_name (names row : List String) (key : String) :
    (key ∈ names → names.length ≤ row.length → ∃ t, rowGet names row key = some (some t)) ∧
    (key ∉ names → rowGet names row key = none) ∧
    (key ∈ names.drop row.length → rowGet names row key = some none) :=
  ⟨rowGet_full names row key, rowGet_missing names row key, rowGet_short names row key⟩

/-- **No data row ⇒ UnboundLocalError** (as coded: `grid_start_time` is assigned inside the loop
only; fixes/GRID1.diff proposes `None`): an empty file, a header-only file, or a file whose further
lines are all empty. -/
theorem C13_gridfile_no_rows (text : List Char) (records : List (List String))
    (hrec : readRecords text = .ok records) (hrows : (dictRows records).2 = []) :
    readGridFile text = .error .unboundLocal := by
  unfold readGridFile
  simp only [hrec, bind, Except.bind]
  rcases hd : dictRows records with ⟨names, rows⟩
  rw [hd] at hrows
  simp only at hrows
  subst hrows
  simp [Acc.init, pure, Except.pure]

/-- **sanitize**: the result is the input without the characters of `chars` (of `</|\>:"?*` when
`chars` is empty): it contains none of them, keeps every other character in order (it is the filter,
hence a subsequence), and sanitising twice changes nothing. -/
theorem C13_gridfile_sanitize (s chars : List Char) :
    sanitize s chars = s.filter (fun c => !(banned chars).contains c) ∧
    (∀ c ∈ sanitize s chars, c ∉ banned chars ∧ c ∈ s) ∧
    (∀ c ∈ s, c ∉ banned chars → c ∈ sanitize s chars) ∧
    (sanitize s chars).Sublist s ∧
    sanitize (sanitize s chars) chars = sanitize s chars := by
  refine ⟨rfl, ?_, ?_, ?_, ?_⟩
  · intro c hc
    rw [sanitize_eq, List.mem_filter] at hc
    exact ⟨by simpa using hc.2, hc.1⟩
  · intro c hc hb
    rw [sanitize_eq, List.mem_filter]
    exact ⟨hc, by simpa using hb⟩
  · rw [sanitize_eq]; exact List.filter_sublist
  · simp [sanitize_eq, List.filter_filter]

/-! ## non-vacuity -/

/-- `C13_gridfile_wellformed` on a file with permuted columns, a quoted field, `\r\n` line ends, an
empty line and lenient date digits: values in file order, curtailment as absolute values, the start
time of 2020-01-05 07:03. -/
example :
    readGridFile "curtailment,timestamp,residual load\r\n-2,2020-1-5 7:3,\"1.5\"\r\n\r\n-0.25,x,1e1\r\n".toList
      = .ok { residual := [.num (3 / 2), .num 10], curtailment := [.num 2, .num (1 / 4)],
              start := some ((737429 : Int) * 86400000000 + 423 * 60000000) } := by
  decide +kernel

/-- the rejected kinds and the tolerated ones, on concrete texts: missing column → KeyError; short
row → TypeError; both signs → AssertionError; header only → UnboundLocalError; a non-numeric cell is
replaced by the previous value (0 first); an impossible date gives no start time. -/
example :
    readGridFile "residual,curtailment\n1,2\n".toList = .error (.py .keyError) ∧
    readGridFile "residual load,curtailment\n1\n".toList = .error (.py .typeError) ∧
    readGridFile "residual load,curtailment\n1,2\n3,-4\n".toList = .error (.py .assertion) ∧
    readGridFile "residual load,curtailment\n".toList = .error .unboundLocal ∧
    readGridFile "residual load,curtailment\nx,y\n1,2\nz,\n".toList
      = .ok { residual := [.num 0, .num 1, .num 1], curtailment := [.num 0, .num 2, .num 2], start := none } ∧
    readGridFile "timestamp,residual load,curtailment\n2021-02-29 00:00,1,2\n".toList
      = .ok { residual := [.num 1], curtailment := [.num 2], start := none } := by
  decide +kernel

/-- the hypotheses of `C13_gridfile_value_model` are satisfiable by rows with a non-numeric cell, and on
them the value model gives the previous-value result -/
example :
    List.Forall₂ (RowTexts ["residual load", "curtailment"]) [["x", "-2"], ["1.5", "y"]]
      [("x", "-2"), ("1.5", "y")] ∧
    ScheduleGen.readResidual ([("x", "-2"), ("1.5", "y")].map (fun p => cellRat p.1)) none = [0, 3 / 2] ∧
    ScheduleGen.readCurtailment ([("x", "-2"), ("1.5", "y")].map (fun p => cellRat p.2)) none false false
      = .ok [2, 2] := by
  refine ⟨List.Forall₂.cons ⟨by decide +kernel, by decide +kernel, by decide +kernel,
      Or.inl (by decide +kernel), Or.inr ⟨-2, by decide +kernel⟩⟩
    (List.Forall₂.cons ⟨by decide +kernel, by decide +kernel, by decide +kernel,
      Or.inr ⟨3 / 2, by decide +kernel⟩, Or.inl (by decide +kernel)⟩ List.Forall₂.nil),
    by decide +kernel, by decide +kernel⟩

/-- `sanitize` with the default set and with an explicit one -/
example : sanitize "a<b>/c:*".toList [] = "abc".toList ∧ sanitize "GC 1".toList [' '] = "GC1".toList := by
  decide +kernel

end SpiceEv
