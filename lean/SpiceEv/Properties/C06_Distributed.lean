/-
C06 for the charging strategy `distributed` (model: Model/StratDistributed.lean): what `Distributed.step` itself adds to
the sub-strategies' steps changes the world only through booked battery calls.

* final surplus pass: each call books exactly one battery call — the vehicle's battery becomes the call's result, and
  the connector entry under the station id, the station's power and the command all move by the call's signed
  average power (station entry at the connector moves in lock-step with the station power);
* battery support of an opportunity station: the limit is set back to the remembered value and the battery's
  `unload(target_power = max(load − limit, 0))` is booked under the battery id with its negative average power;
* a battery simulated as a virtual vehicle: its load is moved from the virtual station's key to the battery's key
  (the connector's total is unchanged) and the battery takes over the virtual vehicle's SoC;
* complete step: every connector's limit after the step is its limit before the step.
Not proved here (see notes): the equality "station entry at the connector = station power" as an invariant of the
complete step (it needs a key-frame lemma for the shared greedy / balanced model).
-/
import SpiceEv.Proofs.StratDistributedKeys
set_option linter.unusedSectionVars false
set_option linter.unusedVariables false
namespace SpiceEv
open SpiceEv.Distrib SpiceEv.Frame
variable {α : Type} [Field α] [LinearOrder α] [IsStrictOrderedRing α]

/-- **Final surplus pass: one call = at most one booked battery call.** Either nothing changes, or: the vehicle's
battery is replaced by the result of exactly one `load(max_power=p)` / `unload(max_power=p, target_soc=ts)` call
with average power `avg`; with `d = +avg` / `−avg` the connector's entry under the station id (0 if absent) becomes
`entry + d`, the connector's total becomes `load + d`, the station's power becomes `power + d`, the command for the
station is the new entry; limit, price and id of the connector are unchanged. -/
theorem C06_distributed_final_pass_booked {B : Type} (ops : BatOps α B) (law : BatLaw ops) (env : StratEnv α)
    (cheap : List (String × Bool)) (w w' : SWorld α B) (cmds cmds' : List (String × α)) (v : VehicleS α B)
    (h : surplusVehicle ops env cheap w cmds v = .ok (w', cmds')) :
    (w' = w ∧ cmds' = cmds) ∨
    ∃ csId cs gc bat' d, v.cs = some csId ∧ w.station? csId = some cs ∧ w.gc? cs.parent = some gc ∧
      ((∃ p, ops.load v.bat (some p) none none = .ok (bat', d)) ∨
       (∃ p ts avg, ops.unload v.bat (some p) (some ts) none = .ok (bat', avg) ∧ d = -avg)) ∧
      w' = (((w.setVehicle { v with bat := bat' }).setGc (gc.addLoad csId d).1).setStation
              { cs with currentPower := cs.currentPower + d }) ∧
      (sdGet (gc.addLoad csId d).1.loads csId).getD 0 = (sdGet gc.loads csId).getD 0 + d ∧
      (gc.addLoad csId d).1.currentLoad = gc.currentLoad + d ∧
      (gc.addLoad csId d).1.curMax = gc.curMax ∧
      cmds' = sdSet cmds csId ((sdGet gc.loads csId).getD 0 + d) := by
  rcases surplusVehicle_shape ops law env cheap w w' cmds cmds' v h with h0 | ⟨csId, cs, gc, bat', d, a1, a2, a3, hloc, a5, a6⟩
  · exact Or.inl h0
  · right
    obtain ⟨_, hsh⟩ := surplusLocal_shape ops law env _ v csId cs gc bat' d _ hloc
    obtain ⟨e1, e2⟩ := addLoad_entry gc csId d
    obtain ⟨l1, l2, _, _⟩ := addLoad_currentLoad gc csId d
    refine ⟨csId, cs, gc, bat', d, a1, a2, a3, ?_, a5, e1, l1, l2, by rw [a6, e2]⟩
    rcases hsh with ⟨p, hp, _⟩ | ⟨p, ts, avg, hu, hd, _⟩
    · exact Or.inl ⟨p, hp⟩
    · exact Or.inr ⟨p, ts, avg, hu, hd⟩

/-- **Battery support is booked with the signed average power, the limit is set back.** For a battery that raised the
limit (`b_id ∈ avail_bat_power`): the connector's limit becomes the remembered value `saved`, exactly one
`unload(target_power = max(load − saved, 0))` call is made on that battery, the battery becomes the call's result, the
connector's entry under the battery id moves by `−avg` and its total by `−avg`; commands are untouched. -/
theorem C06_distributed_support_booked {B : Type} (dops : DOps α B) (saved : α) (avail : List (String × α))
    (vveh : List (VehicleS α B)) (st st' : OppsPost α B) (bId : String) (p : α) (hp : sdGet avail bId = some p)
    (h : oppsAfter dops saved avail vveh st bId = .ok st') :
    ∃ b bat' avg, st.bats.find? (·.id == bId) = some b ∧
      dops.bat.unload b.bat none none (some (max (st.gc.currentLoad - saved) 0)) = .ok (bat', avg) ∧
      st'.gc.curMax = saved ∧ st'.gc.currentLoad = st.gc.currentLoad - avg ∧
      (sdGet st'.gc.loads bId).getD 0 = (sdGet st.gc.loads bId).getD 0 - avg ∧
      st'.cmds = st.cmds ∧
      st'.bats = st.bats.map (fun x => if x.id == bId then { b with bat := bat' } else x) := by
  obtain ⟨b, hb, hc⟩ := oppsAfter_shape dops saved avail vveh st st' bId h
  rcases hc with ⟨p', bat', avg, _, hu, hg, hcm, hbs⟩ | ⟨hn, _⟩ | ⟨_, _, hn, _⟩
  · obtain ⟨l1, l2, _, _⟩ := addLoad_currentLoad { st.gc with curMax := saved } bId (-avg)
    obtain ⟨e1, _⟩ := addLoad_entry { st.gc with curMax := saved } bId (-avg)
    refine ⟨b, bat', avg, hb, hu, ?_, ?_, ?_, hcm, hbs⟩
    · rw [hg, l2]
    · rw [hg, l1]; show st.gc.currentLoad + -avg = _; ring
    · rw [hg, e1]; show (sdGet st.gc.loads bId).getD 0 + -avg = _; ring
  · rw [hp] at hn; cases hn
  · rw [hp] at hn; cases hn

/-- **A battery simulated as a virtual vehicle: its load is moved, not changed.** For a battery that did not support
(`b_id ∉ avail_bat_power`): either nothing happens (no command for its virtual station), or the load booked by the
sub-strategy under the virtual station's key is moved to the battery's key — the connector's total, limit and id are
unchanged —, the command is removed, and the battery takes over the virtual vehicle's SoC. -/
theorem C06_distributed_virtual_moved {B : Type} (dops : DOps α B) (saved : α) (avail : List (String × α))
    (vveh : List (VehicleS α B)) (st st' : OppsPost α B) (bId : String) (hp : sdGet avail bId = none)
    (h : oppsAfter dops saved avail vveh st bId = .ok st') :
    st' = st ∨
    ∃ b val vv, st.bats.find? (·.id == bId) = some b ∧ sdGet st.gc.loads (virtName bId) = some val ∧
      vveh.find? (·.id == bId) = some vv ∧
      st'.gc.currentLoad = st.gc.currentLoad ∧ st'.gc.curMax = st.gc.curMax ∧ st'.gc.id = st.gc.id ∧
      st'.cmds = sdErase st.cmds (virtName bId) ∧
      st'.bats = st.bats.map (fun x => if x.id == bId then
        { b with bat := dops.setSoc b.bat (dops.bat.soc vv.bat) } else x) := by
  obtain ⟨b, hb, hc⟩ := oppsAfter_shape dops saved avail vveh st st' bId h
  rcases hc with ⟨p', _, _, hs, _⟩ | ⟨_, _, he⟩ | ⟨val, vv, _, hval, hvv, hg, hcm, hbs⟩
  · rw [hp] at hs; cases hs
  · exact Or.inl he
  · right
    obtain ⟨l1, l2, l3, _⟩ := addLoad_currentLoad { st.gc with loads := sdErase st.gc.loads (virtName bId) } bId val
    have hcl : GcS.currentLoad { st.gc with loads := sdErase st.gc.loads (virtName bId) }
        = st.gc.currentLoad - val := by
      unfold GcS.currentLoad
      exact currentLoad_erase _ _ _ hval
    refine ⟨b, val, vv, hb, hval, hvv, ?_, ?_, ?_, hcm, hbs⟩
    · rw [hg, l1, hcl]; ring
    · rw [hg, l2]
    · rw [hg, l3]

/-- **Limits restored (complete step).** Under the hypotheses of `C04_distributed_upper`, every connector after
`Distributed.step` is a connector of the world before the step with the same id and the same limit. -/
theorem C06_distributed_limits_restored {B : Type} (dops : DOps α B) (law : BatLaw dops.bat)
    (hex : UnloadExact dops.bat) (htot : AvailTotal dops.bat) (de : DEnv α)
    (hed : 0 ≤ de.deps.eps) (heo : 0 ≤ de.opps.eps) (he : 0 ≤ de.env.eps)
    (hd : de.deps.isRule) (ho : de.opps.isRule)
    (s s' : DState α B) (cmds : List (String × α))
    (hgb : ∀ g, ((sdGet s.init.gcBattery g).getD []).Nodup)
    (hmin : ∀ b ∈ s.world.batteries, 0 ≤ b.minChargingPower)
    (h0 : ∀ g ∈ s.world.gcs, 0 ≤ g.curMax ∧ g.currentLoad ≤ g.curMax)
    (h : step dops de s = .ok (s', cmds)) :
    ∀ g' ∈ s'.world.gcs, ∃ g ∈ s.world.gcs, g'.id = g.id ∧ g'.curMax = g.curMax := by
  unfold step at h
  simp only [bind, Except.bind] at h
  split at h
  · cases h
  · rename_i lk _
    split at h
    · cases h
    · rename_i connected _
      split at h
      · cases h
      · rename_i st1 hfold
        obtain ⟨w1, ini1, c1⟩ := st1
        simp only at h
        split at h
        · cases h
        · rename_i ids _
          split at h
          · cases h
          · rename_i r hsur
            obtain ⟨w2, c2⟩ := r
            simp only [Except.ok.injEq, Prod.mk.injEq] at h
            obtain ⟨rfl, _⟩ := h
            have hinv0 : StepInv s.world s.init.gcBattery (resetStations s.world, s.init, []) :=
              ⟨h0, sameMeta_of_gcs_eq rfl, rfl, hmin, rfl⟩
            have hinv1 := stepGc_fold dops law hex htot de hed heo hd ho s.numberCs connected lk s.world
              s.init.gcBattery hgb _ _ (w1, ini1, c1) hinv0 hfold
            obtain ⟨_, same2, _⟩ := distributeSurplusOn_inv dops.bat law de.env he w1 w2 ids c2 hinv1.ok hsur
            intro g' hg'
            obtain ⟨g, hg, e1, _, e3⟩ := (hinv1.same.trans same2) g' hg'
            exact ⟨g, hg, e1, e3⟩

/-- **The delegated step books every station's power at its connector.** Whenever a greedy / balanced sub-strategy
step runs on a (virtual) world in which no connector carries an entry under one of its stations' ids — the base step
removed the station entries, `Distributed.step` reset the station powers — and no battery id is a station id, then
afterwards every station's entry at its connector equals the station's power (`Booked`).  By
`C14_distributed_deps_is_substep` / `…_opps_is_substep` this is the state of a connector's virtual world when its
treatment hands the objects back. -/
theorem C06_distributed_substep_booked {B : Type} (rule : Rule) (ops : BatOps α B) (law : BatLaw ops)
    (env : StratEnv α) (w w' : SWorld α B) (cmds : List (String × α))
    (hno : ∀ s ∈ w.stations, ∀ g ∈ w.gcs, g.id = s.parent → (sdGet g.loads s.id).getD 0 = 0)
    (hd : ∀ s ∈ w.stations, ∀ b ∈ w.batteries, s.id ≠ b.id)
    (h : ruleStep rule ops env w = .ok (w', cmds)) :
    ∀ s ∈ w'.stations, ∀ g ∈ w'.gcs, g.id = s.parent → (sdGet g.loads s.id).getD 0 = s.currentPower :=
  (ruleStep_booked rule ops law env w w' cmds hno hd h).1

/-- **After the repair DIST2 every station of a connector's virtual world carries what is booked for it — for every
sub-strategy** (greedy, balanced, peak_shaving, …: the statement is about the assignment itself): with `g` the
connector of the virtual world, every station's power equals its entry at `g` (0 if absent). -/
theorem C06_distributed_sync_booked {B : Type} (vw : SWorld α B) (g : GcS α) (hg : vw.gcs = [g]) :
    ∀ s ∈ (syncStations vw).stations, (sdGet g.loads s.id).getD 0 = s.currentPower :=
  syncStations_booked vw g hg

/-- **The final surplus pass keeps "station entry = station power".** -/
theorem C06_distributed_final_pass_keeps_booked {B : Type} (ops : BatOps α B) (law : BatLaw ops)
    (env : StratEnv α) (w w' : SWorld α B) (ids : List String) (cmds' : List (String × α))
    (hb : ∀ s ∈ w.stations, ∀ g ∈ w.gcs, g.id = s.parent → (sdGet g.loads s.id).getD 0 = s.currentPower)
    (hd : ∀ s ∈ w.stations, ∀ b ∈ w.batteries, s.id ≠ b.id)
    (h : distributeSurplusOn ops env w ids = .ok (w', cmds')) :
    ∀ s ∈ w'.stations, ∀ g ∈ w'.gcs, g.id = s.parent → (sdGet g.loads s.id).getD 0 = s.currentPower :=
  (distributeSurplusOn_booked ops law env w w' ids cmds' ⟨hb, hd⟩ h).1

/-- **After the complete step every station's entry at its connector equals the station's power** (repaired model,
fixes/DIST2.diff) — for sub-strategies greedy, balanced, peak_shaving, peak_load_window.  With the premises of
`C05_distributed_station_upper` (distinct connector ids, maxima ≥ 0, no station / virtual-station entries at the beginning,
`gc_battery` ids are no station ids, virtual stations belong to their battery's connector, `SideOK`) and additionally: no
station id is the id of a stationary battery of the world, no virtual station's name `stationary_<b>` is a station id
(`LoopHyp2`), and — a premise for a peak_shaving / peak_load_window sub-strategy only (`SideKF`; proved for greedy /
balanced: `ruleStep_keyFrame`) — the sub-strategy's step changes connector entries only under the ids of the stations and
batteries of its virtual world and keeps the station ids and battery ids.
Then after `Distributed.step`: for every station `s` and every connector `g` with `g.id = s.parent`, the entry of `g`
under `s.id` (0 if absent) is `s.current_power` — the loop over the connectors (write-back of every virtual world, DIST2,
battery support / virtual-vehicle bookkeeping of opportunity stations) and the final surplus pass included. -/
theorem C06_distributed_booked {B : Type} (dops : DOps α B) (law : BatLaw dops.bat) (de : DEnv α)
    (hsd : SideOK dops de.deps de) (hso : SideOK dops de.opps de)
    (hkd : SideKF dops de.deps de) (hko : SideKF dops de.opps de)
    (s s' : DState α B) (cmds : List (String × α))
    (hgnd : (s.world.gcs.map (·.id)).Nodup)
    (hmax : ∀ st ∈ s.world.stations, 0 ≤ st.maxPower) (hvirt : ∀ st ∈ s.init.virtualCs, 0 ≤ st.maxPower)
    (hyp : LoopHyp (resetStations s.world) s.init (s.world.stations.map (·.id)))
    (hyp2 : LoopHyp2 s.init (s.world.stations.map (·.id)) (s.world.batteries.map (·.id)))
    (h : step dops de s = .ok (s', cmds)) :
    ∀ st ∈ s'.world.stations, ∀ g ∈ s'.world.gcs, g.id = st.parent → (sdGet g.loads st.id).getD 0 = st.currentPower :=
  (step_booked dops law de hsd hso hkd hko s s' cmds hgnd hmax hvirt hyp hyp2 h).1

/-- the same for sub-strategies greedy / balanced (no premise on the sub-strategies) -/
theorem C06_distributed_booked_rule {B : Type} (dops : DOps α B) (law : BatLaw dops.bat) (de : DEnv α)
    (hd : de.deps.isRule) (ho : de.opps.isRule)
    (s s' : DState α B) (cmds : List (String × α))
    (hgnd : (s.world.gcs.map (·.id)).Nodup)
    (hmax : ∀ st ∈ s.world.stations, 0 ≤ st.maxPower) (hvirt : ∀ st ∈ s.init.virtualCs, 0 ≤ st.maxPower)
    (hyp : LoopHyp (resetStations s.world) s.init (s.world.stations.map (·.id)))
    (hyp2 : LoopHyp2 s.init (s.world.stations.map (·.id)) (s.world.batteries.map (·.id)))
    (h : step dops de s = .ok (s', cmds)) :
    ∀ st ∈ s'.world.stations, ∀ g ∈ s'.world.gcs, g.id = st.parent → (sdGet g.loads st.id).getD 0 = st.currentPower :=
  C06_distributed_booked dops law de (by simp [SideOK, hd.1, hd.2]) (by simp [SideOK, ho.1, ho.2])
    (by simp [SideKF, hd.1, hd.2]) (by simp [SideKF, ho.1, ho.2]) s s' cmds hgnd hmax hvirt hyp hyp2 h

/-- Non-vacuity of `C06_distributed_booked`: `toyState` meets every premise and the step returns. -/
example : ∃ s' cmds, step (toyDOps 5) toyEnv toyState = .ok (s', cmds) ∧
    ∀ st ∈ s'.world.stations, ∀ g ∈ s'.world.gcs, g.id = st.parent → (sdGet g.loads st.id).getD 0 = st.currentPower := by
  have hok : (step (toyDOps 5) toyEnv toyState).toBool = true := by decide +kernel
  cases h : step (toyDOps 5) toyEnv toyState with
  | error e => rw [h] at hok; cases hok
  | ok r =>
    obtain ⟨s', cmds⟩ := r
    obtain ⟨hyp, hnd, hmax, hvirt⟩ := toyState_loopHyp
    exact ⟨s', cmds, rfl, C06_distributed_booked_rule (toyDOps 5) (toyOps_law 5 (by norm_num)) toyEnv ⟨rfl, rfl⟩
      ⟨rfl, rfl⟩ toyState s' cmds hnd hmax hvirt hyp toyState_loopHyp2 h⟩

/-- Non-vacuity of the two booking theorems: after the step on `toyState` (whose connectors carry no station
entries before) every station's entry equals its power: CS_v1_opps 11 = 11, CS_v2_deps 11 = 11. -/
example : (match step (toyDOps 5) toyEnv toyState with
    | .ok (s', _) => s'.world.stations.map (fun (st : StationS ℚ) =>
        (st.currentPower, (s'.world.gcs.filter (fun g => g.id == st.parent)).map
          (fun (g : GcS ℚ) => (sdGet g.loads st.id).getD 0)))
    | .error _ => []) = [(11, [11]), (11, [11])] := by
  decide +kernel

/-- Non-vacuity (support booking): in `toyState` the battery BAT supports GC1 — after the step the connector carries
the entry `("BAT", −5)` next to `("CS_v1_opps", 11)`, and its limit is 10 again. -/
example : (match step (toyDOps 5) toyEnv toyState with
    | .ok (s', _) => s'.world.gcs.map (fun (g : GcS ℚ) => (g.curMax, g.loads))
    | .error _ => []) =
    [(10, [("load", 4), ("CS_v1_opps", 11), ("BAT", -5)]), (20, [("CS_v2_deps", 11)])] := by
  decide +kernel

end SpiceEv
