/-
C17 (termination) for the WHOLE step of the model of `peak_load_window` (Model/StratPeakLoadWindow.lean):
`PeakLoadWindow.stepGc` / `PeakLoadWindow.step` never answer with the model's own `FUEL` marker.

The three fuel-guarded loops and the fuel the model really gives them:
  * `windowScan`  — called from `stepGc` with `scanFuel env` (steps to `stop_time` + 2), start `now + interval`, counter 1:
                    sufficient when `0 < env.interval` (`scan_fuel_suffices`);
  * `searchLoop`  — called from `planOutside` with `searchFuel` = 8, `step = (maxCv − balanced)/3`, `first = true`:
                    always sufficient (`search_fuel_suffices`);
  * `bisectLoop`  — called from `planInside` with `env.bisectFuel` and the bracket
                    `lo = min(ts.power for ts in connected)`, `hi = max(ts.max_power for ts in connected)`,
                    `connected = timesteps[:depart_idx]`: sufficient when `hi − lo ≤ 2^bisectFuel · EPS`.

`timesteps` is the prognosis built by `buildTimesteps` from the event table and the connector's loads / limit, to
which the vehicle loop adds the planned levels of the vehicles handled before (`addLevels`).  The levels are results
of `battery.load`, so they are non-negative under the battery law `BatLaw`; hence a box `L ≤ power`, `max_power ≤ H`
around the INITIAL prognosis (`TsBound`) is kept by the whole vehicle loop, and `H − L ≤ 2^bisectFuel · EPS` bounds
every bracket (`Bracket`).
-/
import SpiceEv.Proofs.StratPeakLoadWindow
set_option linter.unusedSectionVars false
set_option linter.unusedSimpArgs false
set_option linter.unusedVariables false
namespace SpiceEv.PeakLoadWindow
open SpiceEv
variable {α B : Type} [Field α] [LinearOrder α] [IsStrictOrderedRing α]

/-! ### generic -/

theorem noFuel_err {β : Type} {e : PyErr} (h : e ≠ .fuel) : NoFuel (.error e : Py β) := by
  intro hc; cases hc; exact h rfl

theorem foldlM_noFuel {β σ : Type} (f : σ → β → Py σ) (l : List β)
    (hf : ∀ s, ∀ a ∈ l, NoFuel (f s a)) (s : σ) : NoFuel (l.foldlM f s) := by
  induction l generalizing s with
  | nil => simp [NoFuel, List.foldlM, pure, Except.pure]
  | cons a rest ih =>
    rw [List.foldlM_cons]
    exact noFuel_bind _ _ (hf s a (List.mem_cons_self ..))
      (fun s' _ => ih (fun s b hb => hf s b (List.mem_cons_of_mem _ hb)) s')

theorem getAt_noFuel {β : Type} (l : List β) (i : Nat) : NoFuel (getAt l i) := by
  unfold getAt; split
  · exact noFuel_ok _
  · exact noFuel_err (by simp)

theorem fdiv_noFuel (a b : α) : NoFuel (fdiv a b) := by
  unfold fdiv; split
  · exact noFuel_err (by simp)
  · exact noFuel_ok _

/-! ### the passes without a loop of their own -/

theorem constPass_noFuel (ops : BatOps α B) (hf : OpsNoFuel ops) (tsPerHour : α) (cs : StationS α)
    (vmin desired : α) :
    ∀ (l : List (Ts α)) (i : Nat) (st : Plan α B × Int),
      NoFuel (constPass ops tsPerHour cs vmin desired l i st) := by
  intro l
  induction l with
  | nil => intro i st; exact noFuel_ok _
  | cons ts rest ih =>
    intro i st
    unfold constPass
    split
    · exact ih _ _
    · apply noFuel_bind _ _ (fdiv_noFuel _ _)
      intro power _
      apply noFuel_bind _ _ (fdiv_noFuel _ _)
      intro pe _
      apply noFuel_bind _ _ (chargeVehicle_noFuel ops hf _ _ _ _ _)
      intro x _
      exact ih _ _

theorem shavePass_noFuel (ops : BatOps α B) (hf : OpsNoFuel ops) (tsPerHour : α) (cs : StationS α)
    (vmin desired peak : α) :
    ∀ (l : List (Ts α)) (i : Nat) (st : Plan α B),
      NoFuel (shavePass ops tsPerHour cs vmin desired peak l i st) := by
  intro l
  induction l with
  | nil => intro i st; exact noFuel_ok _
  | cons ts rest ih =>
    intro i st
    unfold shavePass
    split
    · apply noFuel_bind _ _ (getAt_noFuel _ _)
      intro lvl _
      apply noFuel_bind _ _ (hf.load _ _ _ _)
      intro x _
      exact ih _ _
    · apply noFuel_bind _ _ (fdiv_noFuel _ _)
      intro need _
      apply noFuel_bind _ _ (chargeVehicle_noFuel ops hf _ _ _ _ _)
      intro x _
      exact ih _ _

theorem maxPowerOf_noFuel (l : List α) : NoFuel (maxPowerOf l) := by
  unfold maxPowerOf; split
  · exact noFuel_err (by simp)
  · exact noFuel_ok _

/-- first stage of the vehicle body: the search loop gets `searchFuel`, which always suffices -/
theorem planOutside_noFuel (ops : BatOps α B) (hf : OpsNoFuel ops) (env : PEnv α) (cs : StationS α)
    (pv : PVeh α B) (connected : List (Ts α)) (n : Nat) :
    NoFuel (planOutside ops env cs pv connected n) := by
  unfold planOutside
  dsimp only
  apply noFuel_bind
  · split
    · apply noFuel_bind _ _ (fdiv_noFuel _ _)
      intro a _
      exact fdiv_noFuel _ _
    · exact noFuel_ok _
  · intro balanced _
    split
    · split
      · apply noFuel_bind _ _ (maxPowerOf_noFuel _)
        intro mx _
        exact search_fuel_suffices ops hf env.eps cs _ _ _ balanced _ connected _
      · apply noFuel_bind _ _ (constPass_noFuel ops hf _ _ _ _ _ _ _)
        intro r _
        exact noFuel_ok _
    · exact noFuel_ok _

/-! ### the box around the prognosis -/

/-- every timestep of the prognosis has `L ≤ power` and `max_power ≤ H` -/
def TsBound (L H : α) (l : List (Ts α)) : Prop := ∀ t ∈ l, L ≤ t.power ∧ t.maxPower ≤ H

theorem TsBound.take {L H : α} {l : List (Ts α)} (h : TsBound L H l) (n : Nat) : TsBound L H (l.take n) :=
  fun t ht => h t (List.mem_of_mem_take ht)

theorem TsBound.drop {L H : α} {l : List (Ts α)} (h : TsBound L H l) (n : Nat) : TsBound L H (l.drop n) :=
  fun t ht => h t (List.mem_of_mem_drop ht)

theorem TsBound.append {L H : α} {l l' : List (Ts α)} (h : TsBound L H l) (h' : TsBound L H l') :
    TsBound L H (l ++ l') := by
  intro t ht
  rcases List.mem_append.mp ht with ht | ht
  · exact h t ht
  · exact h' t ht

theorem foldl_pymin_ge (L : α) (l : List (Ts α)) (m : α) (hm : L ≤ m) (hl : ∀ t ∈ l, L ≤ t.power) :
    L ≤ l.foldl (fun m x => pymin m x.power) m := by
  induction l generalizing m with
  | nil => exact hm
  | cons t rest ih =>
    simp only [List.foldl_cons]
    apply ih
    · rw [pymin_eq]; exact le_min hm (hl t (List.mem_cons_self ..))
    · intro t' ht'; exact hl t' (List.mem_cons_of_mem _ ht')

theorem foldl_pymax_le (H : α) (l : List (Ts α)) (m : α) (hm : m ≤ H) (hl : ∀ t ∈ l, t.maxPower ≤ H) :
    l.foldl (fun m x => pymax m x.maxPower) m ≤ H := by
  induction l generalizing m with
  | nil => exact hm
  | cons t rest ih =>
    simp only [List.foldl_cons]
    apply ih
    · rw [pymax_eq]; exact max_le hm (hl t (List.mem_cons_self ..))
    · intro t' ht'; exact hl t' (List.mem_cons_of_mem _ ht')

theorem minPower_ge {L H : α} {l : List (Ts α)} (h : TsBound L H l) {lo : α} (hlo : minPower l = .ok lo) :
    L ≤ lo := by
  unfold minPower at hlo
  split at hlo
  · cases hlo
  · rename_i t ts
    simp only [Except.ok.injEq] at hlo
    subst hlo
    exact foldl_pymin_ge L ts t.power (h t (List.mem_cons_self ..)).1
      (fun t' ht' => (h t' (List.mem_cons_of_mem _ ht')).1)

theorem maxMaxPower_le {L H : α} {l : List (Ts α)} (h : TsBound L H l) {hi : α} (hhi : maxMaxPower l = .ok hi) :
    hi ≤ H := by
  unfold maxMaxPower at hhi
  split at hhi
  · cases hhi
  · rename_i t ts
    simp only [Except.ok.injEq] at hhi
    subst hhi
    exact foldl_pymax_le H ts t.maxPower (h t (List.mem_cons_self ..)).2
      (fun t' ht' => (h t' (List.mem_cons_of_mem _ ht')).2)

theorem minPower_noFuel (l : List (Ts α)) : NoFuel (minPower l) := by
  unfold minPower; split
  · exact noFuel_err (by simp)
  · exact noFuel_ok _

theorem maxMaxPower_noFuel (l : List (Ts α)) : NoFuel (maxMaxPower l) := by
  unfold maxMaxPower; split
  · exact noFuel_err (by simp)
  · exact noFuel_ok _

/-- second stage of the vehicle body: the bisection gets `env.bisectFuel` and the bracket
`[min power, max max_power]` of `connected`, which lies inside the box `[L, H]` -/
theorem planInside_noFuel (ops : BatOps α B) (hf : OpsNoFuel ops) (env : PEnv α) (heps : 0 < env.eps)
    (cs : StationS α) (pv : PVeh α B) (connected : List (Ts α)) (peak : α) (pl1 : Plan α B) (L H : α)
    (hb : TsBound L H connected) (hLH : H - L ≤ (2 : α) ^ env.bisectFuel * env.eps) :
    NoFuel (planInside ops env cs pv connected peak pl1) := by
  unfold planInside
  dsimp only
  split
  · apply noFuel_bind _ _ (shavePass_noFuel ops hf _ _ _ _ _ _ _ _)
    intro pl2 _
    split
    · apply noFuel_bind _ _ (minPower_noFuel _)
      intro lo hlo
      apply noFuel_bind _ _ (maxMaxPower_noFuel _)
      intro hi hhi
      apply bisect_fuel_suffices ops hf env.eps heps
      have h1 := minPower_ge hb hlo
      have h2 := maxMaxPower_le hb hhi
      linarith
    · exact noFuel_ok _
  · exact noFuel_ok _

/-! ### adding the levels keeps the box -/

theorem addLevels_noFuel (eps : α) (levels : List α) :
    ∀ (l : List (Ts α)) (i : Nat) (peak : α), NoFuel (addLevels eps levels l i peak) := by
  intro l
  induction l with
  | nil => intro i peak; exact noFuel_ok _
  | cons ts rest ih =>
    intro i peak
    unfold addLevels
    apply noFuel_bind _ _ (getAt_noFuel _ _)
    intro lvl _
    apply noFuel_bind _ _ (ih _ _)
    intro x _
    exact noFuel_ok _

theorem addLevels_bound (eps : α) (levels : List α) (hl : ∀ x ∈ levels, 0 ≤ x) (L H : α) :
    ∀ (l : List (Ts α)) (i : Nat) (peak : α) (l' : List (Ts α)) (peak' : α), TsBound L H l →
      addLevels eps levels l i peak = .ok (l', peak') → TsBound L H l' := by
  intro l
  induction l with
  | nil =>
    intro i peak l' peak' _ h
    have := addLevels_nil _ _ _ _ _ _ h
    subst this
    intro t ht; simp at ht
  | cons ts rest ih =>
    intro i peak l' peak' hb h
    unfold addLevels at h
    obtain ⟨lvl, hlvl, h⟩ := bind_ok h
    obtain ⟨x, hx, h⟩ := bind_ok h
    obtain ⟨rest', pk⟩ := x
    simp only [Except.ok.injEq, Prod.mk.injEq] at h
    obtain ⟨rfl, _⟩ := h
    have hr := ih _ _ _ _ (fun t ht => hb t (List.mem_cons_of_mem _ ht)) hx
    have h0 := hl lvl (getAt_mem hlvl)
    have hts := hb ts (List.mem_cons_self ..)
    intro t ht
    rcases List.mem_cons.mp ht with rfl | ht
    · exact ⟨by simp only; linarith [hts.1], hts.2⟩
    · exact hr t ht

/-- the body of the vehicle loop: never FUEL inside the box, and the box is kept -/
theorem planVehicle_total (ops : BatOps α B) (hf : OpsNoFuel ops) (law : BatLaw ops) (env : PEnv α)
    (heps : 0 < env.eps) (cs : StationS α) (pv : PVeh α B) (timesteps : List (Ts α)) (peak L H : α)
    (hb : TsBound L H timesteps) (hLH : H - L ≤ (2 : α) ^ env.bisectFuel * env.eps) :
    NoFuel (planVehicle ops env cs pv timesteps peak) ∧
      ∀ sched ts' peak', planVehicle ops env cs pv timesteps peak = .ok (sched, ts', peak') →
        TsBound L H ts' := by
  constructor
  · unfold planVehicle
    dsimp only
    apply noFuel_bind _ _ (planOutside_noFuel ops hf env cs pv _ _)
    intro pl1 _
    apply noFuel_bind _ _ (planInside_noFuel ops hf env heps cs pv _ peak pl1 L H (hb.take _) hLH)
    intro pl3 _
    apply noFuel_bind _ _ (addLevels_noFuel _ _ _ _ _)
    intro x _
    exact noFuel_ok _
  · intro sched ts' peak' h
    unfold planVehicle at h
    simp only at h
    obtain ⟨pl1, h1, h⟩ := bind_ok h
    obtain ⟨pl3, h3, h⟩ := bind_ok h
    obtain ⟨r, hr, h⟩ := bind_ok h
    obtain ⟨conn', pk⟩ := r
    simp only [Except.ok.injEq, Prod.mk.injEq] at h
    obtain ⟨rfl, rfl, rfl⟩ := h
    have hp1 := planOutside_inv ops law env cs pv _ _ pl1 h1
    have hp3 := planInside_inv ops law env cs pv _ peak pl1 pl3 hp1 h3
    exact (addLevels_bound _ _ hp3.levels L H _ _ _ _ _ (hb.take _) hr).append (hb.drop _)

/-- the vehicle loop of `step_gc` -/
theorem planVehicles_noFuel (ops : BatOps α B) (hf : OpsNoFuel ops) (law : BatLaw ops) (env : PEnv α)
    (heps : 0 < env.eps) (w : PWorld α B) (L H : α) (hLH : H - L ≤ (2 : α) ^ env.bisectFuel * env.eps) :
    ∀ (l : List (PVeh α B)) (ts : List (Ts α)) (peak : α), TsBound L H ts →
      NoFuel (planVehicles ops env w l ts peak) := by
  intro l
  induction l with
  | nil => intro ts peak _; exact noFuel_ok _
  | cons pv rest ih =>
    intro ts peak hb
    unfold planVehicles
    split
    · exact noFuel_err (by simp)
    · split
      · exact noFuel_err (by simp)
      · rename_i cs _
        obtain ⟨h1, h2⟩ := planVehicle_total ops hf law env heps cs pv ts peak L H hb hLH
        apply noFuel_bind _ _ h1
        intro r hr
        obtain ⟨sched, ts', peak'⟩ := r
        apply noFuel_bind _ _ (ih _ _ (h2 _ _ _ hr))
        intro r2 _
        exact noFuel_ok _

/-! ### the other loops of `step_gc` (no fuel of their own) -/

theorem gatherVehicles_noFuel (ops : BatOps α B) (env : PEnv α) (w : PWorld α B) (gcId : String) :
    NoFuel (gatherVehicles ops env w gcId) := by
  unfold gatherVehicles
  apply foldlM_noFuel
  intro acc pv _
  dsimp only
  split
  · exact noFuel_ok _
  · split
    · exact noFuel_err (by simp)
    · split
      · exact noFuel_ok _
      · split
        · exact noFuel_ok _
        · split
          · exact noFuel_ok _
          · exact noFuel_ok _

theorem chargeVehicles_noFuel (ops : BatOps α B) (hf : OpsNoFuel ops) :
    ∀ (plans : List (PVeh α B × α)) (surplus : α) (st : PWorld α B × GcS α × List (String × α)),
      NoFuel (chargeVehicles ops plans surplus st) := by
  intro plans
  induction plans with
  | nil => intro surplus st; exact noFuel_ok _
  | cons q rest ih =>
    intro surplus st
    obtain ⟨pv, planned⟩ := q
    obtain ⟨w, gc, cmds⟩ := st
    unfold chargeVehicles
    split
    · exact noFuel_err (by simp)
    · apply noFuel_bind
      · split
        · split
          · exact noFuel_err (by simp)
          · exact noFuel_ok _
        · exact noFuel_ok _
      · intro sched _
        split
        · apply noFuel_bind _ _ (hf.load _ _ _ _)
          intro x _
          exact ih _ _
        · exact ih _ _

theorem planBattery_noFuel (ops : BatOps α B) (hf : OpsNoFuel ops) (env : PEnv α) (window : Bool)
    (selfPeak curMax : α) (untilChange : Int) (st : List (String × α) × List (String × α)) (b : StatBatS α B) :
    NoFuel (planBattery ops env window selfPeak curMax untilChange st b) := by
  unfold planBattery
  dsimp only
  split
  · split
    · apply noFuel_bind _ _ (hf.unload _ _ _ _)
      intro x _
      exact noFuel_ok _
    · split
      · apply noFuel_bind _ _ (hf.load _ _ _ _)
        intro x _
        exact noFuel_ok _
      · exact noFuel_ok _
  · apply noFuel_bind _ _ (fdiv_noFuel _ _)
    intro p0 _
    apply noFuel_bind _ _ (fdiv_noFuel _ _)
    intro p _
    split
    · apply noFuel_bind _ _ (hf.load _ _ _ _)
      intro x _
      exact noFuel_ok _
    · exact noFuel_ok _

theorem applyBattery_noFuel (ops : BatOps α B) (hf : OpsNoFuel ops) (env : PEnv α) (info : List (String × α))
    (st : GcS α × List (String × α) × List (StatBatS α B)) (b : StatBatS α B) :
    NoFuel (applyBattery ops env info st b) := by
  obtain ⟨gc, gcLoads, done⟩ := st
  unfold applyBattery
  dsimp only
  split
  · exact noFuel_err (by simp)
  · split
    · split
      · apply noFuel_bind _ _ (hf.load _ _ _ _)
        intro x _
        exact noFuel_ok _
      · exact noFuel_ok _
    · apply noFuel_bind _ _ (hf.unload _ _ _ _)
      intro x _
      exact noFuel_ok _

/-! ### `step_gc` -/

/-- `event_idx` of `step_gc`: `(current_time − start_time) // interval + 1` -/
def eventIdx (env : PEnv α) : Int := floorDiv (env.now.instant - env.start) env.interval + 1

/-- the prognosis `timesteps` of `step_gc` for connector `g` when `k` timesteps are looked ahead
(`future_event_lists = [[]] + self.events[event_idx : event_idx + k]`); the window flags depend on the operator's
seasons and the voltage level, `power` / `max_power` do not -/
def prognosis (env : PEnv α) (g : PGc α) (seasons : List Season) (level : String) (k : Int) : List (Ts α) :=
  buildTimesteps env seasons level g.gc.id ([] :: pySlice env.events (eventIdx env) (eventIdx env + k))
    (env.now.add (-env.interval)) (g.gc.loads, g.gc.curMax)

/-- **bracket hypothesis of the bisection, on the initial connector and the environment**: there is a box
`L ≤ power`, `max_power ≤ H` around every prognosis of the connector (whatever the look-ahead) whose height is
within what `env.bisectFuel` halvings reduce to `EPS` -/
def Bracket (env : PEnv α) (g : PGc α) : Prop :=
  ∃ L H : α, H - L ≤ (2 : α) ^ env.bisectFuel * env.eps ∧
    ∀ seasons level k, TsBound L H (prognosis env g seasons level k)

theorem stepGc_noFuel (ops : BatOps α B) (hf : OpsNoFuel ops) (law : BatLaw ops) (env : PEnv α)
    (heps : 0 < env.eps) (hint : 0 < env.interval) (w : PWorld α B) (g : PGc α) (level : String)
    (hbr : Bracket env g) : NoFuel (stepGc ops env w g level) := by
  obtain ⟨L, H, hLH, hbox⟩ := hbr
  unfold stepGc
  dsimp only
  apply noFuel_bind _ _ (gatherVehicles_noFuel ops env w _)
  intro r1 _
  obtain ⟨vehicles, maxStanding⟩ := r1
  dsimp only
  apply noFuel_bind
  · split
    · exact noFuel_err (by simp)
    · exact noFuel_ok _
  intro seasons _
  apply noFuel_bind
  · split
    · exact noFuel_ok _
    · obtain ⟨m, hm⟩ := scan_fuel_suffices env seasons level (datetimeWithinTimeWindow env.now seasons level) hint
      rw [hm]
      exact noFuel_ok _
  intro r2 _
  obtain ⟨ahead, untilChange⟩ := r2
  dsimp only
  apply noFuel_bind _ _ (planVehicles_noFuel ops hf law env heps w L H hLH _ _ _ (hbox seasons level ahead))
  intro r3 _
  obtain ⟨plans, timesteps, pk⟩ := r3
  dsimp only
  apply noFuel_bind _ _ (getAt_noFuel _ _)
  intro ts0 _
  apply noFuel_bind _ _ (chargeVehicles_noFuel ops hf _ _ _)
  intro r4 _
  obtain ⟨w1, gc1, cmds1⟩ := r4
  dsimp only
  apply noFuel_bind _ _ (foldlM_noFuel _ _ (fun s b _ => planBattery_noFuel ops hf env _ _ _ _ s b) _)
  intro r5 _
  obtain ⟨gcLoads, info⟩ := r5
  dsimp only
  apply noFuel_bind _ _ (foldlM_noFuel _ _ (fun s b _ => applyBattery_noFuel ops hf env _ s b) _)
  intro r6 _
  obtain ⟨gc2, gl2, done⟩ := r6
  exact noFuel_ok _

/-! ### `step`: what a `step_gc` call leaves of the connector table -/

theorem addLoad_id (g : GcS α) (k : String) (v : α) : (g.addLoad k v).1.id = g.id := by
  unfold GcS.addLoad; split <;> rfl

theorem chargeVehicles_gcs (ops : BatOps α B) :
    ∀ (plans : List (PVeh α B × α)) (surplus : α) (st st' : PWorld α B × GcS α × List (String × α)),
      chargeVehicles ops plans surplus st = .ok st' → st'.1.gcs = st.1.gcs ∧ st'.2.1.id = st.2.1.id := by
  intro plans
  induction plans with
  | nil => intro surplus st st' h; simp only [chargeVehicles, Except.ok.injEq] at h; subst h; exact ⟨rfl, rfl⟩
  | cons q rest ih =>
    intro surplus st st' h
    obtain ⟨pv, planned⟩ := q
    obtain ⟨w, gc, cmds⟩ := st
    obtain ⟨csId, sched, hcs, hso, hcase⟩ := chargeVehicles_cons ops pv planned rest surplus w gc cmds st' h
    rcases hcase with ⟨_, bat', p, _, hrec⟩ | ⟨_, hrec⟩
    · have := ih _ _ _ hrec
      simp only [PWorld.setVehicle, addLoad_id] at this
      exact this
    · have := ih _ _ _ hrec
      simp only [PWorld.setVehicle] at this
      exact this

theorem applyBattery_id (ops : BatOps α B) (env : PEnv α) (info : List (String × α))
    (st st' : GcS α × List (String × α) × List (StatBatS α B)) (b : StatBatS α B)
    (h : applyBattery ops env info st b = .ok st') : st'.1.id = st.1.id := by
  obtain ⟨gc, gcLoads, done⟩ := st
  unfold applyBattery at h
  dsimp only at h
  split at h
  · cases h
  · split at h
    · split at h
      · obtain ⟨x, _, h⟩ := bind_ok h
        simp only [Except.ok.injEq] at h
        subst h
        exact addLoad_id _ _ _
      · simp only [Except.ok.injEq] at h
        subst h; rfl
    · obtain ⟨x, _, h⟩ := bind_ok h
      simp only [Except.ok.injEq] at h
      subst h
      exact addLoad_id _ _ _

theorem foldlM_applyBattery_id (ops : BatOps α B) (env : PEnv α) (info : List (String × α)) :
    ∀ (bats : List (StatBatS α B)) (st st' : GcS α × List (String × α) × List (StatBatS α B)),
      bats.foldlM (applyBattery ops env info) st = .ok st' → st'.1.id = st.1.id := by
  intro bats
  induction bats with
  | nil =>
    intro st st' h
    simp only [List.foldlM_nil, pure, Except.pure, Except.ok.injEq] at h
    subst h; rfl
  | cons b rest ih =>
    intro st st' h
    simp only [List.foldlM_cons] at h
    obtain ⟨st1, h1, h⟩ := bind_ok h
    rw [ih _ _ h, applyBattery_id ops env info _ _ _ h1]

theorem foldl_setBattery_gcs (done : List (StatBatS α B)) :
    ∀ w : PWorld α B, (done.foldl (fun w b => w.setBattery b) w).gcs = w.gcs := by
  induction done with
  | nil => intro w; rfl
  | cons b rest ih => intro w; simp only [List.foldl_cons]; rw [ih]; rfl

/-- `step_gc` changes, of the connector table, only the entries with the connector's own id, and the new entry
keeps that id -/
theorem stepGc_gcs (ops : BatOps α B) (env : PEnv α) (w : PWorld α B) (g : PGc α) (level : String)
    (w' : PWorld α B) (cmds : List (String × α)) (h : stepGc ops env w g level = .ok (w', cmds)) :
    ∃ g' : PGc α, g'.gc.id = g.gc.id ∧
      w'.gcs = w.gcs.map (fun x => if x.gc.id == g.gc.id then g' else x) := by
  unfold stepGc at h
  simp only at h
  obtain ⟨r1, _, h⟩ := bind_ok h
  obtain ⟨seasons, _, h⟩ := bind_ok h
  obtain ⟨r2, _, h⟩ := bind_ok h
  obtain ⟨r3, _, h⟩ := bind_ok h
  obtain ⟨ts0, _, h⟩ := bind_ok h
  obtain ⟨r4, hc, h⟩ := bind_ok h
  obtain ⟨w1, gc1, cmds1⟩ := r4
  obtain ⟨r5, _, h⟩ := bind_ok h
  obtain ⟨r6, h6, h⟩ := bind_ok h
  obtain ⟨gc2, gl2, done⟩ := r6
  simp only [Except.ok.injEq, Prod.mk.injEq] at h
  obtain ⟨rfl, _⟩ := h
  obtain ⟨hg1, hid1⟩ := chargeVehicles_gcs ops _ _ _ _ hc
  have hid2 := foldlM_applyBattery_id ops env _ _ _ _ h6
  simp only at hg1 hid1 hid2
  simp only [PWorld.setGc]
  rw [foldl_setBattery_gcs, hg1, hid2, hid1]
  exact ⟨_, by simp only; rw [hid2, hid1], rfl⟩

theorem find?_self_of_pairwise :
    ∀ (l : List (PGc α)), l.Pairwise (fun a b => a.gc.id ≠ b.gc.id) →
      ∀ g0 ∈ l, l.find? (fun x => x.gc.id == g0.gc.id) = some g0 := by
  intro l
  induction l with
  | nil => intro _ g0 h; simp at h
  | cons a rest ih =>
    intro hp g0 hg0
    rw [List.pairwise_cons] at hp
    rcases List.mem_cons.mp hg0 with rfl | hg0
    · simp
    · have hne : a.gc.id ≠ g0.gc.id := hp.1 g0 hg0
      rw [List.find?_cons_of_neg (by simpa using hne)]
      exact ih hp.2 g0 hg0

theorem find?_map_other (gid k : String) (g' g1 : PGc α) (hk : k ≠ gid) (hg' : g'.gc.id = gid) :
    ∀ (l : List (PGc α)), l.find? (fun x => x.gc.id == k) = some g1 →
      (l.map (fun x => if x.gc.id == gid then g' else x)).find? (fun x => x.gc.id == k) = some g1 := by
  intro l
  induction l with
  | nil => intro h; simp at h
  | cons a rest ih =>
    intro h
    rw [List.map_cons]
    by_cases ha : a.gc.id = k
    · rw [List.find?_cons_of_pos (by simpa using ha)] at h
      have hag : ¬ a.gc.id = gid := by rw [ha]; exact hk
      have : (if (a.gc.id == gid) = true then g' else a) = a := by simp [hag]
      rw [this, List.find?_cons_of_pos (by simpa using ha)]
      exact h
    · rw [List.find?_cons_of_neg (by simpa using ha)] at h
      have : ¬ (if (a.gc.id == gid) = true then g' else a).gc.id = k := by
        split
        · rw [hg']; exact fun e => hk e.symm
        · exact ha
      rw [List.find?_cons_of_neg (by simpa using this)]
      exact ih h

/-- the body of the connector loop of `step` -/
def stepBody (ops : BatOps α B) (env : PEnv α) (st : PWorld α B × List (String × α)) (g0 : PGc α) :
    Py (PWorld α B × List (String × α)) :=
  match st.1.gcs.find? (·.gc.id == g0.gc.id) with
  | none => .error .keyError
  | some g =>
    match g.level with
    | none => .error .assertion
    | some level => do
      let (w', cmds) ← stepGc ops env st.1 g level
      .ok (w', sdUpdate st.2 cmds)

theorem step_eq (ops : BatOps α B) (env : PEnv α) (w : PWorld α B) :
    step ops env w = w.gcs.foldlM (stepBody ops env) (w, []) := rfl

theorem stepBody_total (ops : BatOps α B) (hf : OpsNoFuel ops) (law : BatLaw ops) (env : PEnv α)
    (heps : 0 < env.eps) (hint : 0 < env.interval) (st : PWorld α B × List (String × α)) (g0 : PGc α)
    (hfind : st.1.gcs.find? (·.gc.id == g0.gc.id) = some g0) (hbr : Bracket env g0) :
    NoFuel (stepBody ops env st g0) ∧
      ∀ st1, stepBody ops env st g0 = .ok st1 → ∃ g' : PGc α, g'.gc.id = g0.gc.id ∧
        st1.1.gcs = st.1.gcs.map (fun x => if x.gc.id == g0.gc.id then g' else x) := by
  unfold stepBody
  rw [hfind]
  dsimp only
  constructor
  · split
    · exact noFuel_err (by simp)
    · apply noFuel_bind _ _ (stepGc_noFuel ops hf law env heps hint _ _ _ hbr)
      intro r _
      exact noFuel_ok _
  · intro st1 h
    split at h
    · cases h
    · obtain ⟨r, hr, h⟩ := bind_ok h
      obtain ⟨w1, c1⟩ := r
      simp only [Except.ok.injEq] at h
      subst h
      exact stepGc_gcs ops env _ _ _ _ _ hr

theorem foldlM_stepBody_noFuel (ops : BatOps α B) (hf : OpsNoFuel ops) (law : BatLaw ops) (env : PEnv α)
    (heps : 0 < env.eps) (hint : 0 < env.interval) :
    ∀ (gs : List (PGc α)) (st : PWorld α B × List (String × α)),
      gs.Pairwise (fun a b => a.gc.id ≠ b.gc.id) →
      (∀ g0 ∈ gs, st.1.gcs.find? (·.gc.id == g0.gc.id) = some g0) →
      (∀ g0 ∈ gs, Bracket env g0) →
      NoFuel (gs.foldlM (stepBody ops env) st) := by
  intro gs
  induction gs with
  | nil => intro st _ _ _; simp [NoFuel, List.foldlM, pure, Except.pure]
  | cons g0 rest ih =>
    intro st hp hfind hbr
    rw [List.pairwise_cons] at hp
    rw [List.foldlM_cons]
    obtain ⟨h1, h2⟩ := stepBody_total ops hf law env heps hint st g0 (hfind g0 (List.mem_cons_self ..))
      (hbr g0 (List.mem_cons_self ..))
    apply noFuel_bind _ _ h1
    intro st1 hst1
    obtain ⟨g', hg', hgcs⟩ := h2 st1 hst1
    apply ih st1 hp.2
    · intro g1 hg1
      rw [hgcs]
      exact find?_map_other g0.gc.id g1.gc.id g' g1 (fun e => hp.1 g1 hg1 e.symm) hg' _
        (hfind g1 (List.mem_cons_of_mem _ hg1))
    · intro g1 hg1
      exact hbr g1 (List.mem_cons_of_mem _ hg1)

/-- **the whole step never answers FUEL** -/
theorem step_noFuel (ops : BatOps α B) (hf : OpsNoFuel ops) (law : BatLaw ops) (env : PEnv α)
    (heps : 0 < env.eps) (hint : 0 < env.interval) (w : PWorld α B)
    (hids : w.gcs.Pairwise (fun a b => a.gc.id ≠ b.gc.id)) (hbr : ∀ g ∈ w.gcs, Bracket env g) :
    NoFuel (step ops env w) := by
  rw [step_eq]
  exact foldlM_stepBody_noFuel ops hf law env heps hint w.gcs (w, []) hids
    (find?_self_of_pairwise w.gcs hids) hbr

/-! ### discharging the bracket hypothesis from primitive facts -/

theorem mem_pySlice {β : Type} (l : List β) (a b : Int) (x : β) (h : x ∈ pySlice l a b) : x ∈ l := by
  unfold pySlice at h
  exact List.mem_of_mem_drop (List.mem_of_mem_take h)

/-- an invariant `Q` of the pair (`cur_loads`, `cur_max_power`) that the events of the table keep and that implies
the box, gives the box for every prognosis built from event lists of the table -/
theorem tsBound_buildTimesteps (env : PEnv α) (seasons : List Season) (level gcId : String) (L H : α)
    (Q : List (String × α) × α → Prop)
    (hbox : ∀ st, Q st → L ≤ sumLoads env st.1 ∧ st.2 ≤ H) :
    ∀ (evss : List (List (Ev α))) (cur : DateTime) (st : List (String × α) × α),
      (∀ evs ∈ evss, ∀ e ∈ evs, ∀ st, Q st → Q (applyEvent gcId st e)) → Q st →
      TsBound L H (buildTimesteps env seasons level gcId evss cur st) := by
  intro evss
  induction evss with
  | nil => intro cur st _ _ t ht; simp [buildTimesteps] at ht
  | cons evs rest ih =>
    intro cur st hstep hQ
    have hfold : ∀ (l : List (Ev α)) (s : List (String × α) × α),
        (∀ e ∈ l, ∀ st, Q st → Q (applyEvent gcId st e)) → Q s → Q (l.foldl (applyEvent gcId) s) := by
      intro l
      induction l with
      | nil => intro s _ hs; exact hs
      | cons e l' ihl =>
        intro s hl hs
        simp only [List.foldl_cons]
        exact ihl _ (fun e' he' => hl e' (List.mem_cons_of_mem _ he')) (hl e (List.mem_cons_self ..) s hs)
    have hQ' := hfold evs st (hstep evs (List.mem_cons_self ..)) hQ
    intro t ht
    simp only [buildTimesteps, List.mem_cons] at ht
    rcases ht with rfl | ht
    · exact hbox _ hQ'
    · exact ih _ _ (fun evs' h' => hstep evs' (List.mem_cons_of_mem _ h')) hQ' t ht

/-- the box of every prognosis of a connector from an invariant of (`cur_loads`, `cur_max_power`) under the events
of the table -/
theorem prognosis_box (env : PEnv α) (g : PGc α) (L H : α)
    (Q : List (String × α) × α → Prop) (h0 : Q (g.gc.loads, g.gc.curMax))
    (hstep : ∀ evs ∈ env.events, ∀ e ∈ evs, ∀ st, Q st → Q (applyEvent g.gc.id st e))
    (hbox : ∀ st, Q st → L ≤ sumLoads env st.1 ∧ st.2 ≤ H) (seasons : List Season) (level : String) (k : Int) :
    TsBound L H (prognosis env g seasons level k) := by
  unfold prognosis
  apply tsBound_buildTimesteps env seasons level g.gc.id L H Q hbox _ _ _ _ h0
  intro evs hevs
  rcases List.mem_cons.mp hevs with rfl | hevs
  · intro e he; simp at he
  · exact hstep evs (mem_pySlice _ _ _ _ hevs)

/-- `Bracket` from an invariant of (`cur_loads`, `cur_max_power`) under the events of the table -/
theorem bracket_of_invariant (env : PEnv α) (g : PGc α) (L H : α)
    (hLH : H - L ≤ (2 : α) ^ env.bisectFuel * env.eps)
    (Q : List (String × α) × α → Prop) (h0 : Q (g.gc.loads, g.gc.curMax))
    (hstep : ∀ evs ∈ env.events, ∀ e ∈ evs, ∀ st, Q st → Q (applyEvent g.gc.id st e))
    (hbox : ∀ st, Q st → L ≤ sumLoads env st.1 ∧ st.2 ≤ H) : Bracket env g :=
  ⟨L, H, hLH, fun seasons level k => prognosis_box env g L H Q h0 hstep hbox seasons level k⟩

/-- the event concerns connector `gcId` (it can change `cur_loads` / `cur_max_power` of the prognosis) -/
def Ev.concerns (gcId : String) : Ev α → Prop
  | .gen g _ _ => g = gcId
  | .load g _ _ => g = gcId
  | .signal g mp => g = gcId ∧ mp.isSome = true

theorem applyEvent_other (gcId : String) (st : List (String × α) × α) (e : Ev α) (h : ¬ e.concerns gcId) :
    applyEvent gcId st e = st := by
  cases e with
  | gen g name v =>
    simp only [Ev.concerns] at h
    simp [applyEvent, h]
  | load g name v =>
    simp only [Ev.concerns] at h
    simp [applyEvent, h]
  | signal g mp =>
    cases mp with
    | none => simp [applyEvent]
    | some m =>
      simp only [Ev.concerns, Option.isSome_some, and_true] at h
      simp [applyEvent, h]

/-- **primitive form of the bracket hypothesis when the event table does not concern the connector**: the bracket
is `[sum(gc.current_loads), gc.cur_max_power]` -/
theorem bracket_of_quiet (env : PEnv α) (g : PGc α)
    (hq : ∀ evs ∈ env.events, ∀ e ∈ evs, ¬ Ev.concerns g.gc.id e)
    (hLH : g.gc.curMax - sumLoads env g.gc.loads ≤ (2 : α) ^ env.bisectFuel * env.eps) : Bracket env g := by
  apply bracket_of_invariant env g (sumLoads env g.gc.loads) g.gc.curMax hLH
    (fun st => st = (g.gc.loads, g.gc.curMax)) rfl
  · intro evs hevs e he st hst
    rw [applyEvent_other g.gc.id st e (hq evs hevs e he)]
    exact hst
  · intro st hst
    subst hst
    exact ⟨le_refl _, le_refl _⟩

/-! ### for the non-vacuity examples -/

/-- the result is the model's FUEL marker -/
def isFuel {β : Type} : Py β → Bool
  | .error .fuel => true
  | _ => false

/-- the result is a value -/
def isOk {β : Type} : Py β → Bool
  | .ok _ => true
  | _ => false

/-- example: the clock at 02:00 (inside the window 02:00–04:00), 3 kW fixed load at the 20 kW connector, one
vehicle (SoC 0.5 → 1 of 10 kWh) leaving at 04:00: nothing can be charged outside windows, the greedy pass up to the
peak (0) gives nothing, so the bisection runs on the bracket [3, 20] -/
def exBisectWorld : PWorld ℚ ℚ := exWorld [("load", 3)] 11 (1/2) 1 4

/-- the example clock with a given bisection fuel -/
def exBisectEnv (fuel : Nat) : PEnv ℚ := { exEnvAt 2 with bisectFuel := fuel }

/-- a battery whose `load` reports a NEGATIVE average power (violates `BatLaw.load_target`), never FUEL -/
def exBadOps : BatOps ℚ ℚ := { toyOps 10 11 with load := fun b _ _ _ => .ok (b, -1000) }

theorem exBadOps_noFuel : OpsNoFuel exBadOps :=
  ⟨fun _ _ _ _ => noFuel_ok _, fun _ _ _ _ => noFuel_ok _⟩

/-- the example connector with two vehicles that must both be charged inside the window -/
def exTwoWorld : PWorld ℚ ℚ :=
  { gcs := [exGc [("load", 3)]], stations := [⟨"cs1", "G", 11, 0, 0⟩, ⟨"cs2", "G", 11, 0, 0⟩],
    vehicles := [⟨⟨"v1", some "cs1", 1, some (4 * exHour), 0, false, 0, 1/2⟩, [11, 11], none⟩,
                 ⟨⟨"v2", some "cs2", 1, some (4 * exHour), 0, false, 0, 1/2⟩, [11, 11], none⟩],
    batteries := [] }

end SpiceEv.PeakLoadWindow
