/-
C17 (termination) for the model of the two rule-based strategies `greedy` and `balanced`
(Model/Strategies.lean, `ruleStep`).  The model has no fuel-guarded loop: every loop of `Greedy.step` /
`Balanced.step` / `distribute_surplus_power` / `update_batteries` is a `for` over a finite collection
(`List.foldlM`, `List.mapM`).  Hence the only way the model's own `FUEL` marker can come out of a step is
through a battery call; with batteries that never answer `FUEL` (`NoFuel`, discharged by C01 for the real
battery) the step is total.  The statements are generic in the number type (no order / field laws needed:
they hold for the `Rat` and the `Float` instance of the executable model alike).
-/
import SpiceEv.Model.Strategies
set_option linter.unusedSectionVars false
set_option linter.unusedVariables false
namespace SpiceEv.RuleTotal
open SpiceEv

/-- the battery's own loops terminate (C01: `C01_load_ok` / `C01_unload_ok`): no battery call of the
`BatOps` record answers `FUEL` -/
structure NoFuel {α B : Type} (ops : BatOps α B) : Prop where
  load : ∀ b mp ts tp, ops.load b mp ts tp ≠ .error .fuel
  unload : ∀ b mp ts tp, ops.unload b mp ts tp ≠ .error .fuel
  available : ∀ b, ops.available b ≠ .error .fuel

/-! ### generic: `FUEL` does not come out of a bind / fold / map whose pieces do not produce it -/

theorem ok_ne_fuel {β : Type} (x : β) : (.ok x : Py β) ≠ .error .fuel := by
  intro h; cases h

theorem pure_ne_fuel {β : Type} (x : β) : (pure x : Py β) ≠ .error .fuel := by
  intro h; cases h

theorem bind_ne_fuel {β γ : Type} (x : Py β) (f : β → Py γ) (hx : x ≠ .error .fuel)
    (hf : ∀ a, x = .ok a → f a ≠ .error .fuel) : (x >>= f) ≠ .error .fuel := by
  cases x with
  | error e =>
    simp only [bind, Except.bind]
    intro hc; cases hc; exact hx rfl
  | ok a => exact hf a rfl

theorem foldlM_ne_fuel {β σ : Type} (f : σ → β → Py σ) (hf : ∀ s a, f s a ≠ .error .fuel) (l : List β) (s : σ) :
    l.foldlM f s ≠ .error .fuel := by
  induction l generalizing s with
  | nil => simp [List.foldlM, pure, Except.pure]
  | cons a rest ih =>
    rw [List.foldlM_cons]
    exact bind_ne_fuel _ _ (hf s a) (fun s' _ => ih s')

theorem mapM_ne_fuel {β γ : Type} (f : β → Py γ) (hf : ∀ a, f a ≠ .error .fuel) (l : List β) :
    l.mapM f ≠ .error .fuel := by
  induction l with
  | nil => simp [List.mapM_nil, pure, Except.pure]
  | cons a rest ih =>
    rw [List.mapM_cons]
    refine bind_ne_fuel _ _ (hf a) (fun b _ => bind_ne_fuel _ _ ih (fun bs _ => ?_))
    simp [pure, Except.pure]

section
variable {α B : Type} [Add α] [Sub α] [Mul α] [Div α] [Neg α] [LT α] [LE α]
  [DecidableLT α] [DecidableLE α] [OfNat α 0] [OfNat α 1] [NatCast α] [IntCast α]

/-! ### the pieces of the step -/

theorem gcCheap_ne_fuel (env : StratEnv α) (g : GcS α) : gcCheap env g ≠ .error .fuel := by
  unfold gcCheap; split <;> simp

/-- the `cheap` table of `distribute_surplus_power` / `update_batteries` -/
theorem cheapMap_ne_fuel (env : StratEnv α) (gcs : List (GcS α)) :
    gcs.mapM (fun g => do let c ← gcCheap env g; pure (g.id, c)) ≠ .error .fuel :=
  mapM_ne_fuel _ (fun g => bind_ne_fuel _ _ (gcCheap_ne_fuel env g) (fun c _ => pure_ne_fuel _)) gcs

theorem surplusVehicle_ne_fuel (ops : BatOps α B) (hnf : NoFuel ops) (env : StratEnv α)
    (cheap : List (String × Bool)) (w : SWorld α B) (cmds : List (String × α)) (v : VehicleS α B) :
    surplusVehicle ops env cheap w cmds v ≠ .error .fuel := by
  unfold surplusVehicle
  split
  · exact ok_ne_fuel _
  · split
    · simp
    · split
      · simp
      · dsimp only
        split
        · exact bind_ne_fuel _ _ (hnf.load _ _ _ _) (fun a _ => ok_ne_fuel _)
        · split
          · exact bind_ne_fuel _ _ (hnf.unload _ _ _ _) (fun a _ => ok_ne_fuel _)
          · exact ok_ne_fuel _

theorem distributeSurplus_ne_fuel (ops : BatOps α B) (hnf : NoFuel ops) (env : StratEnv α) (w : SWorld α B) :
    distributeSurplus ops env w ≠ .error .fuel := by
  unfold distributeSurplus
  refine bind_ne_fuel _ _ (cheapMap_ne_fuel env w.gcs) (fun cheap _ => ?_)
  refine foldlM_ne_fuel _ (fun st v0 => ?_) _ _
  split
  · exact ok_ne_fuel _
  · exact surplusVehicle_ne_fuel ops hnf env cheap _ _ _

theorem updateBattery_ne_fuel (ops : BatOps α B) (hnf : NoFuel ops) (env : StratEnv α)
    (cheap : List (String × Bool)) (w : SWorld α B) (b : StatBatS α B) :
    updateBattery ops env cheap w b ≠ .error .fuel := by
  unfold updateBattery
  split
  · exact ok_ne_fuel _
  · dsimp only
    split
    · simp
    · split
      · exact bind_ne_fuel _ _ (hnf.load _ _ _ _) (fun a _ => ok_ne_fuel _)
      · split
        · exact bind_ne_fuel _ _ (hnf.load _ _ _ _) (fun a _ => ok_ne_fuel _)
        · exact bind_ne_fuel _ _ (hnf.unload _ _ _ _) (fun a _ => ok_ne_fuel _)

theorem updateBatteries_ne_fuel (ops : BatOps α B) (hnf : NoFuel ops) (env : StratEnv α) (w : SWorld α B) :
    updateBatteries ops env w ≠ .error .fuel := by
  unfold updateBatteries
  refine bind_ne_fuel _ _ (cheapMap_ne_fuel env w.gcs) (fun cheap _ => ?_)
  refine foldlM_ne_fuel _ (fun w b0 => ?_) _ _
  split
  · exact ok_ne_fuel _
  · exact updateBattery_ne_fuel ops hnf env cheap _ _

theorem availBatPower_ne_fuel (ops : BatOps α B) (hnf : NoFuel ops) (w : SWorld α B) :
    availBatPower ops w ≠ .error .fuel := by
  unfold availBatPower
  refine mapM_ne_fuel _ (fun g => ?_) _
  refine bind_ne_fuel _ _ (foldlM_ne_fuel _ (fun acc b => ?_) _ _) (fun p _ => pure_ne_fuel _)
  split
  · exact bind_ne_fuel _ _ (hnf.available _) (fun a _ => pure_ne_fuel _)
  · exact pure_ne_fuel _

theorem planPower_ne_fuel (rule : Rule) (ops : BatOps α B) (env : StratEnv α) (cheap : Bool)
    (gcPowerLeft availGc : α) (cs : StationS α) (v : VehicleS α B) :
    planPower rule ops env cheap gcPowerLeft availGc cs v ≠ .error .fuel := by
  unfold planPower
  dsimp only
  split
  · exact ok_ne_fuel _
  · split
    · split
      · exact ok_ne_fuel _
      · split
        · simp
        · split <;> exact ok_ne_fuel _
    · exact ok_ne_fuel _

theorem chargeCall_ne_fuel (rule : Rule) (ops : BatOps α B) (hnf : NoFuel ops) (env : StratEnv α) (cheap : Bool)
    (v : VehicleS α B) (power : α) : chargeCall rule ops env cheap v power ≠ .error .fuel := by
  unfold chargeCall
  split
  · split
    · exact hnf.load _ _ _ _
    · split
      · exact hnf.load _ _ _ _
      · exact ok_ne_fuel _
  · exact hnf.load _ _ _ _

theorem allocVehicle_ne_fuel (rule : Rule) (ops : BatOps α B) (hnf : NoFuel ops) (env : StratEnv α)
    (st : SWorld α B × List (String × α) × List (String × α)) (vid : String) :
    allocVehicle rule ops env st vid ≠ .error .fuel := by
  unfold allocVehicle
  split
  · simp
  · split
    · exact ok_ne_fuel _
    · split
      · simp
      · split
        · simp
        · dsimp only
          refine bind_ne_fuel _ _ (gcCheap_ne_fuel env _) (fun cheap _ => ?_)
          refine bind_ne_fuel _ _ (planPower_ne_fuel _ _ _ _ _ _ _ _) (fun pb _ => ?_)
          refine bind_ne_fuel _ _ (chargeCall_ne_fuel rule ops hnf _ _ _ _) (fun r _ => ok_ne_fuel _)

/-- **`Greedy.step` / `Balanced.step` never answer `FUEL`** when the battery operations do not. -/
theorem ruleStep_ne_fuel (rule : Rule) (ops : BatOps α B) (hnf : NoFuel ops) (env : StratEnv α) (w : SWorld α B) :
    ruleStep rule ops env w ≠ .error .fuel := by
  unfold ruleStep
  refine bind_ne_fuel _ _ (availBatPower_ne_fuel ops hnf w) (fun avail _ => ?_)
  refine bind_ne_fuel _ _ (foldlM_ne_fuel _ (allocVehicle_ne_fuel rule ops hnf env) _ _) (fun r1 _ => ?_)
  refine bind_ne_fuel _ _ (distributeSurplus_ne_fuel ops hnf env _) (fun r2 _ => ?_)
  exact bind_ne_fuel _ _ (updateBatteries_ne_fuel ops hnf env _) (fun w' _ => ok_ne_fuel _)

end

/-! ### a toy battery and world for the non-vacuity checks -/

/-- accepts half of what it is offered; reports 3 kW available -/
def toyOps : BatOps Rat Rat where
  soc b := b
  capacity _ := 10
  efficiency _ := 1
  unloadMaxPower _ := 5
  load b mp _ tp := .ok (b + 1/100, ((tp.getD (mp.getD 0)) / 2))
  unload b _ _ tp := .ok (b, (tp.getD 0) / 2)
  available _ := .ok 3

theorem toyNoFuel : NoFuel toyOps :=
  ⟨fun _ _ _ _ => by simp [toyOps], fun _ _ _ _ => by simp [toyOps], fun _ => by simp [toyOps]⟩

/-- a battery whose `load` answers `FUEL`: the step passes the marker on (the hypothesis `NoFuel` is needed) -/
def fuelOps : BatOps Rat Rat := { toyOps with load := fun _ _ _ _ => .error .fuel }

def toyW : SWorld Rat Rat :=
  ⟨[⟨"GC1", 20, some (.fixed (3/10)), [("load", 2)]⟩], [⟨"CS1", "GC1", 11, 0, 0⟩],
   [⟨"v1", some "CS1", 4/5, some 7200000000, 0, false, 0, 1/2⟩], [⟨"BAT1", "GC1", 0, 1/2⟩]⟩

def toyEnv : StratEnv Rat := ⟨1/100000, 1/10, 4, 0, 900000000⟩

end SpiceEv.RuleTotal
