/-
C07 — frame of the `flex_window` strategy's own step (`FlexWindow.step`, Model/StratFlexWindow.lean; Python:
`spice_ev/strategies/flex_window.py`) with respect to the state that events set on a grid connector.

Two deliverables.
(a) The world frame: the invariant `Keeps.Inv S gcs0` (Proofs/C07Keeps.lean) is threaded through every function of the
    model that returns / updates a world.  Purely structural, instance-free (the typeclass context is the one of the
    model's section: plain operations, no algebraic / order axioms), for ALL inputs, no extra hypotheses, every `S` and
    every `gcs0`, every `LOAD_STRAT` (balanced; greedy / needy / other).
    The model books `gc.addLoad k _` on the record `theGc w` (first connector, `theGc_mem`) or on `w.gc? cs.parent`,
    with `k` = the id under which a station was found by `getStation w k` (`Inv.S_of_station?`), or `k` = the id of the
    battery record the loop works on: `(w.batteries.find? (·.id == b0.id)).getD b0` with `b0` a member of the battery
    list at loop entry (`S_curBattery`; `foldlM_inv_mem`).
(b) What is written to `gc.window` (`step` returns it as second component): the state invariant `SInv S gcs0 win st :=
    Inv S gcs0 st.w ∧ st.window = win` shows that no `distribute_*` function changes `st.window`, so
    `win' = timesteps[0]["window"]` (`step_window`), and the first forecast timestep carries the `window` that was read
    whenever timestep 0 consumes no event (`step_window_unchanged`).  Timestep 0 has `cur_time = env.base.now`
    (`current_time`), and `consumeEvents` consumes the events with `start ≤ cur_time` from the front of the list, so
    the assumption is: the FIRST event of `events` (if any) has `env.base.now < start`
    (`step_window_unchanged_head`); `step_window_unchanged` has the stronger `∀ e ∈ events, env.base.now < e.start`,
    which is what `Strategy.step` establishes for `world_state.future_events` (it pops every event with
    `start_time <= current_time`, strategy.py lines 88-95).  No sortedness of `events` is needed.
    (If the first event is due — `start ≤ now` — and is a `GridOperatorSignal` with `window = some b`, the forecast sets
    `cur_window = b` at timestep 0 and `win' = b`: that is the re-application of an event, excluded by `hfut`.)

Covered, one lemma each (`…_keeps`, all for `SInv` resp. `Inv`): `balVehicle`, `distributeBalancedVehicles`,
`surplusToVehicles`, `surplusToBatteries`, `balV2gVehicle`, `distributeBalancedV2g`, `distributeBalancedBatteries`,
`distributePeakShavingVehicles` (the `mergeById` write of the vehicles and the command loop), `psV2gVehicle`,
`distributePeakShavingV2g`, `distributePeakShavingBatteries` (both branches), `distributeSurplus` through `liftPy`
(`Keeps.distributeSurplus_keeps`), `step` (`step_balanced_core`, `step_ps_core`, `step_core`).
Functions that return numbers / battery values / vehicle lists / simulations only and need no lemma: `bisectM`,
`forecast` …, `windowPass`, `balSim`, `balBatInner`, `connectedLoop`, `dlBisect`, `dischargeLimit`, `balV2gSim`,
`distributePower`, `psWindowPass`, `psSelect`, `psSim`, `mergeById`, `psV2gChargeSim`, `psV2gDischargeSim`,
`psBatChargeInner`, `psBatDischargeInner`, `sortedVehicles`.

Final theorems: `step_inv`, `step_keeps`, `step_window`, `step_window_unchanged` (+ `_head`), and the partial ones
`step_inv_balanced`, `step_inv_ps`.  Nothing is missing; no finding (the model changes no id / limit / cost / non-station
entry anywhere).
-/
import SpiceEv.Proofs.C07Keeps
import SpiceEv.Model.StratFlexWindow
set_option linter.unusedSectionVars false
set_option linter.unusedSimpArgs false
set_option linter.unusedVariables false
namespace SpiceEv
namespace Keeps
namespace FlexWindow
open SpiceEv.FlexWindow

variable {α B : Type} [Add α] [Sub α] [Mul α] [Div α] [Neg α] [LT α] [LE α]
  [DecidableLT α] [DecidableLE α] [OfNat α 0] [OfNat α 1] [NatCast α] [IntCast α]
variable {S : String → Bool} {gcs0 : List (GcS α)}

/-! ### helpers -/

theorem theGc_mem {w : SWorld α B} {g : GcS α} (h : theGc w = .ok g) : g ∈ w.gcs := by
  unfold theGc at h
  split at h
  · cases h
  · rename_i g' rest hw
    cases h
    rw [hw]; exact List.mem_cons_self ..

theorem getStation_some {w : SWorld α B} {id : String} {cs : StationS α} (h : getStation w id = .ok cs) :
    w.station? id = some cs := by
  unfold getStation at h
  split at h
  · cases h
  · rename_i cs' hs; cases h; exact hs

/-- the invariant of the state `⟨w, window, ts⟩`: the world frame, and the `window` attribute is `win` -/
def SInv (S : String → Bool) (gcs0 : List (GcS α)) (win : Option Bool) (st : FState α B) : Prop :=
  Inv S gcs0 st.w ∧ st.window = win

/-- `vehicle.battery.load; gc.add_load(cs_id, avg); cs.current_power += avg` -/
theorem inv_vehicleUpdate {w : SWorld α B} (hi : Inv S gcs0 w) {gc : GcS α} (hgc : theGc w = .ok gc)
    {csId : String} {cs : StationS α} (hst : getStation w csId = .ok cs) (v : VehicleS α B) (x : α)
    (s' : StationS α) (hs' : s'.id = cs.id) :
    Inv S gcs0 (((w.setVehicle v).setGc (gc.addLoad csId x).1).setStation s') := by
  have hcs := getStation_some hst
  have hS : S csId = true := hi.S_of_station? hcs
  have hSid : S cs.id = true := hi.st cs (mem_of_find? hcs)
  exact ((hi.setVehicle _).setGc _ (hi.key_addLoad (theGc_mem hgc) csId x hS)).setStation _ (by rw [hs']; exact hSid)

/-- the same when the connector is looked up by the station's parent -/
theorem inv_vehicleUpdate' {w : SWorld α B} (hi : Inv S gcs0 w) {gc : GcS α} (hgc : gc ∈ w.gcs)
    {csId : String} {cs : StationS α} (hst : getStation w csId = .ok cs) (v : VehicleS α B) (x : α)
    (s' : StationS α) (hs' : s'.id = cs.id) :
    Inv S gcs0 (((w.setVehicle v).setGc (gc.addLoad csId x).1).setStation s') := by
  have hcs := getStation_some hst
  have hS : S csId = true := hi.S_of_station? hcs
  have hSid : S cs.id = true := hi.st cs (mem_of_find? hcs)
  exact ((hi.setVehicle _).setGc _ (hi.key_addLoad hgc csId x hS)).setStation _ (by rw [hs']; exact hSid)

/-- the battery the loops work on: the current record with the id of `b0`, or `b0` itself -/
theorem S_curBattery {w : SWorld α B} (hi : Inv S gcs0 w) (b0 : StatBatS α B) (hb0 : S b0.id = true) :
    S ((w.batteries.find? (·.id == b0.id)).getD b0).id = true := by
  cases hf : w.batteries.find? (·.id == b0.id) with
  | none => exact hb0
  | some b1 => exact hi.bat b1 (mem_of_find? hf)

/-- `battery.load / unload; gc.add_load(b_id, ±avg)` -/
theorem inv_batteryUpdate {w : SWorld α B} (hi : Inv S gcs0 w) {gc : GcS α} (hgc : gc ∈ w.gcs)
    (b' : StatBatS α B) (k : String) (x : α) (hb : S b'.id = true) (hk : S k = true) :
    Inv S gcs0 ((w.setBattery b').setGc (gc.addLoad k x).1) :=
  (hi.setBattery b' hb).setGc _ (hi.key_addLoad hgc k x hk)

/-! ### LOAD_STRAT balanced -/

theorem balVehicle_keeps (ops : BatOps α B) (env : FEnv α) (win : Option Bool)
    (acc acc' : FState α B × List (String × α) × Option α) (v0 : VehicleS α B)
    (hi : SInv S gcs0 win acc.1) (h : balVehicle ops env acc v0 = .ok acc') : SInv S gcs0 win acc'.1 := by
  unfold balVehicle at h
  simp only [bind, Except.bind] at h
  split at h
  · simp only [Except.ok.injEq] at h; subst h; exact hi
  · split at h
    · cases h
    · rename_i cs hst
      split at h
      · cases h
      · split at h
        · cases h
        · split at h
          · cases h
          · rename_i gc hgc
            split at h
            · cases h
            · split at h
              · cases h
              · simp only [Except.ok.injEq] at h
                subst h
                exact ⟨inv_vehicleUpdate hi.1 hgc hst _ _ _ rfl, hi.2⟩

theorem distributeBalancedVehicles_keeps (ops : BatOps α B) (env : FEnv α) (win : Option Bool)
    (st st' : FState α B) (cmds : List (String × α)) (hi : SInv S gcs0 win st)
    (h : distributeBalancedVehicles ops env st = .ok (st', cmds)) : SInv S gcs0 win st' := by
  unfold distributeBalancedVehicles at h
  simp only [bind, Except.bind] at h
  split at h
  · cases h
  · rename_i vs _
    split at h
    · cases h
    · rename_i r hr
      simp only [Except.ok.injEq, Prod.mk.injEq] at h
      obtain ⟨rfl, _⟩ := h
      exact foldlM_inv (balVehicle ops env) (fun a => SInv S gcs0 win a.1)
        (fun s x s' hp hs => balVehicle_keeps ops env win s s' x hp hs) vs _ r hi hr

theorem surplusToVehicles_keeps (ops : BatOps α B) (env : FEnv α) (w w' : SWorld α B)
    (cmds : List (String × α)) (hi : Inv S gcs0 w) (h : surplusToVehicles ops env w = .ok (w', cmds)) :
    Inv S gcs0 w' := by
  unfold surplusToVehicles at h
  refine foldlM_inv _ (fun (a : SWorld α B × List (String × α)) => Inv S gcs0 a.1) ?_ w.vehicles (w, [])
    (w', cmds) hi h
  intro s x s' hp hs
  simp only [bind, Except.bind] at hs
  split at hs
  · simp only [Except.ok.injEq] at hs; subst hs; exact hp
  · split at hs
    · cases hs
    · rename_i cs hst
      split at hs
      · cases hs
      · rename_i gc hgc
        split at hs
        · cases hs
        · simp only [Except.ok.injEq] at hs
          subst hs
          exact inv_vehicleUpdate' hp (mem_of_find? hgc) hst _ _ _ rfl

theorem surplusToBatteries_keeps (ops : BatOps α B) (env : FEnv α) (w w' : SWorld α B)
    (hi : Inv S gcs0 w) (h : surplusToBatteries ops env w = .ok w') : Inv S gcs0 w' := by
  unfold surplusToBatteries at h
  refine foldlM_inv_mem _ (fun (a : SWorld α B) => Inv S gcs0 a) w.batteries ?_ w w' hi h
  intro s x s' hx hp hs
  have hxb : S x.id = true := hi.bat x hx
  simp only [bind, Except.bind] at hs
  split at hs
  · cases hs
  · rename_i gc hgc
    split at hs
    · cases hs
    · simp only [Except.ok.injEq] at hs
      subst hs
      exact inv_batteryUpdate hp (mem_of_find? hgc) _ _ _ (S_curBattery hp x hxb) (S_curBattery hp x hxb)

theorem balV2gVehicle_keeps (ops : BatOps α B) (env : FEnv α) (win curWindow : Option Bool)
    (acc acc' : V2gAcc α B) (v0 : VehicleS α B)
    (hi : SInv S gcs0 win acc.st) (h : balV2gVehicle ops env curWindow acc v0 = .ok acc') :
    SInv S gcs0 win acc'.st := by
  unfold balV2gVehicle at h
  simp only [bind, Except.bind, pure, Except.pure] at h
  split at h
  · simp only [Except.ok.injEq] at h; subst h; exact hi
  · split at h
    · simp only [Except.ok.injEq] at h; subst h; exact hi
    · split at h
      · cases h
      · rename_i cs hst
        split at h
        · cases h
        · split at h
          · cases h
          · split at h
            · simp only [Except.ok.injEq] at h; subst h; exact hi
            · split at h
              · cases h
              · rename_i gc hgc
                split at h
                · cases h
                · split at h
                  · split at h
                    · cases h
                    · simp only [Except.ok.injEq] at h
                      subst h
                      exact ⟨inv_vehicleUpdate hi.1 hgc hst _ _ _ rfl, hi.2⟩
                  · split at h
                    · cases h
                    · split at h
                      · cases h
                      · simp only [Except.ok.injEq] at h
                        subst h
                        exact ⟨inv_vehicleUpdate hi.1 hgc hst _ _ _ rfl, hi.2⟩

theorem distributeBalancedV2g_keeps (ops : BatOps α B) (env : FEnv α) (win : Option Bool)
    (st st' : FState α B) (cmds : List (String × α)) (hi : SInv S gcs0 win st)
    (h : distributeBalancedV2g ops env st = .ok (st', cmds)) : SInv S gcs0 win st' := by
  unfold distributeBalancedV2g at h
  simp only [bind, Except.bind] at h
  split at h
  · cases h
  · rename_i vs _
    split at h
    · cases h
    · split at h
      · cases h
      · rename_i rr hr
        simp only [Except.ok.injEq, Prod.mk.injEq] at h
        obtain ⟨rfl, _⟩ := h
        exact foldlM_inv (balV2gVehicle ops env _) (fun a => SInv S gcs0 win a.st)
          (fun s x s' hp hsx => balV2gVehicle_keeps ops env win _ s s' x hp hsx) vs _ rr hi hr

theorem distributeBalancedBatteries_keeps (ops : BatOps α B) (env : FEnv α) (win : Option Bool)
    (st st' : FState α B) (hi : SInv S gcs0 win st)
    (h : distributeBalancedBatteries ops env st = .ok st') : SInv S gcs0 win st' := by
  unfold distributeBalancedBatteries at h
  simp only [bind, Except.bind] at h
  split at h
  · cases h
  · split at h
    · cases h
    · refine foldlM_inv_mem _ (fun (a : FState α B) => SInv S gcs0 win a) st.w.batteries ?_ st st' hi h
      intro s x s' hx hp hs
      have hxb : S x.id = true := hi.1.bat x hx
      split at hs
      · cases hs
      · rename_i gc hgc
        have hgm := theGc_mem hgc
        repeat' split at hs
        all_goals first
          | (simp only [Except.ok.injEq] at hs; subst hs;
             first
              | exact hp
              | exact ⟨inv_batteryUpdate hp.1 hgm _ _ _ (S_curBattery hp.1 x hxb) (S_curBattery hp.1 x hxb), hp.2⟩)
          | cases hs

/-- **whole step, LOAD_STRAT balanced** (frame and `window` together) -/
theorem step_balanced_core (ops : BatOps α B) (env : FEnv α) (hstrat : env.strat = .balanced)
    (w w' : SWorld α B) (window win' : Option Bool) (events : List (FEvent α)) (cmds : List (String × α))
    (hi : Inv S gcs0 w) (h : FlexWindow.step ops env w window events = .ok (w', win', cmds)) :
    ∃ gc t0 rest, theGc w = .ok gc ∧ forecast env gc window events = .ok (t0 :: rest) ∧
      Inv S gcs0 w' ∧ win' = t0.window := by
  unfold FlexWindow.step at h
  simp only [bind, Except.bind, hstrat] at h
  split at h
  · cases h
  · rename_i gc hgc
    split at h
    · cases h
    · rename_i ts hts
      split at h
      · cases h
      · rename_i t0 rest
        refine ⟨gc, t0, rest, hgc, hts, ?_⟩
        simp only [beq_self_eq_true, if_true] at h
        have hinv0 : SInv S gcs0 t0.window (⟨resetStations w, t0.window, t0 :: rest⟩ : FState α B) :=
          ⟨hi.resetStations, rfl⟩
        split at h
        · cases h
        · rename_i r1 h1
          obtain ⟨st1, c1⟩ := r1
          have hinv1 := distributeBalancedVehicles_keeps ops env _ _ st1 c1 hinv0 h1
          simp only at h
          split at h
          · cases h
          · split at h
            · cases h
            · rename_i r2 h2
              obtain ⟨st2, c2, lv⟩ := r2
              have hinv2 : SInv S gcs0 t0.window st2 := by
                split at h2
                · split at h2
                  · cases h2
                  · rename_i r hs
                    simp only [pure, Except.pure, Except.ok.injEq, Prod.mk.injEq] at h2
                    obtain ⟨rfl, _, _⟩ := h2
                    exact ⟨surplusToVehicles_keeps ops env st1.w r.1 r.2 hinv1.1 hs, hinv1.2⟩
                · split at h2
                  · cases h2
                  · rename_i r hs
                    simp only [pure, Except.pure, Except.ok.injEq, Prod.mk.injEq] at h2
                    obtain ⟨rfl, _, _⟩ := h2
                    exact distributeBalancedV2g_keeps ops env _ st1 r.1 r.2 hinv1 hs
              simp only at h
              split at h
              · cases h
              · split at h
                · cases h
                · rename_i st3 h3
                  simp only [Except.ok.injEq, Prod.mk.injEq] at h
                  obtain ⟨rfl, rfl, _⟩ := h
                  have hinv3 : SInv S gcs0 t0.window st3 := by
                    split at h3
                    · split at h3
                      · cases h3
                      · rename_i w3 hs
                        simp only [pure, Except.pure, Except.ok.injEq] at h3
                        subst h3
                        exact ⟨surplusToBatteries_keeps ops env _ _ hinv2.1 hs, hinv2.2⟩
                    · exact distributeBalancedBatteries_keeps ops env _ _ _ hinv2 h3
                  exact hinv3

theorem step_inv_balanced (ops : BatOps α B) (env : FEnv α) (hstrat : env.strat = .balanced)
    (w w' : SWorld α B) (window win' : Option Bool) (events : List (FEvent α)) (cmds : List (String × α))
    (hi : Inv S gcs0 w) (h : FlexWindow.step ops env w window events = .ok (w', win', cmds)) : Inv S gcs0 w' := by
  obtain ⟨_, _, _, _, _, h1, _⟩ := step_balanced_core ops env hstrat w w' window win' events cmds hi h
  exact h1

/-! ### LOAD_STRAT greedy / needy -/

theorem distributePeakShavingVehicles_keeps (ops : BatOps α B) (env : FEnv α) (win : Option Bool)
    (st st' : FState α B) (cmds : List (String × α)) (hi : SInv S gcs0 win st)
    (h : distributePeakShavingVehicles ops env st = .ok (st', cmds)) : SInv S gcs0 win st' := by
  unfold distributePeakShavingVehicles at h
  simp only [bind, Except.bind] at h
  split at h
  · cases h
  · split at h
    · cases h
    · split at h
      · cases h
      · split at h
        · cases h
        · split at h
          · cases h
          · refine foldlM_inv _ (fun (a : FState α B × List (String × α)) => SInv S gcs0 win a.1) ?_ _ _ (st', cmds)
              ⟨⟨hi.1.keeps, hi.1.st, hi.1.bat⟩, hi.2⟩ h
            intro a kv a' hp ha
            split at ha
            · cases ha
            · rename_i cs hst
              split at ha
              · cases ha
              · rename_i gc hgc
                split at ha
                · cases ha
                · simp only [Except.ok.injEq] at ha
                  subst ha
                  have hcs := getStation_some hst
                  have hS : S kv.1 = true := hp.1.S_of_station? hcs
                  have hSid : S cs.id = true := hp.1.st cs (mem_of_find? hcs)
                  exact ⟨(hp.1.setGc _ (hp.1.key_addLoad (theGc_mem hgc) kv.1 kv.2 hS)).setStation _ hSid, hp.2⟩

theorem psV2gVehicle_keeps (ops : BatOps α B) (env : FEnv α) (win curWindow : Option Bool)
    (acc acc' : V2gAcc α B) (v0 : VehicleS α B)
    (hi : SInv S gcs0 win acc.st) (h : psV2gVehicle ops env curWindow acc v0 = .ok acc') :
    SInv S gcs0 win acc'.st := by
  unfold psV2gVehicle at h
  simp only [bind, Except.bind, pure, Except.pure] at h
  split at h
  · simp only [Except.ok.injEq] at h; subst h; exact hi
  · split at h
    · cases h
    · split at h
      · cases h
      · rename_i cs hst
        split at h
        · cases h
        · split at h
          · cases h
          · split at h
            · simp only [Except.ok.injEq] at h; subst h; exact hi
            · split at h
              · cases h
              · rename_i gc hgc
                repeat' split at h
                all_goals first
                  | (simp only [Except.ok.injEq] at h; subst h
                     exact ⟨inv_vehicleUpdate hi.1 hgc hst _ _ _ rfl, hi.2⟩)
                  | cases h

theorem distributePeakShavingV2g_keeps (ops : BatOps α B) (env : FEnv α) (win : Option Bool)
    (st st' : FState α B) (cmds : List (String × α)) (hi : SInv S gcs0 win st)
    (h : distributePeakShavingV2g ops env st = .ok (st', cmds)) : SInv S gcs0 win st' := by
  unfold distributePeakShavingV2g at h
  simp only [bind, Except.bind] at h
  split at h
  · cases h
  · rename_i vs _
    split at h
    · cases h
    · split at h
      · cases h
      · rename_i r hr
        simp only [Except.ok.injEq, Prod.mk.injEq] at h
        obtain ⟨rfl, _⟩ := h
        exact foldlM_inv (psV2gVehicle ops env _) (fun a => SInv S gcs0 win a.st)
          (fun s x s' hp hs => psV2gVehicle_keeps ops env win _ s s' x hp hs) vs _ r hi hr

theorem distributePeakShavingBatteries_keeps (ops : BatOps α B) (env : FEnv α) (win : Option Bool)
    (st st' : FState α B) (hi : SInv S gcs0 win st)
    (h : distributePeakShavingBatteries ops env st = .ok st') : SInv S gcs0 win st' := by
  unfold distributePeakShavingBatteries at h
  simp only [bind, Except.bind] at h
  split at h
  · cases h
  · split at h
    · split at h
      · cases h
      · split at h
        · cases h
        · cases h
        · split at h
          · cases h
          · rename_i r hr
            simp only [Except.ok.injEq] at h
            subst h
            refine foldlM_inv_mem _ (fun (a : FState α B × α) => SInv S gcs0 win a.1) st.w.batteries ?_ _ r hi hr
            intro s x s' hx hp hs
            have hxb : S x.id = true := hi.1.bat x hx
            repeat' split at hs
            all_goals first
              | (simp only [Except.ok.injEq] at hs; subst hs; exact hp)
              | (cases hs; done)
              | (simp only [Except.ok.injEq] at hs; subst hs
                 exact ⟨inv_batteryUpdate hp.1 (theGc_mem (by assumption)) _ _ _ (S_curBattery hp.1 x hxb)
                   (S_curBattery hp.1 x hxb), hp.2⟩)
    · split at h
      · cases h
      · split at h
        · cases h
        · cases h
        · refine foldlM_inv_mem _ (fun (a : FState α B) => SInv S gcs0 win a) st.w.batteries ?_ st st' hi h
          intro s x s' hx hp hs
          have hxb : S x.id = true := hi.1.bat x hx
          split at hs
          · cases hs
          · rename_i gc hgc
            split at hs
            · cases hs
            · simp only [Except.ok.injEq] at hs
              subst hs
              exact ⟨inv_batteryUpdate hp.1 (theGc_mem hgc) _ _ _ (S_curBattery hp.1 x hxb)
                (S_curBattery hp.1 x hxb), hp.2⟩

theorem liftPy_ok {β : Type} (x : Py β) (v : β) : liftPy x = (.ok v : FPy β) ↔ x = .ok v := by
  cases x <;> simp [liftPy]

/-- **whole step, LOAD_STRAT greedy / needy / other** (frame and `window` together) -/
theorem step_ps_core (ops : BatOps α B) (env : FEnv α) (hstrat : env.strat ≠ .balanced)
    (w w' : SWorld α B) (window win' : Option Bool) (events : List (FEvent α)) (cmds : List (String × α))
    (hi : Inv S gcs0 w) (h : FlexWindow.step ops env w window events = .ok (w', win', cmds)) :
    ∃ gc t0 rest, theGc w = .ok gc ∧ forecast env gc window events = .ok (t0 :: rest) ∧
      Inv S gcs0 w' ∧ win' = t0.window := by
  unfold FlexWindow.step at h
  simp only [bind, Except.bind] at h
  split at h
  · cases h
  · rename_i gc hgc
    split at h
    · cases h
    · rename_i ts hts
      split at h
      · cases h
      · rename_i t0 rest
        refine ⟨gc, t0, rest, hgc, hts, ?_⟩
        have hne : (env.strat == LoadStrat.balanced) = false := by simpa using hstrat
        simp only [hne, Bool.false_eq_true, if_false] at h
        have hinv0 : SInv S gcs0 t0.window (⟨resetStations w, t0.window, t0 :: rest⟩ : FState α B) :=
          ⟨hi.resetStations, rfl⟩
        split at h
        · cases h
        · rename_i r1 h1
          obtain ⟨st1, c1⟩ := r1
          have hinv1 := distributePeakShavingVehicles_keeps ops env _ _ st1 c1 hinv0 h1
          simp only at h
          split at h
          · cases h
          · split at h
            · cases h
            · rename_i r2 h2
              obtain ⟨st2, c2, lv⟩ := r2
              have hinv2 : SInv S gcs0 t0.window st2 := by
                split at h2
                · split at h2
                  · cases h2
                  · rename_i r hs
                    rw [liftPy_ok] at hs
                    simp only [pure, Except.pure, Except.ok.injEq, Prod.mk.injEq] at h2
                    obtain ⟨rfl, _, _⟩ := h2
                    exact ⟨distributeSurplus_keeps ops env.base st1.w r.1 r.2 hinv1.1 hs, hinv1.2⟩
                · split at h2
                  · cases h2
                  · rename_i r hs
                    simp only [pure, Except.pure, Except.ok.injEq, Prod.mk.injEq] at h2
                    obtain ⟨rfl, _, _⟩ := h2
                    exact distributePeakShavingV2g_keeps ops env _ st1 r.1 r.2 hinv1 hs
              simp only at h
              split at h
              · cases h
              · split at h
                · cases h
                · rename_i st3 h3
                  simp only [Except.ok.injEq, Prod.mk.injEq] at h
                  obtain ⟨rfl, rfl, _⟩ := h
                  have hinv3 : SInv S gcs0 t0.window st3 := by
                    split at h3
                    · split at h3
                      · cases h3
                      · rename_i w3 hs
                        simp only [pure, Except.pure, Except.ok.injEq] at h3
                        subst h3
                        exact ⟨surplusToBatteries_keeps ops env _ _ hinv2.1 hs, hinv2.2⟩
                    · exact distributePeakShavingBatteries_keeps ops env _ _ _ hinv2 h3
                  exact hinv3

theorem step_inv_ps (ops : BatOps α B) (env : FEnv α) (hstrat : env.strat ≠ .balanced)
    (w w' : SWorld α B) (window win' : Option Bool) (events : List (FEvent α)) (cmds : List (String × α))
    (hi : Inv S gcs0 w) (h : FlexWindow.step ops env w window events = .ok (w', win', cmds)) : Inv S gcs0 w' := by
  obtain ⟨_, _, _, _, _, h1, _⟩ := step_ps_core ops env hstrat w w' window win' events cmds hi h
  exact h1

/-- frame and `window` together, every LOAD_STRAT -/
theorem step_core (ops : BatOps α B) (env : FEnv α)
    (w w' : SWorld α B) (window win' : Option Bool) (events : List (FEvent α)) (cmds : List (String × α))
    (hi : Inv S gcs0 w) (h : FlexWindow.step ops env w window events = .ok (w', win', cmds)) :
    ∃ gc t0 rest, theGc w = .ok gc ∧ forecast env gc window events = .ok (t0 :: rest) ∧
      Inv S gcs0 w' ∧ win' = t0.window := by
  by_cases hstrat : env.strat = .balanced
  · exact step_balanced_core ops env hstrat w w' window win' events cmds hi h
  · exact step_ps_core ops env hstrat w w' window win' events cmds hi h

/-- **flex_window.**  The step keeps the invariant: ids, limits, costs and non-station entries of the connectors. -/
theorem step_inv (ops : BatOps α B) (env : FEnv α) (w w' : SWorld α B) (window win' : Option Bool)
    (events : List (FEvent α)) (cmds : List (String × α)) (hi : Inv S gcs0 w)
    (h : FlexWindow.step ops env w window events = .ok (w', win', cmds)) : Inv S gcs0 w' := by
  obtain ⟨_, _, _, _, _, h1, _⟩ := step_core ops env w w' window win' events cmds hi h
  exact h1

theorem step_keeps (ops : BatOps α B) (env : FEnv α) (w w' : SWorld α B) (window win' : Option Bool)
    (events : List (FEvent α)) (cmds : List (String × α))
    (h : FlexWindow.step ops env w window events = .ok (w', win', cmds)) : GcKeeps (sbName w) w.gcs w'.gcs :=
  (step_inv ops env w w' window win' events cmds (Inv.init w) h).keeps

/-- what is written to `gc.window`: the `window` field of the first forecast timestep -/
theorem step_window (ops : BatOps α B) (env : FEnv α) (w w' : SWorld α B) (window win' : Option Bool)
    (events : List (FEvent α)) (cmds : List (String × α))
    (h : FlexWindow.step ops env w window events = .ok (w', win', cmds)) :
    ∃ gc t0 rest, theGc w = .ok gc ∧ forecast env gc window events = .ok (t0 :: rest) ∧ win' = t0.window := by
  obtain ⟨gc, t0, rest, h1, h2, _, h3⟩ := step_core ops env w w' window win' events cmds (Inv.initTrue w) h
  exact ⟨gc, t0, rest, h1, h2, h3⟩

/-! ### the value written to `gc.window` when no event is due -/

/-- later forecast timesteps are appended: the first entry of a non-empty `timesteps` stays -/
theorem forecast_fold_head (env : FEnv α) (l : List Nat) (acc r : List (FEvent α) × FcSt α × List (TS α))
    (t : TS α) (tl : List (TS α)) (ha : acc.2.2 = t :: tl)
    (h : l.foldlM (forecastStep env) acc = .ok r) : ∃ tl', r.2.2 = t :: tl' := by
  induction l generalizing acc tl with
  | nil =>
    simp only [List.foldlM, pure, Except.pure, Except.ok.injEq] at h
    subst h; exact ⟨tl, ha⟩
  | cons i is ih =>
    simp only [List.foldlM, bind, Except.bind] at h
    split at h
    · cases h
    · rename_i a1 h1
      have hx : ∃ x, a1.2.2 = t :: (tl ++ [x]) := by
        unfold forecastStep at h1
        simp only [bind, Except.bind] at h1
        split at h1
        · cases h1
        · simp only [Except.ok.injEq] at h1
          subst h1
          exact ⟨_, by show acc.2.2 ++ _ = _; rw [ha]; rfl⟩
      obtain ⟨x, hx⟩ := hx
      exact ih a1 _ hx h

theorem consumeEvents_none_due (curTime : Int) (events : List (FEvent α)) (st : FcSt α)
    (hfut : ∀ e, events.head? = some e → curTime < e.start) :
    consumeEvents curTime events st = (events, st) := by
  cases events with
  | nil => rfl
  | cons e rest =>
    unfold consumeEvents
    rw [if_pos (hfut e rfl)]

theorem forecastStep_first (env : FEnv α) (acc a1 : List (FEvent α) × FcSt α × List (TS α)) (i : Nat)
    (hnil : acc.2.2 = [])
    (hc : consumeEvents (env.base.now + (i : Int) * env.base.interval) acc.1 acc.2.1 = (acc.1, acc.2.1))
    (h1 : forecastStep env acc i = .ok a1) : ∃ t, a1.2.2 = [t] ∧ t.window = acc.2.1.curWindow := by
  unfold forecastStep at h1
  simp only [bind, Except.bind, hc] at h1
  split at h1
  · cases h1
  · simp only [Except.ok.injEq] at h1
    subst h1
    exact ⟨_, by show acc.2.2 ++ _ = _; rw [hnil]; rfl, rfl⟩

/-- if the first pending event starts after the present step, the first forecast timestep carries `window` -/
theorem forecast_head_window (env : FEnv α) (gc : GcS α) (window : Option Bool) (events : List (FEvent α))
    (t0 : TS α) (rest : List (TS α))
    (hfut : ∀ e, events.head? = some e → env.base.now < e.start)
    (h : forecast env gc window events = .ok (t0 :: rest)) : t0.window = window := by
  unfold forecast at h
  simp only [bind, Except.bind] at h
  split at h
  · cases h
  · rename_i r hr
    simp only [Except.ok.injEq] at h
    cases hn : (env.horizon / env.base.interval).toNat with
    | zero =>
      rw [hn] at hr
      simp only [List.range_zero, List.foldlM, pure, Except.pure, Except.ok.injEq] at hr
      subst hr
      cases h
    | succ n =>
      rw [hn, List.range_succ_eq_map] at hr
      simp only [List.foldlM, bind, Except.bind] at hr
      split at hr
      · cases hr
      · rename_i a1 h1
        have hnow : env.base.now + ((0 : Nat) : Int) * env.base.interval = env.base.now := by
          rw [Int.natCast_zero, Int.zero_mul, Int.add_zero]
        obtain ⟨t, ht, htw⟩ := forecastStep_first env _ a1 0 rfl
          (by rw [hnow]; exact consumeEvents_none_due env.base.now events _ hfut) h1
        obtain ⟨tl', htl⟩ := forecast_fold_head env _ a1 r t [] ht hr
        rw [h] at htl
        simp only [List.cons.injEq] at htl
        rw [htl.1, htw]

/-- … and that is the value in force when no event is due: if the first event of `events` (hence, for a list sorted
by `start`, every event) starts after the present step, `win' = window` — the strategy re-writes the value it read -/
theorem step_window_unchanged_head (ops : BatOps α B) (env : FEnv α) (w w' : SWorld α B) (window win' : Option Bool)
    (events : List (FEvent α)) (cmds : List (String × α))
    (hfut : ∀ e, events.head? = some e → env.base.now < e.start)
    (h : FlexWindow.step ops env w window events = .ok (w', win', cmds)) : win' = window := by
  obtain ⟨gc, t0, rest, _, h2, h3⟩ := step_window ops env w w' window win' events cmds h
  rw [h3]; exact forecast_head_window env gc window events t0 rest hfut h2

/-- if every event of `events` starts after the present step (`env.base.now` = `current_time`; this is what
`Strategy.step` guarantees for `world_state.future_events`: it pops every event with `start_time <= current_time`),
`win' = window` -/
theorem step_window_unchanged (ops : BatOps α B) (env : FEnv α) (w w' : SWorld α B) (window win' : Option Bool)
    (events : List (FEvent α)) (cmds : List (String × α))
    (hfut : ∀ e ∈ events, env.base.now < e.start)
    (h : FlexWindow.step ops env w window events = .ok (w', win', cmds)) : win' = window :=
  step_window_unchanged_head ops env w w' window win' events cmds
    (fun e he => hfut e (List.mem_of_mem_head? he)) h

end FlexWindow
end Keeps
end SpiceEv
