/-
The virtual world `Distributed.step` builds for one connector is well-formed in the sense of `RuleSpec.WF`
(helper lemmas for Properties/C14_Spec.lean): the connected vehicles are distinct when the candidates are, the
connector's batteries are distinct when its battery-id list is.
-/
import SpiceEv.Proofs.RuleSpec
import SpiceEv.Proofs.StratDistributed
set_option linter.unusedSectionVars false
set_option linter.unusedVariables false
namespace SpiceEv.RuleSpec
open SpiceEv SpiceEv.Distrib
variable {α B : Type} [Field α] [LinearOrder α] [IsStrictOrderedRing α]

/-- the loop body of `connectedAt` -/
def connBody (w : SWorld α B) (gcId : String) (acc : List (VehicleS α B)) (id : String) : Py (List (VehicleS α B)) :=
  match w.vehicle? id with
  | none => .ok acc
  | some v =>
    match v.cs with
    | none => .ok acc
    | some csId =>
      if csId == "" then .ok acc
      else match w.station? csId with
        | none => .error .keyError
        | some cs => if cs.parent == gcId then .ok (acc ++ [v]) else .ok acc

theorem connectedAt_def (w : SWorld α B) (gcId : String) (cands : List String) :
    connectedAt w gcId cands = cands.foldlM (connBody w gcId) [] := rfl

theorem connectedAt_fold_sublist (w : SWorld α B) (gcId : String) :
    ∀ (cands : List String) (acc cvs : List (VehicleS α B)),
    cands.foldlM (connBody w gcId) acc = .ok cvs →
    ∃ l, cvs = acc ++ l ∧ (l.map (·.id)).Sublist cands := by
  intro cands
  induction cands with
  | nil =>
    intro acc cvs h
    simp only [List.foldlM_nil, pure, Except.pure, Except.ok.injEq] at h
    exact ⟨[], by simp [h], List.Sublist.refl _⟩
  | cons id rest ih =>
    intro acc cvs h
    simp only [List.foldlM_cons, bind, Except.bind, connBody] at h
    have skip : rest.foldlM (connBody w gcId) acc = .ok cvs → ∃ l, cvs = acc ++ l ∧ (l.map (·.id)).Sublist (id :: rest) := by
      intro h'
      obtain ⟨l, h1, h2⟩ := ih acc cvs h'
      exact ⟨l, h1, List.Sublist.cons _ h2⟩
    cases hv : w.vehicle? id with
    | none => simp only [hv] at h; exact skip h
    | some v =>
      simp only [hv] at h
      cases hcs : v.cs with
      | none => simp only [hcs] at h; exact skip h
      | some csId =>
        simp only [hcs] at h
        by_cases he : (csId == "") = true
        · simp only [he, if_true] at h; exact skip h
        · simp only [he, Bool.false_eq_true, if_false] at h
          cases hst : w.station? csId with
          | none => simp [hst] at h
          | some cs =>
            simp only [hst] at h
            by_cases hp : (cs.parent == gcId) = true
            · simp only [hp, if_true] at h
              obtain ⟨l, h1, h2⟩ := ih (acc ++ [v]) cvs h
              have hid : v.id = id := by
                have := List.find?_some (p := fun x : VehicleS α B => x.id == id) hv
                simpa using this
              refine ⟨v :: l, by simp [h1], ?_⟩
              simp only [List.map_cons, hid]
              exact List.Sublist.cons_cons _ h2
            · simp only [hp, Bool.false_eq_true, if_false] at h; exact skip h

theorem connectedAt_nodup (w : SWorld α B) (gcId : String) (cands : List String) (cvs : List (VehicleS α B))
    (h : connectedAt w gcId cands = .ok cvs) (hn : cands.Nodup) : (cvs.map (·.id)).Nodup := by
  rw [connectedAt_def] at h
  obtain ⟨l, h1, h2⟩ := connectedAt_fold_sublist w gcId cands [] cvs h
  simp only [List.nil_append] at h1
  subst h1
  exact hn.sublist h2

theorem depotBatteries_sublist (w : SWorld α B) : ∀ ids : List String,
    ((depotBatteries w ids).map (·.id)).Sublist ids := by
  intro ids
  induction ids with
  | nil => exact List.Sublist.refl _
  | cons id rest ih =>
    unfold depotBatteries at ih ⊢
    rw [List.filterMap_cons]
    cases hb : w.batteries.find? (·.id == id) with
    | none => simp only []; exact List.Sublist.cons _ ih
    | some b =>
      have hid : b.id = id := by
        have := List.find?_some (p := fun x : StatBatS α B => x.id == id) hb
        simpa using this
      simp only [List.map_cons, hid]
      exact List.Sublist.cons_cons _ ih

/-- the virtual world of one connector is well-formed -/
theorem virtualWorld_wf (w : SWorld α B) (gcId : String) (gc : GcS α) (cands : List String)
    (cvs : List (VehicleS α B)) (stations : List (StationS α)) (batIds : List String)
    (hcv : connectedAt w gcId cands = .ok cvs) (hcn : cands.Nodup) (hbn : batIds.Nodup) (hprice : gc.cost ≠ none) :
    WF (⟨[gc], stations, cvs, depotBatteries w batIds⟩ : SWorld α B) where
  gcIds := by simp
  vehicleIds := connectedAt_nodup w gcId cands cvs hcv hcn
  batteryIds := hbn.sublist (depotBatteries_sublist w batIds)
  priced := by intro g hg; simp only [List.mem_singleton] at hg; subst hg; exact hprice

end SpiceEv.RuleSpec
