#!/venv/bin/python
"""Finding H4 (C17): schedule / collective with a core standing time that never ends (no_drive_days = [0..6]) never
leaves `Schedule.dt_to_end_of_time_window` (`while dt_within_core_standing_time(...)`: no exit).

Lean witness: Properties/C17_Schedule.lean, `C17_schedule_step_hangs_when_core_standing_time_never_ends` (+ the
`NeverLeaves` example), Properties/C15.lean `C15_end_of_window_never`.

Usage: VERIF_REPO=<repo> tools/replay_H4.py [--timeout 8] [--out replays/H4_schedule_core_standing_time_never_ends.json]
The real `Scenario.run` is executed under the harness watchdog (SIGALRM); prints HANG (exit 1) if the watchdog fired,
TERMINATES (exit 0) otherwise.  With fixes/H4.diff applied the run terminates.  The written case is a C17 replay
(`./check C17 --replay <file>` reports C17:run_did_not_terminate:schedule on the unrepaired tree)."""
import argparse
import json
import os
import random
import sys

HERE = os.path.dirname(os.path.abspath(__file__))
sys.path.insert(0, os.path.join(HERE, "..", "harness"))
import engine  # noqa: E402
engine.use_repo()
import scen  # noqa: E402


def build():
    # a generated collective schedule scenario (seed fixed), then the core standing time is widened to the whole week
    for k in range(200):
        rng = random.Random("H4:%d" % k)
        full = scen.gen_scenario(rng, strategy="schedule", feasible=True)
        if full["options"].get("LOAD_STRAT") == "collective":
            break
    full["scenario"]["scenario"]["core_standing_time"] = {"no_drive_days": [0, 1, 2, 3, 4, 5, 6]}
    full["pid"] = "C17"
    full["report"] = "testing"
    return full


def main():
    ap = argparse.ArgumentParser()
    ap.add_argument("--timeout", type=int, default=8)
    ap.add_argument("--out", default=None)
    a = ap.parse_args()
    full = build()
    if a.out:
        with open(a.out, "w") as fh:
            json.dump(full, fh, indent=1, sort_keys=True)
    r = scen.run_real(full, timeout_s=a.timeout)
    if r.get("timeout"):
        print("HANG: watchdog fired after %d s; steps completed before the hang: %s" % (a.timeout, r.get("step_i")))
        return 1
    print("TERMINATES: steps=%s aborted=%s escaped=%s" % (r.get("step_i"), r.get("aborted"), r.get("escaped")))
    return 0


if __name__ == "__main__":
    sys.exit(main())
