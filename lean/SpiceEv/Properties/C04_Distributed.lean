/-
C04 for the charging strategy `distributed` (model: Model/StratDistributed.lean, tied to the code step by step
at the bit level by harness/s_distributed.py).

"Whenever fixed load and generation alone respect that limit, no charging strategy's decisions break it":
the complete `Distributed.step` — ranking, per-connector delegation to greedy / balanced on the virtual world,
battery support at opportunity stations (the connector limit is raised by the power the batteries can deliver and
restored afterwards), virtual vehicles for the batteries of a vacant station, the final surplus pass — never
leaves a connector above its limit, and every connector's limit after the step is its limit before the step.
-/
import SpiceEv.Proofs.StratDistributed
set_option linter.unusedSectionVars false
set_option linter.unusedVariables false
namespace SpiceEv
open SpiceEv.Distrib
variable {α : Type} [Field α] [LinearOrder α] [IsStrictOrderedRing α]

/-- **Distributed never breaks the connector limit and restores it exactly.**
For any battery obeying `BatLaw` (0 ≤ average power ≤ offered power — C01/C02) whose target-power discharge
delivers exactly `min target available` (`UnloadExact`, C02) and whose `get_available_power` returns
(`AvailTotal`, C01), for any number of connectors of either station type, any choice of greedy / balanced as
sub-strategy on either side (`isRule`: neither a peak-shaving nor a peak-load-window sub-strategy), any vehicles, stations, `number_cs`, future arrivals, and any number of
stationary batteries per connector: if before the step every connector's load is at most its limit
`cur_max_power ≥ 0`, then after `Distributed.step`
* every connector's load is at most its limit, and
* every connector's limit is what it was before the step (the temporary increase by the supporting batteries of an
  opportunity station is undone — with several batteries, too: the defect repaired by fix fc96d35).
Well-formedness: the battery ids listed per connector in `gc_battery` are distinct (they are dict keys), minimum
battery powers and the tolerances are non-negative. -/
theorem C04_distributed_upper {B : Type} (dops : DOps α B) (law : BatLaw dops.bat)
    (hex : UnloadExact dops.bat) (htot : AvailTotal dops.bat) (de : DEnv α)
    (he : 0 ≤ de.env.eps) (hed : 0 ≤ de.deps.eps) (heo : 0 ≤ de.opps.eps)
    (hd : de.deps.isRule) (ho : de.opps.isRule)
    (s s' : DState α B) (cmds : List (String × α))
    (hgb : ∀ g, ((sdGet s.init.gcBattery g).getD []).Nodup)
    (hmin : ∀ b ∈ s.world.batteries, 0 ≤ b.minChargingPower)
    (h0 : ∀ g ∈ s.world.gcs, 0 ≤ g.curMax ∧ g.currentLoad ≤ g.curMax)
    (h : step dops de s = .ok (s', cmds)) :
    (∀ g' ∈ s'.world.gcs, g'.currentLoad ≤ g'.curMax) ∧
    (∀ g' ∈ s'.world.gcs, ∃ g ∈ s.world.gcs, g'.id = g.id ∧ g'.curMax = g.curMax) := by
  unfold step at h
  simp only [bind, Except.bind] at h
  split at h
  · cases h
  · rename_i lk _
    split at h
    · cases h
    · rename_i connected _
      split at h
      · cases h
      · rename_i st1 hfold
        obtain ⟨w1, ini1, c1⟩ := st1
        simp only at h
        split at h
        · cases h
        · rename_i ids _
          split at h
          · cases h
          · rename_i r hsur
            obtain ⟨w2, c2⟩ := r
            simp only [Except.ok.injEq, Prod.mk.injEq] at h
            obtain ⟨rfl, _⟩ := h
            have hinv0 : StepInv s.world s.init.gcBattery (resetStations s.world, s.init, []) :=
              ⟨h0, sameMeta_of_gcs_eq rfl, rfl, hmin, rfl⟩
            have hinv1 := stepGc_fold dops law hex htot de hed heo hd ho s.numberCs connected lk s.world
              s.init.gcBattery hgb _ _ (w1, ini1, c1) hinv0 hfold
            obtain ⟨ok2, same2, _⟩ := distributeSurplusOn_inv dops.bat law de.env he w1 w2 ids c2 hinv1.ok hsur
            refine ⟨fun g hg => (ok2 g hg).2, ?_⟩
            intro g' hg'
            obtain ⟨g, hg, e1, _, e3⟩ := (hinv1.same.trans same2) g' hg'
            exact ⟨g, hg, e1, e3⟩

/-- The same for one connector's treatment inside the step (`stepGc`): it keeps every connector within its limit,
changes no limit, and touches no other connector's loads (frame; used for C14's independence sentence). -/
theorem C04_distributed_connector {B : Type} (dops : DOps α B) (law : BatLaw dops.bat)
    (hex : UnloadExact dops.bat) (htot : AvailTotal dops.bat) (de : DEnv α)
    (hed : 0 ≤ de.deps.eps) (heo : 0 ≤ de.opps.eps) (hd : de.deps.isRule) (ho : de.opps.isRule)
    (ncs : List (String × Option Int)) (conn : List (String × List String)) (lk : Look α)
    (st st' : SWorld α B × DInit α × List (String × α)) (gcId : String)
    (hgb : ∀ g, ((sdGet st.2.1.gcBattery g).getD []).Nodup)
    (hmin : ∀ b ∈ st.1.batteries, 0 ≤ b.minChargingPower)
    (h0 : ∀ g ∈ st.1.gcs, 0 ≤ g.curMax ∧ g.currentLoad ≤ g.curMax)
    (h : stepGc dops de ncs conn lk st gcId = .ok st') :
    (∀ g' ∈ st'.1.gcs, 0 ≤ g'.curMax ∧ g'.currentLoad ≤ g'.curMax) ∧
    (∀ g' ∈ st'.1.gcs, ∃ g ∈ st.1.gcs, g'.id = g.id ∧ g'.curMax = g.curMax) := by
  have hinv := stepGc_inv dops law hex htot de hed heo hd ho ncs conn lk st.1 st.2.1.gcBattery hgb st st' gcId
    ⟨h0, SameMeta.refl _, rfl, hmin, rfl⟩ h
  refine ⟨hinv.ok, ?_⟩
  intro g' hg'
  obtain ⟨g, hg, e1, _, e3⟩ := hinv.same g' hg'
  exact ⟨g, hg, e1, e3⟩

/-- Non-vacuity: the two-connector world `toyState` (an opportunity station whose vehicle is offered
4 + 11 = 15 kW on a 10 kW connector because the stationary battery can deliver 5 kW, and a depot) satisfies every
hypothesis; the step returns and the theorem applies. -/
example : ∃ s' cmds, step (toyDOps 5) toyEnv toyState = .ok (s', cmds) ∧
    (∀ g' ∈ s'.world.gcs, g'.currentLoad ≤ g'.curMax) ∧
    (∀ g' ∈ s'.world.gcs, ∃ g ∈ toyState.world.gcs, g'.id = g.id ∧ g'.curMax = g.curMax) := by
  have hok : (step (toyDOps 5) toyEnv toyState).toBool = true := by decide +kernel
  cases h : step (toyDOps 5) toyEnv toyState with
  | error e => rw [h] at hok; cases hok
  | ok r =>
    obtain ⟨s', cmds⟩ := r
    obtain ⟨hgb, hmin, h0⟩ := toyState_wf
    exact ⟨s', cmds, rfl, C04_distributed_upper (toyDOps 5) (toyOps_law 5 (by norm_num)) (toyOps_exact 5)
      (toyOps_total 5) toyEnv (by norm_num [toyEnv]) (by norm_num [toyEnv]) (by norm_num [toyEnv]) ⟨rfl, rfl⟩ ⟨rfl, rfl⟩
      toyState s' cmds hgb hmin h0 h⟩

/-- … and the limit is used to the full: after the step GC1 carries exactly its 10 kW (4 fixed + 11 vehicle − 5
battery), its limit is 10 kW again, GC2 carries 11 kW of 20. -/
example : (match step (toyDOps 5) toyEnv toyState with
    | .ok (s', c) => (s'.world.gcs.map (fun (g : GcS ℚ) => (g.id, g.curMax, g.currentLoad)), c)
    | .error _ => ([], [])) =
    ([("GC1", 10, 10), ("GC2", 20, 11)], [("CS_v1_opps", 11), ("CS_v2_deps", 11)]) := by
  decide +kernel

end SpiceEv
