/-
Further station lemmas for the `BalancedMarket` model: which station is written, in which direction.
-/
import SpiceEv.Proofs.StratBalancedMarket
set_option linter.unusedSectionVars false
set_option linter.unusedSimpArgs false
set_option linter.unusedVariables false
namespace SpiceEv.BalancedMarket
open SpiceEv
variable {α B : Type} [Field α] [LinearOrder α] [IsStrictOrderedRing α]

/-- the planning loop keeps the station's identity and never lowers its power -/
theorem chargeLoop_cs (ops : Ops α B) (law : BatLaw ops.toBatOps) (env : Env α) (v : VehicleS α B)
    (ts : List (TS α)) (sorted : List (α × Nat)) :
    ∀ (fuel : Nat) (st st' : VSt α B), chargeLoop ops env v ts sorted fuel st = .ok st' →
      st'.cs.id = st.cs.id ∧ st.cs.currentPower ≤ st'.cs.currentPower := by
  intro fuel
  induction fuel with
  | zero => intro st st' h; simp [chargeLoop] at h
  | succ n ih =>
    intro st st' h
    unfold chargeLoop at h
    split at h
    · simp only [Except.ok.injEq] at h; subst h; exact ⟨rfl, le_refl _⟩
    · rename_i cost startIdx hsorted
      simp only at h
      generalize ((if cost < env.priceThreshold then 1 else v.desiredSoc) - env.eps) = desired at h
      split at h
      · simp only [Except.ok.injEq] at h; subst h; exact ⟨rfl, le_refl _⟩
      · simp only [bind, Except.bind] at h
        split at h
        · cases h
        · rename_i r1 hr1
          obtain ⟨pw1, sm1⟩ := r1
          simp only at h
          split at h
          · cases h
          · rename_i r2 hr2
            obtain ⟨pw2, sm2⟩ := r2
            simp only at h
            split at h
            · cases h
            · rename_i p0 hp0
              split at h
              · split at h
                · cases h
                · rename_i r3 hr3
                  obtain ⟨bat', avg⟩ := r3
                  simp only [Except.ok.injEq] at h
                  subst h
                  have hl := law.load_target _ _ _ _ hr3
                  refine ⟨rfl, ?_⟩
                  show st.cs.currentPower ≤ st.cs.currentPower + avg
                  linarith [hl.1]
              · exact ih { st with sortedIdx := (samePrice env sorted st.sortedIdx cost startIdx).2, power := pw2, sim := sm2 } st' h

theorem applyV2g_cs_id (ops : Ops α B) (v : VehicleS α B) (st st' : VSt α B) (sp : α)
    (h : applyV2g ops v st sp = .ok st') : st'.cs.id = st.cs.id := by
  unfold applyV2g at h
  split at h
  · simp only [bind, Except.bind] at h
    split at h
    · cases h
    · simp only [Except.ok.injEq] at h; subst h; rfl
  · split at h
    · simp only [bind, Except.bind] at h
      split at h
      · cases h
      · simp only [Except.ok.injEq] at h; subst h; rfl
    · simp only [Except.ok.injEq] at h; subst h; rfl

/-- the V2G search keeps the station's identity -/
theorem v2gLoop_cs_id (ops : Ops α B) (env : Env α) (v : VehicleS α B) (ts : List (TS α))
    (sorted : List (α × Nat)) :
    ∀ (k : Nat) (st st' : VSt α B), v2gLoop ops env v ts sorted k st = .ok st' →
      st'.cs.id = st.cs.id := by
  intro k
  induction k with
  | zero => intro st st' h; simp only [v2gLoop, Except.ok.injEq] at h; subst h; rfl
  | succ k ih =>
    intro st st' h
    unfold v2gLoop at h
    split at h
    · simp only [Except.ok.injEq] at h; subst h; rfl
    · simp only [bind, Except.bind] at h
      split at h
      · cases h
      · rename_i r hr
        obtain ⟨v2gCost, v2gTs⟩ := r
        simp only at h
        split at h
        · simp only [Except.ok.injEq] at h; subst h; rfl
        · split at h
          · cases h
          · split at h
            · cases h
            · split at h
              · cases h
              · rename_i c hc
                split at h
                · have := applyV2g_cs_id ops v _ st' _ h
                  rw [this]
                  split <;> rfl
                · have := ih _ st' h
                  rw [this]
                  split <;> rfl

/-! ### only connected stations carry power; without V2G no station is discharged -/

def NNInv (w : SWorld α B) : Prop := ∀ s ∈ w.stations, 0 ≤ s.currentPower

/-- a station to which no vehicle is connected carries no power -/
def ConnInv (w : SWorld α B) : Prop :=
  ∀ s ∈ w.stations, (∀ v ∈ w.vehicles, v.cs ≠ some s.id) → s.currentPower = 0

def VNodup (w : SWorld α B) : Prop := (w.vehicles.map (·.id)).Nodup

theorem setVehicle_ids (w : SWorld α B) (v' : VehicleS α B) :
    (w.setVehicle v').vehicles.map (·.id) = w.vehicles.map (·.id) := by
  unfold SWorld.setVehicle
  simp only [List.map_map]
  apply List.map_congr_left
  intro x hx
  simp only [Function.comp]
  split
  · rename_i h; simpa using (by simpa using h : x.id = v'.id).symm
  · rfl

theorem vnodup_update (w : SWorld α B) (v' : VehicleS α B) (cs' : StationS α) (h : VNodup w) :
    VNodup ((w.setVehicle v').setStation cs') := by
  unfold VNodup at *
  show ((w.setVehicle v').vehicles.map (·.id)).Nodup
  rw [setVehicle_ids]; exact h

theorem nn_update (w : SWorld α B) (v' : VehicleS α B) (cs' : StationS α) (h : NNInv w)
    (hc : 0 ≤ cs'.currentPower) : NNInv ((w.setVehicle v').setStation cs') := by
  intro s hs
  rcases mem_setStation _ _ s hs with rfl | hs'
  · exact hc
  · exact h s hs'

theorem veh_eq_of_id_eq (vs : List (VehicleS α B)) (hnd : (vs.map (·.id)).Nodup) (a b : VehicleS α B)
    (ha : a ∈ vs) (hb : b ∈ vs) (h : a.id = b.id) : a = b := by
  induction vs with
  | nil => simp at ha
  | cons x xs ih =>
    simp only [List.map_cons, List.nodup_cons, List.mem_map, not_exists, not_and] at hnd
    rcases List.mem_cons.mp ha with rfl | ha' <;> rcases List.mem_cons.mp hb with rfl | hb'
    · rfl
    · exact absurd h.symm (hnd.1 b hb')
    · exact absurd h (hnd.1 a ha')
    · exact ih hnd.2 ha' hb'

theorem conn_update (w : SWorld α B) (v : VehicleS α B) (hv : v ∈ w.vehicles) (bat : B)
    (cs' : StationS α) (hcs : v.cs = some cs'.id) (hnd : VNodup w) (h : ConnInv w) :
    ConnInv ((w.setVehicle { v with bat := bat }).setStation cs') := by
  intro s hs hno
  have hvmem : ({ v with bat := bat } : VehicleS α B) ∈
      ((w.setVehicle { v with bat := bat }).setStation cs').vehicles := by
    show _ ∈ (w.setVehicle { v with bat := bat }).vehicles
    unfold SWorld.setVehicle
    simp only [List.mem_map]
    exact ⟨v, hv, by simp⟩
  rcases mem_setStation _ _ s hs with rfl | hs'
  · exact absurd hcs (hno { v with bat := bat } hvmem)
  · apply h s hs'
    intro u hu
    have humem : (if u.id == v.id then ({ v with bat := bat } : VehicleS α B) else u) ∈
        ((w.setVehicle { v with bat := bat }).setStation cs').vehicles := by
      show _ ∈ (w.setVehicle { v with bat := bat }).vehicles
      unfold SWorld.setVehicle
      simp only [List.mem_map]
      exact ⟨u, hu, rfl⟩
    have := hno _ humem
    by_cases hid : (u.id == v.id) = true
    · have hue : u = v := veh_eq_of_id_eq _ hnd u v hu hv (by simpa using hid)
      subst hue
      simpa [hid] using this
    · simpa [hid] using this

theorem vehicleBody_conn (ops : Ops α B) (law : BatLaw ops.toBatOps) (env : Env α)
    (g g' : GSt α B) (vid : String) (hnd : VNodup g.w) (hc : ConnInv g.w)
    (h : vehicleBody ops env g vid = .ok g') : VNodup g'.w ∧ ConnInv g'.w := by
  unfold vehicleBody at h
  split at h
  · cases h
  · rename_i v hv
    have hvmem : v ∈ g.w.vehicles := by
      unfold SWorld.vehicle? at hv; exact List.mem_of_find?_eq_some hv
    split at h
    · cases h
    · rename_i csId hcs
      split at h
      · cases h
      · rename_i cs hst
        obtain ⟨hsm, hcsid⟩ := station?_some _ _ cs hst
        split at h
        · cases h
        · simp only [bind, Except.bind] at h
          split at h
          · cases h
          · rename_i sorted hsorted
            split at h
            · cases h
            · rename_i st1 hch
              have h1 := (chargeLoop_cs ops law env v g.ts sorted _ _ st1 hch).1
              split at h
              · cases h
              · rename_i st2 hv2g
                have h2 : st2.cs.id = cs.id := by
                  split at hv2g
                  · rw [v2gLoop_cs_id ops env v g.ts sorted _ st1 st2 hv2g]; exact h1
                  · simp only [pure, Except.pure, Except.ok.injEq] at hv2g
                    subst hv2g; exact h1
                split at h
                · cases h
                · simp only [Except.ok.injEq] at h
                  subst h
                  exact ⟨vnodup_update _ _ _ hnd,
                    conn_update g.w v hvmem st2.bat st2.cs (by rw [hcs, h2, hcsid]) hnd hc⟩

theorem surplusBody_conn (ops : Ops α B) (env : Env α)
    (g g' : GSt α B) (vid : String) (hnd : VNodup g.w) (hc : ConnInv g.w)
    (h : surplusBody ops env g vid = .ok g') : VNodup g'.w ∧ ConnInv g'.w := by
  unfold surplusBody at h
  split at h
  · cases h
  · rename_i v hv
    have hvmem : v ∈ g.w.vehicles := by
      unfold SWorld.vehicle? at hv; exact List.mem_of_find?_eq_some hv
    split at h
    · cases h
    · rename_i csId hcs
      split at h
      · cases h
      · rename_i cs hst
        obtain ⟨hsm, hcsid⟩ := station?_some _ _ cs hst
        simp only at h
        split at h
        · simp only [bind, Except.bind] at h
          split at h
          · cases h
          · rename_i r hr
            obtain ⟨bat', avg⟩ := r
            simp only [Except.ok.injEq] at h
            subst h
            exact ⟨vnodup_update _ _ _ hnd,
              conn_update g.w v hvmem bat' { cs with currentPower := cs.currentPower + avg }
                (by rw [hcs, hcsid]) hnd hc⟩
        · simp only [Except.ok.injEq] at h
          subst h; exact ⟨hnd, hc⟩

theorem batteryBody_vehicles (ops : Ops α B) (env : Env α) (nCheap : Option Nat)
    (g g' : GSt α B) (bid : String)
    (h : batteryBody ops env nCheap g bid = .ok g') : g'.w.vehicles = g.w.vehicles := by
  unfold batteryBody at h
  split at h
  · cases h
  · rename_i b hb
    split at h
    · simp only [Except.ok.injEq] at h; subst h; rfl
    · split at h
      · cases h
      · rename_i n
        simp only [bind, Except.bind] at h
        split at h
        · cases h
        · split at h
          · cases h
          · split at h
            · cases h
            · split at h
              · split at h
                · cases h
                · simp only [Except.ok.injEq] at h; subst h; rfl
              · simp only [Except.ok.injEq] at h; subst h; rfl

/-- with nobody discharging and no feed-in beyond `EPS` the surplus pass does nothing -/
theorem surplusBody_idle (ops : Ops α B) (env : Env α) (g g' : GSt α B) (vid : String)
    (hdis : g.dis = []) (hload : -env.eps ≤ g.gc.currentLoad)
    (h : surplusBody ops env g vid = .ok g') : g' = g := by
  unfold surplusBody at h
  split at h
  · cases h
  · split at h
    · cases h
    · split at h
      · cases h
      · simp only at h
        have hav : currentLoadExcl g.gc g.dis = g.gc.currentLoad := by
          rw [hdis]; unfold currentLoadExcl GcS.currentLoad; simp
        rw [hav] at h
        rw [if_neg (by intro hc; exact absurd hc.1 (not_lt.mpr hload))] at h
        simp only [Except.ok.injEq] at h
        exact h.symm

def NoV2g (w : SWorld α B) : Prop := ∀ v ∈ w.vehicles, v.v2g = false

theorem nov2g_update (w : SWorld α B) (v : VehicleS α B) (hv : v.v2g = false) (bat : B)
    (cs' : StationS α) (h : NoV2g w) : NoV2g ((w.setVehicle { v with bat := bat }).setStation cs') := by
  intro u hu
  have hu' : u ∈ (w.setVehicle { v with bat := bat }).vehicles := hu
  unfold SWorld.setVehicle at hu'
  simp only [List.mem_map] at hu'
  obtain ⟨x, hx, rfl⟩ := hu'
  split
  · exact hv
  · exact h x hx

theorem vehicleBody_nn (ops : Ops α B) (law : BatLaw ops.toBatOps) (env : Env α)
    (g g' : GSt α B) (vid : String) (hnv : NoV2g g.w) (hnn : NNInv g.w)
    (h : vehicleBody ops env g vid = .ok g') : NoV2g g'.w ∧ NNInv g'.w := by
  unfold vehicleBody at h
  split at h
  · cases h
  · rename_i v hv
    have hvmem : v ∈ g.w.vehicles := by
      unfold SWorld.vehicle? at hv; exact List.mem_of_find?_eq_some hv
    have hv2g := hnv v hvmem
    split at h
    · cases h
    · rename_i csId hcs
      split at h
      · cases h
      · rename_i cs hst
        obtain ⟨hsm, hcsid⟩ := station?_some _ _ cs hst
        split at h
        · cases h
        · simp only [bind, Except.bind] at h
          split at h
          · cases h
          · rename_i sorted hsorted
            split at h
            · cases h
            · rename_i st1 hch
              have h1 := (chargeLoop_cs ops law env v g.ts sorted _ _ st1 hch).2
              split at h
              · cases h
              · rename_i st2 hst2
                rw [if_neg (by rw [hv2g]; simp)] at hst2
                simp only [pure, Except.pure, Except.ok.injEq] at hst2
                subst hst2
                split at h
                · cases h
                · simp only [Except.ok.injEq] at h
                  subst h
                  exact ⟨nov2g_update g.w v hv2g _ _ hnv,
                    nn_update g.w _ _ hnn (le_trans (hnn cs hsm) h1)⟩

theorem surplusBody_nn (ops : Ops α B) (law : BatLaw ops.toBatOps) (env : Env α)
    (g g' : GSt α B) (vid : String) (hnv : NoV2g g.w) (hnn : NNInv g.w)
    (h : surplusBody ops env g vid = .ok g') : NoV2g g'.w ∧ NNInv g'.w := by
  unfold surplusBody at h
  split at h
  · cases h
  · rename_i v hv
    have hvmem : v ∈ g.w.vehicles := by
      unfold SWorld.vehicle? at hv; exact List.mem_of_find?_eq_some hv
    split at h
    · cases h
    · rename_i csId hcs
      split at h
      · cases h
      · rename_i cs hst
        obtain ⟨hsm, hcsid⟩ := station?_some _ _ cs hst
        simp only at h
        split at h
        · simp only [bind, Except.bind] at h
          split at h
          · cases h
          · rename_i r hr
            obtain ⟨bat', avg⟩ := r
            simp only [Except.ok.injEq] at h
            subst h
            have hl := law.load_max _ _ _ _ hr
            exact ⟨nov2g_update g.w v (hnv v hvmem) _ _ hnv,
              nn_update g.w _ _ hnn (by show 0 ≤ cs.currentPower + avg; linarith [hnn cs hsm, hl.1])⟩
        · simp only [Except.ok.injEq] at h
          subst h; exact ⟨hnv, hnn⟩

/-- a property of a world that only depends on its stations and vehicles survives `step_gc`, if the two
vehicle loops keep it -/
theorem stepGc_sv (ops : Ops α B) (env : Env α) (P : SWorld α B → Prop)
    (hcongr : ∀ w1 w2 : SWorld α B, w2.stations = w1.stations → w2.vehicles = w1.vehicles → P w1 → P w2)
    (hveh : ∀ g g' vid, P g.w → vehicleBody ops env g vid = .ok g' → P g'.w)
    (hsur : ∀ g g' vid, P g.w → surplusBody ops env g vid = .ok g' → P g'.w)
    (w w' : SWorld α B) (gcId : String) (cmds : List (String × α)) (hw : P w)
    (h : stepGc ops env w gcId = .ok (w', cmds)) : P w' := by
  unfold stepGc at h
  split at h
  · cases h
  · rename_i gc hgc
    simp only [bind, Except.bind] at h
    split at h
    · cases h
    · split at h
      · cases h
      · rename_i vids hvids
        split at h
        · cases h
        · rename_i ts hts
          split at h
          · cases h
          · rename_i g1 hg1
            split at h
            · cases h
            · rename_i g2 hg2
              split at h
              · cases h
              · rename_i nCheap hn
                split at h
                · cases h
                · rename_i g3 hg3
                  simp only [Except.ok.injEq, Prod.mk.injEq] at h
                  obtain ⟨rfl, _⟩ := h
                  have h1 : P g1.w := foldlM_inv _ (fun g => P g.w) (fun g vid g' => hveh g g' vid) vids _ g1 hw hg1
                  have h2 : P g2.w := foldlM_inv _ (fun g => P g.w) (fun g vid g' => hsur g g' vid) vids _ g2 h1 hg2
                  have h3 : P g3.w := foldlM_inv _ (fun g => P g.w)
                    (fun g bid g' hg hstep =>
                      hcongr g.w g'.w (batteryBody_stations ops env nCheap g g' bid hstep)
                        (batteryBody_vehicles ops env nCheap g g' bid hstep) hg)
                    _ _ g3 h2 hg3
                  exact hcongr g3.w _ rfl rfl h3

theorem step_sv (ops : Ops α B) (env : Env α) (P : SWorld α B → Prop)
    (hcongr : ∀ w1 w2 : SWorld α B, w2.stations = w1.stations → w2.vehicles = w1.vehicles → P w1 → P w2)
    (hveh : ∀ g g' vid, P g.w → vehicleBody ops env g vid = .ok g' → P g'.w)
    (hsur : ∀ g g' vid, P g.w → surplusBody ops env g vid = .ok g' → P g'.w)
    (w w' : SWorld α B) (cmds : List (String × α)) (hw : P (resetStations w))
    (h : step ops env w = .ok (w', cmds)) : P w' := by
  unfold step at h
  refine foldlM_inv _ (fun (st : SWorld α B × List (String × α)) => P st.1) ?_ _ _ (w', cmds) hw h
  intro st gid st' hst hstep
  simp only [bind, Except.bind] at hstep
  split at hstep
  · cases hstep
  · rename_i r hr
    obtain ⟨w1, c1⟩ := r
    simp only [pure, Except.pure, Except.ok.injEq] at hstep
    subst hstep
    exact stepGc_sv ops env P hcongr hveh hsur st.1 w1 gid c1 hst hr

/-- after `BalancedMarket.step`, a station to which no vehicle is connected carries no power -/
theorem step_conn (ops : Ops α B) (law : BatLaw ops.toBatOps) (env : Env α)
    (w w' : SWorld α B) (cmds : List (String × α)) (hnd : VNodup w)
    (h : step ops env w = .ok (w', cmds)) : ConnInv w' := by
  have := step_sv ops env (fun w => VNodup w ∧ ConnInv w)
    (fun w1 w2 hs hv hp => by
      unfold VNodup ConnInv at *
      rw [hs, hv]; exact hp)
    (fun g g' vid hp hstep => vehicleBody_conn ops law env g g' vid hp.1 hp.2 hstep)
    (fun g g' vid hp hstep => surplusBody_conn ops env g g' vid hp.1 hp.2 hstep)
    w w' cmds ⟨hnd, ?_⟩ h
  · exact this.2
  · intro s hs _
    unfold resetStations at hs
    simp only [List.mem_map] at hs
    obtain ⟨x, _, rfl⟩ := hs
    rfl

/-- without V2G-capable vehicles no station carries negative power after `BalancedMarket.step` -/
theorem step_nn (ops : Ops α B) (law : BatLaw ops.toBatOps) (env : Env α)
    (w w' : SWorld α B) (cmds : List (String × α)) (hnv : NoV2g w)
    (h : step ops env w = .ok (w', cmds)) : NNInv w' := by
  have := step_sv ops env (fun w => NoV2g w ∧ NNInv w)
    (fun w1 w2 hs hv hp => by
      unfold NoV2g NNInv at *
      rw [hs, hv]; exact hp)
    (fun g g' vid hp hstep => vehicleBody_nn ops law env g g' vid hp.1 hp.2 hstep)
    (fun g g' vid hp hstep => surplusBody_nn ops law env g g' vid hp.1 hp.2 hstep)
    w w' cmds ⟨hnv, ?_⟩ h
  · exact this.2
  · intro s hs
    unfold resetStations at hs
    simp only [List.mem_map] at hs
    obtain ⟨x, _, rfl⟩ := hs
    exact le_refl _

end SpiceEv.BalancedMarket
