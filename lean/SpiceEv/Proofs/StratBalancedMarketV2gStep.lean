/-
Feed-in side of the connector limit for the whole step with V2G-capable vehicles (after BM1):
the forecast of the current timestep never falls below the connector's real headroom.
-/
import SpiceEv.Proofs.StratBalancedMarketV2gLimit
set_option linter.unusedSectionVars false
set_option linter.unusedSimpArgs false
set_option linter.unusedVariables false
namespace SpiceEv.BalancedMarket
open SpiceEv
variable {α B : Type} [Field α] [LinearOrder α] [IsStrictOrderedRing α]

theorem foldlM_inv_mem {σ β : Type} (f : σ → β → Py σ) (P : σ → Prop) :
    ∀ (l : List β) (s s' : σ), (∀ s b s', b ∈ l → P s → f s b = .ok s' → P s') → P s →
      l.foldlM f s = .ok s' → P s' := by
  intro l
  induction l with
  | nil =>
    intro s s' _ hs h
    simp only [List.foldlM_nil, pure, Except.pure, Except.ok.injEq] at h
    subst h; exact hs
  | cons b rest ih =>
    intro s s' hf hs h
    simp only [List.foldlM_cons, bind, Except.bind] at h
    split at h
    · cases h
    · rename_i s1 h1
      exact ih s1 s' (fun s b s' hb => hf s b s' (List.mem_cons_of_mem _ hb))
        (hf s b s1 (List.mem_cons_self ..) hs h1) h

/-- a property of the `power` list that survives assignments at the indices of `same` -/
def Closed (same : List Nat) (Q : List α → Prop) : Prop :=
  ∀ (p : List α) (i : Nat) (x : α), i ∈ same → Q p → Q (p.set i x)

theorem naivePass_Q (ops : Ops α B) (cs : StationS α) (vmin : α) (ts : List (TS α)) (same : List Nat)
    (Q : List α → Prop) (hQ : Closed same Q) (power power' : List α) (sim sim' : B) (hp : Q power)
    (h : naivePass ops cs vmin ts same power sim = .ok (power', sim')) : Q power' := by
  unfold naivePass at h
  refine foldlM_inv_mem _ (fun st => Q st.1) same (power, sim) (power', sim') ?_ hp h
  intro s i s' hi hs hstep
  simp only [bind, Except.bind] at hstep
  split at hstep
  · cases hstep
  · split at hstep
    · cases hstep
    · simp only [pure, Except.pure, Except.ok.injEq] at hstep
      subst hstep
      exact hQ _ _ _ hi hs

theorem bisectPass_Q (ops : Ops α B) (cs : StationS α) (vmin : α) (ts : List (TS α)) (same : List Nat)
    (cur : α) (Q : List α → Prop) (hQ : Closed same Q) (power power' : List α) (sim sim' : B)
    (hp : Q power) (h : bisectPass ops cs vmin ts same cur power sim = .ok (power', sim')) : Q power' := by
  unfold bisectPass at h
  refine foldlM_inv_mem _ (fun st => Q st.1) same (power, sim) (power', sim') ?_ hp h
  intro s i s' hi hs hstep
  simp only [bind, Except.bind] at hstep
  split at hstep
  · cases hstep
  · split at hstep
    · cases hstep
    · simp only [pure, Except.pure, Except.ok.injEq] at hstep
      subst hstep
      exact hQ _ _ _ hi hs

theorem bisect_Q (ops : Ops α B) (eps : α) (cs : StationS α) (vmin : α) (ts : List (TS α))
    (same : List Nat) (oldSoc desired : α) (Q : List α → Prop) (hQ : Closed same Q) :
    ∀ (fuel : Nat) (minP maxP : α) (safe : Bool) (power power' : List α) (sim sim' : B), Q power →
      bisect ops eps cs vmin ts same oldSoc desired fuel minP maxP safe power sim = .ok (power', sim') →
      Q power' := by
  intro fuel
  induction fuel with
  | zero => intro minP maxP safe power power' sim sim' hp h; simp [bisect] at h
  | succ n ih =>
    intro minP maxP safe power power' sim sim' hp h
    unfold bisect at h
    split at h
    · simp only [bind, Except.bind] at h
      split at h
      · cases h
      · rename_i r hr
        obtain ⟨pw, sm⟩ := r
        have hpw := bisectPass_Q ops cs vmin ts same _ Q hQ power pw _ sm hp hr
        simp only at h
        split at h
        · exact ih _ _ _ pw power' sm sim' hpw h
        · exact ih _ _ _ pw power' sm sim' hpw h
    · simp only [Except.ok.injEq, Prod.mk.injEq] at h
      obtain ⟨rfl, _⟩ := h
      exact hp

theorem closed_length (same : List Nat) (n : Nat) : Closed (α := α) same (fun p => p.length = n) := by
  intro p i x _ hp
  simp only [List.length_set]; exact hp

theorem closed_get0 (same : List Nat) (h0 : 0 ∉ same) (q : Option α) :
    Closed (α := α) same (fun p => p[0]? = q) := by
  intro p i x hi hp
  have hne : i ≠ 0 := fun h => h0 (h ▸ hi)
  rw [List.getElem?_set_ne hne]; exact hp

/-- "nothing is planned for the current timestep" -/
def Z (p : List α) : Prop := ∀ q, p[0]? = some q → q = 0

/-- the members of a price group sit at the positions `idx … next − 1` of the order -/
theorem samePrice_pos (env : Env α) (sorted : List (α × Nat)) (idx : Nat) (c0 : α) (s0 : Nat)
    (hs : sorted[idx]? = some (c0, s0)) (t : Nat) (ht : t ∈ (samePrice env sorted idx c0 s0).1) :
    ∃ j c, idx ≤ j ∧ j < (samePrice env sorted idx c0 s0).2 ∧ sorted[j]? = some (c, t) := by
  unfold samePrice at ht ⊢
  simp only at ht ⊢
  rcases List.mem_cons.mp ht with rfl | hm
  · exact ⟨idx, c0, le_refl _, by omega, hs⟩
  · simp only [List.mem_map] at hm
    obtain ⟨e, he, rfl⟩ := hm
    obtain ⟨n, hn, hne⟩ := List.getElem_of_mem he
    have hpre := List.takeWhile_prefix
      (fun (e : α × Nat) => decide (pyabs (e.1 - c0) < env.eps) || decide (e.1 ≤ env.priceThreshold))
      (l := sorted.drop (idx + 1))
    have h1 : (sorted.drop (idx + 1))[n]? = some e := by
      obtain ⟨tl, htl⟩ := hpre
      rw [← htl, List.getElem?_append_left hn, List.getElem?_eq_getElem hn, hne]
    rw [List.getElem?_drop] at h1
    exact ⟨idx + 1 + n, e.1, by omega, by omega, h1⟩

/-- untouched real state -/
def Untouched (st st' : VSt α B) : Prop :=
  st'.bat = st.bat ∧ st'.gc = st.gc ∧ st'.cs = st.cs ∧ st'.cmds = st.cmds ∧ st'.dis = st.dis

/-- the planning loop, with what it leaves in `power[0]`: either nothing real happened and nothing is
planned for the current timestep, or the real charge `load(target_power = power[0])` was booked and the
current timestep sits at a position of the order the loop has passed -/
theorem chargeLoop_Z (ops : Ops α B) (env : Env α) (v : VehicleS α B) (ts : List (TS α))
    (sorted : List (α × Nat)) (n : Nat) :
    ∀ (fuel : Nat) (st st' : VSt α B), Z st.power → st.power.length = n →
      chargeLoop ops env v ts sorted fuel st = .ok st' →
      st'.power.length = n ∧ st.sortedIdx ≤ st'.sortedIdx + (if st'.sortedIdx = 0 then st.sortedIdx else 0) ∧
      ((Untouched st st' ∧ Z st'.power) ∨
       (∃ p0 bat' avg j c, st'.power[0]? = some p0 ∧ p0 ≠ 0 ∧
          ops.load st.bat none none (some p0) = .ok (bat', avg) ∧ st'.bat = bat' ∧
          st'.gc = (st.gc.addLoad st.cs.id avg).1 ∧
          st'.cs = { st.cs with currentPower := st.cs.currentPower + avg } ∧ st'.dis = st.dis ∧
          j < st'.sortedIdx ∧ sorted[j]? = some (c, 0))) := by
  intro fuel
  induction fuel with
  | zero => intro st st' _ _ h; simp [chargeLoop] at h
  | succ m ih =>
    intro st st' hz hlen h
    unfold chargeLoop at h
    split at h
    · simp only [Except.ok.injEq] at h; subst h
      exact ⟨hlen, by split <;> omega, Or.inl ⟨⟨rfl, rfl, rfl, rfl, rfl⟩, hz⟩⟩
    · rename_i cost startIdx hsorted
      simp only at h
      generalize ((if cost < env.priceThreshold then 1 else v.desiredSoc) - env.eps) = desired at h
      split at h
      · simp only [Except.ok.injEq] at h; subst h
        exact ⟨hlen, by simp, Or.inl ⟨⟨rfl, rfl, rfl, rfl, rfl⟩, hz⟩⟩
      · simp only [bind, Except.bind] at h
        split at h
        · cases h
        · rename_i r1 hr1
          obtain ⟨pw1, sm1⟩ := r1
          have hl1 := naivePass_Q ops st.cs v.minChargingPower ts _ _ (closed_length _ n) st.power pw1 st.sim sm1 hlen hr1
          simp only at h
          split at h
          · cases h
          · rename_i r2 hr2
            obtain ⟨pw2, sm2⟩ := r2
            have hl2 : pw2.length = n := by
              split at hr2
              · exact bisect_Q ops env.eps st.cs v.minChargingPower ts _ _ _ _ (closed_length _ n) _ _ _ _ pw1 pw2 sm1 sm2 hl1 hr2
              · simp only [pure, Except.pure, Except.ok.injEq, Prod.mk.injEq] at hr2
                rw [← hr2.1]; exact hl1
            simp only at h
            split at h
            · cases h
            · rename_i p0 hp0
              have hnext := samePrice_next env sorted st.sortedIdx cost startIdx
              split at h
              · rename_i hcond
                split at h
                · cases h
                · rename_i r3 hr3
                  obtain ⟨bat', avg⟩ := r3
                  simp only [Except.ok.injEq] at h
                  subst h
                  simp only [Bool.and_eq_true, Bool.not_eq_true'] at hcond
                  have hne : p0 ≠ 0 := by
                    intro h0
                    have := (isZero_iff p0).mpr h0
                    rw [this] at hcond
                    exact absurd hcond.2 (by simp)
                  have hmem : (0 : Nat) ∈ (samePrice env sorted st.sortedIdx cost startIdx).1 := by
                    simpa using hcond.1
                  obtain ⟨j, c, _, hj2, hj3⟩ := samePrice_pos env sorted st.sortedIdx cost startIdx hsorted 0 hmem
                  refine ⟨hl2, ?_, Or.inr ⟨p0, bat', avg, j, c, ?_, hne, hr3, rfl, rfl, rfl, rfl, hj2, hj3⟩⟩
                  · show st.sortedIdx ≤ (samePrice env sorted st.sortedIdx cost startIdx).2 + _
                    split <;> omega
                  · show pw2[0]? = some p0
                    rw [← List.head?_eq_getElem?]; exact hp0
              · rename_i hcond
                -- nothing booked in this pass: nothing is planned for the current timestep
                have hz2 : Z pw2 := by
                  by_cases hc0 : (samePrice env sorted st.sortedIdx cost startIdx).1.contains 0 = true
                  · have hzero : isZero p0 = true := by
                      rcases hz0 : isZero p0 with _ | _
                      · exfalso; apply hcond; rw [hc0, hz0]; rfl
                      · rfl
                    have hp00 := (isZero_iff p0).mp hzero
                    intro q hq
                    rw [← List.head?_eq_getElem?, hp0] at hq
                    simp only [Option.some.injEq] at hq
                    rw [← hq]; exact hp00
                  · have h0 : (0 : Nat) ∉ (samePrice env sorted st.sortedIdx cost startIdx).1 := by
                      intro hm; apply hc0; simpa using hm
                    have hg1 := naivePass_Q ops st.cs v.minChargingPower ts _ _ (closed_get0 _ h0 (st.power[0]?)) st.power pw1 st.sim sm1 rfl hr1
                    have hg2 : pw2[0]? = st.power[0]? := by
                      split at hr2
                      · exact bisect_Q ops env.eps st.cs v.minChargingPower ts _ _ _ _ (closed_get0 _ h0 (st.power[0]?)) _ _ _ _ pw1 pw2 sm1 sm2 hg1 hr2
                      · simp only [pure, Except.pure, Except.ok.injEq, Prod.mk.injEq] at hr2
                        rw [← hr2.1]; exact hg1
                    intro q hq
                    rw [hg2] at hq
                    exact hz q hq
                obtain ⟨i1, i2, i3⟩ := ih { st with sortedIdx := (samePrice env sorted st.sortedIdx cost startIdx).2, power := pw2, sim := sm2 } st' hz2 hl2 h
                refine ⟨i1, ?_, ?_⟩
                · have i2' : (samePrice env sorted st.sortedIdx cost startIdx).2 ≤ st'.sortedIdx +
                      (if st'.sortedIdx = 0 then (samePrice env sorted st.sortedIdx cost startIdx).2 else 0) := i2
                  split at i2' <;> split <;> omega
                · rcases i3 with ⟨hu, hzz⟩ | hch
                  · exact Or.inl ⟨hu, hzz⟩
                  · exact Or.inr hch

theorem nodup_pos : ∀ (l : List (α × Nat)) (j k : Nat) (c c' : α) (t : Nat),
    (l.map (·.2)).Nodup → l[j]? = some (c, t) → l[k]? = some (c', t) → j = k := by
  intro l
  induction l with
  | nil => intro j k c c' t _ h; simp at h
  | cons a rest ih =>
    intro j k c c' t hnd hj hk
    simp only [List.map_cons, List.nodup_cons, List.mem_map, not_exists, not_and] at hnd
    cases j with
    | zero =>
      cases k with
      | zero => rfl
      | succ k =>
        simp only [List.getElem?_cons_zero, Option.some.injEq] at hj
        simp only [List.getElem?_cons_succ] at hk
        exfalso
        have hm := List.mem_of_getElem? hk
        apply hnd.1 _ hm
        rw [hj]
    | succ j =>
      cases k with
      | zero =>
        simp only [List.getElem?_cons_zero, Option.some.injEq] at hk
        simp only [List.getElem?_cons_succ] at hj
        exfalso
        have hm := List.mem_of_getElem? hj
        apply hnd.1 _ hm
        rw [hk]
      | succ k =>
        simp only [List.getElem?_cons_succ] at hj hk
        rw [ih j k c c' t hnd.2 hj hk]

theorem mem_chargingTs (sorted : List (α × Nat)) (k idx : Nat) (e : α × Nat)
    (h : e ∈ (sorted.take (k + 1)).drop idx) : ∃ j, idx ≤ j ∧ j ≤ k ∧ sorted[j]? = some e := by
  obtain ⟨n, hn⟩ := List.mem_iff_getElem?.mp h
  rw [List.getElem?_drop, List.getElem?_take] at hn
  split at hn
  · exact ⟨idx + n, by omega, by omega, hn⟩
  · cases hn

/-- no entry of the order at or after the loop index is the current timestep -/
def NZ (sorted : List (α × Nat)) (idx : Nat) : Prop :=
  ∀ k c t, idx ≤ k → sorted[k]? = some (c, t) → t ≠ 0

theorem compStep_NZ (ops : Ops α B) (v : VehicleS α B) (cs : StationS α) (ts : List (TS α))
    (realSoc v2gCost : α) (c c' : CompSt α B) (e : α × Nat) (he : e.2 ≠ 0) (hsp : c.simPower = none)
    (h : compStep ops v cs ts realSoc v2gCost c e = .ok c') :
    c'.simPower = none ∧ c'.power[0]? = c.power[0]? ∧ c.sortedIdx ≤ c'.sortedIdx := by
  unfold compStep at h
  split at h
  · simp only [Except.ok.injEq] at h; subst h; exact ⟨hsp, rfl, le_refl _⟩
  · split at h
    · simp only [Except.ok.injEq] at h; subst h; exact ⟨hsp, rfl, le_refl _⟩
    · split at h
      · simp only [Except.ok.injEq] at h; subst h; exact ⟨hsp, rfl, le_refl _⟩
      · simp only [bind, Except.bind] at h
        split at h
        · cases h
        · split at h
          · cases h
          · split at h
            · cases h
            · simp only [Except.ok.injEq] at h
              subst h
              have : (e.2 == 0) = false := by simpa using he
              refine ⟨by simp only [this, Bool.false_eq_true, if_false]; exact hsp, ?_, Nat.le_succ _⟩
              show (c.power.set e.2 _)[0]? = _
              rw [List.getElem?_set_ne he]

/-- when the current timestep is not among the entries the V2G search can still reach, the search books
nothing and leaves `power[0]` alone -/
theorem v2gLoop_NZ (ops : Ops α B) (env : Env α) (v : VehicleS α B) (ts : List (TS α))
    (sorted : List (α × Nat)) :
    ∀ (k : Nat) (st st' : VSt α B), NZ sorted st.sortedIdx →
      v2gLoop ops env v ts sorted k st = .ok st' →
      Untouched st st' ∧ st'.power[0]? = st.power[0]? := by
  intro k
  induction k with
  | zero =>
    intro st st' _ h; simp only [v2gLoop, Except.ok.injEq] at h; subst h
    exact ⟨⟨rfl, rfl, rfl, rfl, rfl⟩, rfl⟩
  | succ k ih =>
    intro st st' hnz h
    unfold v2gLoop at h
    split at h
    · simp only [Except.ok.injEq] at h; subst h; exact ⟨⟨rfl, rfl, rfl, rfl, rfl⟩, rfl⟩
    · rename_i hidx
      simp only [bind, Except.bind] at h
      split at h
      · cases h
      · rename_i r hr
        obtain ⟨v2gCost, v2gTs⟩ := r
        have hk : st.sortedIdx ≤ k := by
          have : st.sortedIdx < k + 1 := by simpa using hidx
          omega
        have hts : v2gTs ≠ 0 := by
          apply hnz k v2gCost v2gTs hk
          unfold lget at hr
          split at hr
          · rename_i x hx
            simp only [Except.ok.injEq] at hr
            rw [hx, hr]
          · cases hr
        have hts' : (v2gTs == 0) = false := by simpa using hts
        simp only at h
        split at h
        · simp only [Except.ok.injEq] at h; subst h; exact ⟨⟨rfl, rfl, rfl, rfl, rfl⟩, rfl⟩
        · split at h
          · cases h
          · rename_i t ht
            split at h
            · cases h
            · rename_i sim hsim
              split at h
              · cases h
              · rename_i c hc
                simp only [hts', Bool.false_eq_true, if_false] at hc
                have hcinv := foldlM_inv_mem _
                  (fun (c : CompSt α B) => c.simPower = none ∧ c.power[0]? = st.power[0]? ∧
                    st.sortedIdx ≤ c.sortedIdx) _ _ c
                  (fun c e c' hmem hc' hstep => by
                    obtain ⟨j, hj1, _, hj3⟩ := mem_chargingTs sorted k st.sortedIdx e hmem
                    have he : e.2 ≠ 0 := hnz j e.1 e.2 hj1 hj3
                    obtain ⟨x1, x2, x3⟩ := compStep_NZ ops v st.cs ts _ _ c c' e he hc'.1 hstep
                    exact ⟨x1, by rw [x2]; exact hc'.2.1, le_trans hc'.2.2 x3⟩)
                  ⟨rfl, by show (st.power.set v2gTs _)[0]? = _; rw [List.getElem?_set_ne hts], le_refl _⟩ hc
                rw [hcinv.1] at h
                simp only [ite_self] at h
                have hnz' : ∀ (b : Bool), NZ sorted (if b = true then c.sortedIdx else st.sortedIdx) := by
                  intro b k' c' t hk' hs'
                  apply hnz k' c' t _ hs'
                  split at hk'
                  · exact le_trans hcinv.2.2 hk'
                  · exact hk'
                obtain ⟨hu, hp⟩ := ih _ st' (by
                  by_cases hb : c.broke = true
                  · simp only [hb, if_true]; exact hnz' true
                  · simp only [hb, Bool.false_eq_true, if_false]; exact hnz' false) h
                by_cases hb : c.broke = true
                · simp only [hb, if_true] at hu hp
                  exact ⟨hu, by rw [hp]; exact hcinv.2.1⟩
                · simp only [hb, Bool.false_eq_true, if_false] at hu hp
                  exact ⟨hu, hp⟩

/-- invariant of the compensation loop: what is noted for the current timestep is what `power[0]` holds -/
def CInv (ts : List (TS α)) (L : Nat) (c : CompSt α B) : Prop :=
  c.power.length = L ∧ (c.simPower = none → Z c.power) ∧ (∀ x, c.simPower = some x → c.power[0]? = some x) ∧
    (∀ x, c.simPower = some x → ∀ t0, ts[0]? = some t0 → x ≤ max 0 t0.power)

theorem compFold_CInv (ops : Ops α B) (v : VehicleS α B) (cs : StationS α) (ts : List (TS α))
    (realSoc v2gCost : α) (L : Nat) :
    ∀ (l : List (α × Nat)) (c c' : CompSt α B), (l.map (·.2)).Nodup → CInv ts L c →
      (c.simPower.isSome = true → ∀ e ∈ l, e.2 = 0 → v2gCost ≤ e.1) →
      l.foldlM (compStep ops v cs ts realSoc v2gCost) c = .ok c' → CInv ts L c' := by
  intro l
  induction l with
  | nil =>
    intro c c' _ hc _ h
    simp only [List.foldlM_nil, pure, Except.pure, Except.ok.injEq] at h
    subst h; exact hc
  | cons e rest ih =>
    intro c c' hnd hc hsafe h
    simp only [List.map_cons, List.nodup_cons, List.mem_map, not_exists, not_and] at hnd
    simp only [List.foldlM_cons, bind, Except.bind] at h
    split at h
    · cases h
    · rename_i c1 hc1
      -- one step
      have hstep : CInv ts L c1 ∧ (c1.simPower.isSome = true → ∀ e' ∈ rest, e'.2 = 0 → v2gCost ≤ e'.1) := by
        have hkeep : c1 = c → CInv ts L c1 ∧
            (c1.simPower.isSome = true → ∀ e' ∈ rest, e'.2 = 0 → v2gCost ≤ e'.1) := by
          intro he; subst he
          exact ⟨hc, fun hs e' he' => hsafe hs e' (List.mem_cons_of_mem _ he')⟩
        unfold compStep at hc1
        split at hc1
        · simp only [Except.ok.injEq] at hc1; exact hkeep hc1.symm
        · split at hc1
          · simp only [Except.ok.injEq] at hc1
            subst hc1
            exact ⟨hc, fun hs e' he' => hsafe hs e' (List.mem_cons_of_mem _ he')⟩
          · split at hc1
            · simp only [Except.ok.injEq] at hc1; exact hkeep hc1.symm
            · rename_i hcost
              simp only [bind, Except.bind] at hc1
              split at hc1
              · cases hc1
              · rename_i t ht
                split at hc1
                · cases hc1
                · rename_i cur hcur
                  split at hc1
                  · cases hc1
                  · simp only [Except.ok.injEq] at hc1
                    subst hc1
                    by_cases he0 : e.2 = 0
                    · -- the current timestep is charged: it was not noted before
                      have hnone : c.simPower = none := by
                        cases hsp : c.simPower with
                        | none => rfl
                        | some x =>
                          exfalso
                          apply hcost
                          exact hsafe (by rw [hsp]; rfl) e (List.mem_cons_self ..) he0
                      have hcur0 : cur = 0 := by
                        apply hc.2.1 hnone cur
                        unfold lget at hcur
                        split at hcur
                        · rename_i x hx
                          simp only [Except.ok.injEq] at hcur
                          rw [← he0, hx, hcur]
                        · cases hcur
                      have hlen : 0 < c.power.length := by
                        unfold lget at hcur
                        split at hcur
                        · rename_i x hx
                          have := (List.getElem?_eq_some_iff.mp hx).1
                          omega
                        · cases hcur
                      refine ⟨⟨by simp only [List.length_set]; exact hc.1, ?_, ?_, ?_⟩, ?_⟩
                      · intro hn; simp [he0] at hn
                      · intro x hx
                        simp only [he0, beq_self_eq_true, if_true, Option.some.injEq] at hx
                        subst hx
                        show (c.power.set e.2 _)[0]? = _
                        rw [he0, hcur0, zero_add]
                        simp [List.getElem?_set, hlen]
                      · intro x hx t0 ht0
                        simp only [he0, beq_self_eq_true, if_true, Option.some.injEq] at hx
                        subst hx
                        have htt : t = t0 := by
                          unfold lget at ht
                          rw [he0, ht0] at ht
                          simp only [Except.ok.injEq] at ht
                          exact ht.symm
                        rw [htt, hcur0, sub_zero]
                        exact clampV_le cs v.minChargingPower t0.power
                      · intro _ e' he' he'0
                        exfalso
                        exact hnd.1 e' he' (by rw [he'0, he0])
                    · have hb : (e.2 == 0) = false := by simpa using he0
                      refine ⟨⟨by simp only [List.length_set]; exact hc.1, ?_, ?_, ?_⟩, ?_⟩
                      · intro hn
                        simp only [hb, Bool.false_eq_true, if_false] at hn
                        intro q hq
                        have : (c.power.set e.2 (cur + clampV cs v.minChargingPower (t.power - cur)))[0]? = some q := hq
                        rw [List.getElem?_set_ne he0] at this
                        exact hc.2.1 hn q this
                      · intro x hx
                        simp only [hb, Bool.false_eq_true, if_false] at hx
                        show (c.power.set e.2 _)[0]? = _
                        rw [List.getElem?_set_ne he0]
                        exact hc.2.2.1 x hx
                      · intro x hx
                        simp only [hb, Bool.false_eq_true, if_false] at hx
                        exact hc.2.2.2 x hx
                      · intro hs e' he' he'0
                        simp only [hb, Bool.false_eq_true, if_false] at hs
                        exact hsafe hs e' (List.mem_cons_of_mem _ he') he'0
      exact ih c1 c' hnd.2 hstep.1 hstep.2 h

theorem applyV2g_power (ops : Ops α B) (v : VehicleS α B) (st st' : VSt α B) (sp : α)
    (h : applyV2g ops v st sp = .ok st') : st'.power = st.power := by
  unfold applyV2g at h
  split at h
  · simp only [bind, Except.bind] at h
    split at h
    · cases h
    · simp only [Except.ok.injEq] at h; subst h; rfl
  · split at h
    · simp only [bind, Except.bind] at h
      split at h
      · cases h
      · simp only [Except.ok.injEq] at h; subst h; rfl
    · simp only [Except.ok.injEq] at h; subst h; rfl

/-- the V2G search, with what it leaves in `power[0]`: either nothing real happened and nothing is planned
for the current timestep, or exactly the power `power[0]` was applied for real -/
theorem v2gLoop_Zspec (ops : Ops α B) (env : Env α) (v : VehicleS α B) (ts : List (TS α))
    (sorted : List (α × Nat)) (hnd : (sorted.map (·.2)).Nodup) :
    ∀ (k : Nat) (st st' : VSt α B), Z st.power → st.power.length = sorted.length →
      v2gLoop ops env v ts sorted k st = .ok st' →
      (Untouched st st' ∧ Z st'.power) ∨
      (∃ stx sp, applyV2g ops v stx sp = .ok st' ∧ stx.bat = st.bat ∧ stx.gc = st.gc ∧ stx.cs = st.cs ∧
        stx.cmds = st.cmds ∧ stx.dis = st.dis ∧ stx.power[0]? = some sp ∧
        (∀ t0, ts[0]? = some t0 → sp ≤ max 0 t0.power) ∧ sorted ≠ []) := by
  intro k
  induction k with
  | zero =>
    intro st st' hz _ h; simp only [v2gLoop, Except.ok.injEq] at h; subst h
    exact Or.inl ⟨⟨rfl, rfl, rfl, rfl, rfl⟩, hz⟩
  | succ k ih =>
    intro st st' hz hlen h
    unfold v2gLoop at h
    split at h
    · simp only [Except.ok.injEq] at h; subst h; exact Or.inl ⟨⟨rfl, rfl, rfl, rfl, rfl⟩, hz⟩
    · simp only [bind, Except.bind] at h
      split at h
      · cases h
      · rename_i r hr
        obtain ⟨v2gCost, v2gTs⟩ := r
        have hsk : sorted[k]? = some (v2gCost, v2gTs) := by
          unfold lget at hr
          split at hr
          · rename_i x hx
            simp only [Except.ok.injEq] at hr
            rw [hx, hr]
          · cases hr
        have hpos : 0 < st.power.length := by
          rw [hlen]
          have := (List.getElem?_eq_some_iff.mp hsk).1
          omega
        simp only at h
        split at h
        · simp only [Except.ok.injEq] at h; subst h; exact Or.inl ⟨⟨rfl, rfl, rfl, rfl, rfl⟩, hz⟩
        · split at h
          · cases h
          · rename_i t ht
            split at h
            · cases h
            · rename_i sim hsim
              split at h
              · cases h
              · rename_i c hc
                generalize hp : (pymin (pymax (pymax (t.power - ((2 : Nat) : α) * t.maxPower)
                  (-(st.cs.maxPower + st.cs.currentPower))) (-ops.unloadMaxPower st.bat)) 0) = p at hc h hsim
                -- the compensation loop
                have hcinit : CInv ts sorted.length (⟨false, st.power.set v2gTs p, st.sortedIdx,
                    if v2gTs == 0 then some p else none, sim⟩ : CompSt α B) := by
                  refine ⟨by simp only [List.length_set]; exact hlen, ?_, ?_, ?_⟩
                  · intro hn
                    have hne : v2gTs ≠ 0 := by
                      intro h0; simp [h0] at hn
                    intro q hq
                    have : (st.power.set v2gTs p)[0]? = some q := hq
                    rw [List.getElem?_set_ne hne] at this
                    exact hz q this
                  · intro x hx
                    split at hx
                    · rename_i h0
                      have h0' : v2gTs = 0 := by simpa using h0
                      simp only [Option.some.injEq] at hx
                      subst hx
                      show (st.power.set v2gTs p)[0]? = _
                      rw [h0']
                      simp [List.getElem?_set, hpos]
                    · cases hx
                  · intro x hx t0 _
                    split at hx
                    · simp only [Option.some.injEq] at hx
                      subst hx
                      rw [← hp]
                      simp only [pymin_eq]
                      exact le_trans (min_le_right _ _) (le_max_left _ _)
                    · cases hx
                have hsub : (((sorted.take (k + 1)).drop st.sortedIdx).map (·.2)).Nodup :=
                  List.Nodup.sublist (List.Sublist.map _
                    ((List.drop_sublist _ _).trans (List.take_sublist _ _))) hnd
                have hsafe : (⟨false, st.power.set v2gTs p, st.sortedIdx,
                    if v2gTs == 0 then some p else none, sim⟩ : CompSt α B).simPower.isSome = true →
                    ∀ e ∈ (sorted.take (k + 1)).drop st.sortedIdx, e.2 = 0 → v2gCost ≤ e.1 := by
                  intro hs e he he0
                  have h0 : v2gTs = 0 := by
                    by_contra hne
                    have : (v2gTs == 0) = false := by simpa using hne
                    simp [this] at hs
                  obtain ⟨j, _, _, hj⟩ := mem_chargingTs sorted k st.sortedIdx e he
                  have hje : sorted[j]? = some (e.1, 0) := by rw [hj, ← he0]
                  rw [h0] at hsk
                  have := nodup_pos sorted j k e.1 v2gCost 0 hnd hje hsk
                  subst this
                  rw [hj] at hsk
                  simp only [Option.some.injEq] at hsk
                  rw [hsk]
                have hcinv := compFold_CInv ops v st.cs ts _ v2gCost sorted.length _ _ c hsub hcinit hsafe hc
                split at h
                · rename_i sp hsp
                  split at hsp
                  · rename_i hb
                    simp only [hb, if_true] at h
                    right
                    exact ⟨_, sp, h, rfl, rfl, rfl, rfl, rfl, hcinv.2.2.1 sp hsp, hcinv.2.2.2 sp hsp,
                      by intro hs; rw [hs] at hsk; simp at hsk⟩
                  · cases hsp
                · rename_i hnone
                  by_cases hb : c.broke = true
                  · simp only [hb, if_true] at h hnone
                    rcases ih { st with power := c.power, sortedIdx := c.sortedIdx, sim := c.sim } st' (hcinv.2.1 hnone) hcinv.1 h with ⟨hu, hzz⟩ | ⟨stx, sp, x1, x2, x3, x4, x5, x6, x7, x8, x9⟩
                    · exact Or.inl ⟨hu, hzz⟩
                    · exact Or.inr ⟨stx, sp, x1, x2, x3, x4, x5, x6, x7, x8, x9⟩
                  · simp only [hb, Bool.false_eq_true, if_false] at h
                    rcases ih { st with sim := c.sim } st' hz hlen h with ⟨hu, hzz⟩ | ⟨stx, sp, x1, x2, x3, x4, x5, x6, x7, x8, x9⟩
                    · exact Or.inl ⟨hu, hzz⟩
                    · exact Or.inr ⟨stx, sp, x1, x2, x3, x4, x5, x6, x7, x8, x9⟩

theorem simulate_R (ops : Ops α B) (R : B → B → Prop) (sl : SimLaw ops R) (b0 : B) (dl : α) :
    ∀ (power : List α) (sim sim' : B), R b0 sim → simulate ops dl power sim = .ok sim' → R b0 sim' := by
  intro power
  induction power with
  | nil => intro sim sim' hr h; simp only [simulate, Except.ok.injEq] at h; rw [← h]; exact hr
  | cons p rest ih =>
    intro sim sim' hr h
    unfold simulate at h
    split at h
    · simp only [bind, Except.bind] at h
      split at h
      · cases h
      · rename_i r hr'
        exact ih _ _ (sl.load _ _ _ _ _ _ _ hr hr') h
    · split at h
      · simp only [bind, Except.bind] at h
        split at h
        · cases h
        · rename_i r hr'
          exact ih _ _ (sl.unload _ _ _ _ _ _ _ hr hr') h
      · exact ih _ _ hr h

theorem compStep_R (ops : Ops α B) (R : B → B → Prop) (sl : SimLaw ops R) (b0 : B) (v : VehicleS α B)
    (cs : StationS α) (ts : List (TS α)) (realSoc v2gCost : α) (c c' : CompSt α B) (e : α × Nat)
    (hr : R b0 c.sim) (h : compStep ops v cs ts realSoc v2gCost c e = .ok c') : R b0 c'.sim := by
  unfold compStep at h
  split at h
  · simp only [Except.ok.injEq] at h; subst h; exact hr
  · split at h
    · simp only [Except.ok.injEq] at h; subst h; exact hr
    · split at h
      · simp only [Except.ok.injEq] at h; subst h; exact hr
      · simp only [bind, Except.bind] at h
        split at h
        · cases h
        · split at h
          · cases h
          · split at h
            · cases h
            · rename_i sim hsim
              simp only [Except.ok.injEq] at h
              subst h
              exact simulate_R ops R sl b0 _ _ _ sim (sl.setSoc _ _ _ hr) hsim

theorem applyV2g_sim (ops : Ops α B) (v : VehicleS α B) (st st' : VSt α B) (sp : α)
    (h : applyV2g ops v st sp = .ok st') : st'.sim = st.sim := by
  unfold applyV2g at h
  split at h
  · simp only [bind, Except.bind] at h
    split at h
    · cases h
    · simp only [Except.ok.injEq] at h; subst h; rfl
  · split at h
    · simp only [bind, Except.bind] at h
      split at h
      · cases h
      · simp only [Except.ok.injEq] at h; subst h; rfl
    · simp only [Except.ok.injEq] at h; subst h; rfl

theorem v2gLoop_R (ops : Ops α B) (R : B → B → Prop) (sl : SimLaw ops R) (b0 : B) (env : Env α)
    (v : VehicleS α B) (ts : List (TS α)) (sorted : List (α × Nat)) :
    ∀ (k : Nat) (st st' : VSt α B), R b0 st.sim → v2gLoop ops env v ts sorted k st = .ok st' →
      R b0 st'.sim := by
  intro k
  induction k with
  | zero => intro st st' hr h; simp only [v2gLoop, Except.ok.injEq] at h; subst h; exact hr
  | succ k ih =>
    intro st st' hr h
    unfold v2gLoop at h
    split at h
    · simp only [Except.ok.injEq] at h; subst h; exact hr
    · simp only [bind, Except.bind] at h
      split at h
      · cases h
      · rename_i r hr'
        obtain ⟨v2gCost, v2gTs⟩ := r
        simp only at h
        split at h
        · simp only [Except.ok.injEq] at h; subst h; exact hr
        · split at h
          · cases h
          · split at h
            · cases h
            · rename_i sim hsim
              have hs1 := simulate_R ops R sl b0 _ _ _ sim (sl.setSoc _ _ _ hr) hsim
              split at h
              · cases h
              · rename_i c hc
                have hcR : R b0 c.sim :=
                  foldlM_inv _ (fun (c : CompSt α B) => R b0 c.sim)
                    (fun c e c' hc' hstep => compStep_R ops R sl b0 v st.cs ts _ _ c c' e hc' hstep)
                    _ _ c hs1 hc
                split at h
                · rw [applyV2g_sim ops v _ st' _ h]
                  split <;> exact hcR
                · exact ih _ st' (by split <;> exact hcR) h

/-- what `applyV2g` books, by the sign of the power -/
theorem applyV2g_cases (ops : Ops α B) (v : VehicleS α B) (st st' : VSt α B) (sp : α)
    (h : applyV2g ops v st sp = .ok st') :
    st'.gc.curMax = st.gc.curMax ∧ st'.gc.id = st.gc.id ∧
    ((0 < sp ∧ ∃ bat' avg, ops.load st.bat none none (some sp) = .ok (bat', avg) ∧
        st'.gc.currentLoad = st.gc.currentLoad + avg) ∨
     (¬ 0 < sp ∧ sp < 0 ∧ ∃ bat' out, ops.unload st.bat (some (-sp)) (some v.dischargeLimit) none = .ok (bat', out) ∧
        st'.gc.currentLoad = st.gc.currentLoad - out) ∨
     (¬ 0 < sp ∧ ¬ sp < 0 ∧ st'.gc.currentLoad = st.gc.currentLoad)) := by
  unfold applyV2g at h
  split at h
  · rename_i hpos
    simp only [bind, Except.bind] at h
    split at h
    · cases h
    · rename_i r hr
      obtain ⟨bat', avg⟩ := r
      simp only [Except.ok.injEq] at h; subst h
      obtain ⟨c1, c2, c3, _⟩ := addLoad_currentLoad st.gc st.cs.id avg
      exact ⟨c2, c3, Or.inl ⟨hpos, bat', avg, hr, c1⟩⟩
  · rename_i hpos
    split at h
    · rename_i hneg
      simp only [bind, Except.bind] at h
      split at h
      · cases h
      · rename_i r hr
        obtain ⟨bat', out⟩ := r
        simp only [Except.ok.injEq] at h; subst h
        obtain ⟨c1, c2, c3, _⟩ := addLoad_currentLoad st.gc st.cs.id (-out)
        exact ⟨c2, c3, Or.inr (Or.inl ⟨hpos, hneg, bat', out, hr, by rw [sub_eq_add_neg]; exact c1⟩)⟩
    · rename_i hneg
      simp only [Except.ok.injEq] at h; subst h
      obtain ⟨c1, c2, c3, _⟩ := addLoad_currentLoad st.gc st.cs.id 0
      exact ⟨c2, c3, Or.inr (Or.inr ⟨hpos, hneg, by rw [← add_zero st.gc.currentLoad]; exact c1⟩)⟩

/-- first entry of the updated forecast, by the sign of the power planned for the current timestep -/
theorem updateTimesteps_head (ops : Ops α B) (dl : α) (p0 : α) (rest : List α) (ts ts' : List (TS α))
    (sim : B) (h : updateTimesteps ops dl (p0 :: rest) ts sim = .ok ts') :
    ∃ t0 tss t0' tss', ts = t0 :: tss ∧ ts' = t0' :: tss' ∧ t0'.maxPower = t0.maxPower ∧
      ((0 < p0 ∧ ∃ s a, ops.load sim none none (some p0) = .ok (s, a) ∧ t0'.power = t0.power - a) ∨
       (¬ 0 < p0 ∧ p0 < 0 ∧ ∃ s a, ops.unload sim (some (-p0)) (some dl) none = .ok (s, a) ∧
          t0'.power = t0.power + a) ∨
       (¬ 0 < p0 ∧ ¬ p0 < 0 ∧ t0' = t0)) := by
  cases ts with
  | nil => simp [updateTimesteps] at h
  | cons t0 tss =>
    unfold updateTimesteps at h
    split at h
    · rename_i hpos
      simp only [bind, Except.bind] at h
      split at h
      · cases h
      · rename_i r hr
        obtain ⟨s, a⟩ := r
        simp only at h
        split at h
        · cases h
        · rename_i r2 hr2
          simp only [Except.ok.injEq] at h
          exact ⟨t0, tss, _, r2, rfl, h.symm, rfl, Or.inl ⟨hpos, s, a, hr, rfl⟩⟩
    · rename_i hpos
      split at h
      · rename_i hneg
        simp only [bind, Except.bind] at h
        split at h
        · cases h
        · rename_i r hr
          obtain ⟨s, a⟩ := r
          simp only at h
          split at h
          · cases h
          · rename_i r2 hr2
            simp only [Except.ok.injEq] at h
            exact ⟨t0, tss, _, r2, rfl, h.symm, rfl, Or.inr (Or.inl ⟨hpos, hneg, s, a, hr, rfl⟩)⟩
      · rename_i hneg
        simp only [bind, Except.bind] at h
        split at h
        · cases h
        · rename_i r2 hr2
          simp only [Except.ok.injEq] at h
          exact ⟨t0, tss, t0, r2, rfl, h.symm, rfl, Or.inr (Or.inr ⟨hpos, hneg, rfl⟩)⟩

theorem zipIdx_snd_nodup {β : Type} : ∀ (l : List β) (k : Nat), ((l.zipIdx k).map (·.2)).Nodup := by
  intro l
  induction l with
  | nil => intro k; simp
  | cons x xs ih =>
    intro k
    rw [List.zipIdx_cons, List.map_cons, List.nodup_cons]
    refine ⟨?_, ih (k + 1)⟩
    intro hm
    simp only [List.mem_map] at hm
    obtain ⟨b, hb, hb2⟩ := hm
    have := (mem_zipIdx_ge xs (k + 1) b hb).1
    omega

theorem sortedTs_nodup (vts : List (TS α)) (sorted : List (α × Nat)) (h : sortedTs vts = .ok sorted) :
    (sorted.map (·.2)).Nodup ∧ (sorted ≠ [] → vts ≠ []) := by
  obtain ⟨costs, hc, hperm, _⟩ := sortedTs_spec vts sorted h
  refine ⟨(List.Perm.nodup_iff (List.Perm.map _ hperm)).mpr (zipIdx_snd_nodup costs 0), ?_⟩
  intro hne hv
  subst hv
  simp only [List.mapM_nil, pure, Except.pure, Except.ok.injEq] at hc
  subst hc
  have := hperm.length_eq
  simp at this
  exact hne this

/-- the forecast update keeps "forecast ≥ real headroom" when the replayed power of the current timestep is
the one that was really applied (signed average power `a`) -/
theorem fore_update (ops : Ops α B) (dl M L a : α) (pw : List α) (ts ts' : List (TS α)) (bat : B)
    (hf : ∀ t0, ts[0]? = some t0 → M - L ≤ t0.power ∧ t0.maxPower = M)
    (hF : (pw = [] ∧ a = 0) ∨ ∃ q rest, pw = q :: rest ∧
      ((q = 0 ∧ a = 0) ∨ (0 < q ∧ ∃ s, ops.load bat none none (some q) = .ok (s, a)) ∨
       (q < 0 ∧ ∃ s out, ops.unload bat (some (-q)) (some dl) none = .ok (s, out) ∧ a = -out)))
    (h : updateTimesteps ops dl pw ts bat = .ok ts') :
    ∀ t0', ts'[0]? = some t0' → M - (L + a) ≤ t0'.power ∧ t0'.maxPower = M := by
  rcases hF with ⟨rfl, rfl⟩ | ⟨q, rest, rfl, hq⟩
  · rw [updateTimesteps_nil] at h
    simp only [Except.ok.injEq] at h
    subst h
    intro t0' ht0'
    have := hf t0' ht0'
    exact ⟨by linarith [this.1], this.2⟩
  · obtain ⟨t0, tss, t0', tss', hts, hts', hmx, hcase⟩ := updateTimesteps_head ops dl q rest ts ts' bat h
    have hf0 := hf t0 (by rw [hts]; simp)
    intro t1 ht1
    rw [hts'] at ht1
    simp only [List.getElem?_cons_zero, Option.some.injEq] at ht1
    subst ht1
    refine ⟨?_, by rw [hmx]; exact hf0.2⟩
    rcases hq with ⟨rfl, rfl⟩ | ⟨hpos, s, hl⟩ | ⟨hneg, s, out, hu, rfl⟩
    · rcases hcase with ⟨hp, _⟩ | ⟨_, hn, _⟩ | ⟨_, _, he⟩
      · exact absurd hp (lt_irrefl _)
      · exact absurd hn (lt_irrefl _)
      · rw [he]; linarith [hf0.1]
    · rcases hcase with ⟨_, s', a', hl', hp⟩ | ⟨hnp, _, _⟩ | ⟨hnp, _, _⟩
      · rw [hl] at hl'
        simp only [Except.ok.injEq, Prod.mk.injEq] at hl'
        rw [hp, ← hl'.2]; linarith [hf0.1]
      · exact absurd hpos hnp
      · exact absurd hpos hnp
    · rcases hcase with ⟨hp, _⟩ | ⟨_, _, s', a', hu', hp⟩ | ⟨_, hnn, _⟩
      · exact absurd (lt_trans hneg hp) (lt_irrefl _)
      · rw [hu] at hu'
        simp only [Except.ok.injEq, Prod.mk.injEq] at hu'
        rw [hp, ← hu'.2]; linarith [hf0.1]
      · exact absurd hneg hnn

/-- the V2G search respects the feed-in limit whenever the forecast of the current timestep is at least
the connector's real headroom (form used in the vehicle loop) -/
theorem v2gLoop_lower' (ops : Ops α B) (law : BatLaw ops.toBatOps) (env : Env α) (v : VehicleS α B)
    (ts : List (TS α)) (sorted : List (α × Nat)) (M : α) (hM : 0 ≤ M) :
    ∀ (k : Nat) (st st' : VSt α B), -M ≤ st.gc.currentLoad →
      (∀ t0, ts[0]? = some t0 → M - st.gc.currentLoad ≤ t0.power ∧ t0.maxPower = M) →
      v2gLoop ops env v ts sorted k st = .ok st' → -M ≤ st'.gc.currentLoad := by
  intro k st st' hlo hall h
  cases hts : ts[0]? with
  | some t0 =>
    obtain ⟨h1, h2⟩ := hall t0 hts
    exact (v2gLoop_lower ops law env v ts t0 hts sorted M hM h2 k st st' hlo h1 h).1
  | none =>
    -- without a forecast of the current timestep nothing can be noted for it
    have hnil : ts = [] := by
      cases ts with
      | nil => rfl
      | cons a b => simp at hts
    subst hnil
    -- every use of `timesteps[...]` fails, so only the untouched exits remain
    clear hall hts
    induction k generalizing st with
    | zero => simp only [v2gLoop, Except.ok.injEq] at h; subst h; exact hlo
    | succ k ih =>
      unfold v2gLoop at h
      split at h
      · simp only [Except.ok.injEq] at h; subst h; exact hlo
      · simp only [bind, Except.bind] at h
        split at h
        · cases h
        · rename_i r hr
          obtain ⟨v2gCost, v2gTs⟩ := r
          simp only at h
          split at h
          · simp only [Except.ok.injEq] at h; subst h; exact hlo
          · split at h
            · cases h
            · rename_i t ht
              simp [lget] at ht

/-- invariant of the vehicle loop for the feed-in side, V2G allowed: the forecast of the current timestep is
at least the connector's real headroom -/
structure LInv (M : α) (gid : String) (g : GSt α B) : Prop where
  curMax : g.gc.curMax = M
  gcid : g.gc.id = gid
  lo : -M ≤ g.gc.currentLoad
  fore : ∀ t0, g.ts[0]? = some t0 → M - g.gc.currentLoad ≤ t0.power ∧ t0.maxPower = M

theorem vehicleBody_LInv (ops : Ops α B) (law : BatLaw ops.toBatOps) (R : B → B → Prop)
    (sl : SimLaw ops R) (env : Env α) (M : α) (hM : 0 ≤ M) (gid : String)
    (g g' : GSt α B) (vid : String) (hinv : LInv M gid g)
    (h : vehicleBody ops env g vid = .ok g') : LInv M gid g' := by
  unfold vehicleBody at h
  split at h
  · cases h
  · rename_i v hv
    split at h
    · cases h
    · rename_i csId hcs
      split at h
      · cases h
      · rename_i cs hst
        split at h
        · cases h
        · rename_i etd hetd
          simp only [bind, Except.bind] at h
          split at h
          · cases h
          · rename_i sorted hsorted
            obtain ⟨hnd, _⟩ := sortedTs_nodup _ sorted hsorted
            split at h
            · cases h
            · rename_i st1 hch
              obtain ⟨hR1, _, _⟩ := chargeLoop_spec ops R sl env v g.ts sorted v.bat _ _ st1 (sl.refl v.bat) hch
              have hz0 : Z (List.replicate sorted.length (0 : α)) := by
                intro q hq
                have := List.mem_of_getElem? hq
                exact List.eq_of_mem_replicate this
              obtain ⟨hlen1, _, hcase⟩ := chargeLoop_Z ops env v g.ts sorted sorted.length _ _ st1 hz0
                (by simp) hch
              have hco := chargeLoop_clampOrOld ops env v g.ts sorted cs (List.replicate sorted.length 0)
                _ _ st1 rfl (ClampOrOld.refl _ _ _) hch
              have hnonneg : ∀ x ∈ st1.power, 0 ≤ x := by
                intro x hx
                rcases hco x hx with hx0 | ⟨p, rfl⟩
                · rw [List.eq_of_mem_replicate hx0]
                · exact (clampPower_bounds _ _ _ _ _).1
              split at h
              · cases h
              · rename_i st2 hst2
                have hR2 : R v.bat st2.sim := by
                  split at hst2
                  · exact v2gLoop_R ops R sl v.bat env v g.ts sorted _ st1 st2 hR1 hst2
                  · simp only [pure, Except.pure, Except.ok.injEq] at hst2
                    subst hst2; exact hR1
                rw [sl.restore _ _ hR2] at h
                split at h
                · cases h
                · rename_i ts' hts
                  simp only [Except.ok.injEq] at h
                  subst h
                  -- it suffices to name the signed power `a` that was really applied and to show that the
                  -- replay of `power[0]` is that very call
                  suffices hkey : ∃ a, st2.gc.curMax = g.gc.curMax ∧ st2.gc.id = g.gc.id ∧
                      st2.gc.currentLoad = g.gc.currentLoad + a ∧ -M ≤ st2.gc.currentLoad ∧
                      ((st2.power = [] ∧ a = 0) ∨ ∃ q rest, st2.power = q :: rest ∧
                        ((q = 0 ∧ a = 0) ∨ (0 < q ∧ ∃ s, ops.load v.bat none none (some q) = .ok (s, a)) ∨
                         (q < 0 ∧ ∃ s out, ops.unload v.bat (some (-q)) (some v.dischargeLimit) none = .ok (s, out) ∧
                            a = -out))) by
                    obtain ⟨a, k1, k2, k3, k4, k5⟩ := hkey
                    refine ⟨by show st2.gc.curMax = M; rw [k1]; exact hinv.curMax,
                      by show st2.gc.id = gid; rw [k2]; exact hinv.gcid, k4, ?_⟩
                    intro t0' ht0'
                    show M - st2.gc.currentLoad ≤ t0'.power ∧ t0'.maxPower = M
                    rw [k3]
                    exact fore_update ops v.dischargeLimit M g.gc.currentLoad a st2.power g.ts ts' v.bat
                      hinv.fore k5 hts t0' ht0'
                  -- a list with `Z` replays nothing
                  have hZlist : ∀ pw : List α, Z pw → (pw = [] ∧ (0 : α) = 0) ∨ ∃ q rest, pw = q :: rest ∧
                      ((q = 0 ∧ (0 : α) = 0) ∨ (0 < q ∧ ∃ s, ops.load v.bat none none (some q) = .ok (s, (0 : α))) ∨
                       (q < 0 ∧ ∃ s out, ops.unload v.bat (some (-q)) (some v.dischargeLimit) none = .ok (s, out) ∧
                          (0 : α) = -out)) := by
                    intro pw hz
                    cases pw with
                    | nil => exact Or.inl ⟨rfl, rfl⟩
                    | cons q rest => exact Or.inr ⟨q, rest, rfl, Or.inl ⟨hz q (by simp), rfl⟩⟩
                  rcases hcase with ⟨hu, hz1⟩ | ⟨p0, bat', avg, j, c, hp0, hne, hload, hb, hgc, hcs', hdis, hj, hsj⟩
                  · -- the planning pass booked nothing
                    obtain ⟨ub, ugc, ucs, ucm, udis⟩ := hu
                    by_cases hv2g : v.v2g = true
                    · rw [if_pos hv2g] at hst2
                      have hlow := v2gLoop_lower' ops law env v g.ts sorted M hM _ st1 st2
                        (by rw [ugc]; exact hinv.lo) (by rw [ugc]; exact hinv.fore) hst2
                      rcases v2gLoop_Zspec ops env v g.ts sorted hnd _ st1 st2 hz1 hlen1 hst2 with
                        ⟨⟨_, vgc, _, _, _⟩, hz2⟩ | ⟨stx, sp, happ, xb, xgc, _, _, _, xp, _, _⟩
                      · refine ⟨0, by rw [vgc, ugc], by rw [vgc, ugc], by rw [vgc, ugc, add_zero], hlow, hZlist _ hz2⟩
                      · have hpw : st2.power = stx.power := applyV2g_power ops v stx st2 sp happ
                        obtain ⟨c1, c2, c3⟩ := applyV2g_cases ops v stx st2 sp happ
                        rw [xgc, ugc] at c1 c2 c3
                        rw [xb, ub] at c3
                        have hlist : ∃ rest, st2.power = sp :: rest := by
                          rw [hpw]
                          cases hsx : stx.power with
                          | nil => rw [hsx] at xp; simp at xp
                          | cons q rest =>
                            rw [hsx] at xp
                            simp only [List.getElem?_cons_zero, Option.some.injEq] at xp
                            exact ⟨rest, by rw [xp]⟩
                        obtain ⟨rest, hrest⟩ := hlist
                        rcases c3 with ⟨hpos, b2, avg, hl, hld⟩ | ⟨hnp, hneg, b2, out, hu2, hld⟩ | ⟨hnp, hnn, hld⟩
                        · exact ⟨avg, c1, c2, hld, hlow, Or.inr ⟨sp, rest, hrest, Or.inr (Or.inl ⟨hpos, b2, hl⟩)⟩⟩
                        · exact ⟨-out, c1, c2, by rw [hld]; ring, hlow,
                            Or.inr ⟨sp, rest, hrest, Or.inr (Or.inr ⟨hneg, b2, out, hu2, rfl⟩)⟩⟩
                        · have hsp0 : sp = 0 := le_antisymm (not_lt.mp hnp) (not_lt.mp hnn)
                          exact ⟨0, c1, c2, by rw [hld, add_zero], hlow,
                            Or.inr ⟨sp, rest, hrest, Or.inl ⟨hsp0, rfl⟩⟩⟩
                    · rw [if_neg hv2g] at hst2
                      simp only [pure, Except.pure, Except.ok.injEq] at hst2
                      subst hst2
                      exact ⟨0, by rw [ugc], by rw [ugc], by rw [ugc, add_zero], by rw [ugc]; exact hinv.lo,
                        hZlist _ hz1⟩
                  · -- the planning pass booked the real charge `load(target_power = power[0])`
                    obtain ⟨hc1, hc2, hc3, _⟩ := addLoad_currentLoad g.gc cs.id avg
                    have hmem : p0 ∈ st1.power := List.mem_of_getElem? hp0
                    have hpos : 0 < p0 := lt_of_le_of_ne (hnonneg p0 hmem) (Ne.symm hne)
                    have hav := (law.load_target _ _ _ _ hload).1
                    have hnz : NZ sorted st1.sortedIdx := by
                      intro k c' t hk hsk h0
                      subst h0
                      have := nodup_pos sorted j k c c' 0 hnd hsj hsk
                      omega
                    have h2 : st2.gc = st1.gc ∧ st2.power[0]? = some p0 := by
                      by_cases hv2g : v.v2g = true
                      · rw [if_pos hv2g] at hst2
                        obtain ⟨⟨_, vgc, _, _, _⟩, vp⟩ := v2gLoop_NZ ops env v g.ts sorted _ st1 st2 hnz hst2
                        exact ⟨vgc, by rw [vp]; exact hp0⟩
                      · rw [if_neg hv2g] at hst2
                        simp only [pure, Except.pure, Except.ok.injEq] at hst2
                        subst hst2
                        exact ⟨rfl, hp0⟩
                    have hlist : ∃ rest, st2.power = p0 :: rest := by
                      cases hsx : st2.power with
                      | nil => rw [hsx] at h2; simp at h2
                      | cons q rest =>
                        rw [hsx] at h2
                        simp only [List.getElem?_cons_zero, Option.some.injEq] at h2
                        exact ⟨rest, by rw [h2.2]⟩
                    obtain ⟨rest, hrest⟩ := hlist
                    refine ⟨avg, by rw [h2.1, hgc]; exact hc2, by rw [h2.1, hgc]; exact hc3,
                      by rw [h2.1, hgc]; exact hc1, by rw [h2.1, hgc, hc1]; linarith [hinv.lo],
                      Or.inr ⟨p0, rest, hrest, Or.inr (Or.inl ⟨hpos, bat', hload⟩)⟩⟩

/-- what the surplus and battery loops keep: limit, id, feed-in bound, the connectors of the world -/
def LInv2 (M : α) (gid : String) (gcs : List (GcS α)) (g : GSt α B) : Prop :=
  g.gc.curMax = M ∧ g.gc.id = gid ∧ -M ≤ g.gc.currentLoad ∧ g.w.gcs = gcs

theorem surplusBody_LInv2 (ops : Ops α B) (law : BatLaw ops.toBatOps) (env : Env α) (M : α)
    (gid : String) (gcs : List (GcS α)) (g g' : GSt α B) (vid : String) (hinv : LInv2 M gid gcs g)
    (h : surplusBody ops env g vid = .ok g') : LInv2 M gid gcs g' := by
  have hg := surplusBody_gcs ops env g g' vid h
  unfold surplusBody at h
  split at h
  · cases h
  · split at h
    · cases h
    · rename_i csId hcs
      split at h
      · cases h
      · simp only at h
        split at h
        · simp only [bind, Except.bind] at h
          split at h
          · cases h
          · rename_i r hr
            obtain ⟨bat', avg⟩ := r
            simp only [Except.ok.injEq] at h
            subst h
            obtain ⟨c1, c2, c3, _⟩ := addLoad_currentLoad g.gc csId avg
            have := (law.load_max _ _ _ _ hr).1
            exact ⟨by show (g.gc.addLoad csId avg).1.curMax = M; rw [c2]; exact hinv.1,
              by show (g.gc.addLoad csId avg).1.id = gid; rw [c3]; exact hinv.2.1,
              by show -M ≤ (g.gc.addLoad csId avg).1.currentLoad; rw [c1]; linarith [hinv.2.2.1],
              by rw [hg]; exact hinv.2.2.2⟩
        · simp only [Except.ok.injEq] at h
          subst h; exact hinv

theorem batteryBody_LInv2 (ops : Ops α B) (law : BatLaw ops.toBatOps) (env : Env α) (M : α)
    (gid : String) (gcs : List (GcS α)) (nCheap : Option Nat) (g g' : GSt α B) (bid : String)
    (hinv : LInv2 M gid gcs g) (h : batteryBody ops env nCheap g bid = .ok g') : LInv2 M gid gcs g' := by
  obtain ⟨f1, f2, _, _⟩ := batteryBody_frame ops env nCheap g g' bid h
  refine ⟨?_, by rw [f2]; exact hinv.2.1, ?_, by rw [f1]; exact hinv.2.2.2⟩
  all_goals
    unfold batteryBody at h
    split at h
    · cases h
    · split at h
      · simp only [Except.ok.injEq] at h; subst h
        first | exact hinv.1 | exact hinv.2.2.1
      · split at h
        · cases h
        · simp only [bind, Except.bind] at h
          split at h
          · cases h
          · split at h
            · cases h
            · split at h
              · cases h
              · rename_i r3 hr3
                obtain ⟨c1, c2, _, _⟩ := addLoad_currentLoad g.gc bid r3.2
                have hav := (law.load_target _ _ _ _ hr3).1
                split at h
                · split at h
                  · cases h
                  · rename_i r4 hr4
                    simp only [Except.ok.injEq] at h; subst h
                    obtain ⟨d1, d2, _, _⟩ := addLoad_currentLoad (g.gc.addLoad bid r3.2).1 bid (-r4.2)
                    have hu := law.unload_target _ _ _ _ hr4
                    first
                    | (show ((g.gc.addLoad bid r3.2).1.addLoad bid (-r4.2)).1.curMax = M
                       rw [d2, c2]; exact hinv.1)
                    | (show -M ≤ ((g.gc.addLoad bid r3.2).1.addLoad bid (-r4.2)).1.currentLoad
                       rw [d1]
                       simp only [pymin_eq] at hu
                       rcases le_total (min (currentLoadExcl g.gc g.dis)
                         ((g.gc.addLoad bid r3.2).1.curMax + (g.gc.addLoad bid r3.2).1.currentLoad)) 0 with h0 | h0
                       · rw [max_eq_right h0] at hu
                         have : r4.2 = 0 := le_antisymm hu.2 hu.1
                         rw [this, c1]; linarith [hinv.2.2.1]
                       · rw [max_eq_left h0] at hu
                         have := le_trans hu.2 (min_le_right _ _)
                         rw [c2, hinv.1] at this
                         linarith)
                · simp only [Except.ok.injEq] at h; subst h
                  first
                  | (show (g.gc.addLoad bid r3.2).1.curMax = M
                     rw [c2]; exact hinv.1)
                  | (show -M ≤ (g.gc.addLoad bid r3.2).1.currentLoad
                     rw [c1]; linarith [hinv.2.2.1])

theorem timestepsOf_head' (ops : Ops α B) (env : Env α) (gc : GcS α) (ts : List (TS α))
    (hfut : ∀ e ∈ env.events, env.now < e.start) (h : timestepsOf ops env gc = .ok ts) :
    ∀ t0, ts[0]? = some t0 → t0.power = gc.curMax - gc.currentLoad ∧ t0.maxPower = gc.curMax := by
  unfold timestepsOf at h
  simp only at h
  cases hn : (env.horizon / env.interval).toNat with
  | zero =>
    rw [hn] at h
    simp only [buildTimesteps, Except.ok.injEq] at h
    subst h
    intro t0 ht0; simp at ht0
  | succ n =>
    rw [hn] at h
    unfold buildTimesteps at h
    rw [peekEvents_future gc.id env.now env.events _ hfut] at h
    simp only [bind, Except.bind, beq_self_eq_true, if_true] at h
    obtain ⟨more, hm⟩ := buildTimesteps_prefix ops env gc _ _ _ _ _ _ _ _ h
    intro t0 ht0
    rw [hm] at ht0
    simp only [List.nil_append, List.cons_append, List.getElem?_cons_zero, Option.some.injEq] at ht0
    subst ht0
    exact ⟨rfl, rfl⟩

/-- **`step_gc`, feed-in side, with V2G-capable vehicles and stationary batteries** -/
theorem stepGc_lower (ops : Ops α B) (law : BatLaw ops.toBatOps) (R : B → B → Prop)
    (sl : SimLaw ops R) (env : Env α) (w w' : SWorld α B) (gcId : String)
    (cmds : List (String × α)) (gc : GcS α) (hgc : w.gc? gcId = some gc)
    (hM : 0 ≤ gc.curMax) (hlo0 : -gc.curMax ≤ gc.currentLoad)
    (hfut : ∀ e ∈ env.events, env.now < e.start)
    (h : stepGc ops env w gcId = .ok (w', cmds)) :
    (∀ g' ∈ w'.gcs, g'.id = gcId → -gc.curMax ≤ g'.currentLoad ∧ g'.curMax = gc.curMax) ∧
    (∀ x ∈ w'.gcs, x.id ≠ gcId → x ∈ w.gcs) ∧ w'.gcs.map (·.id) = w.gcs.map (·.id) := by
  obtain ⟨_, hgid⟩ := gc?_some w gcId gc hgc
  unfold stepGc at h
  rw [hgc] at h
  simp only [bind, Except.bind] at h
  split at h
  · cases h
  · split at h
    · cases h
    · rename_i vids hvids
      split at h
      · cases h
      · rename_i ts hts
        split at h
        · cases h
        · rename_i g1 hg1
          split at h
          · cases h
          · rename_i g2 hg2
            split at h
            · cases h
            · rename_i nCheap hn
              split at h
              · cases h
              · rename_i g3 hg3
                simp only [Except.ok.injEq, Prod.mk.injEq] at h
                obtain ⟨rfl, _⟩ := h
                have hhead := timestepsOf_head' ops env gc ts hfut hts
                have h0 : LInv gc.curMax gcId (⟨w, gc, ts, [], []⟩ : GSt α B) ∧
                    (⟨w, gc, ts, [], []⟩ : GSt α B).w.gcs = w.gcs :=
                  ⟨⟨rfl, hgid, hlo0, fun t0 ht0 => by
                    obtain ⟨a, b⟩ := hhead t0 ht0
                    exact ⟨by rw [a], b⟩⟩, rfl⟩
                have h1 := foldlM_inv _ (fun g => LInv gc.curMax gcId g ∧ g.w.gcs = w.gcs)
                  (fun g vid g' hg hstep =>
                    ⟨vehicleBody_LInv ops law R sl env _ hM gcId g g' vid hg.1 hstep,
                     by rw [vehicleBody_gcs ops env g g' vid hstep]; exact hg.2⟩)
                  vids _ g1 h0 hg1
                have h2 := foldlM_inv _ (fun g => LInv2 gc.curMax gcId w.gcs g)
                  (fun g vid g' hg hstep => surplusBody_LInv2 ops law env _ gcId _ g g' vid hg hstep)
                  vids _ g2 ⟨h1.1.curMax, h1.1.gcid, h1.1.lo, h1.2⟩ hg2
                have h3 := foldlM_inv _ (fun g => LInv2 gc.curMax gcId w.gcs g)
                  (fun g bid g' hg hstep => batteryBody_LInv2 ops law env _ gcId _ nCheap g g' bid hg hstep)
                  _ _ g3 h2 hg3
                refine ⟨?_, ?_, ?_⟩
                · intro g' hg' hid
                  rcases mem_setGc _ _ g' hg' with rfl | ⟨_, hne⟩
                  · exact ⟨h3.2.2.1, h3.1⟩
                  · exact absurd (by rw [hid, h3.2.1]) hne
                · intro x hx hid
                  rcases mem_setGc _ _ x hx with rfl | ⟨hm, _⟩
                  · exact absurd h3.2.1 hid
                  · rw [h3.2.2.2] at hm; exact hm
                · rw [setGc_ids, h3.2.2.2]

theorem stepFold_lower (ops : Ops α B) (law : BatLaw ops.toBatOps) (R : B → B → Prop)
    (sl : SimLaw ops R) (env : Env α) (w0 : SWorld α B)
    (hfut : ∀ e ∈ env.events, env.now < e.start)
    (hbase : ∀ g ∈ w0.gcs, 0 ≤ g.curMax ∧ -g.curMax ≤ g.currentLoad) :
    ∀ (rest done : List String) (st st' : SWorld α B × List (String × α)),
      (∀ id ∈ rest, id ∉ done) → rest.Nodup →
      st.1.gcs.map (·.id) = w0.gcs.map (·.id) →
      (∀ g' ∈ st.1.gcs, (g'.id ∈ done → ∃ g ∈ w0.gcs, g.id = g'.id ∧ -g.curMax ≤ g'.currentLoad ∧
          g'.curMax = g.curMax) ∧ (g'.id ∉ done → g' ∈ w0.gcs)) →
      rest.foldlM (fun (st : SWorld α B × List (String × α)) gid => do
        let (w', c) ← stepGc ops env st.1 gid
        pure (w', sdUpdate st.2 c)) st = .ok st' →
      st'.1.gcs.map (·.id) = w0.gcs.map (·.id) ∧
      ∀ g' ∈ st'.1.gcs, (g'.id ∈ done ++ rest → ∃ g ∈ w0.gcs, g.id = g'.id ∧
          -g.curMax ≤ g'.currentLoad ∧ g'.curMax = g.curMax) ∧
        (g'.id ∉ done ++ rest → g' ∈ w0.gcs) := by
  intro rest
  induction rest with
  | nil =>
    intro done st st' _ _ hids hI h
    simp only [List.foldlM_nil, pure, Except.pure, Except.ok.injEq] at h
    subst h
    exact ⟨hids, by simpa using hI⟩
  | cons gid rest ih =>
    intro done st st' hnew hnd hids hI h
    simp only [List.foldlM_cons, bind, Except.bind] at h
    split at h
    · cases h
    · rename_i st1 hst1
      split at hst1
      · cases hst1
      · rename_i r hr
        obtain ⟨w1, c1⟩ := r
        simp only [pure, Except.pure, Except.ok.injEq] at hst1
        subst hst1
        have hgidnew : gid ∉ done := hnew gid (List.mem_cons_self ..)
        cases hgc : st.1.gc? gid with
        | none => unfold stepGc at hr; rw [hgc] at hr; cases hr
        | some gc =>
          obtain ⟨hgm, hgid⟩ := gc?_some st.1 gid gc hgc
          have hg0 : gc ∈ w0.gcs := (hI gc hgm).2 (by rw [hgid]; exact hgidnew)
          obtain ⟨hM, hlo⟩ := hbase gc hg0
          obtain ⟨hlim, hfr, hids1⟩ := stepGc_lower ops law R sl env st.1 w1 gid c1 gc hgc hM hlo hfut hr
          have hres := ih (done ++ [gid]) (w1, sdUpdate st.2 c1) st'
            (by
              intro id hid hmem
              rcases List.mem_append.mp hmem with hm | hm
              · exact hnew id (List.mem_cons_of_mem _ hid) hm
              · simp only [List.mem_singleton] at hm
                subst hm
                exact (List.nodup_cons.mp hnd).1 hid)
            (List.nodup_cons.mp hnd).2 (by rw [hids1]; exact hids)
            (by
              intro g' hg'
              by_cases hid : g'.id = gid
              · constructor
                · intro _
                  obtain ⟨l1, l3⟩ := hlim g' hg' hid
                  exact ⟨gc, hg0, by rw [hgid, hid], l1, l3⟩
                · intro hnot
                  exfalso; apply hnot
                  rw [hid]; simp
              · have hold := hfr g' hg' hid
                constructor
                · intro hmem
                  rcases List.mem_append.mp hmem with hm | hm
                  · exact (hI g' hold).1 hm
                  · simp only [List.mem_singleton] at hm
                    exact absurd hm hid
                · intro hnot
                  apply (hI g' hold).2
                  intro hm
                  exact hnot (List.mem_append_left _ hm))
            h
          simpa [List.append_assoc] using hres

/-- **the whole step, feed-in side, with V2G-capable vehicles and stationary batteries** -/
theorem step_lower (ops : Ops α B) (law : BatLaw ops.toBatOps) (R : B → B → Prop)
    (sl : SimLaw ops R) (env : Env α) (w w' : SWorld α B) (cmds : List (String × α))
    (hfut : ∀ e ∈ env.events, env.now < e.start) (hnd : (w.gcs.map (·.id)).Nodup)
    (hbase : ∀ g ∈ w.gcs, 0 ≤ g.curMax ∧ -g.curMax ≤ g.currentLoad)
    (h : step ops env w = .ok (w', cmds)) :
    ∀ g' ∈ w'.gcs, ∃ g ∈ w.gcs, g.id = g'.id ∧ -g.curMax ≤ g'.currentLoad ∧ g'.curMax = g.curMax := by
  unfold step at h
  have hres := stepFold_lower ops law R sl env w hfut hbase (w.gcs.map (·.id)) []
    (resetStations w, []) (w', cmds)
    (by intro id _ hm; simp at hm) hnd rfl
    (by intro g' hg'; exact ⟨by intro hm; simp at hm, fun _ => hg'⟩) h
  intro g' hg'
  apply (hres.2 g' hg').1
  simp only [List.nil_append]
  rw [← hres.1]
  exact List.mem_map_of_mem hg'

end SpiceEv.BalancedMarket
