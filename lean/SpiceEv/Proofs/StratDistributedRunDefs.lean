/-
Definitions shared by the proofs about the iterated distributed step (Proofs/StratDistributedRun*.lean):
overlay of a sub-world's result on the world it was cut from, the sub-world relation, "no generation" / "no V2G".
-/
import SpiceEv.Proofs.StratDistributedLower
import SpiceEv.Model.StratDistributedRun
set_option linter.unusedSectionVars false
set_option linter.unusedVariables false
namespace SpiceEv.DistRun
open SpiceEv SpiceEv.Distrib SpiceEv.Frame
variable {α B : Type} [Field α] [LinearOrder α] [IsStrictOrderedRing α]

/-- the objects of `t` (connectors all, stations and vehicles by id) put over the world `X` -/
def overlay (X t : SWorld α B) : SWorld α B :=
  { gcs := t.gcs,
    stations := X.stations.map (fun x => (t.station? x.id).getD x),
    vehicles := X.vehicles.map (fun x => (t.vehicle? x.id).getD x),
    batteries := X.batteries }

/-- `t` is cut from `X`: the same connectors, no stationary batteries, the vehicles whose id satisfies `p` (every other
vehicle of `X` is unconnected), some of `X`'s stations (objects found in `X` under their ids); ids of `X` unique -/
structure Sub (p : String → Bool) (X t : SWorld α B) : Prop where
  gcs : t.gcs = X.gcs
  batsT : t.batteries = []
  batsX : X.batteries = []
  veh : t.vehicles = X.vehicles.filter (fun v => p v.id)
  idle : ∀ x ∈ X.vehicles, p x.id = false → x.cs = none
  sta : ∀ s ∈ t.stations, X.station? s.id = some s
  stN : (X.stations.map (·.id)).Nodup
  veN : (X.vehicles.map (·.id)).Nodup

/-- no connector carries a negative entry (no local generation, no feed-in booked) -/
def NonNegW (w : SWorld α B) : Prop := ∀ g ∈ w.gcs, ∀ kv ∈ g.loads, 0 ≤ kv.2

/-- no vehicle can discharge -/
def NoV2G (w : SWorld α B) : Prop := ∀ v ∈ w.vehicles, v.v2g = false

end SpiceEv.DistRun
