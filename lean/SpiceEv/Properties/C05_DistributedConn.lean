/-
C05 for the charging strategy `distributed` (model: Model/StratDistributed.lean), the two remaining complete-step
sentences:

* only a station with a connected vehicle carries power after `Distributed.step`;
* a vehicle without V2G capability is never discharged: a station whose connected vehicles are all without V2G
  capability ends the step with non-negative power;

both through the delegation to the sub-strategies on the connectors' virtual worlds, the opportunity stations' battery
handling, the write-back of the virtual worlds and the final surplus pass.  Both hold for every class of sub-strategy
object (greedy, balanced, peak_shaving, peak_load_window) without a new premise on it: what the loop needs from a
sub-strategy's run (`SideConn`: vehicles keep id / connected station / V2G flag; no station negative after DIST2 without a
connected V2G vehicle) is proved from the three models (`C05_distributed_substrategy_keeps_connection`,
`C05_distributed_substrategy_no_discharge`).  The first sentence needs nothing but distinct vehicle ids; the second
the premises of `C05_distributed_station_upper` (incl. the old `SideOK` on a peak_shaving / peak_load_window
sub-strategy, used to carry `LoopInv` through the loop).
Proofs: Proofs/StratDistributedConn.lean, …ConnPS.lean, …ConnPLW.lean, …ConnNeg.lean, …ConnFree.lean.
-/
import SpiceEv.Proofs.StratDistributedConnFree
set_option linter.unusedSectionVars false
set_option linter.unusedVariables false
namespace SpiceEv
open SpiceEv.Distrib SpiceEv.Frame SpiceEv.Distrib.Conn
variable {α : Type} [Field α] [LinearOrder α] [IsStrictOrderedRing α]

/-- **Delegated greedy / balanced step + repair DIST2 meets the contract `SubConn n`** (what the connector loop needs
from a sub-strategy's run; for peak_shaving / peak_load_window see the next two theorems): on a connector's
virtual world `⟨[g], ss, vs, bs⟩` whose vehicles have one key per id, the vehicles come back in the same order with the
same id, connected station and V2G capability (this is all of `SubConn false`), and (`SubConn true` in addition) — if
station maxima are ≥ 0, every station's parent is the connector, the connector carries no entry under a station id and
no battery id is a station id — every station that ends with negative power has a V2G-capable vehicle connected to it. -/
theorem C05_distributed_substep_connected {B : Type} (n : Bool) (rule : Rule) (ops : BatOps α B) (law : BatLaw ops)
    (env : StratEnv α) : SubConn n (ruleStep rule ops env) :=
  ruleStep_subConn n rule ops law env

/-- **Every class of sub-strategy object returns the vehicles with their connection** (`SideConn false`, the half of
the contract that "only connected" needs, is a theorem): the step of a greedy, balanced, peak_shaving or
peak_load_window sub-strategy on a connector's virtual world `⟨[g], ss, vs, bs⟩` whose vehicles have one entry per id
returns the vehicles in the same order with the same id, `connected_charging_station` and `v2g` — in all three models
the only write to a vehicle of the world is `{ v with bat := … }` (peak_load_window: also `schedule`; the look-ahead of
peak_shaving works on copies). -/
theorem C05_distributed_substrategy_keeps_connection {B : Type} (dops : DOps α B) (law : BatLaw dops.bat)
    (sub : SubStrat α) (de : DEnv α) : SideConn false dops sub de :=
  sideConn_false dops law sub de

/-- **No class of sub-strategy object leaves a station discharging without a connected V2G vehicle** (`SideNeg`, the
booking half of the contract): on a connector's virtual world that meets the premises of `SubOK` (no entry under a
station id at the connector, no battery id is a station id, …), after the step of a peak_shaving / peak_load_window
sub-strategy and DIST2 (`syncStations`: station power := entry at the connector) no station has negative power at all —
both only charge vehicles (`BatLaw`: average powers ≥ 0), their battery passes book under battery ids.  (For greedy /
balanced, which do discharge V2G vehicles: `C05_distributed_substep_connected true`.) -/
theorem C05_distributed_substrategy_no_discharge {B : Type} (dops : DOps α B) (law : BatLaw dops.bat)
    (sub : SubStrat α) (de : DEnv α) : SideNeg dops sub de :=
  sideNeg dops law sub de

/-- **Nobody's connection or V2G capability changes in a step**: after the complete `Distributed.step` the vehicles of
the world are, in the same order, vehicles with the same id, `connected_charging_station` and `v2g` as before — for every
class of sub-strategy object.  Only premise on the state: distinct vehicle ids (`world_state.vehicles` is a dict). -/
theorem C05_distributed_connection_kept {B : Type} (dops : DOps α B) (law : BatLaw dops.bat) (de : DEnv α)
    (s s' : DState α B) (cmds : List (String × α)) (hvnd : (s.world.vehicles.map (·.id)).Nodup)
    (h : step dops de s = .ok (s', cmds)) :
    s'.world.vehicles.map (fun v => (v.id, v.cs, v.v2g)) = s.world.vehicles.map (fun v => (v.id, v.cs, v.v2g)) :=
  (step_connA dops law de s s' cmds hvnd h).1

/-- **Only a station with a connected vehicle carries power after the complete step.**  For any battery obeying
`BatLaw`, any number of connectors of either station type, `number_cs`, stationary batteries (supporting, or simulated
as virtual vehicles at virtual stations — those live in `DInit.virtualCs`, not in the world), V2G, and every class of
sub-strategy object (greedy, balanced, peak_shaving, peak_load_window — no contract premise, so there is no separate
`…_rule` corollary): whenever `Distributed.step` returns, every station of the world whose `current_power` is not 0
has a vehicle of the world connected to it.  Only premise on the state before the step: distinct vehicle ids
(`world_state.vehicles` is a dict).
The proof carries `CInv false` (vehicle keys `(id, connected station, v2g)` unchanged; power ≠ 0 → a key connected)
from the reset of the station powers through the loop over the connectors (`stepGc_loopA`: the stations written back
are exactly those of the connected vehicles — `subStations_conn` — whatever the sub-strategy booked; the vehicles come
back with their keys — `C05_distributed_substrategy_keeps_connection`; an opportunity station's virtual vehicle exists
only while no real vehicle is connected — `oppsPrep_case` — and then nothing is written back to the world's stations;
the battery tail touches connectors and batteries only) and the final surplus pass (`distributeSurplusOn_cinv`: a
booking goes to the station the vehicle is connected to). -/
theorem C05_distributed_only_connected {B : Type} (dops : DOps α B) (law : BatLaw dops.bat) (de : DEnv α)
    (s s' : DState α B) (cmds : List (String × α)) (hvnd : (s.world.vehicles.map (·.id)).Nodup)
    (h : step dops de s = .ok (s', cmds)) :
    ∀ cs ∈ s'.world.stations, cs.currentPower ≠ 0 → ∃ v ∈ s'.world.vehicles, v.cs = some cs.id := by
  obtain ⟨h1, h2, _⟩ := step_connA dops law de s s' cmds hvnd h
  intro cs hcs hp
  obtain ⟨k, hk, e⟩ := h2 cs hcs hp
  rw [← h1] at hk
  simp only [VK, List.mem_map] at hk
  obtain ⟨v, hv, rfl⟩ := hk
  exact ⟨v, hv, e⟩

/-- **A vehicle without V2G capability is never discharged.**  After the complete `Distributed.step` every station of
the world at which no V2G-capable vehicle is connected (every vehicle connected to it has `v2g = false`; in particular
a station with one connected vehicle that is not V2G-capable, or with none) has non-negative `current_power` — the
station power is the signed sum of what was booked for the vehicles at it in this step (every charge is ≥ 0 by
`BatLaw`; the only discharge of a vehicle is the V2G branch of `distribute_surplus_power`, guarded by
`vehicle_type.v2g`).  Premises: those of `C05_distributed_station_upper` (connector ids distinct; station maxima, real
and virtual, ≥ 0; `LoopHyp`; for a peak_shaving / peak_load_window sub-strategy `SideOK` — `True` for greedy /
balanced: `…_no_v2g_discharge_rule`) plus distinct vehicle ids.  Nothing new is assumed about a sub-strategy: that
peak_shaving / peak_load_window leave no station with negative power is `C05_distributed_substrategy_no_discharge`, that
greedy / balanced discharge only at a station with a connected V2G vehicle is `C05_distributed_substep_connected true`
(both need the virtual world to be free of station entries, which is what `LoopInv` / `LoopHyp` provide).
The proof carries `CInv true` (in addition: power < 0 → a V2G key connected) through the passes of greedy / balanced
(`ruleStep_cinv`: every charge is ≥ 0, the discharge branch requires `v.v2g`), the connector loop (`stepGc_loopC`) and
the final surplus pass. -/
theorem C05_distributed_no_v2g_discharge {B : Type} (dops : DOps α B) (law : BatLaw dops.bat) (de : DEnv α)
    (hsd : SideOK dops de.deps de) (hso : SideOK dops de.opps de)
    (s s' : DState α B) (cmds : List (String × α))
    (hgnd : (s.world.gcs.map (·.id)).Nodup) (hvnd : (s.world.vehicles.map (·.id)).Nodup)
    (hmax : ∀ st ∈ s.world.stations, 0 ≤ st.maxPower) (hvirt : ∀ st ∈ s.init.virtualCs, 0 ≤ st.maxPower)
    (hyp : LoopHyp (resetStations s.world) s.init (s.world.stations.map (·.id)))
    (h : step dops de s = .ok (s', cmds)) :
    ∀ cs ∈ s'.world.stations, (∀ v ∈ s'.world.vehicles, v.cs = some cs.id → v.v2g = false) →
      0 ≤ cs.currentPower := by
  obtain ⟨h1, _, h3⟩ := step_conn true dops law de hsd hso (sideConn_all true dops law de.deps de)
    (sideConn_all true dops law de.opps de) s s' cmds hgnd hvnd hmax hvirt hyp h
  intro cs hcs hall
  by_contra hneg
  obtain ⟨k, hk, e1, e2⟩ := h3 rfl cs hcs (not_le.mp hneg)
  rw [← h1] at hk
  simp only [VK, List.mem_map] at hk
  obtain ⟨v, hv, rfl⟩ := hk
  have := hall v hv e1
  rw [show (vkey v).2.2 = v.v2g from rfl, this] at e2
  cases e2

/-- the same for sub-strategies greedy / balanced (no premise on the sub-strategies) -/
theorem C05_distributed_no_v2g_discharge_rule {B : Type} (dops : DOps α B) (law : BatLaw dops.bat) (de : DEnv α)
    (hd : de.deps.isRule) (ho : de.opps.isRule)
    (s s' : DState α B) (cmds : List (String × α))
    (hgnd : (s.world.gcs.map (·.id)).Nodup) (hvnd : (s.world.vehicles.map (·.id)).Nodup)
    (hmax : ∀ st ∈ s.world.stations, 0 ≤ st.maxPower) (hvirt : ∀ st ∈ s.init.virtualCs, 0 ≤ st.maxPower)
    (hyp : LoopHyp (resetStations s.world) s.init (s.world.stations.map (·.id)))
    (h : step dops de s = .ok (s', cmds)) :
    ∀ cs ∈ s'.world.stations, (∀ v ∈ s'.world.vehicles, v.cs = some cs.id → v.v2g = false) →
      0 ≤ cs.currentPower :=
  C05_distributed_no_v2g_discharge dops law de (by simp [SideOK, hd.1, hd.2]) (by simp [SideOK, ho.1, ho.2])
    s s' cmds hgnd hvnd hmax hvirt hyp h

/-- Non-vacuity of `C05_distributed_substep_connected`: a one-vehicle virtual world, greedy; the step returns, the
vehicle keeps its key and the station (11 kW ≥ 0) needs no V2G witness. -/
example : ∃ vw' cmds, ruleStep .greedy (toyOps 5) toyEnv.env
      ⟨[⟨"GC2", 20, some (.fixed (3/10)), []⟩], [⟨"CS_v2_deps", "GC2", 11, 0, 0⟩],
        [⟨"v2", some "CS_v2_deps", 4/5, some 3600000000, 0, false, 1/2, 1/5⟩], []⟩ = .ok (vw', cmds) ∧
    vw'.vehicles.map vkey = [("v2", some "CS_v2_deps", false)] := by
  have hok : (ruleStep .greedy (toyOps 5) toyEnv.env
      ⟨[⟨"GC2", 20, some (.fixed (3/10)), []⟩], [⟨"CS_v2_deps", "GC2", 11, 0, 0⟩],
        [⟨"v2", some "CS_v2_deps", 4/5, some 3600000000, 0, false, 1/2, 1/5⟩], []⟩).toBool = true := by
    decide +kernel
  cases h : ruleStep .greedy (toyOps 5) toyEnv.env
      ⟨[⟨"GC2", 20, some (.fixed (3/10)), []⟩], [⟨"CS_v2_deps", "GC2", 11, 0, 0⟩],
        [⟨"v2", some "CS_v2_deps", 4/5, some 3600000000, 0, false, 1/2, 1/5⟩], []⟩ with
  | error e => rw [h] at hok; cases hok
  | ok r =>
    obtain ⟨vw', cmds⟩ := r
    exact ⟨vw', cmds, rfl, (C05_distributed_substep_connected true .greedy (toyOps 5) (toyOps_law 5 (by norm_num))
      toyEnv.env _ _ _ _ vw' cmds h (by
        intro a ha b hb _
        simp only [List.map_cons, List.map_nil, List.mem_cons, List.not_mem_nil, or_false] at ha hb
        rw [ha, hb])).1⟩

/-- Non-vacuity of `C05_distributed_connection_kept` on `toyState`. -/
example : ∃ s' cmds, step (toyDOps 5) toyEnv toyState = .ok (s', cmds) ∧
    s'.world.vehicles.map (fun v => (v.id, v.cs, v.v2g)) =
      [("v1", some "CS_v1_opps", false), ("v2", some "CS_v2_deps", false)] := by
  have hok : (step (toyDOps 5) toyEnv toyState).toBool = true := by decide +kernel
  cases h : step (toyDOps 5) toyEnv toyState with
  | error e => rw [h] at hok; cases hok
  | ok r =>
    obtain ⟨s', cmds⟩ := r
    exact ⟨s', cmds, rfl, C05_distributed_connection_kept (toyDOps 5) (toyOps_law 5 (by norm_num)) toyEnv
      toyState s' cmds (by decide +kernel) h⟩

/-- Non-vacuity of `C05_distributed_only_connected`: `toyState` has distinct vehicle ids, the step returns, and the
theorem applies. -/
example : ∃ s' cmds, step (toyDOps 5) toyEnv toyState = .ok (s', cmds) ∧
    ∀ cs ∈ s'.world.stations, cs.currentPower ≠ 0 → ∃ v ∈ s'.world.vehicles, v.cs = some cs.id := by
  have hok : (step (toyDOps 5) toyEnv toyState).toBool = true := by decide +kernel
  cases h : step (toyDOps 5) toyEnv toyState with
  | error e => rw [h] at hok; cases hok
  | ok r =>
    obtain ⟨s', cmds⟩ := r
    exact ⟨s', cmds, rfl, C05_distributed_only_connected (toyDOps 5) (toyOps_law 5 (by norm_num)) toyEnv
      toyState s' cmds (by decide +kernel) h⟩

/-- Non-vacuity of `C05_distributed_no_v2g_discharge(_rule)` on `toyState` (no vehicle is V2G-capable). -/
example : ∃ s' cmds, step (toyDOps 5) toyEnv toyState = .ok (s', cmds) ∧
    ∀ cs ∈ s'.world.stations, (∀ v ∈ s'.world.vehicles, v.cs = some cs.id → v.v2g = false) →
      0 ≤ cs.currentPower := by
  have hok : (step (toyDOps 5) toyEnv toyState).toBool = true := by decide +kernel
  cases h : step (toyDOps 5) toyEnv toyState with
  | error e => rw [h] at hok; cases hok
  | ok r =>
    obtain ⟨s', cmds⟩ := r
    obtain ⟨hyp, hnd, hmax, hvirt⟩ := toyState_loopHyp
    exact ⟨s', cmds, rfl, C05_distributed_no_v2g_discharge_rule (toyDOps 5) (toyOps_law 5 (by norm_num)) toyEnv
      ⟨rfl, rfl⟩ ⟨rfl, rfl⟩ toyState s' cmds hnd (by decide +kernel) hmax hvirt hyp h⟩

/-- Non-vacuity of `C05_distributed_no_v2g_discharge` (general form). -/
example : ∃ s' cmds, step (toyDOps 5) toyEnv toyState = .ok (s', cmds) ∧
    ∀ cs ∈ s'.world.stations, (∀ v ∈ s'.world.vehicles, v.cs = some cs.id → v.v2g = false) →
      0 ≤ cs.currentPower := by
  have hok : (step (toyDOps 5) toyEnv toyState).toBool = true := by decide +kernel
  cases h : step (toyDOps 5) toyEnv toyState with
  | error e => rw [h] at hok; cases hok
  | ok r =>
    obtain ⟨s', cmds⟩ := r
    obtain ⟨hyp, hnd, hmax, hvirt⟩ := toyState_loopHyp
    exact ⟨s', cmds, rfl, C05_distributed_no_v2g_discharge (toyDOps 5) (toyOps_law 5 (by norm_num)) toyEnv
      (by simp [SideOK, toyEnv]) (by simp [SideOK, toyEnv]) 
      toyState s' cmds hnd (by decide +kernel) hmax hvirt hyp h⟩

/-- Non-vacuity, concretely: after the step on `toyState` both stations carry 11 kW, each with its vehicle connected,
neither V2G-capable. -/
example : (match step (toyDOps 5) toyEnv toyState with
    | .ok (s', _) => s'.world.stations.map (fun (st : StationS ℚ) => (st.id, st.currentPower,
        (s'.world.vehicles.filter (fun v => v.cs == some st.id)).map (fun v => (v.id, v.v2g))))
    | .error _ => []) = [("CS_v1_opps", 11, [("v1", false)]), ("CS_v2_deps", 11, [("v2", false)])] := by
  decide +kernel

/-- Non-vacuity with a discharge and an idle station (`toyStateV2G`, battery `toyOpsV`): all premises hold, the step
returns, both theorems apply — and concretely (next example) the V2G vehicle's station ends at −4 kW, the station nobody
is connected to at 0. -/
example : ∃ s' cmds, step (toyDOpsV 5) toyEnv toyStateV2G = .ok (s', cmds) ∧
    (∀ cs ∈ s'.world.stations, cs.currentPower ≠ 0 → ∃ v ∈ s'.world.vehicles, v.cs = some cs.id) ∧
    (∀ cs ∈ s'.world.stations, (∀ v ∈ s'.world.vehicles, v.cs = some cs.id → v.v2g = false) →
      0 ≤ cs.currentPower) := by
  have hok : (step (toyDOpsV 5) toyEnv toyStateV2G).toBool = true := by decide +kernel
  cases h : step (toyDOpsV 5) toyEnv toyStateV2G with
  | error e => rw [h] at hok; cases hok
  | ok r =>
    obtain ⟨s', cmds⟩ := r
    obtain ⟨hyp, hnd, hvnd, hmax, hvirt⟩ := toyStateV2G_loopHyp
    exact ⟨s', cmds, rfl,
      C05_distributed_only_connected (toyDOpsV 5) (toyOpsV_law 5 (by norm_num)) toyEnv toyStateV2G s' cmds hvnd h,
      C05_distributed_no_v2g_discharge_rule (toyDOpsV 5) (toyOpsV_law 5 (by norm_num)) toyEnv
        ⟨rfl, rfl⟩ ⟨rfl, rfl⟩ toyStateV2G s' cmds hnd hvnd hmax hvirt hyp h⟩

/-- … concretely: station, power, connected vehicles with their V2G flag after the step on `toyStateV2G`. -/
example : (match step (toyDOpsV 5) toyEnv toyStateV2G with
    | .ok (s', _) => s'.world.stations.map (fun (st : StationS ℚ) => (st.id, st.currentPower,
        (s'.world.vehicles.filter (fun v => v.cs == some st.id)).map (fun v => (v.id, v.v2g))))
    | .error _ => []) =
    [("CS_v1_opps", 11, [("v1", false)]), ("CS_v2_deps", -4, [("v2", true)]), ("CS_v3_deps", 0, [])] := by
  decide +kernel

/-- Non-vacuity of `C05_distributed_substrategy_keeps_connection`: a peak_shaving object (`ps := some …`) as
sub-strategy; the contract is a genuine statement about `psRun` then, and it holds. -/
example : ∀ events future, SubConn false (psRun (toyDOps 5)
    ({ toyEnv.deps with ps := some ⟨3600000000, false, 10⟩ } : SubStrat ℚ) ⟨3600000000, false, 10⟩ toyEnv.env.now
    events future) := by
  have h := C05_distributed_substrategy_keeps_connection (toyDOps 5) (toyOps_law 5 (by norm_num))
    ({ toyEnv.deps with ps := some ⟨3600000000, false, 10⟩ } : SubStrat ℚ) toyEnv
  simpa [SideConn] using h

/-- Non-vacuity of `C05_distributed_substrategy_no_discharge`: a peak_load_window object as sub-strategy; the
contract is a genuine statement about `plwRun` then, and it holds. -/
example : ∀ peaks extra, SubNeg (plwRun (toyDOps 5)
    ({ toyEnv.deps with plw := some ⟨0, 1, 10, [], []⟩ } : SubStrat ℚ) ⟨0, 1, 10, [], []⟩ toyEnv peaks extra) := by
  have h := C05_distributed_substrategy_no_discharge (toyDOps 5) (toyOps_law 5 (by norm_num))
    ({ toyEnv.deps with plw := some ⟨0, 1, 10, [], []⟩ } : SubStrat ℚ) toyEnv
  simpa [SideNeg, toyEnv] using h

/-- Non-vacuity of both sub-strategy theorems on a run that returns: a peak_shaving object on the virtual world `toyVw`
— the run returns, the vehicle keeps its key, and no station is negative without a V2G witness (concretely: next example). -/
example : ∃ vw' cmds, psRun (toyDOps 5) toySubPS toyPSCfg toyEnv.env.now [] [] toyVw = .ok (vw', cmds) ∧
    vw'.vehicles.map vkey = toyVw.vehicles.map vkey ∧
    NegK (toyVw.vehicles.map vkey) (syncStations vw').stations := by
  have hok : (psRun (toyDOps 5) toySubPS toyPSCfg toyEnv.env.now [] [] toyVw).toBool = true := by decide +kernel
  cases h : psRun (toyDOps 5) toySubPS toyPSCfg toyEnv.env.now [] [] toyVw with
  | error e => rw [h] at hok; cases hok
  | ok r =>
    obtain ⟨vw', cmds⟩ := r
    obtain ⟨p1, p2, p3, p4, p5⟩ := toyVw_prem
    have h1 := C05_distributed_substrategy_keeps_connection (toyDOps 5) (toyOps_law 5 (by norm_num)) toySubPS toyEnv
    have h2 := C05_distributed_substrategy_no_discharge (toyDOps 5) (toyOps_law 5 (by norm_num)) toySubPS toyEnv
    simp only [SideConn, SideNeg, toySubPS] at h1 h2
    exact ⟨vw', cmds, rfl, (h1 [] [] _ _ _ _ vw' cmds h p1).1, h2 [] [] _ _ _ _ vw' cmds h p1 p2 p3 p4 p5⟩

/-- … and a peak_load_window object on the same virtual world. -/
example : ∃ vw' cmds, plwRun (toyDOps 5) toySubPLW toyPLWCfg toyEnvPLW [] [] toyVw = .ok (vw', cmds) ∧
    vw'.vehicles.map vkey = toyVw.vehicles.map vkey ∧
    NegK (toyVw.vehicles.map vkey) (syncStations vw').stations := by
  have hok : (plwRun (toyDOps 5) toySubPLW toyPLWCfg toyEnvPLW [] [] toyVw).toBool = true := by decide +kernel
  cases h : plwRun (toyDOps 5) toySubPLW toyPLWCfg toyEnvPLW [] [] toyVw with
  | error e => rw [h] at hok; cases hok
  | ok r =>
    obtain ⟨vw', cmds⟩ := r
    obtain ⟨p1, p2, p3, p4, p5⟩ := toyVw_prem
    have h1 := C05_distributed_substrategy_keeps_connection (toyDOps 5) (toyOps_law 5 (by norm_num)) toySubPLW
      toyEnvPLW
    have h2 := C05_distributed_substrategy_no_discharge (toyDOps 5) (toyOps_law 5 (by norm_num)) toySubPLW toyEnvPLW
    simp only [SideConn, SideNeg, toySubPLW] at h1 h2
    exact ⟨vw', cmds, rfl, (h1 [] [] _ _ _ _ vw' cmds h p1).1, h2 [] [] _ _ _ _ vw' cmds h p1 p2 p3 p4 p5⟩

/-- concretely: both sub-strategy objects charge the vehicle with the station's 11 kW; after DIST2 the station carries
11 kW and the vehicle is still connected to it. -/
example :
    (match psRun (toyDOps 5) toySubPS toyPSCfg toyEnv.env.now [] [] toyVw with
      | .ok (w, _) => ((syncStations w).stations.map (fun (s : StationS ℚ) => (s.id, s.currentPower)),
          w.vehicles.map (fun (v : VehicleS ℚ ℚ) => (v.id, v.cs, v.v2g)))
      | .error _ => ([], [])) = ([("CS_v2_deps", 11)], [("v2", some "CS_v2_deps", false)]) ∧
    (match plwRun (toyDOps 5) toySubPLW toyPLWCfg toyEnvPLW [] [] toyVw with
      | .ok (w, _) => ((syncStations w).stations.map (fun (s : StationS ℚ) => (s.id, s.currentPower)),
          w.vehicles.map (fun (v : VehicleS ℚ ℚ) => (v.id, v.cs, v.v2g)))
      | .error _ => ([], [])) = ([("CS_v2_deps", 11)], [("v2", some "CS_v2_deps", false)]) := by
  decide +kernel

end SpiceEv
