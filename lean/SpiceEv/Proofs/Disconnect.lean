/-
Lemmas about the `disconnect` back-fill model (Model/ScenarioCtor.lean, section (b)):
`colStep`, `colRunFrom`, `colRun`.
-/
import SpiceEv.Proofs.Basic
import SpiceEv.Model.ScenarioCtor
set_option linter.unusedSectionVars false
set_option linter.unusedSimpArgs false
set_option linter.unusedVariables false
namespace SpiceEv.ScenarioCtor
open SpiceEv
variable {α : Type} [Field α] [LinearOrder α] [IsStrictOrderedRing α]

/-- the vehicle is on a trip: not connected and its departure time has passed -/
def Away (o : VObs α) : Prop := o.station = none ∧ o.departed = true

instance (o : VObs α) : Decidable (Away o) := by unfold Away; infer_instance

theorem natCast_sub_ne_zero {s0 i : Nat} (h : s0 < i) : ((i : Nat) : α) - ((s0 : Nat) : α) ≠ 0 := by
  have : ((s0 : Nat) : α) < ((i : Nat) : α) := Nat.cast_lt.mpr h
  intro e
  have e2 := sub_eq_zero.mp e
  rw [e2] at this
  exact lt_irrefl _ this

theorem colStep_away (i : Nat) (o : VObs α) (c : Col α) (h : Away o) :
    ∃ x, colStep i o c = .ok
      { socs := c.socs ++ [x],
        dis := c.dis ++ [match c.departed with | none => some o.soc | some _ => none],
        conn := c.conn ++ [none],
        departed := match c.departed with | none => some (i, o.soc) | some d => some d } := by
  obtain ⟨h1, h2⟩ := h
  unfold colStep
  cases hd : c.departed <;> simp [h1, h2]

theorem colStep_home_none (i : Nat) (o : VObs α) (c : Col α) (h : ¬ Away o)
    (hd : c.departed = none) :
    colStep i o c = .ok
      { socs := c.socs ++ [if o.station.isSome then some o.soc else none],
        dis := c.dis ++ [if o.station.isSome then none else some o.soc],
        conn := c.conn ++ [o.station],
        departed := none } := by
  unfold Away at h
  unfold colStep
  cases hs : o.station <;> cases hdp : o.departed <;> simp_all

theorem colStep_home_some (i : Nat) (o : VObs α) (c : Col α) (h : ¬ Away o)
    (s0 : Nat) (a : α) (hd : c.departed = some (s0, a)) (hlt : s0 < i) :
    colStep i o c = .ok
      { socs := c.socs ++ [if o.station.isSome then some o.soc else none],
        dis := rewrite c.dis s0 i ((o.soc - a) / (((i : Nat) : α) - ((s0 : Nat) : α))) a ++ [some o.soc],
        conn := c.conn ++ [o.station],
        departed := none } := by
  unfold Away at h
  have hz : isZero (((i : Nat) : α) - ((s0 : Nat) : α)) = false := by
    rw [Bool.eq_false_iff, Ne, isZero_iff]; exact natCast_sub_ne_zero hlt
  unfold colStep
  cases hs : o.station <;> cases hdp : o.departed <;> simp_all [pydiv, bind, Except.bind]

/-! ### list helpers -/

theorem snoc_lt {β : Type} (l : List β) (y : β) (t : Nat) (h : t < l.length) :
    (l ++ [y])[t]? = l[t]? := List.getElem?_append_left h

theorem snoc_eq {β : Type} (l : List β) (y : β) (t : Nat) (h : t = l.length) :
    (l ++ [y])[t]? = some y := by subst h; simp

@[simp] theorem rewrite_length (dis : List (Option α)) (s0 i : Nat) (m a : α) :
    (rewrite dis s0 i m a).length = dis.length := by simp [rewrite]

theorem rewrite_out (dis : List (Option α)) (s0 i : Nat) (m a : α) (t : Nat)
    (h : ¬ (s0 ≤ t ∧ t < i)) : (rewrite dis s0 i m a)[t]? = dis[t]? := by
  simp only [rewrite, List.getElem?_mapIdx]
  cases dis[t]? <;> simp [h]

theorem rewrite_in (dis : List (Option α)) (s0 i : Nat) (m a : α) (t : Nat)
    (h1 : s0 ≤ t) (h2 : t < i) (h3 : t < dis.length) :
    (rewrite dis s0 i m a)[t]? = some (some (m * ((t - s0 : Nat) : α) + a)) := by
  simp only [rewrite, List.getElem?_mapIdx]
  rw [List.getElem?_eq_getElem h3]
  simp [h1, h2]

/-! ### the loop invariant -/

/-- all observed steps in `[s0, j)` are away steps -/
def AllAway (obs : List (VObs α)) (s0 j : Nat) : Prop :=
  ∀ t o, s0 ≤ t → t < j → obs[t]? = some o → Away o

/-- step `s0` is the first step or the step before it is not an away step -/
def StartsAt (obs : List (VObs α)) (s0 : Nat) : Prop :=
  s0 = 0 ∨ ∀ o, obs[s0 - 1]? = some o → ¬ Away o

theorem start_unique (obs : List (VObs α)) (i s0 s1 : Nat) (hi : i ≤ obs.length)
    (h0 : s0 < i) (h1 : s1 < i) (a0 : AllAway obs s0 i) (a1 : AllAway obs s1 i)
    (b0 : StartsAt obs s0) (b1 : StartsAt obs s1) : s0 = s1 := by
  have key : ∀ u v, u < v → v < i → AllAway obs u i → StartsAt obs v → False := by
    intro u v huv hv au bv
    rcases bv with bv | bv
    · omega
    · have hlt : v - 1 < obs.length := by omega
      have e := List.getElem?_eq_getElem hlt
      exact bv _ e (au _ _ (by omega) (by omega) e)
  rcases Nat.lt_trichotomy s0 s1 with h | h | h
  · exact (key _ _ h h1 a0 b1).elim
  · exact h
  · exact (key _ _ h h0 a1 b0).elim

/-- the interpolated value written for row `t` of a trip `[s0, j)` from SoC `a` to SoC `b` -/
def interp (s0 j t : Nat) (a b : α) : α :=
  (b - a) / (((j : Nat) : α) - ((s0 : Nat) : α)) * ((t - s0 : Nat) : α) + a

/-- state of one column after the first `i` observations -/
structure Inv (obs : List (VObs α)) (i : Nat) (c : Col α) : Prop where
  hle : i ≤ obs.length
  lsocs : c.socs.length = i
  ldis : c.dis.length = i
  lconn : c.conn.length = i
  conn : ∀ t o, t < i → obs[t]? = some o → c.conn[t]? = some o.station
  socsConn : ∀ t o, t < i → obs[t]? = some o → o.station.isSome = true →
    c.socs[t]? = some (some o.soc)
  socsStand : ∀ t o, t < i → obs[t]? = some o → o.station = none → o.departed = false →
    c.socs[t]? = some none
  disStand : ∀ t o, t < i → obs[t]? = some o → o.station = none → o.departed = false →
    c.dis[t]? = some (some o.soc)
  disConn : ∀ t o, t < i → obs[t]? = some o → o.station.isSome = true →
    c.dis[t]? = some none ∨ c.dis[t]? = some (some o.soc)
  closed : ∀ s0 j oa ob, s0 < j → j < i → AllAway obs s0 j → StartsAt obs s0 →
    obs[s0]? = some oa → obs[j]? = some ob → ¬ Away ob →
    (∀ t, s0 ≤ t → t < j → c.dis[t]? = some (some (interp s0 j t oa.soc ob.soc))) ∧
    c.dis[j]? = some (some ob.soc)
  depNone : c.departed = none → i = 0 ∨ ∀ o, obs[i - 1]? = some o → ¬ Away o
  depSome : ∀ s0 a, c.departed = some (s0, a) →
    s0 < i ∧ AllAway obs s0 i ∧ StartsAt obs s0 ∧ (∀ o, obs[s0]? = some o → a = o.soc) ∧
    c.dis[s0]? = some (some a) ∧ ∀ t, s0 < t → t < i → c.dis[t]? = some none

theorem inv_init (obs : List (VObs α)) : Inv obs 0 ({} : Col α) := by
  constructor <;> simp

theorem inv_step_away (obs : List (VObs α)) (i : Nat) (c : Col α) (o : VObs α)
    (hinv : Inv obs i c) (ho : obs[i]? = some o) (ha : Away o) :
    ∃ c', colStep i o c = .ok c' ∧ Inv obs (i + 1) c' := by
  obtain ⟨x, hx⟩ := colStep_away i o c ha
  refine ⟨_, hx, ?_⟩
  have hlen : i < obs.length := by
    by_contra h; rw [List.getElem?_eq_none (by omega)] at ho; cases ho
  have hsame : ∀ o', obs[i]? = some o' → o' = o := fun o' h => Option.some.inj (h.symm.trans ho)
  obtain ⟨h1, h2⟩ := ha
  constructor <;> (try dsimp only)
  · omega
  · simp [hinv.lsocs]
  · simp [hinv.ldis]
  · simp [hinv.lconn]
  · intro t o' ht hto
    rcases Nat.lt_succ_iff_lt_or_eq.mp ht with ht | rfl
    · rw [snoc_lt _ _ _ (by rw [hinv.lconn]; exact ht)]; exact hinv.conn t o' ht hto
    · rw [snoc_eq _ _ _ hinv.lconn.symm, hsame _ hto, h1]
  · intro t o' ht hto hs
    rcases Nat.lt_succ_iff_lt_or_eq.mp ht with ht | rfl
    · rw [snoc_lt _ _ _ (by rw [hinv.lsocs]; exact ht)]; exact hinv.socsConn t o' ht hto hs
    · rw [hsame _ hto, h1] at hs; simp at hs
  · intro t o' ht hto hs hdp
    rcases Nat.lt_succ_iff_lt_or_eq.mp ht with ht | rfl
    · rw [snoc_lt _ _ _ (by rw [hinv.lsocs]; exact ht)]; exact hinv.socsStand t o' ht hto hs hdp
    · rw [hsame _ hto, h2] at hdp; simp at hdp
  · intro t o' ht hto hs hdp
    rcases Nat.lt_succ_iff_lt_or_eq.mp ht with ht | rfl
    · rw [snoc_lt _ _ _ (by rw [hinv.ldis]; exact ht)]; exact hinv.disStand t o' ht hto hs hdp
    · rw [hsame _ hto, h2] at hdp; simp at hdp
  · intro t o' ht hto hs
    rcases Nat.lt_succ_iff_lt_or_eq.mp ht with ht | rfl
    · rw [snoc_lt _ _ _ (by rw [hinv.ldis]; exact ht)]; exact hinv.disConn t o' ht hto hs
    · rw [hsame _ hto, h1] at hs; simp at hs
  · intro s0 j oa ob hsj hj haa hst hoa hob hnb
    rcases Nat.lt_succ_iff_lt_or_eq.mp hj with hj | rfl
    · obtain ⟨r1, r2⟩ := hinv.closed s0 j oa ob hsj hj haa hst hoa hob hnb
      refine ⟨fun t h1 h2 => ?_, ?_⟩
      · rw [snoc_lt _ _ _ (by rw [hinv.ldis]; omega)]; exact r1 t h1 h2
      · rw [snoc_lt _ _ _ (by rw [hinv.ldis]; omega)]; exact r2
    · rw [hsame _ hob] at hnb; exact (hnb ⟨h1, h2⟩).elim
  · intro h; cases hd : c.departed <;> rw [hd] at h <;> cases h
  · intro s0 a h
    cases hd : c.departed with
    | none =>
      rw [hd] at h; dsimp only at h ⊢
      cases h
      refine ⟨by omega, ?_, ?_, ?_, ?_, ?_⟩
      · intro t o' h1' h2' hto
        have : t = i := by omega
        subst this; rw [hsame _ hto]; exact ⟨h1, h2⟩
      · rcases hinv.depNone hd with h | h
        · exact Or.inl h
        · exact Or.inr h
      · intro o' hto; rw [hsame _ hto]
      · rw [snoc_eq _ _ _ hinv.ldis.symm]
      · intro t h1 h2; omega
    | some d =>
      rw [hd] at h; dsimp only at h ⊢
      cases h
      obtain ⟨r1, r2, r3, r4, r5, r6⟩ := hinv.depSome s0 a hd
      refine ⟨by omega, ?_, r3, r4, ?_, ?_⟩
      · intro t o' h1' h2' hto
        rcases Nat.lt_succ_iff_lt_or_eq.mp h2' with h2' | rfl
        · exact r2 t o' h1' h2' hto
        · rw [hsame _ hto]; exact ⟨h1, h2⟩
      · rw [snoc_lt _ _ _ (by rw [hinv.ldis]; omega)]; exact r5
      · intro t h1' h2'
        rcases Nat.lt_succ_iff_lt_or_eq.mp h2' with h2' | rfl
        · rw [snoc_lt _ _ _ (by rw [hinv.ldis]; omega)]; exact r6 t h1' h2'
        · rw [snoc_eq _ _ _ hinv.ldis.symm]

theorem inv_home_generic (obs : List (VObs α)) (i : Nat) (c : Col α) (o : VObs α)
    (hinv : Inv obs i c) (ho : obs[i]? = some o) (ha : ¬ Away o)
    (D : List (Option α)) (y : Option α) (hlenD : D.length = i)
    (hD : ∀ t j o', t ≤ j → j < i → obs[j]? = some o' → ¬ Away o' → D[t]? = c.dis[t]?)
    (hy1 : y = some o.soc ∨ y = none)
    (hy2 : o.station = none → y = some o.soc)
    (hnew : ∀ s0 oa, s0 < i → AllAway obs s0 i → StartsAt obs s0 → obs[s0]? = some oa →
      (∀ t, s0 ≤ t → t < i → D[t]? = some (some (interp s0 i t oa.soc o.soc))) ∧
      y = some o.soc) :
    Inv obs (i + 1)
      { socs := c.socs ++ [if o.station.isSome then some o.soc else none],
        dis := D ++ [y], conn := c.conn ++ [o.station], departed := none } := by
  have hlen : i < obs.length := by
    by_contra h; rw [List.getElem?_eq_none (by omega)] at ho; cases ho
  have hsame : ∀ o', obs[i]? = some o' → o' = o := fun o' h => Option.some.inj (h.symm.trans ho)
  have hnaw : ∀ o' : VObs α, o'.station.isSome = true → ¬ Away o' := by
    intro o' h1 h2; rw [h2.1] at h1; simp at h1
  have hnaw2 : ∀ o' : VObs α, o'.departed = false → ¬ Away o' := by
    intro o' h1 h2; rw [h2.2] at h1; simp at h1
  constructor <;> (try dsimp only)
  · omega
  · simp [hinv.lsocs]
  · simp [hlenD]
  · simp [hinv.lconn]
  · intro t o' ht hto
    rcases Nat.lt_succ_iff_lt_or_eq.mp ht with ht | rfl
    · rw [snoc_lt _ _ _ (by rw [hinv.lconn]; exact ht)]; exact hinv.conn t o' ht hto
    · rw [snoc_eq _ _ _ hinv.lconn.symm, hsame _ hto]
  · intro t o' ht hto hs
    rcases Nat.lt_succ_iff_lt_or_eq.mp ht with ht | rfl
    · rw [snoc_lt _ _ _ (by rw [hinv.lsocs]; exact ht)]; exact hinv.socsConn t o' ht hto hs
    · rw [hsame _ hto] at hs ⊢; rw [snoc_eq _ _ _ hinv.lsocs.symm]; simp [hs]
  · intro t o' ht hto hs hdp
    rcases Nat.lt_succ_iff_lt_or_eq.mp ht with ht | rfl
    · rw [snoc_lt _ _ _ (by rw [hinv.lsocs]; exact ht)]; exact hinv.socsStand t o' ht hto hs hdp
    · rw [hsame _ hto] at hs; rw [snoc_eq _ _ _ hinv.lsocs.symm]; simp [hs]
  · intro t o' ht hto hs hdp
    rcases Nat.lt_succ_iff_lt_or_eq.mp ht with ht | rfl
    · rw [snoc_lt _ _ _ (by rw [hlenD]; exact ht), hD t t o' (le_refl _) ht hto (hnaw2 _ hdp)]
      exact hinv.disStand t o' ht hto hs hdp
    · rw [hsame _ hto] at hs ⊢; rw [snoc_eq _ _ _ hlenD.symm, hy2 hs]
  · intro t o' ht hto hs
    rcases Nat.lt_succ_iff_lt_or_eq.mp ht with ht | rfl
    · rw [snoc_lt _ _ _ (by rw [hlenD]; exact ht), hD t t o' (le_refl _) ht hto (hnaw _ hs)]
      exact hinv.disConn t o' ht hto hs
    · rw [hsame _ hto]; rw [snoc_eq _ _ _ hlenD.symm]
      rcases hy1 with h | h
      · exact Or.inr (by rw [h])
      · exact Or.inl (by rw [h])
  · intro s0 j oa ob hsj hj haa hst hoa hob hnb
    rcases Nat.lt_succ_iff_lt_or_eq.mp hj with hj | rfl
    · obtain ⟨r1, r2⟩ := hinv.closed s0 j oa ob hsj hj haa hst hoa hob hnb
      refine ⟨fun t h1 h2 => ?_, ?_⟩
      · rw [snoc_lt _ _ _ (by rw [hlenD]; omega), hD t j ob (by omega) hj hob hnb]
        exact r1 t h1 h2
      · rw [snoc_lt _ _ _ (by rw [hlenD]; omega), hD j j ob (le_refl _) hj hob hnb]; exact r2
    · obtain ⟨r1, r2⟩ := hnew s0 oa hsj haa hst hoa
      rw [hsame _ hob]
      refine ⟨fun t h1 h2 => ?_, ?_⟩
      · rw [snoc_lt _ _ _ (by rw [hlenD]; omega)]; exact r1 t h1 h2
      · rw [snoc_eq _ _ _ hlenD.symm, r2]
  · intro _
    right; intro o' hto
    simp only [Nat.add_sub_cancel] at hto
    rw [hsame _ hto]; exact ha
  · intro s0 a h; cases h

theorem inv_step_home (obs : List (VObs α)) (i : Nat) (c : Col α) (o : VObs α)
    (hinv : Inv obs i c) (ho : obs[i]? = some o) (ha : ¬ Away o) :
    ∃ c', colStep i o c = .ok c' ∧ Inv obs (i + 1) c' := by
  have hlen : i < obs.length := by
    by_contra h; rw [List.getElem?_eq_none (by omega)] at ho; cases ho
  cases hd : c.departed with
  | none =>
    refine ⟨_, colStep_home_none i o c ha hd, ?_⟩
    apply inv_home_generic obs i c o hinv ho ha
    · exact hinv.ldis
    · intros; rfl
    · cases o.station <;> simp
    · intro h; simp [h]
    · intro s0 oa hs haa _ _
      rcases hinv.depNone hd with h | h
      · omega
      · have hlt : i - 1 < obs.length := by omega
        have e := List.getElem?_eq_getElem hlt
        exact (h _ e (haa _ _ (by omega) (by omega) e)).elim
  | some d =>
    obtain ⟨s0, a⟩ := d
    obtain ⟨r1, r2, r3, r4, r5, r6⟩ := hinv.depSome s0 a hd
    refine ⟨_, colStep_home_some i o c ha s0 a hd r1, ?_⟩
    apply inv_home_generic obs i c o hinv ho ha
    · rw [rewrite_length]; exact hinv.ldis
    · intro t j o' htj hj hjo hna
      apply rewrite_out
      rintro ⟨h1, h2⟩
      by_cases hsj : s0 ≤ j
      · exact hna (r2 j o' hsj hj hjo)
      · omega
    · exact Or.inl rfl
    · intro _; rfl
    · intro s1 oa hs1 haa hst hoa
      have e : s1 = s0 := start_unique obs i s1 s0 hinv.hle hs1 r1 haa r2 hst r3
      subst e
      have ea := r4 _ hoa
      subst ea
      refine ⟨fun t h1 h2 => ?_, rfl⟩
      rw [rewrite_in _ _ _ _ _ _ h1 h2 (by rw [hinv.ldis]; exact h2)]
      rfl

theorem inv_step (obs : List (VObs α)) (i : Nat) (c : Col α) (o : VObs α)
    (hinv : Inv obs i c) (ho : obs[i]? = some o) :
    ∃ c', colStep i o c = .ok c' ∧ Inv obs (i + 1) c' := by
  by_cases ha : Away o
  · exact inv_step_away obs i c o hinv ho ha
  · exact inv_step_home obs i c o hinv ho ha

theorem inv_run (obs : List (VObs α)) (rest : List (VObs α)) (i : Nat) (c : Col α)
    (hinv : Inv obs i c) (hrest : obs.drop i = rest) :
    ∃ c', colRunFrom i rest c = .ok c' ∧ Inv obs obs.length c' := by
  induction rest generalizing i c with
  | nil =>
    have : obs.length ≤ i := by simpa using hrest
    have e : i = obs.length := le_antisymm hinv.hle this
    subst e
    exact ⟨c, rfl, hinv⟩
  | cons o rest ih =>
    have hlt : i < obs.length := by
      by_contra h
      rw [List.drop_eq_nil_of_le (by omega)] at hrest; cases hrest
    rw [List.drop_eq_getElem_cons hlt] at hrest
    injection hrest with e1 e2
    have ho : obs[i]? = some o := by rw [List.getElem?_eq_getElem hlt, e1]
    obtain ⟨c1, h1, hinv1⟩ := inv_step obs i c o hinv ho
    obtain ⟨c2, h2, hinv2⟩ := ih (i + 1) c1 hinv1 e2
    refine ⟨c2, ?_, hinv2⟩
    simp only [colRunFrom, h1, bind, Except.bind]
    exact h2

theorem colRun_inv (obs : List (VObs α)) :
    ∃ c, colRun obs = .ok c ∧ Inv obs obs.length c :=
  inv_run obs obs 0 {} (inv_init obs) rfl

theorem colRun_ok_inv (obs : List (VObs α)) (c : Col α) (h : colRun obs = .ok c) :
    Inv obs obs.length c := by
  obtain ⟨c', h1, h2⟩ := colRun_inv obs
  rw [h1] at h; cases h; exact h2

/-! ### arithmetic of the interpolation -/

theorem interp_arith (a b : α) (s0 L k : Nat) (hL : 0 < L) (hk : k ≤ L) :
    let m := (b - a) / (((s0 + L : Nat) : α) - ((s0 : Nat) : α))
    min a b ≤ m * (k : α) + a ∧ m * (k : α) + a ≤ max a b ∧
    m * ((0 : Nat) : α) + a = a ∧ m * ((L : Nat) : α) + a = b := by
  intro m
  have hLpos : (0 : α) < (L : α) := Nat.cast_pos.mpr hL
  have hden : ((s0 + L : Nat) : α) - ((s0 : Nat) : α) = (L : α) := by push_cast; ring
  have hm : m = (b - a) / (L : α) := by show (b - a) / _ = _; rw [hden]
  have hk0 : (0 : α) ≤ (k : α) := Nat.cast_nonneg k
  have hkL : (k : α) ≤ (L : α) := Nat.cast_le.mpr hk
  have hval : m * (k : α) + a = a + (b - a) * ((k : α) / (L : α)) := by
    rw [hm]; field_simp; ring
  have ht0 : (0 : α) ≤ (k : α) / (L : α) := div_nonneg hk0 hLpos.le
  have ht1 : (k : α) / (L : α) ≤ 1 := (div_le_one hLpos).mpr hkL
  refine ⟨?_, ?_, ?_, ?_⟩
  · rw [hval]
    rcases le_total a b with h | h
    · rw [min_eq_left h]; nlinarith
    · rw [min_eq_right h]; nlinarith
  · rw [hval]
    rcases le_total a b with h | h
    · rw [max_eq_right h]; nlinarith
    · rw [max_eq_left h]; nlinarith
  · simp
  · rw [hm]; field_simp; ring

theorem interp_arith' (a b : α) (s0 i k : Nat) (hi : s0 < i) (hk : k ≤ i - s0) :
    let m := (b - a) / (((i : Nat) : α) - ((s0 : Nat) : α))
    min a b ≤ m * (k : α) + a ∧ m * (k : α) + a ≤ max a b ∧
    m * ((0 : Nat) : α) + a = a ∧ m * ((i - s0 : Nat) : α) + a = b := by
  have h := interp_arith a b s0 (i - s0) k (by omega) hk
  have e : s0 + (i - s0) = i := by omega
  rw [e] at h
  exact h

/-- an open trip at the end of the run: the `departed_vehicles` entry is still there -/
theorem inv_open (obs : List (VObs α)) (c : Col α) (hinv : Inv obs obs.length c) (s0 : Nat)
    (oa : VObs α) (hs : obs[s0]? = some oa) (haa : AllAway obs s0 obs.length)
    (hst : StartsAt obs s0) :
    c.departed = some (s0, oa.soc) ∧ c.dis[s0]? = some (some oa.soc) ∧
    ∀ t, s0 < t → t < obs.length → c.dis[t]? = some none := by
  have hlt : s0 < obs.length := by
    by_contra h; rw [List.getElem?_eq_none (by omega)] at hs; cases hs
  cases hd : c.departed with
  | none =>
    rcases hinv.depNone hd with h | h
    · omega
    · have hl : obs.length - 1 < obs.length := by omega
      have e := List.getElem?_eq_getElem hl
      exact (h _ e (haa _ _ (by omega) hl e)).elim
  | some d =>
    obtain ⟨s1, a⟩ := d
    obtain ⟨r1, r2, r3, r4, r5, r6⟩ := hinv.depSome s1 a hd
    have e : s1 = s0 := start_unique obs obs.length s1 s0 (le_refl _) r1 hlt r2 haa r3 hst
    subst e
    have ea := r4 _ hs
    subst ea
    exact ⟨rfl, r5, r6⟩

/-! ### second invariant: arrival rows and the `socs` rows of away steps -/

/-- `socs[-1][vidx] is not None` -/
def prevSome (socs : List (Option α)) : Bool :=
  match socs.getLast? with | some (some _) => true | _ => false

theorem colStep_away' (i : Nat) (o : VObs α) (c : Col α) (h : Away o) :
    colStep i o c = .ok
      { socs := c.socs ++ [match c.departed with
                  | none => if decide (i > 0) && prevSome c.socs then some o.soc else none
                  | some _ => none],
        dis := c.dis ++ [match c.departed with | none => some o.soc | some _ => none],
        conn := c.conn ++ [none],
        departed := match c.departed with | none => some (i, o.soc) | some d => some d } := by
  obtain ⟨h1, h2⟩ := h
  unfold colStep prevSome
  cases hd : c.departed <;> simp [h1, h2]
  rcases c.socs.getLast? with _ | _ | _ <;> rfl

theorem prevSome_true (socs : List (Option α)) (i : Nat) (hl : socs.length = i) (v : α)
    (h : socs[i - 1]? = some (some v)) : prevSome socs = true := by
  unfold prevSome
  rw [List.getLast?_eq_getElem?, hl, h]

theorem prevSome_false (socs : List (Option α)) (i : Nat) (hl : socs.length = i)
    (h : socs[i - 1]? = some none) : prevSome socs = false := by
  unfold prevSome
  rw [List.getLast?_eq_getElem?, hl, h]

/-- exact content of the arrival rows and of the `socs` rows of away steps -/
structure Inv2 (obs : List (VObs α)) (i : Nat) (c : Col α) : Prop where
  disArr : ∀ t o o', t < i → 0 < t → obs[t]? = some o → o.station.isSome = true →
    obs[t - 1]? = some o' → Away o' → c.dis[t]? = some (some o.soc)
  disNoArr : ∀ t o, t < i → obs[t]? = some o → o.station.isSome = true → StartsAt obs t →
    c.dis[t]? = some none
  socsDep : ∀ t o o', t < i → 0 < t → obs[t]? = some o → Away o → obs[t - 1]? = some o' →
    o'.station.isSome = true → c.socs[t]? = some (some o.soc)
  socsAwayNone : ∀ t o, t < i → obs[t]? = some o → Away o →
    (t = 0 ∨ ∀ o', obs[t - 1]? = some o' → o'.station = none) → c.socs[t]? = some none

theorem inv2_init (obs : List (VObs α)) : Inv2 obs 0 ({} : Col α) := by
  constructor <;> simp

theorem inv2_step (obs : List (VObs α)) (i : Nat) (c c' : Col α) (o : VObs α)
    (hinv : Inv obs i c) (h2 : Inv2 obs i c) (ho : obs[i]? = some o)
    (hc : colStep i o c = .ok c') : Inv2 obs (i + 1) c' := by
  have hlen : i < obs.length := by
    by_contra h; rw [List.getElem?_eq_none (by omega)] at ho; cases ho
  have hsame : ∀ o', obs[i]? = some o' → o' = o := fun o' h => Option.some.inj (h.symm.trans ho)
  have hnaw : ∀ o' : VObs α, o'.station.isSome = true → ¬ Away o' := by
    intro o' h1 h2; rw [h2.1] at h1; simp at h1
  by_cases ha : Away o
  · rw [colStep_away' i o c ha] at hc
    injection hc with hc; subst hc
    constructor <;> (try dsimp only)
    · intro t o1 o' ht ht0 hto hs hto' ha'
      rcases Nat.lt_succ_iff_lt_or_eq.mp ht with ht | rfl
      · rw [snoc_lt _ _ _ (by rw [hinv.ldis]; exact ht)]; exact h2.disArr t o1 o' ht ht0 hto hs hto' ha'
      · rw [hsame _ hto] at hs; exact (hnaw _ hs ha).elim
    · intro t o1 ht hto hs hst
      rcases Nat.lt_succ_iff_lt_or_eq.mp ht with ht | rfl
      · rw [snoc_lt _ _ _ (by rw [hinv.ldis]; exact ht)]; exact h2.disNoArr t o1 ht hto hs hst
      · rw [hsame _ hto] at hs; exact (hnaw _ hs ha).elim
    · intro t o1 o' ht ht0 hto ha1 hto' hs'
      rcases Nat.lt_succ_iff_lt_or_eq.mp ht with ht | rfl
      · rw [snoc_lt _ _ _ (by rw [hinv.lsocs]; exact ht)]
        exact h2.socsDep t o1 o' ht ht0 hto ha1 hto' hs'
      · rw [snoc_eq _ _ _ hinv.lsocs.symm, hsame _ hto]
        cases hd : c.departed with
        | none =>
          dsimp only
          have := prevSome_true c.socs t hinv.lsocs o'.soc
            (hinv.socsConn (t - 1) o' (by omega) hto' hs')
          simp [this, ht0]
        | some d =>
          obtain ⟨s0, a⟩ := d
          obtain ⟨r1, r2, _⟩ := hinv.depSome s0 a hd
          exact (hnaw _ hs' (r2 (t - 1) o' (by omega) (by omega) hto')).elim
    · intro t o1 ht hto ha1 hprev
      rcases Nat.lt_succ_iff_lt_or_eq.mp ht with ht | rfl
      · rw [snoc_lt _ _ _ (by rw [hinv.lsocs]; exact ht)]
        exact h2.socsAwayNone t o1 ht hto ha1 hprev
      · rw [snoc_eq _ _ _ hinv.lsocs.symm]
        cases hd : c.departed with
        | none =>
          dsimp only
          rcases hprev with rfl | hprev
          · simp
          · by_cases ht0 : t = 0
            · subst ht0; simp
            · have hl : t - 1 < obs.length := by omega
              have e := List.getElem?_eq_getElem hl
              have hst := hprev _ e
              rcases hinv.depNone hd with h | h
              · omega
              · have hna := h _ e
                have hdp : (obs[t - 1]).departed = false := by
                  cases hdd : (obs[t - 1]).departed
                  · rfl
                  · exact (hna ⟨hst, hdd⟩).elim
                have := prevSome_false c.socs t hinv.lsocs
                  (hinv.socsStand (t - 1) _ (by omega) e hst hdp)
                simp [this]
        | some d => rfl
  · cases hd : c.departed with
    | none =>
      rw [colStep_home_none i o c ha hd] at hc
      injection hc with hc; subst hc
      constructor <;> (try dsimp only)
      · intro t o1 o' ht ht0 hto hs hto' ha'
        rcases Nat.lt_succ_iff_lt_or_eq.mp ht with ht | rfl
        · rw [snoc_lt _ _ _ (by rw [hinv.ldis]; exact ht)]
          exact h2.disArr t o1 o' ht ht0 hto hs hto' ha'
        · rcases hinv.depNone hd with h | h
          · omega
          · exact (h _ hto' ha').elim
      · intro t o1 ht hto hs hst
        rcases Nat.lt_succ_iff_lt_or_eq.mp ht with ht | rfl
        · rw [snoc_lt _ _ _ (by rw [hinv.ldis]; exact ht)]; exact h2.disNoArr t o1 ht hto hs hst
        · rw [hsame _ hto] at hs
          rw [snoc_eq _ _ _ hinv.ldis.symm]; simp [hs]
      · intro t o1 o' ht ht0 hto ha1 hto' hs'
        rcases Nat.lt_succ_iff_lt_or_eq.mp ht with ht | rfl
        · rw [snoc_lt _ _ _ (by rw [hinv.lsocs]; exact ht)]
          exact h2.socsDep t o1 o' ht ht0 hto ha1 hto' hs'
        · rw [hsame _ hto] at ha1; exact (ha ha1).elim
      · intro t o1 ht hto ha1 hprev
        rcases Nat.lt_succ_iff_lt_or_eq.mp ht with ht | rfl
        · rw [snoc_lt _ _ _ (by rw [hinv.lsocs]; exact ht)]
          exact h2.socsAwayNone t o1 ht hto ha1 hprev
        · rw [hsame _ hto] at ha1; exact (ha ha1).elim
    | some d =>
      obtain ⟨s0, a⟩ := d
      obtain ⟨r1, r2, r3, r4, r5, r6⟩ := hinv.depSome s0 a hd
      rw [colStep_home_some i o c ha s0 a hd r1] at hc
      injection hc with hc; subst hc
      have hout : ∀ t o1, t < i → obs[t]? = some o1 → ¬ Away o1 →
          (rewrite c.dis s0 i ((o.soc - a) / (((i : Nat) : α) - ((s0 : Nat) : α))) a)[t]?
            = c.dis[t]? := by
        intro t o1 ht hto hna
        apply rewrite_out
        rintro ⟨h1, _⟩
        exact hna (r2 t o1 h1 ht hto)
      constructor <;> (try dsimp only)
      · intro t o1 o' ht ht0 hto hs hto' ha'
        rcases Nat.lt_succ_iff_lt_or_eq.mp ht with ht | rfl
        · rw [snoc_lt _ _ _ (by rw [rewrite_length, hinv.ldis]; exact ht),
            hout t o1 ht hto (hnaw _ hs)]
          exact h2.disArr t o1 o' ht ht0 hto hs hto' ha'
        · rw [snoc_eq _ _ _ (by rw [rewrite_length, hinv.ldis]), hsame _ hto]
      · intro t o1 ht hto hs hst
        rcases Nat.lt_succ_iff_lt_or_eq.mp ht with ht | rfl
        · rw [snoc_lt _ _ _ (by rw [rewrite_length, hinv.ldis]; exact ht),
            hout t o1 ht hto (hnaw _ hs)]
          exact h2.disNoArr t o1 ht hto hs hst
        · rcases hst with h | h
          · omega
          · have hl : t - 1 < obs.length := by omega
            have e := List.getElem?_eq_getElem hl
            exact (h _ e (r2 _ _ (by omega) (by omega) e)).elim
      · intro t o1 o' ht ht0 hto ha1 hto' hs'
        rcases Nat.lt_succ_iff_lt_or_eq.mp ht with ht | rfl
        · rw [snoc_lt _ _ _ (by rw [hinv.lsocs]; exact ht)]
          exact h2.socsDep t o1 o' ht ht0 hto ha1 hto' hs'
        · rw [hsame _ hto] at ha1; exact (ha ha1).elim
      · intro t o1 ht hto ha1 hprev
        rcases Nat.lt_succ_iff_lt_or_eq.mp ht with ht | rfl
        · rw [snoc_lt _ _ _ (by rw [hinv.lsocs]; exact ht)]
          exact h2.socsAwayNone t o1 ht hto ha1 hprev
        · rw [hsame _ hto] at ha1; exact (ha ha1).elim

theorem inv2_run (obs : List (VObs α)) (rest : List (VObs α)) (i : Nat) (c c' : Col α)
    (hinv : Inv obs i c) (h2 : Inv2 obs i c) (hrest : obs.drop i = rest)
    (hc : colRunFrom i rest c = .ok c') : Inv2 obs obs.length c' := by
  induction rest generalizing i c with
  | nil =>
    have : obs.length ≤ i := by simpa using hrest
    have e : i = obs.length := le_antisymm hinv.hle this
    subst e
    simp only [colRunFrom] at hc
    injection hc with hc; subst hc; exact h2
  | cons o rest ih =>
    have hlt : i < obs.length := by
      by_contra h
      rw [List.drop_eq_nil_of_le (by omega)] at hrest; cases hrest
    rw [List.drop_eq_getElem_cons hlt] at hrest
    injection hrest with e1 e2
    have ho : obs[i]? = some o := by rw [List.getElem?_eq_getElem hlt, e1]
    obtain ⟨c1, h1, hinv1⟩ := inv_step obs i c o hinv ho
    simp only [colRunFrom, h1, bind, Except.bind] at hc
    exact ih (i + 1) c1 hinv1 (inv2_step obs i c c1 o hinv h2 ho h1) e2 hc

theorem colRun_ok_inv2 (obs : List (VObs α)) (c : Col α) (h : colRun obs = .ok c) :
    Inv2 obs obs.length c :=
  inv2_run obs obs 0 {} c (inv_init obs) (inv2_init obs) rfl h

/-! ### every away step belongs to exactly one trip -/

/-- the away phase containing the away step `t` starts somewhere -/
theorem trip_start_exists (obs : List (VObs α)) (t : Nat) (ht : t < obs.length)
    (ha : AllAway obs t (t + 1)) : ∃ s0, s0 ≤ t ∧ StartsAt obs s0 ∧ AllAway obs s0 (t + 1) := by
  induction t with
  | zero => exact ⟨0, le_refl _, Or.inl rfl, ha⟩
  | succ t ih =>
    by_cases hp : Away (obs[t]'(by omega))
    · have hpa : AllAway obs t (t + 1) := by
        intro u o h1 h2 hu
        have : u = t := by omega
        subst this
        rw [List.getElem?_eq_getElem (by omega)] at hu
        injection hu with hu; subst hu; exact hp
      obtain ⟨s0, h1, h2, h3⟩ := ih (by omega) hpa
      refine ⟨s0, by omega, h2, ?_⟩
      intro u o hu1 hu2 huo
      by_cases hut : u < t + 1
      · exact h3 u o hu1 hut huo
      · exact ha u o (by omega) hu2 huo
    · refine ⟨t + 1, le_refl _, Or.inr ?_, ha⟩
      intro o ho
      simp only [Nat.add_sub_cancel] at ho
      rw [List.getElem?_eq_getElem (by omega)] at ho
      injection ho with ho; subst ho; exact hp

/-- the away phase ends at the first later non-away step, or lasts until the end of the run -/
theorem trip_end_exists (obs : List (VObs α)) (s0 n : Nat) (hn : n ≤ obs.length) (hs : s0 ≤ n)
    (ha : AllAway obs s0 n) :
    ∃ j, n ≤ j ∧ j ≤ obs.length ∧ AllAway obs s0 j ∧
      (j = obs.length ∨ ∃ ob, obs[j]? = some ob ∧ ¬ Away ob) := by
  generalize hk : obs.length - n = k
  induction k generalizing n with
  | zero => exact ⟨n, le_refl _, hn, ha, Or.inl (by omega)⟩
  | succ k ih =>
    have hlt : n < obs.length := by omega
    by_cases hp : Away (obs[n]'hlt)
    · have ha' : AllAway obs s0 (n + 1) := by
        intro u o hu1 hu2 huo
        by_cases hun : u < n
        · exact ha u o hu1 hun huo
        · have : u = n := by omega
          subst this
          rw [List.getElem?_eq_getElem hlt] at huo
          injection huo with huo; subst huo; exact hp
      obtain ⟨j, h1, h2, h3, h4⟩ := ih (n + 1) (by omega) (by omega) ha' (by omega)
      exact ⟨j, by omega, h2, h3, h4⟩
    · exact ⟨n, le_refl _, hn, ha, Or.inr ⟨_, List.getElem?_eq_getElem hlt, hp⟩⟩

/-! ### all vehicles -/

theorem backfill_ok (obs : List (List (VObs α))) :
    ∃ cols, backfill obs = .ok cols ∧ cols.length = obs.length ∧
      ∀ v (h : v < obs.length), ∃ c, cols[v]? = some c ∧ colRun obs[v] = .ok c := by
  induction obs with
  | nil => exact ⟨[], rfl, rfl, fun v h => by simp at h⟩
  | cons o rest ih =>
    obtain ⟨cols, h1, h2, h3⟩ := ih
    obtain ⟨c, hc, _⟩ := colRun_inv o
    refine ⟨c :: cols, ?_, by simp [h2], ?_⟩
    · unfold backfill at h1 ⊢
      rw [List.mapM_cons, hc, h1]; rfl
    · intro v hv
      cases v with
      | zero => exact ⟨c, by simp, by simpa using hc⟩
      | succ v =>
        obtain ⟨c', e1, e2⟩ := h3 v (by simpa using hv)
        exact ⟨c', by simpa using e1, by simpa using e2⟩

/-! ### inputs of the non-vacuity examples -/

/-- a four-step day: connected, two away steps (the trip consumption is booked at arrival), back -/
def exDay : List (VObs ℚ) :=
  [⟨some "cs", false, 1/2⟩, ⟨none, true, 1/2⟩, ⟨none, true, 1/2⟩, ⟨some "cs", false, 3/10⟩]

/-- connected, standing disconnected (not yet departed), away until the end of the run -/
def exOpenEnd : List (VObs ℚ) :=
  [⟨some "cs", false, 1/2⟩, ⟨none, false, 1/2⟩, ⟨none, true, 2/5⟩, ⟨none, true, 2/5⟩]

def disOf (r : Py (Col ℚ)) : List (Option ℚ) :=
  match r with | .ok c => c.dis | .error _ => []
def socsOf (r : Py (Col ℚ)) : List (Option ℚ) :=
  match r with | .ok c => c.socs | .error _ => []
def connOf (r : Py (Col ℚ)) : List (Option String) :=
  match r with | .ok c => c.conn | .error _ => []

end SpiceEv.ScenarioCtor
