"""C18, results JSON: which entries the file has and in which order (exact stream inside the C18 run stream).

For every connector whose results file was written, one extra line `report_keys q 3 <hasTs> <hasCst> <RunData>`
(lean/SpiceEv/Cmd/ReportJson.lean, Model/ReportJson.lean) is added; the model prints the entry names and the
keys of every entry in insertion order, the implementation side is read from the FILE with
`object_pairs_hook` (json.load keeps the order of the text).  `costs.calculate_costs` may have rewritten the
file afterwards (in-run cost calculation): it appends the top-level entry `costs` and, for the `*_w_plw`
schemes, further keys to `peak load time windows` — the comparison therefore ignores a trailing `costs` entry
and accepts additional keys at the END of `peak load time windows`; everything else must be equal, in order.
"""
import json


def ordered_keys(path):
    with open(path) as f:
        pairs = json.load(f, object_pairs_hook=lambda ps: ps)
    out = []
    for k, v in pairs:
        sub = [kk for kk, _ in v] if isinstance(v, list) and all(isinstance(p, tuple) and len(p) == 2 for p in v) \
            else None
        out.append((k, sub))
    return out


CANONICAL = ["temporal_parameters", "core_standing_time", "grid_connector", "photovoltaics", "charging_strategy",
             "avg flex per window", "sum of energy", "sum of energy per window", "avg standing time",
             "standing per window", "avg needed energy", "peak load time windows", "power peaks", "avg drawn power",
             "local energy generation", "feed-in energy", "max. stored energy in batteries",
             "stationary battery cycles", "all vehicle battery cycles", "times below desired soc", "costs"]


def is_subsequence(xs, ys):
    it = iter(ys)
    return all(any(x == y for y in it) for x in xs)


def usable(name):
    return not any(ch in name for ch in "|=,\n\r")


def add_line(s, gc, res_path, report_line, has_ts, lines, impl, stats, viol):
    """res_path: the results file of connector gc, or None"""
    if res_path is None:
        return
    try:
        entries = ordered_keys(res_path)
    except (OSError, ValueError):
        stats.append("jsonkeys_unreadable")
        return
    if any(sub is None for _, sub in entries) or not all(usable(k) and all(usable(x) for x in sub)
                                                          for k, sub in entries):
        stats.append("jsonkeys_not_rendered")
        return
    # oracle (independent of the model): the entries come in the one documented order, none twice
    names = [k for k, _ in entries]
    if not is_subsequence(names, CANONICAL):
        viol.append(("results_json_order", "C18:results_json_entry_order",
                     "entries of the results file of %s are not in the fixed order: %s" % (gc, names)))
    assert report_line.startswith("report q 3 ")
    rest = report_line[len("report q 3 "):]
    has_ts_tok, run = rest.split(" ", 1)
    has_cst = "1" if getattr(s, "core_standing_time", None) else "0"
    lines.append("report_keys q 3 %s %s %s" % (has_ts_tok, has_cst, run))
    impl.append(json.dumps({"jk": [[k, sub] for k, sub in entries], "gc": gc}))
    stats.append("jsonkeys")


def compare(im, model):
    if model.startswith("!"):
        return "model raises %s, implementation wrote a results file" % model
    m = []
    for part in model.split("|"):
        name, _, keys = part.partition("=")
        m.append([name, keys.split(",") if keys else []])
    f = [list(e) for e in im["jk"]]
    if f and f[-1][0] == "costs" and (not m or m[-1][0] != "costs"):
        f = f[:-1]                                   # appended by costs.calculate_costs(results_json=…)
    if [e[0] for e in f] != [e[0] for e in m]:
        return "results JSON entries: file %s model %s" % ([e[0] for e in f], [e[0] for e in m])
    for (name, fk), (_, mk) in zip(f, m):
        if name == "peak load time windows":
            if fk[:len(mk)] != mk:
                return "results JSON keys of %r: file %s model %s" % (name, fk, mk)
        elif fk != mk:
            return "results JSON keys of %r: file %s model %s" % (name, fk, mk)
    return None
