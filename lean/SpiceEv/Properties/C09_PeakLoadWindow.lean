/-
C09 — service guarantee, for the strategy `peak_load_window`
(model: Model/StratPeakLoadWindow.lean, tied to the code at the bit level by `./check S_PEAK_LOAD_WINDOW`).

The property's sentence: "If a vehicle's standing time, its charging curve, the station and the grid connector allow
reaching the desired SoC, the vehicle leaves with at least the desired SoC …".  The unchanged code does NOT satisfy it
in general (findings P2*: the even plan over the outside-window steps is never front-loaded, so a step whose connector
headroom binds late in the standing time is not made up for).  What is proved is the plan-level statement under the
premise that excludes exactly that: the EVEN power fits under station, curve and headroom in every outside-window step.
The run-level sentence stays with the oracle of `./check C09`.
-/
import SpiceEv.Proofs.StratPeakLoadWindowService
set_option linter.unusedSectionVars false
namespace SpiceEv
open SpiceEv.PeakLoadWindow
variable {α B : Type} [Field α] [LinearOrder α] [IsStrictOrderedRing α]

/-- **The even plan reaches the desired SoC exactly at departure** (constant charging curve, ideal battery with
constant power `P`).  Let `k > 0` be the number of steps of the standing time outside peak-load windows and
`bp = (desired − soc)·capacity·ts_per_hour / k / efficiency` the even power.  If `bp ≤ P` and in every outside-window
step `bp` passes `charge_vehicle` unchanged (`Fits`: station maximum/minimum, vehicle minimum, connector headroom
`max_power − power` of the prognosis), then the outside-window stage of the plan ends with the simulated SoC equal to
the desired SoC — so (by `C11_peak_load_window_no_plan_inside_windows`) nothing is planned inside windows.

`_partial`: the premise `Fits` in EVERY outside step excludes the situation of findings P2*/P1a/P1b (headroom binding in
late steps); varying curves (the coarse four-point search) are not covered. -/
theorem C09_peak_load_window_even_plan_reaches_desired_partial (ops : BatOps α B) (P : α) (env : PEnv α)
    (ideal : IdealConst ops env.tsPerHour P) (htsph : 0 < env.tsPerHour) (cs : StationS α) (pv : PVeh α B)
    (connected : List (Ts α)) (n : Nat) (pl1 : Plan α B)
    (hconst : constantCurve pv.chargePowers = true)
    (hcap : 0 < ops.capacity pv.v.bat) (heff : 0 < ops.efficiency pv.v.bat)
    (hneed : ops.soc pv.v.bat < pv.v.desiredSoc) (hd1 : pv.v.desiredSoc ≤ 1)
    (hout : 0 < (connected.filter (fun ts => !ts.window)).length)
    (hbpP : (pv.v.desiredSoc - ops.soc pv.v.bat) * ops.capacity pv.v.bat * env.tsPerHour
        / (((connected.filter (fun ts => !ts.window)).length : Nat) : α) / ops.efficiency pv.v.bat ≤ P)
    (hfit : ∀ ts ∈ connected, ts.window = false → Fits cs pv.v.minChargingPower
      ((pv.v.desiredSoc - ops.soc pv.v.bat) * ops.capacity pv.v.bat * env.tsPerHour
        / (((connected.filter (fun ts => !ts.window)).length : Nat) : α) / ops.efficiency pv.v.bat) ts)
    (h : planOutside ops env cs pv connected n = .ok pl1) :
    ops.soc pl1.bat = pv.v.desiredSoc :=
  planOutside_const_reaches ops P env ideal htsph cs pv connected n pl1 hconst hcap heff hneed hd1 hout hbpP hfit h

/-- non-vacuity: the example of C11 (5 kWh needed, four outside steps → 1.25 kW each): the premises hold and the plan
ends at SoC 1 -/
example :
    let ts : List (Ts ℚ) := [⟨2, 20, true⟩, ⟨2, 20, true⟩, ⟨2, 20, false⟩, ⟨2, 20, false⟩, ⟨2, 20, false⟩,
      ⟨2, 20, false⟩]
    let pv : PVeh ℚ ℚ := ⟨⟨"v1", some "cs1", 1, some (8 * exHour), 0, false, 0, 1/2⟩, [11, 11], none⟩
    let cs : StationS ℚ := ⟨"cs1", "G", 11, 0, 0⟩
    planOf (planOutside (toyOps 10 11) (exEnvAt 2) cs pv ts 6) = some (1, [0, 0, 5/4, 5/4, 5/4, 5/4], 0) ∧
    constantCurve pv.chargePowers = true ∧
    (∀ t ∈ ts, t.window = false →
      clampPower (5/4 : ℚ) cs.currentPower cs.maxPower cs.minPower 0 = 5/4 ∧ (5/4 : ℚ) ≤ t.maxPower - t.power) := by
  decide +kernel

example : IdealConst (toyOps 10 11) (exEnvAt 2).tsPerHour 11 := toyOps_ideal 10 11 (by norm_num)

end SpiceEv
