/- driver commands for Model/Battery.lean (Float stream: bit-level comparison with the real code) -/
import SpiceEv.Wire
import SpiceEv.Model.Battery
namespace SpiceEv.Cmd.Battery
open SpiceEv

/-- `timedelta.total_seconds() / 3600`: CPython computes `µs / 10**6` as a correctly rounded
int/int true division; both operands are exact doubles here, so the double division is identical. -/
def hoursOfMicros (us : Int) : Float := Float.ofInt us / 1000000.0 / 3600.0

/-- the literal `1e-5` of `Battery.__init__` -/
def e5 : Float := 1e-5
/-- `2**64` of `StationaryBattery.__init__` -/
def unlimited : Float := 18446744073709551616.0
/-- defaults of `components.VehicleType` / `StationaryBattery` -/
def defaultEfficiency : Float := 0.95
def defaultV2gPowerFactor : Float := 0.5

def rNum (x : Float) : String := Wire.render x
def pPoint : P (Float × Float) := do let a ← P.num Float; let b ← P.num Float; pure (a, b)

inductive Dis where
  | none | factor (f : Float) | curve (pts : List (Float × Float))

def pDis : P Dis := do
  let t ← P.tok
  if t == "N" then pure .none
  else if t == "F" then (Dis.factor <$> P.num Float)
  else if t == "C" then (Dis.curve <$> P.list pPoint)
  else failure

structure Op where
  kind : String
  us : Int
  maxPower : Option Float
  targetSoc : Option Float
  targetPower : Option Float

def pOp : P Op := do
  let k ← P.tok
  let us ← P.int
  let mp ← P.opt (P.num Float)
  let ts ← P.opt (P.num Float)
  let tp ← P.opt (P.num Float)
  if k == "L" || k == "U" || k == "A" then pure ⟨k, us, mp, ts, tp⟩ else failure

def mkBattery (kind : String) (capacity : Float) (eff : Option Float) (soc : Float)
    (pts : List (Float × Float)) (dis : Dis) : Py (Battery Float) := do
  let cc ← Curve.new pts
  let eff := eff.getD defaultEfficiency
  if kind == "V" then
    match dis with
    | .none => vehicleBattery e5 capacity cc soc eff none defaultV2gPowerFactor
    | .factor f => vehicleBattery e5 capacity cc soc eff none f
    | .curve d => do
      let dc ← Curve.new d
      vehicleBattery e5 capacity cc soc eff (some dc) defaultV2gPowerFactor
  else
    match dis with
    | .curve d => do
      let dc ← Curve.new d
      stationaryBattery e5 capacity unlimited cc soc eff (some dc)
    | _ => stationaryBattery e5 capacity unlimited cc soc eff none

def rRes (avg delta soc : Float) : String := s!"{rNum avg} {rNum delta} {rNum soc}"

/-- run the operations in order on one battery; stop after the first exception -/
def runOps : Battery Float → List Op → List String
  | _, [] => []
  | b, op :: rest =>
    let T := hoursOfMicros op.us
    if op.kind == "A" then
      match b.getAvailablePower T with
      | .ok (b', p) => rRes p 0 b'.soc :: runOps b' rest
      | .error e => [renderErr e]
    else
      let r := if op.kind == "L" then b.load T op.maxPower op.targetSoc op.targetPower
               else b.unload T op.maxPower op.targetSoc op.targetPower
      match r with
      | .ok (b', avg, delta) => rRes avg delta b'.soc :: runOps b' rest
      | .error e => [renderErr e]

/-- `bat f <V|S> capacity <N|S eff> soc <n> pts… <N | F factor | C n pts…> <k> ops…`
    op = `<L|U|A> µs <N|S max_power> <N|S target_soc> <N|S target_power>`
    → per operation `avg_power soc_delta soc` (bits) or `!Error`, joined by ` | ` -/
def cmdBat : P String := do
  let kind ← P.tok
  let capacity ← P.num Float
  let eff ← P.opt (P.num Float)
  let soc ← P.num Float
  let pts ← P.list pPoint
  let dis ← pDis
  let ops ← P.list pOp
  if kind != "V" && kind != "S" then failure
  match mkBattery kind capacity eff soc pts dis with
  | .error e => pure (renderErr e)
  | .ok b => pure (" | ".intercalate (s!"eps {rNum b.eps}" :: runOps b ops))

def handlers : List (String × Handler) :=
  [("bat", fun toks => match toks with
      | "f" :: rest => runP cmdBat rest
      | _ => none)]

end SpiceEv.Cmd.Battery
