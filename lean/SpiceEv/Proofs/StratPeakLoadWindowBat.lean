/-
Stationary batteries of `peak_load_window` and the connector limit: the first battery loop simulates every
battery against a copy of the loads (`gc_loads`), the second loop restores the batteries and replays the planned
powers for real.  When the loads are not in surplus the replay makes exactly the same battery calls, so the
connector ends where the simulation ended — which stays within `max(cur_max_power, self.peak_power)`.
-/
import SpiceEv.Proofs.StratPeakLoadWindowLimit
set_option linter.unusedSectionVars false
set_option linter.unusedSimpArgs false
set_option linter.unusedVariables false
namespace SpiceEv.PeakLoadWindow
open SpiceEv
variable {α B : Type} [Field α] [LinearOrder α] [IsStrictOrderedRing α]

/-- exact sum of a load dict -/
def tot (L : List (String × α)) : α := (L.map (·.2)).sum

def val : Option α → α
  | none => 0
  | some x => x

/-- the load dict after `gc_loads[k] = x` for a key that is not yet present (`none`: nothing assigned) -/
def ext (L : List (String × α)) (k : String) : Option α → List (String × α)
  | none => L
  | some x => L ++ [(k, x)]

theorem sdSet_absent (L : List (String × α)) (k : String) (x : α) (h : sdGet L k = none) :
    sdSet L k x = L ++ [(k, x)] := by
  induction L with
  | nil => rfl
  | cons y ys ih =>
    obtain ⟨yk, yv⟩ := y
    unfold sdGet at h
    split at h
    · cases h
    · rename_i hne
      unfold sdSet
      simp only [hne, if_false, List.cons_append, Bool.false_eq_true]
      rw [ih h]

theorem sdSet_same (L : List (String × α)) (k : String) (x : α) (h : sdGet L k = some x) : sdSet L k x = L := by
  induction L with
  | nil => simp [sdGet] at h
  | cons y ys ih =>
    obtain ⟨yk, yv⟩ := y
    unfold sdGet at h
    unfold sdSet
    split at h
    · rename_i he
      simp only [Option.some.injEq] at h
      subst h
      simp [he]
    · rename_i hne
      simp only [hne, if_false, Bool.false_eq_true]
      rw [ih h]

theorem sdGet_append_ne (L : List (String × α)) (k k' : String) (x : α) (h : k ≠ k') :
    sdGet (L ++ [(k, x)]) k' = sdGet L k' := by
  induction L with
  | nil =>
    have : (k == k') = false := by simpa using h
    simp [sdGet, this]
  | cons y ys ih =>
    obtain ⟨yk, yv⟩ := y
    simp only [List.cons_append, sdGet]
    split
    · rfl
    · exact ih

theorem sdGet_append_self (L : List (String × α)) (k : String) (x : α) (h : sdGet L k = none) :
    sdGet (L ++ [(k, x)]) k = some x := by
  induction L with
  | nil => simp [sdGet]
  | cons y ys ih =>
    obtain ⟨yk, yv⟩ := y
    unfold sdGet at h
    split at h
    · cases h
    · rename_i hne
      simp only [List.cons_append, sdGet, hne, if_false, Bool.false_eq_true]
      exact ih h

theorem tot_append (L : List (String × α)) (k : String) (x : α) : tot (L ++ [(k, x)]) = tot L + x := by
  unfold tot; simp

theorem tot_ext (L : List (String × α)) (k : String) (v : Option α) : tot (ext L k v) = tot L + val v := by
  cases v with
  | none => simp [ext, val]
  | some x => simp [ext, val, tot_append]

/-- what the second loop needs to know about the first loop's decision for battery `b`: whichever call the replay
makes, it adds the value `val v` the simulation put into `gc_loads` -/
structure Agree (ops : BatOps α B) (b : StatBatS α B) (pw : α) (v : Option α) : Prop where
  charge : ∀ bat' avg, 0 ≤ pw → b.minChargingPower ≤ pw → ops.load b.bat none none (some pw) = .ok (bat', avg) →
    avg = val v
  discharge : ∀ bat' avg, pw < 0 → ops.unload b.bat none none (some (-pw)) = .ok (bat', avg) → -avg = val v
  idle : 0 ≤ pw → ¬ b.minChargingPower ≤ pw → val v = 0
  /-- where a non-negative planned power comes from: nothing was put into `gc_loads` (value 0), or the value is
  the result of the charging call for exactly that power -/
  up : 0 ≤ pw → (pw = 0 ∧ val v = 0) ∨ ∃ bat', ops.load b.bat none none (some pw) = .ok (bat', val v)

/-- one pass of the first battery loop -/
theorem planBattery_spec (ops : BatOps α B) (law : BatLaw ops) (env : PEnv α) (hsum : ∀ l, env.sum l = l.sum)
    (b : StatBatS α B) (hmin : 0 ≤ b.minChargingPower) (window : Bool) (selfPeak curMax : α) (untilChange : Int)
    (L info L' info' : List (String × α)) (hk : sdGet L b.id = none)
    (h : planBattery ops env window selfPeak curMax untilChange (L, info) b = .ok (L', info')) :
    ∃ pw v, info' = info ++ [(b.id, pw)] ∧ L' = ext L b.id v ∧ Agree ops b pw v ∧
      (0 ≤ selfPeak → ∀ m, m ≤ 0 → m ≤ tot L → m ≤ tot L + val v) ∧
      (selfPeak ≤ curMax → tot L ≤ curMax → tot L + val v ≤ curMax) := by
  have hS : sumLoads env L = tot L := by unfold sumLoads tot; rw [hsum]
  unfold planBattery at h
  simp only [hS] at h
  split at h
  · -- inside a window
    split at h
    · rename_i hw hge
      -- discharge
      obtain ⟨x, hx, h⟩ := bind_ok h
      obtain ⟨bat1, avg1⟩ := x
      simp only [Except.ok.injEq, Prod.mk.injEq] at h
      obtain ⟨rfl, rfl⟩ := h
      have hl := law.unload_target _ _ _ _ hx
      have hpow : 0 ≤ tot L - selfPeak := le_trans hmin hge
      rw [max_eq_left hpow] at hl
      refine ⟨-(tot L - selfPeak), some (-avg1), rfl, by rw [sdSet_absent _ _ _ hk]; rfl, ⟨?_, ?_, ?_, ?_⟩, ?_, ?_⟩
      · intro bat' avg h0 _ hload
        have hp0 : tot L - selfPeak = 0 := le_antisymm (by linarith) hpow
        have h1 := law.load_target _ _ _ _ hload
        rw [hp0] at hl h1
        simp only [neg_zero, max_self] at h1
        simp only [val]
        have : avg1 = 0 := le_antisymm hl.2 hl.1
        have : avg = 0 := le_antisymm h1.2 h1.1
        linarith
      · intro bat' avg _ hun
        rw [neg_neg] at hun
        rw [hx] at hun
        simp only [Except.ok.injEq, Prod.mk.injEq] at hun
        simp only [val]
        rw [hun.2]
      · intro h0 hn
        have hp0 : tot L - selfPeak = 0 := le_antisymm (by linarith) hpow
        exfalso
        apply hn
        rw [hp0] at hge ⊢
        simpa using hge
      · intro h0
        have hp0 : tot L - selfPeak = 0 := le_antisymm (by linarith) hpow
        rw [hp0] at hl
        have : avg1 = 0 := le_antisymm hl.2 hl.1
        exact Or.inl ⟨by rw [hp0]; ring, by simp only [val]; rw [this]; ring⟩
      · intro hp m hm0 hmL
        simp only [val]; linarith
      · intro _ hle
        simp only [val]; linarith
    · split at h
      · rename_i hw hnge hle
        -- charge up to the peak
        obtain ⟨x, hx, h⟩ := bind_ok h
        obtain ⟨bat1, avg1⟩ := x
        simp only [Except.ok.injEq, Prod.mk.injEq] at h
        obtain ⟨rfl, rfl⟩ := h
        have hl := law.load_target _ _ _ _ hx
        have hpow : 0 ≤ -(tot L - selfPeak) := by linarith
        rw [max_eq_left hpow] at hl
        refine ⟨-(tot L - selfPeak), some avg1, rfl, by rw [sdSet_absent _ _ _ hk]; rfl, ⟨?_, ?_, ?_, ?_⟩, ?_, ?_⟩
        · intro bat' avg _ _ hload
          rw [hx] at hload
          simp only [Except.ok.injEq, Prod.mk.injEq] at hload
          simp only [val]; exact hload.2.symm
        · intro bat' avg hneg _
          exfalso; linarith
        · intro _ hn
          exfalso; apply hn; linarith
        · intro _
          exact Or.inr ⟨bat1, hx⟩
        · intro _ m _ hmL
          simp only [val]; linarith
        · intro hpk _
          simp only [val]; linarith
      · rename_i hw hnge hnle
        simp only [Except.ok.injEq, Prod.mk.injEq] at h
        obtain ⟨rfl, rfl⟩ := h
        refine ⟨0, none, rfl, rfl, ⟨?_, ?_, ?_, ?_⟩, ?_, ?_⟩
        · intro bat' avg _ _ hload
          have h1 := law.load_target _ _ _ _ hload
          simp only [max_self] at h1
          simp only [val]; exact le_antisymm h1.2 h1.1
        · intro bat' avg hneg _
          exact absurd hneg (lt_irrefl _)
        · intro _ _; rfl
        · intro _; exact Or.inl ⟨rfl, rfl⟩
        · intro _ m _ hmL; simpa [val] using hmL
        · intro _ hle; simpa [val] using hle
  · -- outside windows
    obtain ⟨p0, _, h⟩ := bind_ok h
    obtain ⟨p, _, h⟩ := bind_ok h
    simp only [pymin_eq] at h
    split at h
    · rename_i hw hge
      obtain ⟨x, hx, h⟩ := bind_ok h
      obtain ⟨bat1, p3⟩ := x
      simp only [Except.ok.injEq, Prod.mk.injEq] at h
      obtain ⟨rfl, rfl⟩ := h
      have hl := law.load_target _ _ _ _ hx
      have hp2 : 0 ≤ min (curMax - tot L) p := le_trans hmin hge
      rw [max_eq_left hp2] at hl
      refine ⟨min (curMax - tot L) p, some p3, rfl, by rw [sdSet_absent _ _ _ hk]; rfl, ⟨?_, ?_, ?_, ?_⟩, ?_, ?_⟩
      · intro bat' avg _ _ hload
        rw [hx] at hload
        simp only [Except.ok.injEq, Prod.mk.injEq] at hload
        simp only [val]; exact hload.2.symm
      · intro bat' avg hneg _
        exfalso; linarith
      · intro _ hn
        exact absurd hge hn
      · intro _
        exact Or.inr ⟨bat1, hx⟩
      · intro _ m _ hmL
        simp only [val]; linarith
      · intro _ _
        simp only [val]
        have := min_le_left (curMax - tot L) p
        linarith
    · simp only [Except.ok.injEq, Prod.mk.injEq] at h
      obtain ⟨rfl, rfl⟩ := h
      refine ⟨0, none, rfl, rfl, ⟨?_, ?_, ?_, ?_⟩, ?_, ?_⟩
      · intro bat' avg _ _ hload
        have h1 := law.load_target _ _ _ _ hload
        simp only [max_self] at h1
        simp only [val]; exact le_antisymm h1.2 h1.1
      · intro bat' avg hneg _
        exact absurd hneg (lt_irrefl _)
      · intro _ _; rfl
      · intro _; exact Or.inl ⟨rfl, rfl⟩
      · intro _ m _ hmL; simpa [val] using hmL
      · intro _ hle; simpa [val] using hle

/-! ### the first loop over all batteries -/

/-- trace of the first loop: battery, planned power `bat_info[b]["power"]`, value put into `gc_loads` -/
abbrev Tr (α B : Type) := List (StatBatS α B × α × Option α)

def extAll (L : List (String × α)) (tr : Tr α B) : List (String × α) :=
  tr.foldl (fun L x => ext L x.1.id x.2.2) L

theorem planBatteries_spec (ops : BatOps α B) (law : BatLaw ops) (env : PEnv α) (hsum : ∀ l, env.sum l = l.sum)
    (window : Bool) (selfPeak curMax : α) (untilChange : Int) :
    ∀ (bats : List (StatBatS α B)) (L info L1 info1 : List (String × α)),
      (bats.map (·.id)).Nodup → (∀ b ∈ bats, sdGet L b.id = none) → (∀ b ∈ bats, 0 ≤ b.minChargingPower) →
      bats.foldlM (planBattery ops env window selfPeak curMax untilChange) (L, info) = .ok (L1, info1) →
      ∃ tr : Tr α B, tr.map (·.1) = bats ∧ info1 = info ++ tr.map (fun x => (x.1.id, x.2.1)) ∧
        L1 = extAll L tr ∧ (∀ x ∈ tr, Agree ops x.1 x.2.1 x.2.2) ∧
        (0 ≤ selfPeak → ∀ m, m ≤ 0 → m ≤ tot L → m ≤ tot L1) ∧
        (selfPeak ≤ curMax → tot L ≤ curMax → tot L1 ≤ curMax) := by
  intro bats
  induction bats with
  | nil =>
    intro L info L1 info1 _ _ _ h
    simp only [List.foldlM_nil, pure, Except.pure, Except.ok.injEq, Prod.mk.injEq] at h
    obtain ⟨rfl, rfl⟩ := h
    exact ⟨[], rfl, by simp, rfl, by simp, fun _ _ _ h => h, fun _ h => h⟩
  | cons b rest ih =>
    intro L info L1 info1 hnd hk hmin h
    simp only [List.foldlM_cons] at h
    obtain ⟨st, hst, h⟩ := bind_ok h
    obtain ⟨L', info'⟩ := st
    obtain ⟨pw, v, rfl, rfl, hag, hb1, hb2⟩ := planBattery_spec ops law env hsum b (hmin b (by simp)) window
      selfPeak curMax untilChange L info L' info' (hk b (by simp)) hst
    simp only [List.map_cons, List.nodup_cons] at hnd
    have hk' : ∀ b' ∈ rest, sdGet (ext L b.id v) b'.id = none := by
      intro b' hb'
      have hne : b.id ≠ b'.id := fun e => hnd.1 (by rw [e]; exact List.mem_map_of_mem hb')
      cases v with
      | none => exact hk b' (List.mem_cons_of_mem _ hb')
      | some x => simp only [ext]; rw [sdGet_append_ne _ _ _ _ hne]; exact hk b' (List.mem_cons_of_mem _ hb')
    obtain ⟨tr, h1, h2, h3, h4, h5, h6⟩ := ih _ _ L1 info1 hnd.2 hk'
      (fun b' hb' => hmin b' (List.mem_cons_of_mem _ hb')) h
    refine ⟨(b, pw, v) :: tr, by simp [h1], by simp [h2], by simp [extAll, h3], ?_, ?_, ?_⟩
    · intro x hx
      rcases List.mem_cons.mp hx with rfl | hx
      · exact hag
      · exact h4 x hx
    · intro hp m hm0 hmL
      exact h5 hp m hm0 (by rw [tot_ext]; exact hb1 hp m hm0 hmL)
    · intro hp h0
      exact h6 hp (by rw [tot_ext]; exact hb2 hp h0)

/-- every battery's entry of `gc_loads` after the first loop is the value recorded in the trace -/
theorem sdGet_extAll (tr : Tr α B) :
    ∀ (L : List (String × α)), (tr.map (·.1.id)).Nodup → (∀ x ∈ tr, sdGet L x.1.id = none) →
      (∀ x ∈ tr, sdGet (extAll L tr) x.1.id = x.2.2) ∧
      (∀ k, (∀ x ∈ tr, x.1.id ≠ k) → sdGet (extAll L tr) k = sdGet L k) := by
  induction tr with
  | nil => intro L _ _; exact ⟨by simp, fun _ _ => rfl⟩
  | cons y rest ih =>
    intro L hnd hk
    simp only [List.map_cons, List.nodup_cons] at hnd
    have hne : ∀ x ∈ rest, y.1.id ≠ x.1.id := fun x hx e => hnd.1 (by
      rw [e]; exact List.mem_map_of_mem (f := fun x : StatBatS α B × α × Option α => x.1.id) hx)
    have hL' : ∀ k, y.1.id ≠ k → sdGet (ext L y.1.id y.2.2) k = sdGet L k := by
      intro k hk'
      cases hv : y.2.2 with
      | none => rfl
      | some x => simp only [ext]; exact sdGet_append_ne _ _ _ _ hk'
    obtain ⟨h1, h2⟩ := ih (ext L y.1.id y.2.2) hnd.2 (fun x hx => by
      rw [hL' _ (hne x hx)]; exact hk x (List.mem_cons_of_mem _ hx))
    constructor
    · intro x hx
      rcases List.mem_cons.mp hx with rfl | hx
      · simp only [extAll, List.foldl_cons]
        have := h2 x.1.id (fun z hz e => hne z hz e.symm)
        simp only [extAll] at this
        rw [this]
        cases hv : x.2.2 with
        | none => simp only [ext]; exact hk x (by simp)
        | some v => simp only [ext]; exact sdGet_append_self _ _ _ (hk x (by simp))
      · simp only [extAll, List.foldl_cons]
        exact h1 x hx
    · intro k hk'
      simp only [extAll, List.foldl_cons]
      have := h2 k (fun x hx => hk' x (List.mem_cons_of_mem _ hx))
      simp only [extAll] at this
      rw [this]
      exact hL' k (hk' y (by simp))

theorem sdGet_info (tr : Tr α B) (hnd : (tr.map (·.1.id)).Nodup) :
    ∀ x ∈ tr, sdGet (tr.map (fun x => (x.1.id, x.2.1))) x.1.id = some x.2.1 := by
  induction tr with
  | nil => simp
  | cons y rest ih =>
    simp only [List.map_cons, List.nodup_cons] at hnd
    intro x hx
    rcases List.mem_cons.mp hx with rfl | hx
    · simp [sdGet]
    · have hne : y.1.id ≠ x.1.id := fun e => hnd.1 (by
        rw [e]; exact List.mem_map_of_mem (f := fun x : StatBatS α B × α × Option α => x.1.id) hx)
      have : (y.1.id == x.1.id) = false := by simpa using hne
      simp only [List.map_cons, sdGet, this, if_false, Bool.false_eq_true]
      exact ih hnd.2 x hx

/-! ### the second loop replays the first -/

theorem applyBattery_spec (ops : BatOps α B) (env : PEnv α) (hsum : ∀ l, env.sum l = l.sum)
    (b : StatBatS α B) (pw : α) (v : Option α) (hag : Agree ops b pw v) (info : List (String × α))
    (hinfo : sdGet info b.id = some pw) (gc gc' : GcS α) (G G' : List (String × α))
    (done done' : List (StatBatS α B)) (hG : sdGet G b.id = v) (h0 : 0 ≤ tot G)
    (h : applyBattery ops env info (gc, G, done) b = .ok (gc', G', done')) :
    gc'.currentLoad = gc.currentLoad + val v ∧ gc'.curMax = gc.curMax ∧ gc'.id = gc.id ∧ tot G' = tot G ∧
      (∀ k, b.id ≠ k → sdGet G' k = sdGet G k) := by
  have hS : sumLoads env G = tot G := by unfold sumLoads tot; rw [hsum]
  -- assigning the value that is already there (or 0 to a fresh key) changes neither the total nor other keys
  have hset : ∀ x, x = val v → tot (sdSet G b.id x) = tot G ∧ ∀ k, b.id ≠ k → sdGet (sdSet G b.id x) k = sdGet G k := by
    intro x hx
    cases hv : v with
    | none =>
      rw [hv] at hG hx
      simp only [val] at hx
      rw [sdSet_absent _ _ _ hG, tot_append, hx]
      exact ⟨by ring, fun k hk => sdGet_append_ne _ _ _ _ hk⟩
    | some y =>
      rw [hv] at hG hx
      simp only [val] at hx
      rw [hx, sdSet_same _ _ _ hG]
      exact ⟨rfl, fun _ _ => rfl⟩
  unfold applyBattery at h
  simp only [hinfo, hS, pymin_eq, min_eq_right h0, sub_zero] at h
  split at h
  · rename_i hpw
    split at h
    · rename_i hmin
      obtain ⟨x, hx, h⟩ := bind_ok h
      obtain ⟨bat', avg⟩ := x
      simp only [Except.ok.injEq, Prod.mk.injEq] at h
      obtain ⟨rfl, rfl, rfl⟩ := h
      have e := hag.charge bat' avg hpw hmin hx
      obtain ⟨a1, a2, a3, _⟩ := addLoad_currentLoad gc b.id avg
      obtain ⟨t1, t2⟩ := hset avg e
      exact ⟨by rw [a1, e], a2, a3, t1, t2⟩
    · rename_i hmin
      simp only [Except.ok.injEq, Prod.mk.injEq] at h
      obtain ⟨rfl, rfl, rfl⟩ := h
      exact ⟨by rw [hag.idle hpw hmin]; ring, rfl, rfl, rfl, fun _ _ => rfl⟩
  · rename_i hpw
    obtain ⟨x, hx, h⟩ := bind_ok h
    obtain ⟨bat', avg⟩ := x
    simp only [Except.ok.injEq, Prod.mk.injEq] at h
    obtain ⟨rfl, rfl, rfl⟩ := h
    have e := hag.discharge bat' avg (not_le.mp hpw) hx
    obtain ⟨a1, a2, a3, _⟩ := addLoad_currentLoad gc b.id (-avg)
    obtain ⟨t1, t2⟩ := hset (-avg) e
    exact ⟨by rw [a1, e], a2, a3, t1, t2⟩

theorem applyBatteries_spec (ops : BatOps α B) (env : PEnv α) (hsum : ∀ l, env.sum l = l.sum)
    (info : List (String × α)) :
    ∀ (tr : Tr α B) (gc gc' : GcS α) (G G' : List (String × α)) (done done' : List (StatBatS α B)),
      (tr.map (·.1.id)).Nodup → (∀ x ∈ tr, Agree ops x.1 x.2.1 x.2.2) →
      (∀ x ∈ tr, sdGet info x.1.id = some x.2.1) → (∀ x ∈ tr, sdGet G x.1.id = x.2.2) → 0 ≤ tot G →
      (tr.map (·.1)).foldlM (applyBattery ops env info) (gc, G, done) = .ok (gc', G', done') →
      gc'.currentLoad = gc.currentLoad + (tr.map (fun x => val x.2.2)).sum ∧ gc'.curMax = gc.curMax ∧
        gc'.id = gc.id := by
  intro tr
  induction tr with
  | nil =>
    intro gc gc' G G' done done' _ _ _ _ _ h
    simp only [List.map_nil, List.foldlM_nil, pure, Except.pure, Except.ok.injEq, Prod.mk.injEq] at h
    obtain ⟨rfl, _, _⟩ := h
    simp
  | cons y rest ih =>
    intro gc gc' G G' done done' hnd hag hinfo hG h0 h
    simp only [List.map_cons, List.foldlM_cons] at h
    obtain ⟨st, hst, h⟩ := bind_ok h
    obtain ⟨gc1, G1, done1⟩ := st
    simp only [List.map_cons, List.nodup_cons] at hnd
    obtain ⟨c1, c2, c3, c4, c5⟩ := applyBattery_spec ops env hsum y.1 y.2.1 y.2.2 (hag y (by simp)) info
      (hinfo y (by simp)) gc gc1 G G1 done done1 (hG y (by simp)) h0 hst
    have hne : ∀ x ∈ rest, y.1.id ≠ x.1.id := fun x hx e => hnd.1 (by
      rw [e]; exact List.mem_map_of_mem (f := fun x : StatBatS α B × α × Option α => x.1.id) hx)
    obtain ⟨d1, d2, d3⟩ := ih gc1 gc' G1 G' done1 done' hnd.2
      (fun x hx => hag x (List.mem_cons_of_mem _ hx)) (fun x hx => hinfo x (List.mem_cons_of_mem _ hx))
      (fun x hx => by rw [c5 _ (hne x hx)]; exact hG x (List.mem_cons_of_mem _ hx)) (by rw [c4]; exact h0) h
    refine ⟨?_, by rw [d2, c2], by rw [d3, c3]⟩
    rw [d1, c1]
    simp only [List.map_cons, List.sum_cons]
    ring

theorem tot_extAll (tr : Tr α B) : ∀ (L : List (String × α)),
    tot (extAll L tr) = tot L + (tr.map (fun x => val x.2.2)).sum := by
  induction tr with
  | nil => intro L; simp [extAll]
  | cons y rest ih =>
    intro L
    simp only [extAll, List.foldl_cons, List.map_cons, List.sum_cons]
    have := ih (ext L y.1.id y.2.2)
    simp only [extAll] at this
    rw [this, tot_ext]; ring

/-! ### keys of the connector's loads after the vehicle loop -/

theorem sdGet_sdSet_ne {β : Type} (l : List (String × β)) (k k' : String) (x : β) (h : k ≠ k') :
    sdGet (sdSet l k x) k' = sdGet l k' := by
  induction l with
  | nil =>
    have : (k == k') = false := by simpa using h
    simp [sdSet, sdGet, this]
  | cons y ys ih =>
    obtain ⟨yk, yv⟩ := y
    unfold sdSet
    split
    · rename_i he
      have e : yk = k := by simpa using he
      subst e
      have : (yk == k') = false := by simpa using h
      simp [sdGet, this]
    · simp only [sdGet]
      split
      · rfl
      · exact ih

theorem addLoad_sdGet_ne (g : GcS α) (k k' : String) (x : α) (h : k ≠ k') :
    sdGet (g.addLoad k x).1.loads k' = sdGet g.loads k' := by
  unfold GcS.addLoad
  split
  · exact sdGet_sdSet_ne _ _ _ _ h
  · simp only
    induction g.loads with
    | nil =>
      have : (k == k') = false := by simpa using h
      simp [sdGet, this]
    | cons y ys ih =>
      obtain ⟨yk, yv⟩ := y
      simp only [List.cons_append, sdGet]
      split
      · rfl
      · exact ih

theorem chargeVehicles_keys (ops : BatOps α B) (k : String) :
    ∀ (plans : List (PVeh α B × α)) (surplus : α) (st st' : PWorld α B × GcS α × List (String × α)),
      (∀ q ∈ plans, q.1.v.cs ≠ some k) → chargeVehicles ops plans surplus st = .ok st' →
      sdGet st'.2.1.loads k = sdGet st.2.1.loads k := by
  intro plans
  induction plans with
  | nil => intro surplus st st' _ h; simp only [chargeVehicles, Except.ok.injEq] at h; subst h; rfl
  | cons q rest ih =>
    intro surplus st st' hq h
    obtain ⟨pv, planned⟩ := q
    obtain ⟨w, gc, cmds⟩ := st
    obtain ⟨csId, sched, hcs, hso, hcase⟩ := chargeVehicles_cons ops pv planned rest surplus w gc cmds st' h
    rcases hcase with ⟨_, bat', p, _, hrec⟩ | ⟨_, hrec⟩
    · have hne : csId ≠ k := fun e => hq (pv, planned) (by simp) (by rw [hcs, e])
      have := ih _ _ _ (fun q' hq' => hq q' (List.mem_cons_of_mem _ hq')) hrec
      simp only at this ⊢
      rw [this]
      exact addLoad_sdGet_ne gc csId k p hne
    · have := ih _ _ _ (fun q' hq' => hq q' (List.mem_cons_of_mem _ hq')) hrec
      exact this

theorem foldl_setBattery_gcs (done : List (StatBatS α B)) :
    ∀ w : PWorld α B, (done.foldl (fun w b => w.setBattery b) w).gcs = w.gcs := by
  induction done with
  | nil => intro w; rfl
  | cons b rest ih => intro w; simp only [List.foldl_cons]; rw [ih]; rfl

/-- one `step_gc` call with stationary batteries and no surplus (repaired in-window branch: the batteries work
against `min(self.peak_power, cur_max_power)`) -/
theorem stepGc_limit_bat (ops : BatOps α B) (law : BatLaw ops) (idem : LoadIdem ops) (env : PEnv α)
    (hi : 0 < env.interval) (hsum : ∀ l, env.sum l = l.sum) (w : PWorld α B) (g : PGc α) (level : String)
    (w' : PWorld α B) (cmds : List (String × α))
    (hbid : ((w.batteries.filter (fun b => b.parent == g.gc.id)).map (·.id)).Nodup)
    (hbkey : ∀ b ∈ w.batteries, (b.parent == g.gc.id) = true → sdGet g.gc.loads b.id = none)
    (hbcs : ∀ b ∈ w.batteries, (b.parent == g.gc.id) = true → ∀ pv ∈ w.vehicles, pv.v.cs ≠ some b.id)
    (hbmin : ∀ b ∈ w.batteries, (b.parent == g.gc.id) = true → 0 ≤ b.minChargingPower)
    (hpk0 : 0 ≤ g.peak)
    (hs : 0 ≤ g.gc.currentLoad) (hlim : g.gc.currentLoad ≤ g.gc.curMax)
    (h : stepGc ops env w g level = .ok (w', cmds)) :
    ∀ g' ∈ w'.gcs, g'.gc.id = g.gc.id →
      g'.gc.curMax = g.gc.curMax ∧ 0 ≤ g'.gc.currentLoad ∧ g'.gc.currentLoad ≤ g.gc.curMax := by
  have hbase : sumLoads env g.gc.loads = g.gc.currentLoad := by
    unfold sumLoads; rw [hsum, currentLoad_eq_sum]
  unfold stepGc at h
  simp only at h
  set bats := w.batteries.filter (fun b => b.parent == g.gc.id) with hbats
  have hbm : ∀ b ∈ bats, b ∈ w.batteries ∧ (b.parent == g.gc.id) = true := by
    intro b hb
    rw [hbats, List.mem_filter] at hb
    exact hb
  obtain ⟨r1, hg, h⟩ := bind_ok h
  obtain ⟨vehicles, maxStanding⟩ := r1
  obtain ⟨seasons, _, h⟩ := bind_ok h
  obtain ⟨r2, _, h⟩ := bind_ok h
  obtain ⟨ahead, untilChange⟩ := r2
  simp only [buildTimesteps, List.foldl_nil] at h
  obtain ⟨r3, hp, h⟩ := bind_ok h
  obtain ⟨plans, timesteps, pk⟩ := r3
  obtain ⟨ts0, ht0, h⟩ := bind_ok h
  obtain ⟨r4, hc, h⟩ := bind_ok h
  obtain ⟨w1, gc1, cmds1⟩ := r4
  obtain ⟨r5, h5, h⟩ := bind_ok h
  obtain ⟨L1, info1⟩ := r5
  obtain ⟨r6, h6, h⟩ := bind_ok h
  obtain ⟨gc2, gl2, done⟩ := r6
  simp only [Except.ok.injEq, Prod.mk.injEq] at h
  obtain ⟨rfl, rfl⟩ := h
  -- vehicles
  obtain ⟨s, hps, hs0, hsle, hhead⟩ := planVehicles_sum ops law idem env hi w _ _ _ _ _ _ _
    (by simp only; rw [hbase]; exact hlim) hp
  have hts0 := getAt_zero_head ht0
  rw [hhead] at hts0
  have hp0 : ts0.power = sumLoads env g.gc.loads + s := by rw [← Option.some.inj hts0]
  have hts0p : 0 ≤ ts0.power := by rw [hp0, hbase]; linarith
  have hsur : -(pymin ts0.power 0) = 0 := by rw [pymin_eq, min_eq_right hts0p]; ring
  rw [hsur] at hc
  obtain ⟨c, hc0, hcle, c1, c2, c3⟩ := chargeVehicles_sum ops law plans s 0 _ _ (le_refl _)
    (fun h => absurd h (lt_irrefl _)) hps hc
  have hcz : c = 0 := le_antisymm hcle hc0
  rw [hcz, add_zero] at c1
  simp only at c1 c2 c3 hsle
  rw [hbase] at hsle
  -- the plans belong to vehicles of the world
  have hgs := gatherVehicles_spec ops env w g.gc.id vehicles maxStanding hg
  obtain ⟨_, hplans⟩ := planVehicles_spec ops law env w (0 : α) _ _ _ _ _ _
    (fun t ht => by
      simp only [List.head?_cons, Option.some.injEq] at ht
      subst ht
      simp only
      rw [hbase]; exact hs) hp
  have hkeys : ∀ b ∈ bats, sdGet gc1.loads b.id = none := by
    intro b hb
    obtain ⟨hbw, hbp⟩ := hbm b hb
    have := chargeVehicles_keys ops b.id plans _ _ _ (fun q hq => by
      obtain ⟨hqs, _⟩ := hplans q hq
      exact hbcs b hbw hbp q.1 (hgs q.1 (mem_sortByKey _ _ _ hqs)).1) hc
    simp only at this
    rw [this]
    exact hbkey b hbw hbp
  -- first battery loop
  have htot1 : tot gc1.loads = gc1.currentLoad := by rw [currentLoad_eq_sum]; rfl
  obtain ⟨tr, t1, t2, t3, t4, t5, t6⟩ := planBatteries_spec ops law env hsum _ (pymin g.peak gc1.curMax) gc1.curMax untilChange
    bats gc1.loads [] L1 info1 hbid hkeys (fun b hb => hbmin b (hbm b hb).1 (hbm b hb).2) h5
  have hnd : (tr.map (·.1.id)).Nodup := by
    have : tr.map (·.1.id) = (tr.map (·.1)).map (·.id) := by simp
    rw [this, t1]; exact hbid
  have hL0 : 0 ≤ tot gc1.loads := by rw [htot1, c1]; linarith
  have hLle : tot gc1.loads ≤ gc1.curMax := by rw [htot1, c1, c2]; exact hsle
  have hcm0 : 0 ≤ gc1.curMax := by rw [c2]; exact le_trans hs hlim
  have h10 : 0 ≤ tot L1 := t5 (by rw [pymin_eq]; exact le_min hpk0 hcm0) 0 (le_refl _) hL0
  have h1le : tot L1 ≤ gc1.curMax := t6 (by rw [pymin_eq]; exact min_le_right _ _) hLle
  -- second battery loop
  rw [← t1] at h6
  simp only [List.nil_append] at t2
  obtain ⟨hget, _⟩ := sdGet_extAll tr gc1.loads hnd (fun x hx => hkeys x.1 (by
    rw [← t1]; exact List.mem_map_of_mem (f := fun x : StatBatS α B × α × Option α => x.1) hx))
  obtain ⟨d1, d2, d3⟩ := applyBatteries_spec ops env hsum info1 tr gc1 gc2 L1 gl2 [] done hnd t4
    (by rw [t2]; exact sdGet_info tr hnd) (by rw [t3]; exact hget) h10 h6
  have hfin : gc2.currentLoad = tot L1 := by
    rw [d1, t3, tot_extAll, htot1]
  intro g' hg' hid
  simp only [PWorld.setGc, List.mem_map] at hg'
  obtain ⟨x, _, hx⟩ := hg'
  split at hx
  · subst hx
    simp only
    rw [hfin, d2, c2]
    rw [c2] at h1le
    exact ⟨rfl, h10, h1le⟩
  · rename_i hne
    subst hx
    rw [hid] at hne
    simp only [d3, c3, beq_self_eq_true, not_true_eq_false] at hne

end SpiceEv.PeakLoadWindow
