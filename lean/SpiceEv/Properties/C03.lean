/-
C03 — Charging-curve lookup and clamping are exact piecewise-linear operations.

Property theorems only (helper lemmas live in SpiceEv/Proofs/Curve.lean).  All statements are
about the executable model `SpiceEv.Curve` (SpiceEv/Model/Curve.lean) instantiated at an arbitrary
linearly ordered field; the driver runs the same definitions on `Rat` against the real
`LoadingCurve` on exact rationals.
-/
import SpiceEv.Proofs.Curve
import Mathlib.Data.List.Pairwise
set_option linter.unusedSectionVars false
namespace SpiceEv
variable {α : Type} [Field α] [LinearOrder α] [IsStrictOrderedRing α]

/-- Lookup = the reference piecewise-linear function, and never an error, for every SoC ≤ 1
(negative SoCs included: they read the first point). -/
theorem C03_lookup_lerp (c : Curve α) (hwf : WF c.points) (s : α) (h1 : s ≤ 1) :
    c.powerFromSoc s = .ok (interp c.points s) :=
  powerFromSoc_eq c s hwf.sorted hwf.last h1

/-- The reference function is "the affine piece through the two neighbouring points":
for consecutive points `a`, `b` and `a.soc < s ≤ b.soc` it is `lerp a b s`. -/
theorem C03_interp_bracket (pre post : List (α × α)) (a b : α × α) (s : α)
    (hs : StrictSoc (pre ++ a :: b :: post)) (h1 : a.1 < s) (h2 : s ≤ b.1) :
    interp (pre ++ a :: b :: post) s = lerp a b s := by
  induction pre with
  | nil => simp [interp, not_le.mpr h1, h2]
  | cons p pre ih =>
    have hs' : StrictSoc (pre ++ a :: b :: post) := by
      unfold StrictSoc at hs ⊢; exact (List.pairwise_cons.mp hs).2
    have hpa : p.1 ≤ a.1 := by
      unfold StrictSoc at hs
      exact ((List.pairwise_cons.mp hs).1 a (by simp)).le
    cases hpre : pre with
    | nil =>
      subst hpre
      have hpa' : p.1 < a.1 := by
        unfold StrictSoc at hs; exact (List.pairwise_cons.mp hs).1 a (by simp)
      show interp (p :: a :: b :: post) s = _
      simp only [interp, not_le.mpr (lt_trans hpa' h1), not_le.mpr h1, h2, if_false, if_true]
    | cons r pre' =>
      subst hpre
      have hra : r.1 ≤ a.1 := by
        unfold StrictSoc at hs'
        exact ((List.pairwise_cons.mp hs').1 a (by simp)).le
      have := ih hs'
      show interp (p :: r :: (pre' ++ a :: b :: post)) s = _
      simp only [interp, not_le.mpr (lt_of_le_of_lt hpa h1), not_le.mpr (lt_of_le_of_lt hra h1),
        if_false]
      exact this

/-- At or left of the first point the lookup is the first point's power. -/
theorem C03_interp_first (p : α × α) (rest : List (α × α)) (s : α) (h : s ≤ p.1) :
    interp (p :: rest) s = p.2 := by
  cases rest <;> simp [interp, h]

/-- **Clamping.** For a well-formed curve, limit `L ≥ 0` and positive scale factors, `clamped`
returns (never raises) a well-formed curve whose lookup at every SoC ≤ 1 is
`post * min (pre * curve(s)) L`. -/
theorem C03_clamped_pointwise (c : Curve α) (hwf : WF c.points) (L pre post : α)
    (hL : 0 ≤ L) (hpre : 0 < pre) (hpost : 0 < post) :
    ∃ c', c.clamped L pre post = .ok c' ∧ WF c'.points ∧
      c'.maxPower = curveMaxPower c'.points ∧
      ∀ s, s ≤ 1 → c'.powerFromSoc s = .ok (post * min (pre * interp c.points s) L) := by
  obtain ⟨f, hf1, hf2⟩ := hwf.first
  obtain ⟨l, hl1, hl2⟩ := hwf.last
  -- the point list has at least two points (0 ≠ 1)
  obtain ⟨p, rest, hpts, hrest⟩ : ∃ p rest, c.points = p :: rest ∧ rest ≠ [] := by
    cases hc : c.points with
    | nil => simp [hc] at hf1
    | cons p rest =>
      refine ⟨p, rest, rfl, ?_⟩
      rintro rfl
      rw [hc] at hf1 hl1
      simp at hf1 hl1
      subst hf1; subst hl1
      exact absurd (hf2.symm.trans hl2) zero_ne_one
  set P := scalePts pre c.points with hP
  have hPs : StrictSoc P := strictSoc_scalePts pre _ hwf.sorted
  have hPne : P ≠ [] := scalePts_ne_nil pre _ (by rw [hpts]; simp)
  have hPl : P.getLast? = some (l.1, pre * l.2) := by rw [hP, scalePts_getLast, hl1]; rfl
  have hPf : P.head? = some (f.1, pre * f.2) := by rw [hP, scalePts_head, hf1]; rfl
  have hsec : clampSections L P = .ok (clampPts L P) := by
    have : P = (p.1, pre * p.2) :: scalePts pre rest := by rw [hP, hpts]; rfl
    rw [this]
    apply clampSections_eq
    · exact scalePts_ne_nil pre _ hrest
    · rw [← this]; exact ⟨_, hPl, hl2⟩
  set N := scalePts post (clampPts L P) with hN
  obtain ⟨hCs, hCge⟩ := clampPts_strict L P hPs
  have hNs : StrictSoc N := strictSoc_scalePts post _ hCs
  have hCl : (clampPts L P).getLast? = some (l.1, min (pre * l.2) L) := clampPts_getLast L P _ hPl
  have hNl : ∃ q, N.getLast? = some q ∧ q.1 = 1 := by
    refine ⟨(l.1, post * min (pre * l.2) L), ?_, hl2⟩
    rw [hN, scalePts_getLast, hCl]; rfl
  have hCf : ∃ tl, clampPts L P = (f.1, min (pre * f.2) L) :: tl := by
    cases hPc : P with
    | nil => exact absurd hPc hPne
    | cons x xs =>
      rw [hPc] at hPf; simp at hPf; subst hPf
      exact clampPts_head L _ xs
  have hNf : ∃ q, N.head? = some q ∧ q.1 = 0 := by
    obtain ⟨tl, htl⟩ := hCf
    refine ⟨(f.1, post * min (pre * f.2) L), ?_, hf2⟩
    rw [hN, scalePts_head, htl]; rfl
  have hPnn : ∀ x ∈ P, 0 ≤ x.2 := by
    intro x hx
    rw [hP] at hx; unfold scalePts at hx
    obtain ⟨y, hy, rfl⟩ := List.mem_map.mp hx
    exact mul_nonneg hpre.le (hwf.nonneg y hy)
  have hNnn : ∀ x ∈ N, 0 ≤ x.2 := by
    intro x hx
    rw [hN] at hx; unfold scalePts at hx
    obtain ⟨y, hy, rfl⟩ := List.mem_map.mp hx
    exact mul_nonneg hpost.le (clampPts_nonneg L hL P hPnn y hy)
  have hnew : Curve.new N = .ok ⟨N, curveMaxPower N⟩ := Curve.new_of_strict N hNs hNf hNl
  refine ⟨⟨N, curveMaxPower N⟩, ?_, ⟨hNs, hNf, hNl, hNnn⟩, rfl, ?_⟩
  · unfold Curve.clamped
    have e1 : c.points.map (fun p => (p.1, pre * p.2)) = P := rfl
    simp only [e1, hsec, bind, Except.bind]
    exact hnew
  · intro s hs1
    rw [powerFromSoc_eq ⟨N, curveMaxPower N⟩ s hNs hNl hs1]
    show Except.ok (interp N s) = _
    rw [hN, interp_scalePts, interp_clampPts L P hPs hPne, hP, interp_scalePts]

/-- `max_power` of a constructed curve is the maximum over its points (powers ≥ 0), and every
lookup is bounded by it. -/
theorem C03_max_power (pts : List (α × α)) (hwf : WF pts) :
    (∀ p ∈ pts, p.2 ≤ curveMaxPower pts) ∧ (∃ p ∈ pts, p.2 = curveMaxPower pts) ∧
    ∀ s, interp pts s ≤ curveMaxPower pts := by
  unfold curveMaxPower
  rw [curveMaxPower_foldl]
  have hge := foldl_max_ge pts (0 : α)
  have hne : pts ≠ [] := by
    obtain ⟨f, hf1, _⟩ := hwf.first
    rintro rfl; simp at hf1
  refine ⟨hge.2, ?_, fun s => interp_le_of_points pts hwf.sorted _ hge.2 hne s⟩
  rcases foldl_max_mem pts (0 : α) with h | ⟨p, hp, h⟩
  · -- maximum is 0: every power is 0
    cases hpts : pts with
    | nil => exact absurd hpts hne
    | cons p rest =>
      refine ⟨p, by simp, ?_⟩
      have h1 : p.2 ≤ 0 := by
        have := hge.2 p (by rw [hpts]; simp)
        rw [h] at this; exact this
      rw [← hpts, h]
      exact le_antisymm h1 (hwf.nonneg p (by rw [hpts]; simp))
  · exact ⟨p, hp, h.symm⟩

/-- The constructor does not depend on the order in which the points are given
(distinct SoCs). -/
theorem C03_unsorted_input (pts pts' : List (α × α)) (hperm : pts.Perm pts')
    (hd : pts.Pairwise (fun a b => a.1 ≠ b.1)) : Curve.new pts = Curve.new pts' := by
  have key : pts.mergeSort (fun a b => decide (a.1 ≤ b.1))
      = pts'.mergeSort (fun a b => decide (a.1 ≤ b.1)) := by
    apply List.Perm.eq_of_pairwise (le := fun a b => decide (a.1 ≤ b.1) = true)
    · intro a b ha hb hab hba
      have ha' : a ∈ pts := (List.mergeSort_perm _ _).subset ha
      have hb' : b ∈ pts := hperm.symm.subset ((List.mergeSort_perm _ _).subset hb)
      have hab' : a.1 = b.1 := le_antisymm (by simpa using hab) (by simpa using hba)
      by_contra hne
      have : Std.Symm (fun a b : α × α => a.1 ≠ b.1) := ⟨fun _ _ h => Ne.symm h⟩
      exact (hd.forall ha' hb' hne) hab'
    · exact List.pairwise_mergeSort (fun a b c h1 h2 => by
        simp only [decide_eq_true_eq] at *; exact le_trans h1 h2)
        (fun a b => by simp only [Bool.or_eq_true, decide_eq_true_eq]; exact le_total _ _) _
    · exact List.pairwise_mergeSort (fun a b c h1 h2 => by
        simp only [decide_eq_true_eq] at *; exact le_trans h1 h2)
        (fun a b => by simp only [Bool.or_eq_true, decide_eq_true_eq]; exact le_total _ _) _
    · exact (List.mergeSort_perm _ _).trans (hperm.trans (List.mergeSort_perm _ _).symm)
  unfold Curve.new
  rw [key]

/-- **Default discharge curve** (`VehicleType` without an explicit one): for a V2G power factor
in `(0, 1]` it is the charging curve multiplied by that factor at every SoC. -/
theorem C03_default_discharge (c : Curve α) (hwf : WF c.points)
    (hmax : c.maxPower = curveMaxPower c.points) (f : α) (hf0 : 0 < f) (hf1 : f ≤ 1) :
    ∃ d, defaultDischargeCurve c f = .ok d ∧ WF d.points ∧
      ∀ s, s ≤ 1 → d.powerFromSoc s = .ok (f * interp c.points s) := by
  have hmx := C03_max_power c.points hwf
  have hM0 : 0 ≤ c.maxPower := by
    obtain ⟨p, hp, h⟩ := hmx.2.1
    rw [hmax, ← h]; exact hwf.nonneg p hp
  obtain ⟨d, hd, hdwf, _, hlook⟩ := C03_clamped_pointwise c hwf c.maxPower f 1 hM0 hf0 one_pos
  refine ⟨d, hd, hdwf, ?_⟩
  intro s hs
  rw [hlook s hs, one_mul]
  have h1 : interp c.points s ≤ c.maxPower := hmax ▸ hmx.2.2 s
  have h0 : 0 ≤ interp c.points s := interp_nonneg c.points hwf.sorted hwf.nonneg s
  have : f * interp c.points s ≤ c.maxPower := by nlinarith
  rw [min_eq_left this]

/-- Counterexample kept as documentation: the formula of the pinned commit (right end of a
section read from the *unscaled* points) is not `post * min (pre * curve) L`: for the constant
11 kW curve and pre-scale 1/2 it yields `(1, 11)` as last point instead of `(1, 11/2)`. -/
example : (min (11 : ℚ) ((1 : ℚ) * 11)) ≠ (1 / 2 : ℚ) * 11 := by norm_num

/-! Non-vacuity: the hypotheses are satisfiable by the 3-point taper `[(0,11),(4/5,11),(1,2)]`. -/
example : WF ([(0, 11), (4/5, 11), (1, 2)] : List (ℚ × ℚ)) := by
  refine ⟨?_, ⟨(0, 11), rfl, rfl⟩, ⟨(1, 2), rfl, rfl⟩, ?_⟩
  · unfold StrictSoc; simp; norm_num
  · intro p hp; simp at hp; rcases hp with rfl | rfl | rfl <;> norm_num

end SpiceEv
