"""C20 — trip-table vehicle assignment is conflict-free and frugal.

Correspondence: the real `generate_from_csv.assign_vehicle_id` is called on generated trip tables
(rows as `csv_to_dict` produces them: dicts of strings) with a `vehicle_types` dict as
`generate_from_csv` builds it; the returned `vehicle_id` / `min_departure_time` columns are compared
with the Lean model (`gencsv` command) — equality.  Oracle (Python, independent of model and
implementation, evaluated on the implementation's output only): the four sentences of the property —
no two trips of one vehicle overlap, consecutive trips are separated by more than
capacity / station power, a vehicle serves one type only, a new vehicle appears only when no vehicle
of that type is idle at the departure, and a reused vehicle is the one idle longest.
"""
import datetime
import itertools
import os
import random
import tempfile
from fractions import Fraction as F

import engine

PID = "C20"
RULE = ("exhaustive (thorough): every processing sequence of <= 5 trips for one type (standing time 0 / 1 / 1.5 "
        "slots) and for the nested pair bus / bus_long, <= 3 trips (+ every 2nd sequence of 4) for two further "
        "pairs and for three types (bus, bus_long, minibus), with departures and arrivals on a 6-slot lattice of "
        "30 min starting at the first departure, ties in departure in every order, table order permuted (ties "
        "keep their order), so that departure == arrival + standing time occurs; rows that arrive before they "
        "depart: one type <= 4 complete + every 6th of 5, two types <= 3. quick: the same plan one trip shorter, "
        "plus every 3rd-8th sequence of the next size (offset by the seed). random: 1-40 trips, 1-3 types from "
        "nested/overlapping names, type dict order shuffled, chained departures at arrival + standing time + "
        "{-1 s, 0, +1 s}, ties, shuffled table order, export-CSV read-back on a subset. malformed stream (error "
        "kinds only): unknown type, empty curve, zero station power, both, negative capacity/power, non-padded "
        "hour strings (string order != time order). non-trivial = at least one vehicle serves two trips or two "
        "vehicles of one type exist; distinct = distinct (type table, trip table)")
EXHAUSTIVE = {"quick": False, "thorough": True}
CHUNK = 2000
ASSUMPTIONS = [
    "departure strings are in the documented format YYYY-MM-DD HH:MM:SS (zero padded), so that the string "
    "order used by sorted() is the time order; non-padded strings are accepted by strptime but are outside "
    "the property (correspondence only, malformed stream)",
    "every vehicle type of the table is a key of vehicle_types with a non-empty charging curve, positive "
    "station power and capacity >= 0 (otherwise KeyError / ValueError / ZeroDivisionError, modelled and compared)",
    "minimum standing time = capacity / max(curve power) hours at datetime resolution (round-half-even to 1 us); "
    "generated capacities/powers are those where the float evaluation in timedelta(hours=c/p) equals the exact "
    "rational rounding (checked per generated type; others are skipped and counted)",
    "FIFO clause ('idle longest' = smallest arrival + standing time of the vehicle's latest trip) is stated for "
    "tables whose trips arrive no earlier than they depart; the other clauses hold for arbitrary arrival times",
    "a vehicle id is modelled as the pair (type, count); that f'{type}_{count}' is injective and that "
    "rsplit('_', 1)[0] recovers the type is covered by the correspondence run with nested type names, not by a theorem",
    "datetime overflow (year > 9999) and strptime errors are outside the model",
]
UNPROVED = [
    "string level of vehicle ids: that f'{type}_{n}' is injective and that rsplit('_', 1)[0] recovers the type "
    "(the model uses the pair (type, n)); covered by correspondence + the type-purity oracle with nested names",
    "FIFO clause for tables containing a row that arrives before it departs ('idle longest' is not meaningful "
    "there); covered by correspondence only",
]

engine.use_repo()

BASE = datetime.datetime(2020, 1, 1)
FMT = '%Y-%m-%d %H:%M:%S'
US = datetime.timedelta(microseconds=1)
SLOT = 1800  # seconds

_str_cache = {}


def tstr(sec, padded=True):
    k = (sec, padded)
    s = _str_cache.get(k)
    if s is None:
        dt = BASE + datetime.timedelta(seconds=sec)
        s = dt.strftime(FMT)
        if not padded:
            s = "%d-%d-%d %d:%d:%d" % (dt.year, dt.month, dt.day, dt.hour, dt.minute, dt.second)
        _str_cache[k] = s
    return s


def ms_exact_us(cap, powers):
    """capacity / max power hours in us, exact rational arithmetic, round-half-even (independent of timedelta)"""
    p = max(F(x) for x in powers)
    x = F(cap) / p * 3600000000
    fl = x.numerator // x.denominator
    r = x - fl
    if r < F(1, 2):
        return fl
    if r > F(1, 2):
        return fl + 1
    return fl if fl % 2 == 0 else fl + 1


def ms_float_us(cap, powers):
    return datetime.timedelta(hours=cap / max(powers)) // US


def type_ok(cap, powers):
    try:
        return ms_exact_us(cap, powers) == ms_float_us(cap, powers)
    except Exception:
        return True     # error cases are compared by kind


# ------------------------------------------------------------------------------------------
# generators

NAMES3 = ["bus", "bus_long", "minibus"]
NAME_POOL = ["bus", "bus_long", "minibus", "long_bus", "bus_1", "bus_1_1", "b", "us", "bus_long_x", "Bus", "van"]
# (capacity, curve powers): standing time in slots 1, 0, 1.5
T_ONE = [50, [100, 100]]
T_ZERO = [0, [22, 11]]
T_ONEHALF = [75, [20, 100, 50]]
CAP_POOL = [(50, [100, 100]), (0, [22]), (75, [20, 100, 50]), (76.36, [22.08, 22.08, 11.0]), (30, [11, 11]),
            (300, [150, 150, 30]), (1, [3]), (100, [3, 7]), (0.5, [0.25, 1.5]), (40.0, [11.0, 11.0, 2.2]),
            (7, [1e-3, 3600]), (121, [3600])]


CAP_POOL_OK = [x for x in CAP_POOL if type_ok(*x)]


_PERMS = {n: list(itertools.permutations(range(n))) for n in range(2, 6)}


def perm_keep_ties(seq, k):
    """table order for a processing sequence: the k-th permutation of the rows, repaired so that
    rows with equal departure keep their relative order (the sort is stable)"""
    n = len(seq)
    if n <= 1:
        return list(seq)
    perms = _PERMS[n]
    table = [seq[e] for e in perms[(k * 7 + 3) % len(perms)]]
    deps = [t[1] for t in table]
    if len(set(deps)) < n:
        for d in set(deps):
            poss = [i for i in range(n) if deps[i] == d]
            if len(poss) > 1:
                for pos, e in zip(poss, [t for t in seq if t[1] == d]):
                    table[pos] = e
    return table


def lattice_sequences(k, ntypes, sane, S=6):
    """all processing sequences of k trips: departures non-decreasing (ties in every order), first
    departure in slot 0, arrival in the lattice (>= departure if sane)"""
    def rec(prefix, mind):
        if len(prefix) == k:
            yield prefix
            return
        deps = [0] if not prefix else range(mind, S)
        for d in deps:
            for a in (range(d, S) if sane else range(S)):
                for ty in range(ntypes):
                    yield from rec(prefix + [(ty, d, a)], d)
    return rec([], 0)


def exhaustive_plan(tier):
    """(names, [type infos], k_full, k_sub, stride, sane): every sequence up to k_full trips, every
    stride-th sequence (offset by the seed) of k_sub trips (0 = none)"""
    if tier == "quick":
        return [
            (["bus"], [T_ONE], 4, 5, 4, True),
            (["bus"], [T_ZERO], 4, 0, 1, True),
            (["bus"], [T_ONEHALF], 4, 0, 1, True),
            (["bus"], [T_ONE], 3, 4, 8, False),
            (["bus", "bus_long"], [T_ONE, T_ZERO], 3, 4, 3, True),
            (["bus_long", "bus"], [T_ONE, T_ONE], 3, 0, 1, True),
            (["minibus", "bus"], [T_ZERO, T_ONEHALF], 3, 0, 1, True),
            (["bus", "bus_long", "minibus"], [T_ONE, T_ONE, T_ZERO], 3, 0, 1, True),
        ]
    return [
        (["bus"], [T_ONE], 5, 0, 1, True),
        (["bus"], [T_ZERO], 5, 0, 1, True),
        (["bus"], [T_ONEHALF], 5, 0, 1, True),
        (["bus"], [T_ONE], 4, 5, 6, False),
        (["bus", "bus_long"], [T_ONE, T_ZERO], 5, 0, 1, True),
        (["bus_long", "bus"], [T_ONE, T_ONE], 3, 4, 2, True),
        (["minibus", "bus"], [T_ZERO, T_ONEHALF], 3, 4, 2, True),
        (["bus", "bus_long"], [T_ZERO, T_ONE], 3, 0, 1, False),
        (["bus", "bus_long", "minibus"], [T_ONE, T_ONE, T_ZERO], 3, 4, 2, True),
    ]


def gen_exhaustive(tier, seed):
    c = 0
    for names, infos, kfull, ksub, stride, sane in exhaustive_plan(tier):
        types = [[n, i[0], i[1]] for n, i in zip(names, infos)]
        for k in range(1, max(kfull, ksub) + 1):
            for seq in lattice_sequences(k, len(names), sane):
                c += 1
                if k > kfull and (c + seed) % stride:
                    continue
                trips = [[names[ty], d * SLOT, a * SLOT] for ty, d, a in seq]
                yield {"types": types, "trips": perm_keep_ties(trips, c + seed)}


def gen_random(tier, seed):
    rnd = random.Random(seed * 7919 + 20)
    n_rand = 6000 if tier == "quick" else 150000
    skipped = 0
    for it in range(n_rand):
        nt = rnd.randint(1, 3)
        style = rnd.random()
        if style < 0.5:
            names = rnd.sample(NAMES3, nt)
        else:
            names = rnd.sample(NAME_POOL, nt)
        types = []
        for nm in names:
            if rnd.random() < 0.7:
                cap, pw = rnd.choice(CAP_POOL)
                pw = list(pw)
            else:
                cap = rnd.choice([rnd.randint(0, 600), rnd.randint(0, 6000) / 10])
                pw = [rnd.choice([rnd.randint(1, 400), rnd.randint(1, 4000) / 10]) for _ in range(rnd.randint(1, 4))]
            if not type_ok(cap, pw):
                skipped += 1
                cap, pw = 50, [100, 100]
            types.append([nm, cap, pw])
        ms = {t[0]: ms_exact_us(t[1], t[2]) // 1000000 for t in types}     # whole seconds (floor), for chaining
        n = rnd.choice([rnd.randint(1, 6), rnd.randint(1, 40), rnd.randint(20, 40)])
        res = rnd.choice([60, 300, 900, 1800, 1])
        span = rnd.choice([6, 24, 48]) * 3600
        trips = []
        for i in range(n):
            ty = rnd.choice(names)
            mode = rnd.random()
            if trips and mode < 0.35:
                # depart exactly at / just around an earlier trip's earliest next departure
                p = rnd.choice(trips)
                dep = p[2] + ms[p[0]] + rnd.choice([-1, 0, 0, 1, 1, res])
                if rnd.random() < 0.5:
                    ty = p[0]
            elif trips and mode < 0.5:
                dep = rnd.choice(trips)[1]          # tie in departure
            else:
                dep = rnd.randrange(0, span, res)
            dep = max(dep, 0)
            dur = rnd.choice([0, res, rnd.randrange(0, 4 * 3600 + 1, res), rnd.randrange(0, 12 * 3600 + 1, res)])
            arr = dep + dur
            if rnd.random() < 0.03:
                arr = max(0, dep - rnd.randrange(0, 3600, res))       # arrives before it departs
            trips.append([ty, dep, arr])
        rnd.shuffle(trips)
        case = {"types": types, "trips": trips}
        if it % 40 == 0:
            case["export"] = 1
        yield case


def gen_malformed(tier, seed):
    rnd = random.Random(seed * 104729 + 5)
    n_bad = 600 if tier == "quick" else 20000
    for it in range(n_bad):
        nt = rnd.randint(1, 3)
        names = rnd.sample(NAME_POOL, nt)
        types = [[nm] + [list(x) if isinstance(x, list) else x for x in rnd.choice(CAP_POOL_OK)] for nm in names]
        kind = rnd.choice(["unknown", "empty_curve", "zero_power", "nonpadded", "negative", "zero_then_empty"])
        n = rnd.randint(1, 8)
        trips = []
        for i in range(n):
            dep = rnd.randrange(0, 24 * 3600, 900)
            trips.append([rnd.choice(names), dep, dep + rnd.randrange(0, 6 * 3600, 900)])
        case = {"types": types, "trips": trips, "bad": 1}
        if kind == "unknown":
            trips[rnd.randrange(n)][0] = rnd.choice(["tram", "bu", "bus_lon", names[0] + "_1", "bus_long_1"])
        elif kind == "empty_curve":
            types[rnd.randrange(nt)][2] = []
        elif kind == "zero_power":
            types[rnd.randrange(nt)][2] = rnd.choice([[0], [0, 0], [0.0, -1], [-5, 0]])
        elif kind == "zero_then_empty":
            # the station-power comprehension runs over all types before any division: ValueError wins
            types.insert(0, ["tram", 10, [0]])
            types.append(["ferry", 10, []])
            if rnd.random() < 0.5:
                trips[0][0] = "nosuchtype"
        elif kind == "negative":
            t = types[rnd.randrange(nt)]
            t[1], t[2] = rnd.choice([(-50, [100]), (50, [-100, -50]), (-25, [100, 50])])
        else:
            case["nonpadded"] = 1
        yield case


def gen_cases(tier, seed):
    # a few fixed regression tables first (the two historical defects and the suite's template shape)
    yield {"types": [["bus", 50, [100, 100]], ["bus_long", 50, [100, 100]]],
           "trips": [["bus_long", 6 * 3600, 7 * 3600], ["bus", 9 * 3600, 10 * 3600]]}
    yield {"types": [["bus", 0, [100]]],
           "trips": [["bus", 21600, 28800], ["bus", 22200, 32400], ["bus", 30600, 34200]]}
    yield from gen_random(tier, seed)
    yield from gen_malformed(tier, seed)
    yield from gen_exhaustive(tier, seed)


# ------------------------------------------------------------------------------------------
# evaluation

def build_inputs(case):
    padded = not case.get("nonpadded")
    vehicle_types = {}
    for name, cap, pw in case["types"]:
        n = len(pw)
        curve = [[(i / (n - 1)) if n > 1 else 0, p] for i, p in enumerate(pw)]
        vehicle_types[name] = {"name": name, "capacity": cap, "mileage": 100, "charging_curve": curve,
                               "min_charging_power": 0.1, "v2g": False}
    rows = []
    for ty, dep, arr in case["trips"]:
        rows.append({"departure_time": tstr(dep, padded), "arrival_time": tstr(arr, padded),
                     "vehicle_type": ty, "soc": "0.5"})
    return vehicle_types, rows


def proto_line(case, rows):
    keys = sorted(set(r["departure_time"] for r in rows))
    rank = {s: i for i, s in enumerate(keys)}
    parts = ["gencsv", str(len(case["types"]))]
    for name, cap, pw in case["types"]:
        parts += [name, str(F(cap)), str(len(pw))] + [str(F(p)) for p in pw]
    parts.append(str(len(rows)))
    for (ty, dep, arr), r in zip(case["trips"], rows):
        parts += [ty, str(rank[r["departure_time"]]), str(dep * 1000000), str(arr * 1000000)]
    return " ".join(parts)


def oracle(case, rows, viol, stats):
    """the property's sentences on the returned table (rows carry vehicle_id)"""
    types = {t[0]: t for t in case["types"]}
    ms = {n: ms_exact_us(t[1], t[2]) for n, t in types.items()}
    trips = []
    for i, ((ty, dep, arr), r) in enumerate(zip(case["trips"], rows)):
        trips.append({"i": i, "ty": ty, "dep": dep * 1000000, "arr": arr * 1000000, "key": r["departure_time"],
                      "v": r.get("vehicle_id")})
    if any(t["v"] is None for t in trips):
        viol.append(("assigned", "C20:row_without_vehicle_id", str([t["i"] for t in trips if t["v"] is None])))
        return False
    sane = all(t["dep"] <= t["arr"] for t in trips)
    order = sorted(trips, key=lambda t: (t["key"], t["i"]))      # processing order: by departure, ties in table order
    by_v = {}
    for t in order:
        by_v.setdefault(t["v"], []).append(t)
    # 1+2: all pairs of one vehicle
    for v, ts in by_v.items():
        for a, b in itertools.combinations(ts, 2):
            if not (a["arr"] < b["dep"] or b["arr"] < a["dep"]):
                viol.append(("no_overlap", "C20:overlap", "%s serves rows %d and %d" % (v, a["i"], b["i"])))
            elif not (a["arr"] + ms[a["ty"]] < b["dep"] or b["arr"] + ms[b["ty"]] < a["dep"]):
                viol.append(("min_standing", "C20:min_standing",
                             "%s rows %d, %d closer than %d us" % (v, a["i"], b["i"], ms[a["ty"]])))
    # 3: one type per vehicle
    for v, ts in by_v.items():
        own = ts[0]["ty"]
        for t in ts[1:]:
            if t["ty"] != own:
                key = "C20:substring_type_match" if t["ty"] in v else "C20:type_mixed"
                viol.append(("type_pure", key, "%s created for %s serves a %s trip (row %d)" % (v, own, t["ty"], t["i"])))
                break
    # 4+5: replay in processing order
    own_type, last_mdt = {}, {}
    appended_at_end = False
    for b in order:
        v = b["v"]
        idle = [w for w, ty in own_type.items() if ty == b["ty"] and last_mdt[w] < b["dep"]]
        if v not in own_type:
            if idle:
                key = "C20:queue_insert_index" if appended_at_end else "C20:new_vehicle_while_idle"
                viol.append(("frugal_new", key, "row %d gets new %s although %s idle since %d us"
                             % (b["i"], v, idle[0], last_mdt[idle[0]])))
            own_type[v] = b["ty"]
            stats.append("new_vehicle")
        else:
            stats.append("reuse")
            if sane and v in idle:
                better = [w for w in idle if last_mdt[w] < last_mdt[v]]
                if better:
                    viol.append(("fifo", "C20:fifo_order",
                                 "row %d reuses %s (free since %d) although %s is free since %d"
                                 % (b["i"], v, last_mdt[v], better[0], last_mdt[better[0]])))
                if len(idle) > 1:
                    stats.append("fifo_choice")
        m = b["arr"] + ms[b["ty"]]
        busy = [last_mdt[w] for w in last_mdt if w != v and last_mdt[w] >= b["dep"]]
        if busy and m > max(busy):
            appended_at_end = True
            stats.append("insert_at_end_nonempty")
        elif busy and m <= min(busy):
            stats.append("insert_at_front")
        elif busy:
            stats.append("insert_middle")
        if any(x == m for x in busy):
            stats.append("insert_tie")
        if any(last_mdt[w] == b["dep"] for w in last_mdt if w != v):
            stats.append("boundary_dep_eq_mdt")
        last_mdt[v] = m
    if not sane:
        stats.append("arrival_before_departure")
    if len(set(t["dep"] for t in trips)) < len(trips):
        stats.append("tie_in_departure")
    per_type = {}
    for w, ty in own_type.items():
        per_type[ty] = per_type.get(ty, 0) + 1
    return len(by_v) < len(trips) or max(per_type.values()) > 1


def eval_case(case):
    from spice_ev.generate import generate_from_csv as g
    vehicle_types, rows = build_inputs(case)
    line = proto_line(case, rows)
    viol, stats = [], []
    export = None
    if case.get("export"):
        fd, export = tempfile.mkstemp(suffix=".csv", prefix="c20_")
        os.close(fd)
    try:
        out = g.assign_vehicle_id(rows, vehicle_types, export)
        cells = []
        for r in out:
            cells.append("%s %d" % (r["vehicle_id"], (r["min_departure_time"] - BASE) // US))
        impl = " ".join([str(len(out))] + cells)
        ok = True
    except Exception as e:
        impl = "!" + type(e).__name__
        out, ok = None, False
    nontrivial = False
    if case.get("bad"):
        stats.append("malformed:" + impl if not ok else "malformed:ok")
    else:
        stats.append("types=%d" % len(case["types"]))
        if not ok:
            viol.append(("total", "C20:raises_on_valid_table", impl))
        else:
            want = [(ty, tstr(d), tstr(a)) for ty, d, a in case["trips"]]
            if [(r["vehicle_type"], r["departure_time"], r["arrival_time"]) for r in out] != want:
                viol.append(("rows", "C20:table_rows_changed", "returned table is not the input table in table order"))
            nontrivial = oracle(case, out, viol, stats)
            if export:
                import csv
                with open(export, newline="") as f:
                    back = list(csv.DictReader(f))
                if [r["vehicle_id"] for r in back] != [r["vehicle_id"] for r in out] or \
                        [r["departure_time"] for r in back] != [r["departure_time"] for r in rows]:
                    viol.append(("export", "C20:export_differs", "exported vehicle_id column != returned column"))
                stats.append("export_readback")
    if export:
        try:
            os.unlink(export)
        except OSError:
            pass
    return {"lines": [line], "impl": [impl], "violations": viol, "nontrivial": nontrivial, "stats": stats}
