import sys, json, pathlib, time, faulthandler
REPO = "/tmp/w3/loopfuel/repo"
sys.path.insert(0, REPO)
from spice_ev import scenario
mode = sys.argv[1]
fname = sys.argv[2] if len(sys.argv) > 2 else "scenario_A.json"
inp = pathlib.Path(REPO) / "tests/test_data/input_test_strategies" / fname
d = json.load(open(inp))
for gid, gc in d["components"]["grid_connectors"].items():
    print("gc", gid, {k: v for k, v in gc.items() if k != "cost"})
    if mode == "inf":
        gc["max_power"] = float("inf")
    elif mode == "big":
        gc["max_power"] = 1e11
faulthandler.dump_traceback_later(int(sys.argv[3]) if len(sys.argv) > 3 else 60, exit=True)
t = time.time()
s = scenario.Scenario(d, inp.parent)
s.run("peak_load_window", {"time_windows": pathlib.Path(REPO) / "tests/test_data/input_test_strategies/time_windows_example.json"})
print("done", mode, s.step_i, s.n_intervals, "%.1fs" % (time.time() - t))
