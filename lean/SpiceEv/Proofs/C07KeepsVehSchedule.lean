/-
C07 — VEHICLE frame of the `schedule` strategy's own step (`Sched.step`, Model/StratSchedule.lean): the step changes a
vehicle only through its battery.  The invariant `KeepsVeh.VInv K ids0` (Proofs/C07KeepsVeh.lean) is threaded through
every function of the model that returns a world.  Purely structural, instance-free (the typeclass context is the one
of the model's section: plain operations, no algebraic axioms), no extra hypotheses.  Same control flow as
Proofs/C07KeepsSchedule.lean.

All `setVehicle` of the model are `w.setVehicle { v with bat := bat' }` (in `commit` and twice in `v2gApply`), and in
every caller `v` is the record found in the CURRENT world (`st.1.vehicle? v0.id = some v` in `indVehicle` / `acVehicle`,
`getVehicle w id = .ok v` in `excessVehicle` / `csLoop` / `cvVehicle` / `v2gVehicle`): the loops iterate over ids (or
re-look the loop vehicle up by id), never over carried records; the simulations (`simSchedule`, `simBalanced`, `sbLoop`,
`v2gSim…`) work on battery values only and return numbers.  So the written record has the key of a record of the world
(`vehKey_bat`, `VInv.key_of_vehicle?`).

Covered (one lemma each): `commit`, `indVehicle`, `chargeIndividually`, `utilBattery`, `utilizeBatteries`,
`excessVehicle`, `csLoop`, `dcExcess`, `dcOnSchedule`, `duringCst`, `cvVehicle`, `cvGroup`, `chargeVehicles`,
`acVehicle`, `afterCst`, `v2gApply`, `v2gVehicle`, `v2gCst`, `step`.
(`csRetry`, `dcRemaining`, `dcClose`, `evaluate` return no world.)
-/
import SpiceEv.Proofs.C07KeepsVeh
import SpiceEv.Model.StratSchedule
set_option linter.unusedSectionVars false
set_option linter.unusedSimpArgs false
set_option linter.unusedVariables false
namespace SpiceEv
namespace KeepsVeh
namespace Sched
open SpiceEv.Sched

variable {α B : Type} [Add α] [Sub α] [Mul α] [Div α] [Neg α] [LT α] [LE α]
  [DecidableLT α] [DecidableLE α] [OfNat α 0] [OfNat α 1] [OfNat α 2] [NatCast α] [IntCast α]
variable {K : List (String × Option String × α × Option Int × α × Bool × α)} {ids0 : List String}

/-! ### lookups -/

theorem getVehicle_key {w : SWorld α B} (hi : VInv K ids0 w) {id : String} {v : VehicleS α B}
    (h : getVehicle w id = .ok v) : vehKey v ∈ K := by
  unfold getVehicle at h
  split at h
  · rename_i v' hv; cases h; exact VInv.key_of_vehicle? hi hv
  · cases h

/-! ### `commit` -/

theorem commit_vinv (w : SWorld α B) (cmds : List (String × α)) (v : VehicleS α B) (bat' : B)
    (cs : StationS α) (gc : GcS α) (csId : String) (avg : α) (hi : VInv K ids0 w) (hk : vehKey v ∈ K) :
    VInv K ids0 (commit w cmds v bat' cs gc csId avg).1 := by
  unfold commit
  exact VInv.setStation (VInv.setGc (VInv.setBat hi hk _) _) _

/-! ### individual mode -/

theorem indVehicle_vinv (ops : Ops α B) (env : Env α)
    (st st' : SWorld α B × List (String × α) × Option α) (v0 : VehicleS α B)
    (hi : VInv K ids0 st.1) (h : indVehicle ops env st v0 = .ok st') : VInv K ids0 st'.1 := by
  unfold indVehicle at h
  split at h
  · cases h; exact hi
  · rename_i v hv
    have hk : vehKey v ∈ K := VInv.key_of_vehicle? hi hv
    split at h
    · cases h; exact hi
    · rename_i csId _
      split at h
      · cases h
      · rename_i cs hcs
        split at h
        · cases h
        · rename_i gc hgc
          split at h
          · cases h
          · split at h
            · cases h
            · split at h
              · cases h
              · cases h
              · dsimp only at h
                split at h
                · cases h
                · cases h
                  exact commit_vinv _ st.2.1 _ _ _ _ _ _ hi hk

theorem chargeIndividually_vinv (ops : Ops α B) (env : Env α) (w w' : SWorld α B)
    (cmds : List (String × α)) (hi : VInv K ids0 w)
    (h : chargeIndividually ops env w = .ok (w', cmds)) : VInv K ids0 w' := by
  unfold chargeIndividually at h
  simp only [bind, Except.bind, pure, Except.pure] at h
  split at h
  · cases h
  · rename_i r hr
    simp only [Except.ok.injEq, Prod.mk.injEq] at h
    obtain ⟨rfl, -⟩ := h
    exact foldlM_inv _ (fun (s : SWorld α B × List (String × α) × Option α) => VInv K ids0 s.1)
      (fun s v s' hs hf => indVehicle_vinv ops env s s' v hs hf) _ _ _ hi hr

/-! ### stationary batteries -/

theorem utilBattery_vinv (ops : Ops α B) (env : Env α) (w w' : SWorld α B) (b0 : StatBatS α B)
    (hi : VInv K ids0 w) (h : utilBattery ops env w b0 = .ok w') : VInv K ids0 w' := by
  unfold utilBattery at h
  split at h
  · cases h; exact hi
  · rename_i b hb
    split at h
    · cases h
    · rename_i gc hgc
      split at h
      · cases h
      · split at h
        · cases h; exact hi
        · dsimp only at h
          split at h
          · split at h
            · cases h
            · cases h
              exact VInv.setGc (VInv.setBattery hi _) _
          · split at h
            · split at h
              · cases h
              · cases h
                exact VInv.setGc (VInv.setBattery hi _) _
            · cases h
              exact VInv.setGc hi _

theorem utilizeBatteries_vinv (ops : Ops α B) (env : Env α) (w w' : SWorld α B)
    (hi : VInv K ids0 w) (h : utilizeBatteries ops env w = .ok w') : VInv K ids0 w' := by
  unfold utilizeBatteries at h
  exact foldlM_inv _ (fun (s : SWorld α B) => VInv K ids0 s)
    (fun s b s' hs hf => utilBattery_vinv ops env s s' b hs hf) _ _ _ hi h

/-- `step` in individual mode -/
theorem step_vinv_individual (ops : Ops α B) (env : Env α) (hc : env.collective = false)
    (w w' : SWorld α B) (st st' : CState α) (cmds : List (String × α)) (hi : VInv K ids0 w)
    (h : step ops env w st = .ok (w', st', cmds)) : VInv K ids0 w' := by
  unfold step at h
  simp only [hc, Bool.false_eq_true, if_false, bind, Except.bind, pure, Except.pure] at h
  split at h
  · cases h
  · rename_i r hr
    split at hr
    · cases hr
    · rename_i r1 hr1
      simp only [Except.ok.injEq] at hr
      subst hr
      split at h
      · cases h
      · rename_i w2 hw2
        simp only [Except.ok.injEq, Prod.mk.injEq] at h
        obtain ⟨rfl, -, -⟩ := h
        have i1 : VInv K ids0 r1.1 :=
          chargeIndividually_vinv ops env _ r1.1 r1.2 (VInv.resetStations hi) (by rw [hr1])
        exact utilizeBatteries_vinv ops env _ _ i1 hw2

/-! ### collective mode: inside the core standing time -/

theorem excessVehicle_vinv (ops : Ops α B) (env : Env α) (dt : Int)
    (st st' : SWorld α B × List (String × α) × List (String × α)) (kv : String × α)
    (hi : VInv K ids0 st.1) (h : excessVehicle ops env dt st kv = .ok st') : VInv K ids0 st'.1 := by
  unfold excessVehicle at h
  simp only [bind, Except.bind] at h
  split at h
  · cases h
  · rename_i v hv
    have hk : vehKey v ∈ K := getVehicle_key hi hv
    split at h
    · cases h; exact hi
    · rename_i csId _
      split at h
      · cases h
      · rename_i cs hcs
        split at h
        · cases h
        · rename_i gc hgc
          split at h
          · cases h
          · split at h
            · cases h
            · split at h
              · cases h
              · cases h
                exact commit_vinv _ st.2.2 _ _ _ _ _ _ hi hk

theorem csLoop_vinv (ops : Ops α B) (env : Env α) (fraction : α) (nVeh : Nat)
    (gid : String) (fuel i : Nat) (q lo : List (String × α)) (extra rem : α) (w : SWorld α B)
    (cmds : List (String × α)) (r : SWorld α B × List (String × α)) (hi : VInv K ids0 w)
    (h : csLoop ops env fraction nVeh gid fuel i q lo extra rem w cmds = .ok r) : VInv K ids0 r.1 := by
  induction fuel generalizing i q lo extra rem w cmds with
  | zero =>
    cases q with
    | nil => unfold csLoop at h; cases h; exact hi
    | cons x xs => unfold csLoop at h; cases h
  | succ f ih =>
    cases q with
    | nil => unfold csLoop at h; cases h; exact hi
    | cons x xs =>
      obtain ⟨vid, en⟩ := x
      unfold csLoop at h
      split at h
      · cases h
      · rename_i v hv
        have hk : vehKey v ∈ K := getVehicle_key hi hv
        split at h
        · exact ih _ _ _ _ _ _ _ hi h
        · rename_i csId _
          split at h
          · cases h
          · rename_i cs hcs
            split at h
            · cases h
            · rename_i gc hgc
              simp only at h
              split at h
              · cases h
              · rename_i res hres
                have hc := commit_vinv w cmds v res.1 cs gc csId res.2.1 hi hk
                split at h
                · cases h; exact hc
                · split at h
                  · cases h; exact hc
                  · split at h
                    · exact ih _ _ _ _ _ _ _ hc h
                    · exact ih _ _ _ _ _ _ _ hc h

theorem dcExcess_vinv (ops : Ops α B) (env : Env α) (w : SWorld α B) (st : CState α) (dtEnd : Int)
    (tsCharge : Nat) (r : SWorld α B × CState α × List (String × α)) (hi : VInv K ids0 w)
    (h : dcExcess ops env w st dtEnd tsCharge = .ok r) : VInv K ids0 r.1 := by
  unfold dcExcess at h
  simp only at h
  split at h
  · cases h
  · rename_i r2 hr2
    cases h
    exact foldlM_inv _ (fun (s : SWorld α B × List (String × α) × List (String × α)) => VInv K ids0 s.1)
      (fun s kv s' hs hf => excessVehicle_vinv ops env _ s s' kv hs hf) _ _ _ hi hr2

theorem dcOnSchedule_vinv (ops : Ops α B) (env : Env α) (w : SWorld α B) (st : CState α) (p : α)
    (r : SWorld α B × CState α × List (String × α)) (hi : VInv K ids0 w)
    (h : dcOnSchedule ops env w st p = .ok r) : VInv K ids0 r.1 := by
  unfold dcOnSchedule at h
  simp only at h
  split at h
  · cases h
  · split at h
    · cases h
    · split at h
      · cases h
      · split at h
        · cases h
        · split at h
          · cases h
          · rename_i res hres
            cases h
            exact csLoop_vinv ops env _ _ _ _ _ _ _ _ _ w [] res hi hres

theorem duringCst_vinv (ops : Ops α B) (env : Env α) (w : SWorld α B) (st : CState α)
    (r : SWorld α B × CState α × List (String × α)) (hi : VInv K ids0 w)
    (h : duringCst ops env w st = .ok r) : VInv K ids0 r.1 := by
  unfold duringCst at h
  split at h
  · cases h
  · simp only at h
    split at h
    · cases h
    · split at h
      · cases h
      · rename_i r1 hr1
        cases h
        simp only
        split at hr1
        · exact dcExcess_vinv ops env w _ _ _ r1 hi hr1
        · exact dcOnSchedule_vinv ops env w _ _ r1 hi hr1

/-! ### collective mode: outside the core standing time -/

theorem cvVehicle_vinv (ops : Ops α B) (env : Env α) (gid : String)
    (st st' : SWorld α B × List (String × α)) (kid : α × String)
    (hi : VInv K ids0 st.1) (h : cvVehicle ops env gid st kid = .ok st') : VInv K ids0 st'.1 := by
  unfold cvVehicle at h
  split at h
  · cases h
  · rename_i v hv
    have hk : vehKey v ∈ K := getVehicle_key hi hv
    split at h
    · cases h
    · rename_i csId _
      split at h
      · cases h
      · rename_i cs hcs
        split at h
        · cases h
        · rename_i gc hgc
          split at h
          · cases h
          · cases h
            exact commit_vinv _ st.2 _ _ _ _ _ _ hi hk

theorem cvGroup_vinv (ops : Ops α B) (env : Env α)
    (st st' : SWorld α B × List (String × α)) (grp : String × List String)
    (hi : VInv K ids0 st.1) (h : cvGroup ops env st grp = .ok st') : VInv K ids0 st'.1 := by
  unfold cvGroup at h
  split at h
  · cases h
  · split at h
    · cases h
    · split at h
      · cases h
      · split at h
        · cases h
        · split at h
          · cases h; exact hi
          · exact foldlM_inv _ (fun (s : SWorld α B × List (String × α)) => VInv K ids0 s.1)
              (fun s kid s' hs hf => cvVehicle_vinv ops env grp.1 s s' kid hs hf) _ _ _ hi h

theorem chargeVehicles_vinv (ops : Ops α B) (env : Env α) (w w' : SWorld α B)
    (cmds : List (String × α)) (hi : VInv K ids0 w)
    (h : chargeVehicles ops env w = .ok (w', cmds)) : VInv K ids0 w' := by
  unfold chargeVehicles at h
  split at h
  · cases h
  · exact foldlM_inv _ (fun (s : SWorld α B × List (String × α)) => VInv K ids0 s.1)
      (fun s g s' hs hf => cvGroup_vinv ops env s s' g hs hf) _ (w, []) (w', cmds) hi h

theorem acVehicle_vinv (ops : Ops α B) (env : Env α) (gid : String)
    (s s' : SWorld α B × List (String × α)) (v0 : VehicleS α B)
    (hi : VInv K ids0 s.1) (h : acVehicle ops env gid s v0 = .ok s') : VInv K ids0 s'.1 := by
  unfold acVehicle at h
  split at h
  · cases h; exact hi
  · rename_i v hv
    have hk : vehKey v ∈ K := VInv.key_of_vehicle? hi hv
    split at h
    · cases h; exact hi
    · rename_i csId _
      split at h
      · cases h
      · rename_i cs hcs
        split at h
        · cases h
        · split at h
          · cases h
          · rename_i gc hgc
            split at h
            · cases h
            · split at h
              · cases h
              · split at h
                · cases h
                · cases h
                  exact commit_vinv _ s.2 _ _ _ _ _ _ hi hk

theorem afterCst_vinv (ops : Ops α B) (env : Env α) (w : SWorld α B) (st : CState α)
    (cmds : List (String × α)) (r : SWorld α B × CState α × List (String × α)) (hi : VInv K ids0 w)
    (h : afterCst ops env w st cmds = .ok r) : VInv K ids0 r.1 := by
  unfold afterCst at h
  split at h
  · cases h
  · split at h
    · cases h
    · simp only at h
      split at h
      · cases h; exact hi
      · split at h
        · cases h; exact hi
        · split at h
          · cases h
          · rename_i r2 hr2
            cases h
            exact foldlM_inv _ (fun (s : SWorld α B × List (String × α)) => VInv K ids0 s.1)
              (fun s v s' hs hf => acVehicle_vinv ops env _ s s' v hs hf) _ (w, cmds) r2 hi hr2

/-! ### the V2G pass -/

theorem v2gApply_vinv (ops : Ops α B) (env : Env α) (chargeNow : Bool)
    (w : SWorld α B) (cmds : List (String × α)) (v : VehicleS α B) (cs : StationS α) (gc : GcS α)
    (csId : String) (mdp : α) (dl : Option α) (total : α) (r : SWorld α B × List (String × α))
    (hi : VInv K ids0 w) (hk : vehKey v ∈ K)
    (h : v2gApply ops env chargeNow w cmds v cs gc csId mdp dl total = .ok r) : VInv K ids0 r.1 := by
  unfold v2gApply at h
  split at h
  · split at h
    · cases h
    · cases h
      exact VInv.setStation (VInv.setGc (VInv.setBat hi hk _) _) _
  · split at h
    · cases h
    · cases h
      exact VInv.setStation (VInv.setGc (VInv.setBat hi hk _) _) _

theorem v2gVehicle_vinv (ops : Ops α B) (env : Env α) (gid : String) (chargeNow : Bool)
    (chargeWindow : List Bool) (issues : List String)
    (st st' : SWorld α B × List (String × α) × Option α) (vid : String) (hi : VInv K ids0 st.1)
    (h : v2gVehicle ops env gid chargeNow chargeWindow issues st vid = .ok st') : VInv K ids0 st'.1 := by
  unfold v2gVehicle at h
  split at h
  · cases h; exact hi
  · split at h
    · cases h
    · rename_i v hv
      have hk : vehKey v ∈ K := getVehicle_key hi hv
      split at h
      · cases h
      · rename_i csId _
        split at h
        · cases h
        · rename_i cs hcs
          split at h
          · cases h
          · simp only at h
            split at h
            · cases h
            · rename_i gc hgc
              split at h
              · cases h
              · split at h
                · cases h
                · cases h; exact hi
                · split at h
                  · cases h
                  · split at h
                    · cases h
                    · rename_i r hr
                      cases h
                      exact v2gApply_vinv ops env chargeNow st.1 st.2.1 _ cs gc csId _ _ _ r hi hk hr

theorem v2gCst_vinv (ops : Ops α B) (env : Env α) (w : SWorld α B) (st : CState α)
    (cmds : List (String × α)) (r : SWorld α B × CState α × List (String × α)) (hi : VInv K ids0 w)
    (h : v2gCst ops env w st cmds = .ok r) : VInv K ids0 r.1 := by
  unfold v2gCst at h
  simp only [bind, Except.bind] at h
  split at h
  · cases h
  · split at h
    · cases h
    · split at h
      · cases h
      · rename_i r2 hr2
        cases h
        exact foldlM_inv _ (fun (s : SWorld α B × List (String × α) × Option α) => VInv K ids0 s.1)
          (fun s vid s' hs hf => v2gVehicle_vinv ops env _ _ _ _ s s' vid hs hf) _ (w, cmds, none) r2 hi hr2

/-! ### `step` -/

/-- **schedule.**  The step keeps the vehicle invariant: a vehicle is changed only through its battery. -/
theorem step_vinv (ops : Sched.Ops α B) (env : Sched.Env α) (w w' : SWorld α B) (st st' : Sched.CState α)
    (cmds : List (String × α)) (hi : VInv K ids0 w)
    (h : Sched.step ops env w st = .ok (w', st', cmds)) : VInv K ids0 w' := by
  cases hc : env.collective with
  | false => exact step_vinv_individual ops env hc w w' st st' cmds hi h
  | true =>
    unfold step at h
    simp only [hc, if_true, bind, Except.bind, pure, Except.pure] at h
    have hi0 : VInv K ids0 (resetStations w) := VInv.resetStations hi
    split at h
    · cases h
    · rename_i r hr
      have hir : VInv K ids0 r.1 := by
        split at hr
        · cases hr
        · split at hr
          · -- inside the core standing time
            split at hr
            · cases hr
            · rename_i st1 _
              split at hr
              · cases hr
              · rename_i r2 hr2
                have i2 := duringCst_vinv ops env _ st1 r2 hi0 hr2
                split at hr
                · exact v2gCst_vinv ops env r2.1 r2.2.1 r2.2.2 r i2 hr
                · cases hr; exact i2
          · -- outside
            split at hr
            · cases hr
            · rename_i r1 hr1
              have i1 : VInv K ids0 r1.1 := chargeVehicles_vinv ops env _ r1.1 r1.2 hi0 (by rw [hr1])
              split at hr
              · exact afterCst_vinv ops env r1.1 st r1.2 r i1 hr
              · cases hr; exact i1
      split at h
      · cases h
      · rename_i w2 hw2
        simp only [Except.ok.injEq, Prod.mk.injEq] at h
        obtain ⟨rfl, -, -⟩ := h
        exact utilizeBatteries_vinv ops env r.1 _ hir hw2

/-- the vehicle frame of `Sched.step` relative to the vehicles of the world before the step -/
theorem step_vkeeps (ops : Sched.Ops α B) (env : Sched.Env α) (w w' : SWorld α B) (st st' : Sched.CState α)
    (cmds : List (String × α)) (h : Sched.step ops env w st = .ok (w', st', cmds)) :
    VehKeeps (w.vehicles.map vehKey) (w.vehicles.map (·.id)) w'.vehicles :=
  step_vinv ops env w w' st st' cmds (VInv.init w) h

end Sched
end KeepsVeh
end SpiceEv
