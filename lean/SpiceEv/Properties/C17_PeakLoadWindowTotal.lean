/-
C17 — termination of the WHOLE step of `peak_load_window` (model: Model/StratPeakLoadWindow.lean,
`PeakLoadWindow.stepGc` = `step_gc`, `PeakLoadWindow.step` = `step`): the model never answers with its own
"out of fuel" marker `PyErr.fuel` — it returns a value or a Python exception — under explicit hypotheses on the
battery operations, the environment and the INITIAL world only.

The three fuel-guarded loops and what the model gives them (see Proofs/StratPeakLoadWindowTotal.lean):
  * window-change scan      — fuel `scanFuel env` (steps to `stop_time` + 2): enough iff `0 < env.interval`;
  * search (varying curves) — fuel `searchFuel` = 8, `step = (max − balanced)/3`: always enough;
  * bisection               — fuel `env.bisectFuel`, bracket `[min ts.power, max ts.max_power]` over
                              `connected_ts = timesteps[:depart_idx]`; `timesteps` is the prognosis of the connector
                              (`buildTimesteps`: event table applied to `gc.current_loads` / `gc.cur_max_power`) plus the
                              levels planned for the vehicles handled before.  Those levels are `avg_power` results of
                              `battery.load`, non-negative under the battery law `BatLaw`; so a box `L ≤ power`,
                              `max_power ≤ H` around every prognosis of the INITIAL connector bounds every bracket, and
                              `H − L ≤ 2^bisectFuel · EPS` is the bound hypothesis.
The per-loop statements are in Properties/C17_PeakLoadWindow.lean; here they are propagated through every bind, fold and
recursion of `step_gc` and through the connector loop of `step` (which needs that connector ids are distinct, as dict keys
are: `step_gc` rewrites the entries with its own id only, so every later connector is still the initial one).
-/
import SpiceEv.Proofs.StratPeakLoadWindowTotal
set_option linter.unusedSectionVars false
namespace SpiceEv
open SpiceEv.PeakLoadWindow
variable {α B : Type} [Field α] [LinearOrder α] [IsStrictOrderedRing α]

/-- **`step_gc` never answers FUEL.**  Hypotheses: (i) the battery operations never answer FUEL (`OpsNoFuel`) and obey
the battery law (`BatLaw`: `avg_power ≥ 0` is what is used — planned levels only raise the prognosis);
(ii) `0 < EPS`; (iii) scan: `0 < interval`; bisection: for the connector `g` there is a box `[L, H]` of height
`≤ 2^bisectFuel · EPS` around (`power`, `max_power`) of every timestep of every prognosis
`[[]] + events[event_idx : event_idx + k]` applied to (`g.current_loads`, `g.cur_max_power`), whatever the
look-ahead `k` (the window flags, i.e. `seasons` / `level`, do not enter `power` / `max_power`). -/
theorem C17_peak_load_window_stepGc_total (ops : BatOps α B) (hf : OpsNoFuel ops) (law : BatLaw ops)
    (env : PEnv α) (heps : 0 < env.eps) (hint : 0 < env.interval) (w : PWorld α B) (g : PGc α) (level : String)
    (hbr : ∃ L H : α, H - L ≤ (2 : α) ^ env.bisectFuel * env.eps ∧
      ∀ (seasons : List Season) (level : String) (k : Int),
        ∀ t ∈ buildTimesteps env seasons level g.gc.id
            ([] :: pySlice env.events (floorDiv (env.now.instant - env.start) env.interval + 1)
              (floorDiv (env.now.instant - env.start) env.interval + 1 + k))
            (env.now.add (-env.interval)) (g.gc.loads, g.gc.curMax),
          L ≤ t.power ∧ t.maxPower ≤ H) :
    stepGc ops env w g level ≠ .error .fuel :=
  stepGc_noFuel ops hf law env heps hint w g level hbr

/-- **the whole `step` never answers FUEL.**  As above, with the box hypothesis for every connector of the INITIAL
world, and pairwise distinct connector ids (keys of the dict `grid_connectors`). -/
theorem C17_peak_load_window_step_total (ops : BatOps α B) (hf : OpsNoFuel ops) (law : BatLaw ops)
    (env : PEnv α) (heps : 0 < env.eps) (hint : 0 < env.interval) (w : PWorld α B)
    (hids : w.gcs.Pairwise (fun a b => a.gc.id ≠ b.gc.id))
    (hbr : ∀ g ∈ w.gcs, ∃ L H : α, H - L ≤ (2 : α) ^ env.bisectFuel * env.eps ∧
      ∀ (seasons : List Season) (level : String) (k : Int),
        ∀ t ∈ buildTimesteps env seasons level g.gc.id
            ([] :: pySlice env.events (floorDiv (env.now.instant - env.start) env.interval + 1)
              (floorDiv (env.now.instant - env.start) env.interval + 1 + k))
            (env.now.add (-env.interval)) (g.gc.loads, g.gc.curMax),
          L ≤ t.power ∧ t.maxPower ≤ H) :
    step ops env w ≠ .error .fuel :=
  step_noFuel ops hf law env heps hint w hids hbr

/-- **the box from an invariant.**  Any property `Q` of the pair (`cur_loads`, `cur_max_power`) that holds for the
connector, is kept by every event of the table (`applyEvent` = the `for event in event_list` body) and implies
`L ≤ sum(cur_loads.values())`, `cur_max_power ≤ H`, discharges the box hypothesis of the two theorems above. -/
theorem C17_peak_load_window_box_of_invariant (env : PEnv α) (g : PGc α) (L H : α)
    (Q : List (String × α) × α → Prop) (h0 : Q (g.gc.loads, g.gc.curMax))
    (hstep : ∀ evs ∈ env.events, ∀ e ∈ evs, ∀ st, Q st → Q (applyEvent g.gc.id st e))
    (hbox : ∀ st, Q st → L ≤ sumLoads env st.1 ∧ st.2 ≤ H)
    (seasons : List Season) (level : String) (k : Int) :
    ∀ t ∈ buildTimesteps env seasons level g.gc.id
        ([] :: pySlice env.events (floorDiv (env.now.instant - env.start) env.interval + 1)
          (floorDiv (env.now.instant - env.start) env.interval + 1 + k))
        (env.now.add (-env.interval)) (g.gc.loads, g.gc.curMax),
      L ≤ t.power ∧ t.maxPower ≤ H :=
  prognosis_box env g L H Q h0 hstep hbox seasons level k

/-- **`step` never answers FUEL, primitive form**: when no event of the table concerns a connector of the world (no
local generation / fixed load there, no operator signal with a `max_power`), the bracket of every bisection lies in
`[sum(gc.current_loads), gc.cur_max_power]`, and the hypothesis is `cur_max_power − sum(current_loads) ≤
2^bisectFuel · EPS` for every connector of the initial world. -/
theorem C17_peak_load_window_step_total_quiet (ops : BatOps α B) (hf : OpsNoFuel ops) (law : BatLaw ops)
    (env : PEnv α) (heps : 0 < env.eps) (hint : 0 < env.interval) (w : PWorld α B)
    (hids : w.gcs.Pairwise (fun a b => a.gc.id ≠ b.gc.id))
    (hq : ∀ g ∈ w.gcs, ∀ evs ∈ env.events, ∀ e ∈ evs, ¬ Ev.concerns g.gc.id e)
    (hbr : ∀ g ∈ w.gcs, g.gc.curMax - sumLoads env g.gc.loads ≤ (2 : α) ^ env.bisectFuel * env.eps) :
    step ops env w ≠ .error .fuel :=
  step_noFuel ops hf law env heps hint w hids (fun g hg => bracket_of_quiet env g (hq g hg) (hbr g hg))

/-- non-vacuity: the hypotheses hold for the example (02:00 inside the window, 3 kW load at a 20 kW connector, a
vehicle that must be charged inside the window: the bisection runs on the bracket [3, 20]); 21 halvings of 17 kW reach
EPS = 1e-5, the step returns a value -/
example : step (toyOps 10 11) (exBisectEnv 21) exBisectWorld ≠ .error .fuel ∧
    isOk (step (toyOps 10 11) (exBisectEnv 21) exBisectWorld) = true :=
  ⟨C17_peak_load_window_step_total_quiet (toyOps 10 11) (toyOps_noFuel 10 11) (toyOps_law 10 11) (exBisectEnv 21)
    (by decide +kernel) (by decide) exBisectWorld (by simp [exBisectWorld, exWorld])
    (by
      intro g _ evs hevs e he
      simp [exBisectEnv, exEnvAt, exEnv] at hevs
      subst hevs
      simp at he)
    (by decide +kernel), by decide +kernel⟩

/-- the bound hypothesis is not superfluous (and sharp here): with 20 halvings (`17 > 2^20 · 1e-5`) the same step DOES
answer FUEL -/
example : isFuel (step (toyOps 10 11) (exBisectEnv 20) exBisectWorld) = true ∧
    ¬ ((20 : ℚ) - 3 ≤ (2 : ℚ) ^ 20 * (1 / 100000)) := by
  refine ⟨by decide +kernel, by norm_num⟩

/-- non-vacuity of the `step_gc` statement and of the invariant form of the box (same example, box [3, 20]) -/
example : stepGc (toyOps 10 11) (exBisectEnv 21) exBisectWorld (exGc [("load", 3)]) "MV" ≠ .error .fuel :=
  C17_peak_load_window_stepGc_total (toyOps 10 11) (toyOps_noFuel 10 11) (toyOps_law 10 11) (exBisectEnv 21)
    (by decide +kernel) (by decide) exBisectWorld (exGc [("load", 3)]) "MV"
    ⟨3, 20, by norm_num [exBisectEnv, exEnvAt, exEnv], fun seasons level k =>
      C17_peak_load_window_box_of_invariant (exBisectEnv 21) (exGc [("load", 3)]) 3 20
        (fun st => st = ([("load", 3)], 20)) rfl
        (by
          intro evs hevs e he
          simp [exBisectEnv, exEnvAt, exEnv] at hevs
          subst hevs
          simp at he)
        (by
          intro st hst
          subst hst
          simp [sumLoads, exBisectEnv, exEnvAt, exEnv])
        seasons level k⟩

/-- the battery law is not superfluous: with a `load` that reports a negative average power (and never FUEL) the
levels planned for the first vehicle LOWER the prognosis (3 − 1000 kW), the second vehicle's bracket is [−997, 20], and
the step answers FUEL although every other hypothesis of `C17_peak_load_window_step_total_quiet` holds; with the lawful
battery the same world is fine -/
example : isFuel (step exBadOps (exBisectEnv 21) exTwoWorld) = true ∧ OpsNoFuel exBadOps ∧
    (∀ g ∈ exTwoWorld.gcs, g.gc.curMax - sumLoads (exBisectEnv 21) g.gc.loads ≤
      (2 : ℚ) ^ (exBisectEnv 21).bisectFuel * (exBisectEnv 21).eps) ∧
    isOk (step (toyOps 10 11) (exBisectEnv 21) exTwoWorld) = true := by
  refine ⟨by decide +kernel, exBadOps_noFuel, by decide +kernel, by decide +kernel⟩

end SpiceEv
