/-
C07 — frame of the concrete strategies' own step with respect to the vehicle attributes that vehicle events set
(`connected_charging_station`, `desired_soc`, `estimated_time_of_departure`) and the vehicle-type data: the strategies
change a vehicle only through its battery.  Core vocabulary + greedy / balanced; same method as `Proofs/C07Keeps.lean`.
Purely structural, instance-free.
-/
import SpiceEv.Model.Strategies
import Mathlib.Data.List.Basic
set_option linter.unusedSectionVars false
set_option linter.unusedSimpArgs false
set_option linter.unusedVariables false
namespace SpiceEv
namespace KeepsVeh

variable {α B : Type}

/-- everything of a vehicle record except its battery -/
def vehKey (v : VehicleS α B) : String × Option String × α × Option Int × α × Bool × α :=
  (v.id, v.cs, v.desiredSoc, v.etd, v.minChargingPower, v.v2g, v.dischargeLimit)

/-- ids (and order) unchanged; every vehicle record after carries the non-battery data of a record before -/
structure VehKeeps (K : List (String × Option String × α × Option Int × α × Bool × α))
    (ids0 : List String) (vs : List (VehicleS α B)) : Prop where
  ids : vs.map (·.id) = ids0
  attrs : ∀ v ∈ vs, vehKey v ∈ K

/-- the invariant threaded through a step, relative to the key list `K` and id list `ids0` of the vehicles before it -/
def VInv (K : List (String × Option String × α × Option Int × α × Bool × α)) (ids0 : List String)
    (w : SWorld α B) : Prop := VehKeeps K ids0 w.vehicles

theorem VInv.init (w : SWorld α B) : VInv (w.vehicles.map vehKey) (w.vehicles.map (·.id)) w :=
  ⟨rfl, fun v hv => List.mem_map.mpr ⟨v, hv, rfl⟩⟩

variable {K : List (String × Option String × α × Option Int × α × Bool × α)} {ids0 : List String}

theorem mem_of_find? {β : Type} {p : β → Bool} {l : List β} {a : β} (h : l.find? p = some a) : a ∈ l :=
  List.mem_of_find?_eq_some h

/-- `setVehicle v'` where `v'` carries the non-battery data of a vehicle before the step (e.g. `{ v with bat := bat' }`
for a `v` found in the world) -/
theorem VInv.setVehicle {w : SWorld α B} (h : VInv K ids0 w) (v' : VehicleS α B) (hk : vehKey v' ∈ K) :
    VInv K ids0 (w.setVehicle v') := by
  refine ⟨?_, ?_⟩
  · rw [← h.ids]
    show (w.vehicles.map (fun x => if x.id == v'.id then v' else x)).map (·.id) = w.vehicles.map (·.id)
    rw [List.map_map]
    apply List.map_congr_left
    intro x _
    simp only [Function.comp]
    split
    · rename_i hx; exact (beq_iff_eq.mp hx).symm
    · rfl
  · intro v hv
    obtain ⟨x, hx, rfl⟩ := List.mem_map.mp hv
    split
    · exact hk
    · exact h.attrs x hx

theorem VInv.key_of_mem {w : SWorld α B} (h : VInv K ids0 w) {v : VehicleS α B} (hv : v ∈ w.vehicles) :
    vehKey v ∈ K := h.attrs v hv

theorem VInv.key_of_vehicle? {w : SWorld α B} (h : VInv K ids0 w) {id : String} {v : VehicleS α B}
    (hv : w.vehicle? id = some v) : vehKey v ∈ K := h.attrs v (mem_of_find? hv)

/-- the battery is not part of the key -/
theorem vehKey_bat (v : VehicleS α B) (b : B) : vehKey { v with bat := b } = vehKey v := rfl

theorem VInv.setBat {w : SWorld α B} (h : VInv K ids0 w) {v : VehicleS α B} (hv : vehKey v ∈ K) (b : B) :
    VInv K ids0 (w.setVehicle { v with bat := b }) := h.setVehicle _ hv

theorem VInv.of_vehicles_eq {w w' : SWorld α B} (h : VInv K ids0 w) (he : w'.vehicles = w.vehicles) :
    VInv K ids0 w' := by unfold VInv; rw [he]; exact h

theorem VInv.setGc {w : SWorld α B} (h : VInv K ids0 w) (g : GcS α) : VInv K ids0 (w.setGc g) := h
theorem VInv.setStation {w : SWorld α B} (h : VInv K ids0 w) (s : StationS α) : VInv K ids0 (w.setStation s) := h
theorem VInv.setBattery {w : SWorld α B} (h : VInv K ids0 w) (b : StatBatS α B) : VInv K ids0 (w.setBattery b) := h
theorem VInv.resetStations [OfNat α 0] {w : SWorld α B} (h : VInv K ids0 w) : VInv K ids0 (resetStations w) := h

/-- with distinct vehicle ids: pointwise -/
theorem VehKeeps.map_key {vs vs' : List (VehicleS α B)} (h : VehKeeps (vs.map vehKey) (vs.map (·.id)) vs')
    (hnd : (vs.map (·.id)).Nodup) : vs'.map vehKey = vs.map vehKey := by
  obtain ⟨hids, hattr⟩ := h
  have hinj : ∀ (l : List (VehicleS α B)), (l.map (·.id)).Nodup → ∀ a ∈ l, ∀ b ∈ l, a.id = b.id → a = b := by
    intro l
    induction l with
    | nil => intro _ a ha; cases ha
    | cons x xs ih =>
      intro hn a ha b hb hab
      simp only [List.map_cons, List.nodup_cons, List.mem_map, not_exists, not_and] at hn
      rcases List.mem_cons.mp ha with rfl | ha' <;> rcases List.mem_cons.mp hb with rfl | hb'
      · rfl
      · exact absurd hab.symm (hn.1 b hb')
      · exact absurd hab (hn.1 a ha')
      · exact ih hn.2 a ha' b hb' hab
  have key : ∀ (l l' : List (VehicleS α B)), l'.map (·.id) = l.map (·.id) →
      (∀ g' ∈ l', ∀ g ∈ l, g'.id = g.id → vehKey g' = vehKey g) → l'.map vehKey = l.map vehKey := by
    intro l
    induction l with
    | nil => intro l' h _; cases l' <;> simp_all
    | cons x xs ih =>
      intro l' h hp
      cases l' with
      | nil => simp at h
      | cons y ys =>
        simp only [List.map_cons, List.cons.injEq] at h ⊢
        refine ⟨hp y (by simp) x (by simp) h.1, ih ys h.2 ?_⟩
        intro g' hg' g hg; exact hp g' (by simp [hg']) g (by simp [hg])
  apply key _ _ hids
  intro v' hv' v hv hid
  obtain ⟨v1, hv1, hk⟩ := List.mem_map.mp (hattr v' hv')
  have hid1 : v1.id = v.id := by
    have : v1.id = v'.id := by
      have := congrArg Prod.fst hk; simpa [vehKey] using this
    rw [this, hid]
  rw [← hk, hinj vs hnd v1 hv1 v hv hid1]

/-- `foldlM` preserves an invariant of the accumulator -/
theorem foldlM_inv {σ ι ε : Type} (f : σ → ι → Except ε σ) (P : σ → Prop)
    (hf : ∀ s i s', P s → f s i = .ok s' → P s') :
    ∀ (l : List ι) (s s' : σ), P s → l.foldlM f s = .ok s' → P s' := by
  intro l
  induction l with
  | nil => intro s s' hs h; simp only [List.foldlM, pure, Except.pure] at h; cases h; exact hs
  | cons x xs ih =>
    intro s s' hs h
    simp only [List.foldlM, bind, Except.bind] at h
    split at h
    · cases h
    · rename_i s1 h1; exact ih s1 s' (hf s x s1 hs h1) h

end KeepsVeh
end SpiceEv
