/-
Lemmas about the greedy/balanced model (Model/Strategies.lean) under an abstract battery law.
-/
import SpiceEv.Proofs.Basic
import SpiceEv.Model.Strategies
import Mathlib.Tactic.Linarith
import Mathlib.Algebra.Order.Ring.Cast
set_option linter.unusedSectionVars false
set_option linter.unusedSimpArgs false
set_option linter.unusedVariables false
namespace SpiceEv
variable {α B : Type} [Field α] [LinearOrder α] [IsStrictOrderedRing α]

/-! ### association lists and connector loads -/

theorem foldl_add_init (l : List (String × α)) (a : α) :
    l.foldl (fun a kv => a + kv.2) a = a + l.foldl (fun a kv => a + kv.2) 0 := by
  induction l generalizing a with
  | nil => simp
  | cons x xs ih => simp only [List.foldl_cons]; rw [ih, ih (0 + x.2)]; ring

theorem sum_sdSet (l : List (String × α)) (k : String) (old v : α) (h : sdGet l k = some old) :
    (sdSet l k v).foldl (fun a kv => a + kv.2) 0 = l.foldl (fun a kv => a + kv.2) 0 - old + v := by
  induction l with
  | nil => simp [sdGet] at h
  | cons x xs ih =>
    obtain ⟨xk, xv⟩ := x
    by_cases hk : xk = k
    · subst hk
      simp only [sdGet, beq_self_eq_true, if_true, Option.some.injEq] at h
      subst h
      simp only [sdSet, beq_self_eq_true, if_true, List.foldl_cons]
      rw [foldl_add_init xs (0 + v), foldl_add_init xs (0 + xv)]; ring
    · have hb : (xk == k) = false := by simpa using hk
      simp only [sdGet, hb, Bool.false_eq_true, if_false] at h
      simp only [sdSet, hb, Bool.false_eq_true, if_false, List.foldl_cons]
      rw [foldl_add_init _ (0 + xv), foldl_add_init xs (0 + xv), ih h]; ring

theorem addLoad_currentLoad (g : GcS α) (k : String) (v : α) :
    (g.addLoad k v).1.currentLoad = g.currentLoad + v ∧ (g.addLoad k v).1.curMax = g.curMax ∧
    (g.addLoad k v).1.id = g.id ∧ (g.addLoad k v).1.cost = g.cost := by
  unfold GcS.addLoad GcS.currentLoad
  cases h : sdGet g.loads k with
  | none =>
    refine ⟨?_, ?_, ?_, ?_⟩ <;> simp [List.foldl_append]
  | some old =>
    refine ⟨?_, ?_, ?_, ?_⟩ <;> simp only []
    rw [sum_sdSet g.loads k old (old + v) h]; ring

end SpiceEv

namespace SpiceEv
variable {α B : Type} [Field α] [LinearOrder α] [IsStrictOrderedRing α]

/-- What the allocation proofs need from the battery (discharged for the real-number battery by
C01/C02: `0 ≤ avg ≤ limit`, `avg ≤ target_power`, and a target-power request to `unload`
delivers exactly `min target available`). -/
structure BatLaw (ops : BatOps α B) : Prop where
  load_max : ∀ b p b' avg, ops.load b (some p) none none = .ok (b', avg) → 0 ≤ avg ∧ avg ≤ max p 0
  load_target : ∀ b p b' avg, ops.load b none none (some p) = .ok (b', avg) → 0 ≤ avg ∧ avg ≤ max p 0
  unload_max : ∀ b p ts b' avg, ops.unload b (some p) (some ts) none = .ok (b', avg) →
    0 ≤ avg ∧ avg ≤ max p 0
  unload_target : ∀ b x b' avg, ops.unload b none none (some x) = .ok (b', avg) →
    0 ≤ avg ∧ avg ≤ max x 0
  available_nonneg : ∀ b a, ops.available b = .ok a → 0 ≤ a

theorem clampPower_bounds (p cur mx mn vm : α) :
    0 ≤ clampPower p cur mx mn vm ∧ clampPower p cur mx mn vm ≤ max 0 p := by
  unfold clampPower
  simp only [pymin_eq, pymax_eq]
  constructor
  · split
    · exact le_refl _
    · exact le_max_right _ _
  · split
    · exact le_max_left _ _
    · apply max_le
      · exact le_trans (min_le_left _ _) (le_max_right _ _)
      · exact le_max_left _ _

/-- the offered power is non-negative and within the headroom (plus battery support for greedy) -/
theorem planPower_bound (rule : Rule) (ops : BatOps α B) (env : StratEnv α) (cheap : Bool)
    (left availGc : α) (cs : StationS α) (v : VehicleS α B) (power : α) (used : Bool)
    (h : planPower rule ops env cheap left availGc cs v = .ok (power, used)) :
    0 ≤ power ∧
    (used = false → power ≤ max 0 left) ∧
    (used = true → rule = .balanced → power ≤ max 0 left) ∧
    (used = true → rule = .greedy → power ≤ max 0 (left + availGc)) := by
  unfold planPower at h
  simp only at h
  split at h
  · -- cheap
    simp only [Except.ok.injEq, Prod.mk.injEq] at h
    obtain ⟨rfl, rfl⟩ := h
    exact ⟨(clampPower_bounds ..).1, fun _ => (clampPower_bounds ..).2, by simp, by simp⟩
  · split at h
    · cases rule with
      | greedy =>
        simp only [Except.ok.injEq, Prod.mk.injEq] at h
        obtain ⟨rfl, rfl⟩ := h
        refine ⟨(clampPower_bounds ..).1, by simp, by simp, fun _ _ => ?_⟩
        refine le_trans (clampPower_bounds ..).2 ?_
        rw [pymin_eq]
        exact max_le_max (le_refl _) (min_le_right _ _)
      | balanced =>
        simp only at h
        split at h
        · cases h
        · split at h
          · simp only [Except.ok.injEq, Prod.mk.injEq] at h
            obtain ⟨rfl, rfl⟩ := h
            refine ⟨(clampPower_bounds ..).1, by simp, fun _ _ => ?_, by simp⟩
            refine le_trans (clampPower_bounds ..).2 ?_
            rw [pymin_eq]
            exact max_le_max (le_refl _) (min_le_right _ _)
          · simp only [Except.ok.injEq, Prod.mk.injEq] at h
            obtain ⟨rfl, rfl⟩ := h
            exact ⟨(clampPower_bounds ..).1, by simp, fun _ _ => (clampPower_bounds ..).2, by simp⟩
    · simp only [Except.ok.injEq, Prod.mk.injEq] at h
      obtain ⟨rfl, rfl⟩ := h
      exact ⟨le_refl _, fun _ => le_max_left _ _, by simp, by simp⟩

/-- whatever the battery takes lies between 0 and the offered power -/
theorem chargeCall_bound (rule : Rule) (ops : BatOps α B) (law : BatLaw ops) (env : StratEnv α)
    (cheap : Bool) (v : VehicleS α B) (power : α) (hp : 0 ≤ power) (b' : B) (avg : α)
    (h : chargeCall rule ops env cheap v power = .ok (b', avg)) : 0 ≤ avg ∧ avg ≤ power := by
  unfold chargeCall at h
  cases rule with
  | greedy =>
    simp only at h
    split at h
    · have := law.load_max _ _ _ _ h
      exact ⟨this.1, by simpa [max_eq_left hp] using this.2⟩
    · split at h
      · have := law.load_target _ _ _ _ h
        exact ⟨this.1, by simpa [max_eq_left hp] using this.2⟩
      · simp only [Except.ok.injEq, Prod.mk.injEq] at h
        obtain ⟨_, rfl⟩ := h
        exact ⟨le_refl _, hp⟩
  | balanced =>
    simp only at h
    have := law.load_target _ _ _ _ h
    exact ⟨this.1, by simpa [max_eq_left hp] using this.2⟩

end SpiceEv

namespace SpiceEv
variable {α B : Type} [Field α] [LinearOrder α] [IsStrictOrderedRing α]

theorem sdGet_alSet_same {β : Type} (l : List (String × β)) (k : String) (v : β) :
    sdGet (sdSet l k v) k = some v := by
  induction l with
  | nil => simp [sdSet, sdGet]
  | cons x xs ih =>
    obtain ⟨xk, xv⟩ := x
    by_cases hk : xk = k
    · subst hk; simp [sdSet, sdGet]
    · have hb : (xk == k) = false := by simpa using hk
      simp [sdSet, sdGet, hb, ih]

theorem sdGet_alSet_ne {β : Type} (l : List (String × β)) (k k' : String) (v : β) (h : k' ≠ k) :
    sdGet (sdSet l k v) k' = sdGet l k' := by
  induction l with
  | nil =>
    have : (k == k') = false := by simpa using (Ne.symm h)
    simp [sdSet, sdGet, this]
  | cons x xs ih =>
    obtain ⟨xk, xv⟩ := x
    by_cases hk : xk = k
    · subst hk
      have : (xk == k') = false := by simpa using (Ne.symm h)
      simp [sdSet, sdGet, this]
    · have hb : (xk == k) = false := by simpa using hk
      simp only [sdSet, hb, Bool.false_eq_true, if_false, sdGet, ih]

def availOf (avail : List (String × α)) (id : String) : α := (sdGet avail id).getD 0

/-- loop invariant of the vehicle pass: a connector may exceed its limit only by the battery
support that has been reserved (`A0 − remaining`) -/
def LoopInv (A0 : String → α) (w : SWorld α B) (avail : List (String × α)) : Prop :=
  ∀ g ∈ w.gcs, g.currentLoad ≤ g.curMax + (A0 g.id - availOf avail g.id) ∧
    0 ≤ availOf avail g.id ∧ availOf avail g.id ≤ A0 g.id

theorem gc?_some (w : SWorld α B) (id : String) (g : GcS α) (h : w.gc? id = some g) :
    g ∈ w.gcs ∧ g.id = id := by
  unfold SWorld.gc? at h
  exact ⟨List.mem_of_find?_eq_some h, by simpa using List.find?_some h⟩

theorem mem_setGc (w : SWorld α B) (g' g : GcS α) (h : g ∈ (w.setGc g').gcs) :
    g = g' ∨ (g ∈ w.gcs ∧ g.id ≠ g'.id) := by
  unfold SWorld.setGc at h
  simp only [List.mem_map] at h
  obtain ⟨x, hx, rfl⟩ := h
  by_cases hid : x.id = g'.id
  · left; simp [hid]
  · right
    have : (x.id == g'.id) = false := by simpa using hid
    simp [this, hx, hid]

@[simp] theorem setVehicle_gcs (w : SWorld α B) (v : VehicleS α B) : (w.setVehicle v).gcs = w.gcs := rfl
@[simp] theorem setStation_gcs (w : SWorld α B) (s : StationS α) : (w.setStation s).gcs = w.gcs := rfl
@[simp] theorem setBattery_gcs (w : SWorld α B) (b : StatBatS α B) : (w.setBattery b).gcs = w.gcs := rfl

/-- **one vehicle of the allocation pass preserves the invariant** -/
theorem allocVehicle_inv (rule : Rule) (ops : BatOps α B) (law : BatLaw ops) (env : StratEnv α)
    (A0 : String → α) (w : SWorld α B) (cmds avail : List (String × α)) (vid : String)
    (w' : SWorld α B) (cmds' avail' : List (String × α))
    (hinv : LoopInv A0 w avail)
    (h : allocVehicle rule ops env (w, cmds, avail) vid = .ok (w', cmds', avail')) :
    LoopInv A0 w' avail' := by
  unfold allocVehicle at h
  simp only at h
  split at h
  · cases h
  · rename_i v hv
    split at h
    · simp only [Except.ok.injEq, Prod.mk.injEq] at h
      obtain ⟨rfl, _, rfl⟩ := h
      exact hinv
    · rename_i csId hcs
      split at h
      · cases h
      · rename_i cs hst
        split at h
        · cases h
        · rename_i gc hgc
          obtain ⟨hgmem, hgid⟩ := gc?_some w cs.parent gc hgc
          -- unfold the do-block
          cases hch : gcCheap env gc with
          | error e => simp [hch, bind, Except.bind] at h
          | ok cheap =>
            simp only [hch, bind, Except.bind] at h
            cases hpl : planPower rule ops env cheap (gc.curMax - gc.currentLoad)
                ((sdGet avail cs.parent).getD 0) cs v with
            | error e => simp [hpl] at h
            | ok pu =>
              obtain ⟨power, used⟩ := pu
              simp only [hpl] at h
              cases hcc : chargeCall rule ops env cheap v power with
              | error e => simp [hcc] at h
              | ok ba =>
                obtain ⟨bat', avg⟩ := ba
                simp only [hcc, Except.ok.injEq, Prod.mk.injEq] at h
                obtain ⟨rfl, _, rfl⟩ := h
                obtain ⟨hp0, hpf, hpb, hpg⟩ := planPower_bound rule ops env cheap _ _ cs v power used hpl
                obtain ⟨ha0, hap⟩ := chargeCall_bound rule ops law env cheap v power hp0 bat' avg hcc
                obtain ⟨hL, hM, hI, _⟩ := addLoad_currentLoad gc csId avg
                have hgI := hinv gc hgmem
                rw [hgid] at hgI
                have hav : availOf avail cs.parent = (sdGet avail cs.parent).getD 0 := rfl
                intro g hg
                simp only [setStation_gcs] at hg
                rcases mem_setGc _ _ g hg with rfl | ⟨hgm, hne⟩
                · -- the connector that was charged
                  rw [hL, hM, hI, hgid]
                  set a := availOf avail cs.parent with ha
                  set left := gc.curMax - gc.currentLoad with hleft
                  rw [← hav] at hpg hpl
                  cases used with
                  | false =>
                    simp only [Bool.false_eq_true, if_false]
                    have hb := hpf rfl
                    refine ⟨?_, hgI.2.1, hgI.2.2⟩
                    rcases le_total 0 left with hl | hl
                    · rw [max_eq_right hl] at hb
                      have : gc.currentLoad + avg ≤ gc.curMax := by
                        have := le_trans hap hb; rw [hleft] at this; linarith
                      linarith [hgI.2.2]
                    · rw [max_eq_left hl] at hb
                      have : avg = 0 := le_antisymm (le_trans hap hb) ha0
                      rw [this]; simpa using hgI.1
                  | true =>
                    simp only [if_true]
                    rw [← hav]
                    have hnew : availOf (sdSet avail cs.parent (pymax (a - avg) 0)) cs.parent
                        = max (a - avg) 0 := by
                      unfold availOf; rw [sdGet_alSet_same]; simp [pymax_eq]
                    rw [hnew]
                    have hb : power ≤ max 0 (left + a) := by
                      cases rule with
                      | greedy => exact hpg rfl rfl
                      | balanced =>
                        refine le_trans (hpb rfl rfl) (max_le_max (le_refl _) ?_)
                        linarith [hgI.2.1]
                    refine ⟨?_, le_max_right _ _, max_le (by linarith [hgI.2.2]) (le_trans hgI.2.1 hgI.2.2)⟩
                    rcases le_total 0 (left + a) with hl | hl
                    · rw [max_eq_right hl] at hb
                      have h1 : gc.currentLoad + avg ≤ gc.curMax + a := by
                        have := le_trans hap hb; rw [hleft] at this; linarith
                      rcases le_total 0 (a - avg) with h2 | h2
                      · rw [max_eq_left h2]; linarith [hgI.1]
                      · rw [max_eq_right h2]; linarith [hgI.2.2]
                    · rw [max_eq_left hl] at hb
                      have : avg = 0 := le_antisymm (le_trans hap hb) ha0
                      rw [this]
                      simp only [add_zero, sub_zero]
                      rw [max_eq_left hgI.2.1]; exact hgI.1
                · -- another connector: untouched
                  simp only [setVehicle_gcs] at hgm
                  have hne' : g.id ≠ cs.parent := by
                    rw [hI] at hne; rw [← hgid]; exact hne
                  have hsame : availOf (if used = true then sdSet avail cs.parent
                      (pymax ((sdGet avail cs.parent).getD 0 - avg) 0) else avail) g.id
                      = availOf avail g.id := by
                    cases used with
                    | false => simp
                    | true => simp only [if_true]; unfold availOf; rw [sdGet_alSet_ne _ _ _ _ hne']
                  rw [hsame]
                  exact hinv g hgm

end SpiceEv

namespace SpiceEv
variable {α B : Type} [Field α] [LinearOrder α] [IsStrictOrderedRing α]

/-- the whole vehicle pass preserves the invariant -/
theorem allocFold_inv (rule : Rule) (ops : BatOps α B) (law : BatLaw ops) (env : StratEnv α)
    (A0 : String → α) (ids : List String) (st st' : SWorld α B × List (String × α) × List (String × α))
    (hinv : LoopInv A0 st.1 st.2.2)
    (h : ids.foldlM (allocVehicle rule ops env) st = .ok st') : LoopInv A0 st'.1 st'.2.2 := by
  induction ids generalizing st with
  | nil =>
    simp only [List.foldlM_nil, pure, Except.pure, Except.ok.injEq] at h
    subst h; exact hinv
  | cons id rest ih =>
    simp only [List.foldlM_cons, bind, Except.bind] at h
    cases hs : allocVehicle rule ops env st id with
    | error e => simp [hs] at h
    | ok st1 =>
      simp only [hs] at h
      obtain ⟨w, c, a⟩ := st
      obtain ⟨w1, c1, a1⟩ := st1
      exact ih (w1, c1, a1) (allocVehicle_inv rule ops law env A0 w c a id w1 c1 a1 hinv hs) h

/-- invariant of the surplus pass: every connector stays below `curMax + S` -/
def Below (S : String → α) (w : SWorld α B) : Prop :=
  ∀ g ∈ w.gcs, g.currentLoad ≤ g.curMax + S g.id

theorem surplusVehicle_below (ops : BatOps α B) (law : BatLaw ops) (env : StratEnv α)
    (heps : 0 ≤ env.eps) (S : String → α) (hS : ∀ k, 0 ≤ S k)
    (cheap : List (String × Bool)) (w : SWorld α B) (cmds : List (String × α)) (v : VehicleS α B)
    (w' : SWorld α B) (cmds' : List (String × α))
    (hcm : ∀ g ∈ w.gcs, 0 ≤ g.curMax) (hinv : Below S w)
    (h : surplusVehicle ops env cheap w cmds v = .ok (w', cmds')) :
    Below S w' ∧ (∀ g ∈ w'.gcs, 0 ≤ g.curMax) := by
  unfold surplusVehicle at h
  split at h
  · simp only [Except.ok.injEq, Prod.mk.injEq] at h; obtain ⟨rfl, _⟩ := h; exact ⟨hinv, hcm⟩
  · rename_i csId hcs
    split at h
    · cases h
    · rename_i cs hst
      split at h
      · cases h
      · rename_i gc hgc
        obtain ⟨hgmem, hgid⟩ := gc?_some w cs.parent gc hgc
        simp only at h
        split at h
        · -- surplus: charge
          rename_i hsur
          cases hl : ops.load v.bat (some (clampPower (-gc.currentLoad) cs.currentPower cs.maxPower
              cs.minPower v.minChargingPower)) none none with
          | error e => simp [hl, bind, Except.bind] at h
          | ok ba =>
            obtain ⟨bat', avg⟩ := ba
            simp only [hl, bind, Except.bind, Except.ok.injEq, Prod.mk.injEq] at h
            obtain ⟨rfl, _⟩ := h
            obtain ⟨ha0, hap⟩ := law.load_max _ _ _ _ hl
            obtain ⟨hc0, hcb⟩ := clampPower_bounds (-gc.currentLoad) cs.currentPower cs.maxPower
              cs.minPower v.minChargingPower
            obtain ⟨hL, hM, hI, _⟩ := addLoad_currentLoad gc csId avg
            have hpos : 0 < -gc.currentLoad := lt_of_le_of_lt heps hsur
            rw [max_eq_left hc0] at hap
            rw [max_eq_right hpos.le] at hcb
            constructor
            · intro g hg
              simp only [setStation_gcs] at hg
              rcases mem_setGc _ _ g hg with rfl | ⟨hgm, _⟩
              · rw [hL, hM, hI]
                have := hcm gc hgmem
                have := hS gc.id
                linarith
              · exact hinv g hgm
            · intro g hg
              simp only [setStation_gcs] at hg
              rcases mem_setGc _ _ g hg with rfl | ⟨hgm, _⟩
              · rw [hM]; exact hcm gc hgmem
              · exact hcm g hgm
        · split at h
          · -- V2G support: discharge
            simp only [bind, Except.bind] at h
            split at h
            · cases h
            · rename_i ba hl
              obtain ⟨bat', avg⟩ := ba
              simp only [Except.ok.injEq, Prod.mk.injEq] at h
              obtain ⟨rfl, _⟩ := h
              obtain ⟨ha0, _⟩ := law.unload_max _ _ _ _ _ hl
              obtain ⟨hL, hM, hI, _⟩ := addLoad_currentLoad gc csId (-avg)
              constructor
              · intro g hg
                simp only [setStation_gcs] at hg
                rcases mem_setGc _ _ g hg with rfl | ⟨hgm, _⟩
                · rw [hL, hM, hI]
                  have := hinv gc hgmem
                  linarith
                · exact hinv g hgm
              · intro g hg
                simp only [setStation_gcs] at hg
                rcases mem_setGc _ _ g hg with rfl | ⟨hgm, _⟩
                · rw [hM]; exact hcm gc hgmem
                · exact hcm g hgm
          · simp only [Except.ok.injEq, Prod.mk.injEq] at h; obtain ⟨rfl, _⟩ := h; exact ⟨hinv, hcm⟩

end SpiceEv

namespace SpiceEv
variable {α B : Type} [Field α] [LinearOrder α] [IsStrictOrderedRing α]

theorem distributeSurplus_below (ops : BatOps α B) (law : BatLaw ops) (env : StratEnv α)
    (heps : 0 ≤ env.eps) (S : String → α) (hS : ∀ k, 0 ≤ S k) (w w' : SWorld α B)
    (cmds' : List (String × α)) (hcm : ∀ g ∈ w.gcs, 0 ≤ g.curMax) (hinv : Below S w)
    (h : distributeSurplus ops env w = .ok (w', cmds')) :
    Below S w' ∧ (∀ g ∈ w'.gcs, 0 ≤ g.curMax) := by
  unfold distributeSurplus at h
  simp only [bind, Except.bind] at h
  split at h
  · cases h
  · rename_i cheap _
    -- generalise the fold
    have key : ∀ (vs : List (VehicleS α B)) (st st' : SWorld α B × List (String × α)),
        Below S st.1 → (∀ g ∈ st.1.gcs, 0 ≤ g.curMax) →
        vs.foldlM (fun (st : SWorld α B × List (String × α)) v0 =>
          match st.1.vehicle? v0.id with
          | none => Except.ok st
          | some v => surplusVehicle ops env cheap st.1 st.2 v) st = .ok st' →
        Below S st'.1 ∧ (∀ g ∈ st'.1.gcs, 0 ≤ g.curMax) := by
      intro vs
      induction vs with
      | nil =>
        intro st st' h1 h2 h3
        simp only [List.foldlM_nil, pure, Except.pure, Except.ok.injEq] at h3
        subst h3; exact ⟨h1, h2⟩
      | cons v0 rest ih =>
        intro st st' h1 h2 h3
        simp only [List.foldlM_cons, bind, Except.bind] at h3
        split at h3
        · cases h3
        · rename_i st1 hst1
          split at hst1
          · simp only [Except.ok.injEq] at hst1
            subst hst1
            exact ih _ _ h1 h2 h3
          · rename_i v hv
            obtain ⟨w1, c1⟩ := st1
            obtain ⟨hb, hc⟩ := surplusVehicle_below ops law env heps S hS cheap st.1 st.2 v w1 c1 h2 h1 hst1
            exact ih _ _ hb hc h3
    exact key w.vehicles (w, []) (w', cmds') hinv hcm h

theorem sdGet_zero_of_all_zero (l : List (String × α)) (h : ∀ kv ∈ l, kv.2 = 0) (k : String) :
    availOf l k = 0 := by
  unfold availOf
  induction l with
  | nil => simp [sdGet]
  | cons x xs ih =>
    obtain ⟨xk, xv⟩ := x
    have hx : xv = 0 := h (xk, xv) (by simp)
    by_cases hk : (xk == k) = true
    · simp [sdGet, hk, hx]
    · have hk' : (xk == k) = false := by simpa using hk
      simp only [sdGet, hk', Bool.false_eq_true, if_false]
      exact ih (fun kv hkv => h kv (List.mem_cons_of_mem _ hkv))

theorem availBatPower_nobat (ops : BatOps α B) (w : SWorld α B) (hb : w.batteries = []) :
    availBatPower ops w = .ok (w.gcs.map (fun g => (g.id, (0 : α)))) := by
  unfold availBatPower
  rw [hb]
  simp only [List.foldlM_nil, pure, Except.pure, bind, Except.bind]
  induction w.gcs with
  | nil => rfl
  | cons g gs ih =>
    simp only [List.mapM_cons, bind, Except.bind, pure, Except.pure, List.map_cons] at ih ⊢
    rw [ih]

theorem updateBatteries_nobat (ops : BatOps α B) (env : StratEnv α) (w w' : SWorld α B)
    (hb : w.batteries = []) (h : updateBatteries ops env w = .ok w') : w' = w := by
  unfold updateBatteries at h
  simp only [bind, Except.bind] at h
  split at h
  · cases h
  · rw [hb] at h
    simp only [List.foldlM_nil, pure, Except.pure, Except.ok.injEq] at h
    exact h.symm

@[simp] theorem resetStations_gcs (w : SWorld α B) : (resetStations w).gcs = w.gcs := rfl
@[simp] theorem resetStations_batteries (w : SWorld α B) : (resetStations w).batteries = w.batteries := rfl

end SpiceEv

namespace SpiceEv
variable {α B : Type} [Field α] [LinearOrder α] [IsStrictOrderedRing α]

@[simp] theorem setVehicle_batteries (w : SWorld α B) (v : VehicleS α B) :
    (w.setVehicle v).batteries = w.batteries := rfl
@[simp] theorem setStation_batteries (w : SWorld α B) (s : StationS α) :
    (w.setStation s).batteries = w.batteries := rfl
@[simp] theorem setGc_batteries (w : SWorld α B) (g : GcS α) : (w.setGc g).batteries = w.batteries := rfl

theorem allocVehicle_batteries (rule : Rule) (ops : BatOps α B) (env : StratEnv α)
    (st st' : SWorld α B × List (String × α) × List (String × α)) (vid : String)
    (h : allocVehicle rule ops env st vid = .ok st') : st'.1.batteries = st.1.batteries := by
  unfold allocVehicle at h
  split at h
  · cases h
  · split at h
    · simp only [Except.ok.injEq] at h; subst h; rfl
    · split at h
      · cases h
      · split at h
        · cases h
        · simp only [bind, Except.bind] at h
          split at h
          · cases h
          · split at h
            · cases h
            · split at h
              · cases h
              · simp only [Except.ok.injEq] at h
                subst h
                simp

theorem allocFold_batteries (rule : Rule) (ops : BatOps α B) (env : StratEnv α) (ids : List String)
    (st st' : SWorld α B × List (String × α) × List (String × α))
    (h : ids.foldlM (allocVehicle rule ops env) st = .ok st') : st'.1.batteries = st.1.batteries := by
  induction ids generalizing st with
  | nil =>
    simp only [List.foldlM_nil, pure, Except.pure, Except.ok.injEq] at h
    subst h; rfl
  | cons id rest ih =>
    simp only [List.foldlM_cons, bind, Except.bind] at h
    split at h
    · cases h
    · rename_i st1 hs
      rw [ih st1 h, allocVehicle_batteries rule ops env st st1 id hs]

theorem surplusVehicle_batteries (ops : BatOps α B) (env : StratEnv α) (cheap : List (String × Bool))
    (w w' : SWorld α B) (cmds cmds' : List (String × α)) (v : VehicleS α B)
    (h : surplusVehicle ops env cheap w cmds v = .ok (w', cmds')) : w'.batteries = w.batteries := by
  unfold surplusVehicle at h
  split at h
  · simp only [Except.ok.injEq, Prod.mk.injEq] at h; obtain ⟨rfl, _⟩ := h; rfl
  · split at h
    · cases h
    · split at h
      · cases h
      · simp only at h
        split at h
        · simp only [bind, Except.bind] at h
          split at h
          · cases h
          · simp only [Except.ok.injEq, Prod.mk.injEq] at h; obtain ⟨rfl, _⟩ := h; simp
        · split at h
          · simp only [bind, Except.bind] at h
            split at h
            · cases h
            · simp only [Except.ok.injEq, Prod.mk.injEq] at h; obtain ⟨rfl, _⟩ := h; simp
          · simp only [Except.ok.injEq, Prod.mk.injEq] at h; obtain ⟨rfl, _⟩ := h; rfl

theorem distributeSurplus_batteries (ops : BatOps α B) (env : StratEnv α) (w w' : SWorld α B)
    (cmds' : List (String × α)) (h : distributeSurplus ops env w = .ok (w', cmds')) :
    w'.batteries = w.batteries := by
  unfold distributeSurplus at h
  simp only [bind, Except.bind] at h
  split at h
  · cases h
  · rename_i cheap _
    have key : ∀ (vs : List (VehicleS α B)) (st st' : SWorld α B × List (String × α)),
        vs.foldlM (fun (st : SWorld α B × List (String × α)) v0 =>
          match st.1.vehicle? v0.id with
          | none => Except.ok st
          | some v => surplusVehicle ops env cheap st.1 st.2 v) st = .ok st' →
        st'.1.batteries = st.1.batteries := by
      intro vs
      induction vs with
      | nil =>
        intro st st' h3
        simp only [List.foldlM_nil, pure, Except.pure, Except.ok.injEq] at h3
        subst h3; rfl
      | cons v0 rest ih =>
        intro st st' h3
        simp only [List.foldlM_cons, bind, Except.bind] at h3
        split at h3
        · cases h3
        · rename_i st1 hst1
          split at hst1
          · simp only [Except.ok.injEq] at hst1
            subst hst1
            exact ih _ _ h3
          · obtain ⟨w1, c1⟩ := st1
            rw [ih _ _ h3]
            exact surplusVehicle_batteries ops env cheap st.1 w1 st.2 c1 _ hst1
    exact key w.vehicles (w, []) (w', cmds') h

end SpiceEv

namespace SpiceEv
variable {α B : Type} [Field α] [LinearOrder α] [IsStrictOrderedRing α]

/-! ### stations -/

def StationInv (w : SWorld α B) : Prop := ∀ s ∈ w.stations, s.currentPower ≤ s.maxPower

theorem station?_some (w : SWorld α B) (id : String) (s : StationS α) (h : w.station? id = some s) :
    s ∈ w.stations ∧ s.id = id := by
  unfold SWorld.station? at h
  exact ⟨List.mem_of_find?_eq_some h, by simpa using List.find?_some h⟩

theorem mem_setStation (w : SWorld α B) (s' s : StationS α) (h : s ∈ (w.setStation s').stations) :
    s = s' ∨ s ∈ w.stations := by
  unfold SWorld.setStation at h
  simp only [List.mem_map] at h
  obtain ⟨x, hx, rfl⟩ := h
  by_cases hid : (x.id == s'.id) = true
  · left; simp [hid]
  · right; simp [hid, hx]

@[simp] theorem setVehicle_stations (w : SWorld α B) (v : VehicleS α B) :
    (w.setVehicle v).stations = w.stations := rfl
@[simp] theorem setGc_stations (w : SWorld α B) (g : GcS α) : (w.setGc g).stations = w.stations := rfl
@[simp] theorem setBattery_stations (w : SWorld α B) (b : StatBatS α B) :
    (w.setBattery b).stations = w.stations := rfl

theorem clampPower_station (p cur mx mn vm : α) (h : cur ≤ mx) :
    cur + clampPower p cur mx mn vm ≤ mx := by
  unfold clampPower
  simp only [pymin_eq, pymax_eq]
  split
  · simpa using h
  · rcases le_total (min p (mx - cur)) 0 with h0 | h0
    · rw [max_eq_right h0]; simpa using h
    · rw [max_eq_left h0]
      have := min_le_right p (mx - cur)
      linarith

/-- the offered power fits into the station -/
theorem planPower_station (rule : Rule) (ops : BatOps α B) (env : StratEnv α) (cheap : Bool)
    (left availGc : α) (cs : StationS α) (v : VehicleS α B) (power : α) (used : Bool)
    (hcs : cs.currentPower ≤ cs.maxPower)
    (h : planPower rule ops env cheap left availGc cs v = .ok (power, used)) :
    cs.currentPower + power ≤ cs.maxPower := by
  unfold planPower at h
  simp only at h
  split at h
  · simp only [Except.ok.injEq, Prod.mk.injEq] at h
    obtain ⟨rfl, _⟩ := h
    exact clampPower_station _ _ _ _ _ hcs
  · split at h
    · cases rule with
      | greedy =>
        simp only [Except.ok.injEq, Prod.mk.injEq] at h
        obtain ⟨rfl, _⟩ := h
        exact clampPower_station _ _ _ _ _ hcs
      | balanced =>
        simp only at h
        split at h
        · cases h
        · split at h <;>
          · simp only [Except.ok.injEq, Prod.mk.injEq] at h
            obtain ⟨rfl, _⟩ := h
            exact clampPower_station _ _ _ _ _ hcs
    · simp only [Except.ok.injEq, Prod.mk.injEq] at h
      obtain ⟨rfl, _⟩ := h
      simpa using hcs

theorem allocVehicle_station (rule : Rule) (ops : BatOps α B) (law : BatLaw ops) (env : StratEnv α)
    (st st' : SWorld α B × List (String × α) × List (String × α)) (vid : String)
    (hinv : StationInv st.1)
    (h : allocVehicle rule ops env st vid = .ok st') : StationInv st'.1 := by
  unfold allocVehicle at h
  split at h
  · cases h
  · rename_i v hv
    split at h
    · simp only [Except.ok.injEq] at h; subst h; exact hinv
    · rename_i csId hcs
      split at h
      · cases h
      · rename_i cs hst
        obtain ⟨hsm, _⟩ := station?_some _ _ cs hst
        split at h
        · cases h
        · rename_i gc hgc
          simp only [bind, Except.bind] at h
          split at h
          · cases h
          · rename_i cheap hch
            split at h
            · cases h
            · rename_i pu hpl
              obtain ⟨power, used⟩ := pu
              split at h
              · cases h
              · rename_i ba hcc
                obtain ⟨bat', avg⟩ := ba
                simp only [Except.ok.injEq] at h
                subst h
                have hp0 := (planPower_bound rule ops env cheap _ _ cs v power used hpl).1
                have hfit := planPower_station rule ops env cheap _ _ cs v power used (hinv cs hsm) hpl
                obtain ⟨_, hap⟩ := chargeCall_bound rule ops law env cheap v power hp0 bat' avg hcc
                intro s hs
                rcases mem_setStation _ _ s hs with rfl | hs'
                · show cs.currentPower + avg ≤ cs.maxPower
                  linarith
                · simp only [setGc_stations, setVehicle_stations] at hs'
                  exact hinv s hs'

theorem allocFold_station (rule : Rule) (ops : BatOps α B) (law : BatLaw ops) (env : StratEnv α)
    (ids : List String) (st st' : SWorld α B × List (String × α) × List (String × α))
    (hinv : StationInv st.1)
    (h : ids.foldlM (allocVehicle rule ops env) st = .ok st') : StationInv st'.1 := by
  induction ids generalizing st with
  | nil =>
    simp only [List.foldlM_nil, pure, Except.pure, Except.ok.injEq] at h
    subst h; exact hinv
  | cons id rest ih =>
    simp only [List.foldlM_cons, bind, Except.bind] at h
    split at h
    · cases h
    · rename_i st1 hs
      exact ih st1 (allocVehicle_station rule ops law env st st1 id hinv hs) h

end SpiceEv

namespace SpiceEv
variable {α B : Type} [Field α] [LinearOrder α] [IsStrictOrderedRing α]

theorem surplusVehicle_station (ops : BatOps α B) (law : BatLaw ops) (env : StratEnv α)
    (cheap : List (String × Bool)) (w w' : SWorld α B) (cmds cmds' : List (String × α))
    (v : VehicleS α B) (hinv : StationInv w)
    (h : surplusVehicle ops env cheap w cmds v = .ok (w', cmds')) : StationInv w' := by
  unfold surplusVehicle at h
  split at h
  · simp only [Except.ok.injEq, Prod.mk.injEq] at h; obtain ⟨rfl, _⟩ := h; exact hinv
  · split at h
    · cases h
    · rename_i cs hst
      obtain ⟨hsm, _⟩ := station?_some _ _ cs hst
      split at h
      · cases h
      · rename_i gc hgc
        simp only at h
        split at h
        · simp only [bind, Except.bind] at h
          split at h
          · cases h
          · rename_i ba hl
            obtain ⟨bat', avg⟩ := ba
            simp only [Except.ok.injEq, Prod.mk.injEq] at h
            obtain ⟨rfl, _⟩ := h
            obtain ⟨_, hap⟩ := law.load_max _ _ _ _ hl
            have hc := clampPower_bounds (-gc.currentLoad) cs.currentPower cs.maxPower cs.minPower
              v.minChargingPower
            rw [max_eq_left hc.1] at hap
            have hfit := clampPower_station (-gc.currentLoad) cs.currentPower cs.maxPower cs.minPower
              v.minChargingPower (hinv cs hsm)
            intro s hs
            rcases mem_setStation _ _ s hs with rfl | hs'
            · show cs.currentPower + avg ≤ cs.maxPower
              linarith
            · simp only [setGc_stations, setVehicle_stations] at hs'
              exact hinv s hs'
        · split at h
          · simp only [bind, Except.bind] at h
            split at h
            · cases h
            · rename_i ba hl
              obtain ⟨bat', avg⟩ := ba
              simp only [Except.ok.injEq, Prod.mk.injEq] at h
              obtain ⟨rfl, _⟩ := h
              obtain ⟨ha0, _⟩ := law.unload_max _ _ _ _ _ hl
              intro s hs
              rcases mem_setStation _ _ s hs with rfl | hs'
              · show cs.currentPower - avg ≤ cs.maxPower
                have := hinv cs hsm
                linarith
              · simp only [setGc_stations, setVehicle_stations] at hs'
                exact hinv s hs'
          · simp only [Except.ok.injEq, Prod.mk.injEq] at h; obtain ⟨rfl, _⟩ := h; exact hinv

theorem distributeSurplus_station (ops : BatOps α B) (law : BatLaw ops) (env : StratEnv α)
    (w w' : SWorld α B) (cmds' : List (String × α)) (hinv : StationInv w)
    (h : distributeSurplus ops env w = .ok (w', cmds')) : StationInv w' := by
  unfold distributeSurplus at h
  simp only [bind, Except.bind] at h
  split at h
  · cases h
  · rename_i cheap _
    have key : ∀ (vs : List (VehicleS α B)) (st st' : SWorld α B × List (String × α)),
        StationInv st.1 →
        vs.foldlM (fun (st : SWorld α B × List (String × α)) v0 =>
          match st.1.vehicle? v0.id with
          | none => Except.ok st
          | some v => surplusVehicle ops env cheap st.1 st.2 v) st = .ok st' →
        StationInv st'.1 := by
      intro vs
      induction vs with
      | nil =>
        intro st st' h1 h3
        simp only [List.foldlM_nil, pure, Except.pure, Except.ok.injEq] at h3
        subst h3; exact h1
      | cons v0 rest ih =>
        intro st st' h1 h3
        simp only [List.foldlM_cons, bind, Except.bind] at h3
        split at h3
        · cases h3
        · rename_i st1 hst1
          split at hst1
          · simp only [Except.ok.injEq] at hst1
            subst hst1
            exact ih _ _ h1 h3
          · obtain ⟨w1, c1⟩ := st1
            exact ih _ _ (surplusVehicle_station ops law env cheap st.1 w1 st.2 c1 _ h1 hst1) h3
    exact key w.vehicles (w, []) (w', cmds') hinv h

theorem updateBatteries_stations (ops : BatOps α B) (env : StratEnv α) (w w' : SWorld α B)
    (h : updateBatteries ops env w = .ok w') : w'.stations = w.stations := by
  unfold updateBatteries at h
  simp only [bind, Except.bind] at h
  split at h
  · cases h
  · rename_i cheap _
    have key : ∀ (bs : List (StatBatS α B)) (w w' : SWorld α B),
        bs.foldlM (fun w b0 =>
          match w.batteries.find? (·.id == b0.id) with
          | none => Except.ok w
          | some b => updateBattery ops env cheap w b) w = .ok w' → w'.stations = w.stations := by
      intro bs
      induction bs with
      | nil =>
        intro w w' h3
        simp only [List.foldlM_nil, pure, Except.pure, Except.ok.injEq] at h3
        subst h3; rfl
      | cons b0 rest ih =>
        intro w w' h3
        simp only [List.foldlM_cons, bind, Except.bind] at h3
        split at h3
        · cases h3
        · rename_i w1 hw1
          rw [ih w1 w' h3]
          split at hw1
          · simp only [Except.ok.injEq] at hw1; subst hw1; rfl
          · rename_i b hb
            unfold updateBattery at hw1
            split at hw1
            · simp only [Except.ok.injEq] at hw1; subst hw1; rfl
            · simp only [bind, Except.bind] at hw1
              split at hw1
              · cases hw1
              · split at hw1
                · split at hw1
                  · cases hw1
                  · simp only [Except.ok.injEq] at hw1; subst hw1; simp
                · split at hw1
                  · split at hw1
                    · cases hw1
                    · simp only [Except.ok.injEq] at hw1; subst hw1; simp
                  · split at hw1
                    · cases hw1
                    · simp only [Except.ok.injEq] at hw1; subst hw1; simp
    exact key w.batteries w w' h

end SpiceEv
