/-
Lemmas about the flex_window model (Model/StratFlexWindow.lean) under the abstract battery law.
-/
import SpiceEv.Proofs.Strategies
import SpiceEv.Model.StratFlexWindow
import Mathlib.Data.List.Nodup
import Mathlib.Data.List.Perm.Basic
set_option linter.unusedSectionVars false
set_option linter.unusedSimpArgs false
set_option linter.unusedVariables false
namespace SpiceEv.FlexWindow
open SpiceEv
variable {α B : Type} [Field α] [LinearOrder α] [IsStrictOrderedRing α]

/-- battery law used for flex_window: `BatLaw` plus the `unload(max_power=p)` call (no target) of the
stationary-battery passes -/
structure FwLaw (ops : BatOps α B) : Prop extends BatLaw ops where
  unload_maxonly : ∀ b p b' avg, ops.unload b (some p) none none = .ok (b', avg) →
    0 ≤ avg ∧ avg ≤ max p 0

/-! ### generic -/

theorem foldlM_inv {σ β ε : Type} (f : σ → β → Except ε σ) (P : σ → Prop)
    (hf : ∀ s x s', P s → f s x = .ok s' → P s') :
    ∀ (l : List β) (s s' : σ), P s → l.foldlM f s = .ok s' → P s' := by
  intro l
  induction l with
  | nil =>
    intro s s' hp h
    simp only [List.foldlM_nil, pure, Except.pure, Except.ok.injEq] at h
    subst h; exact hp
  | cons x xs ih =>
    intro s s' hp h
    simp only [List.foldlM_cons, bind, Except.bind] at h
    split at h
    · cases h
    · rename_i s1 hs1
      exact ih s1 s' (hf s x s1 hp hs1) h

/-- the bracket of `bisectM` stays inside the initial one; every predicate established by the body
for midpoints of the initial bracket holds at the end -/
theorem bisectM_inv {σ : Type} (eps : α) (heps : 0 ≤ eps) (body : α → σ → FPy (Bool × σ))
    (lo0 hi0 : α) (P : σ → Prop)
    (hbody : ∀ mid st r, lo0 ≤ mid → mid ≤ hi0 → body mid st = .ok r → P r.2) :
    ∀ (fuel : Nat) (lo hi : α) (st st' : σ), lo0 ≤ lo → hi ≤ hi0 → P st →
      bisectM eps body fuel lo hi st = .ok st' → P st' := by
  intro fuel
  induction fuel with
  | zero =>
    intro lo hi st st' _ _ hp h
    unfold bisectM at h
    split at h
    · cases h
    · simp only [Except.ok.injEq] at h; subst h; exact hp
  | succ f ih =>
    intro lo hi st st' hlo hhi hp h
    unfold bisectM at h
    split at h
    · rename_i hgap
      simp only [bind, Except.bind] at h
      split at h
      · cases h
      · rename_i r hr
        have hlt : lo < hi := by linarith
        have h2 : (two : α) = 2 := by simp [two]
        have hm1 : lo ≤ (lo + hi) / two := by
          rw [h2, le_div_iff₀ (by norm_num : (0 : α) < 2)]; linarith
        have hm2 : (lo + hi) / two ≤ hi := by
          rw [h2, div_le_iff₀ (by norm_num : (0 : α) < 2)]; linarith
        have hp' : P r.2 := hbody _ st r (le_trans hlo hm1) (le_trans hm2 hhi) hr
        split at h
        · exact ih lo _ r.2 st' hlo (le_trans hm2 hhi) hp' h
        · exact ih _ hi r.2 st' (le_trans hlo hm1) hhi hp' h
    · simp only [Except.ok.injEq] at h; subst h; exact hp

/-! ### single-connector worlds -/

@[simp] theorem addLoad_id (g : GcS α) (k : String) (v : α) : (g.addLoad k v).1.id = g.id :=
  (addLoad_currentLoad g k v).2.2.1
@[simp] theorem addLoad_curMax (g : GcS α) (k : String) (v : α) : (g.addLoad k v).1.curMax = g.curMax :=
  (addLoad_currentLoad g k v).2.1
@[simp] theorem addLoad_load (g : GcS α) (k : String) (v : α) :
    (g.addLoad k v).1.currentLoad = g.currentLoad + v := (addLoad_currentLoad g k v).1

theorem theGc_single (w : SWorld α B) (g : GcS α) (hg : w.gcs = [g]) : theGc w = .ok g := by
  unfold theGc; rw [hg]

theorem gc?_single (w : SWorld α B) (g gc : GcS α) (p : String) (hg : w.gcs = [g])
    (h : w.gc? p = some gc) : gc = g := by
  have := (gc?_some w p gc h).1
  rw [hg] at this
  simpa using this

theorem setGc_single (w : SWorld α B) (g : GcS α) (k : String) (x : α) (hg : w.gcs = [g]) :
    (w.setGc (g.addLoad k x).1).gcs = [(g.addLoad k x).1] := by
  unfold SWorld.setGc
  simp [hg]

/-- relation between the connector before and after a pass: limit and id untouched, the load does
not exceed `max load limit`, — in a window step (`cw`) — never decreases, and — where the lower
bound is tracked (`lo`) — does not fall below `min load (−limit)` -/
def Rel (cw lo : Bool) (g g' : GcS α) : Prop :=
  g'.curMax = g.curMax ∧ g'.id = g.id ∧ g'.currentLoad ≤ max g.currentLoad g.curMax ∧
    (cw = true → g.currentLoad ≤ g'.currentLoad) ∧
    (lo = true → min g.currentLoad (-g.curMax) ≤ g'.currentLoad)

theorem Rel.refl (cw lo : Bool) (g : GcS α) : Rel cw lo g g :=
  ⟨rfl, rfl, le_max_left _ _, fun _ => le_refl _, fun _ => min_le_left _ _⟩

theorem Rel.trans {cw lo : Bool} {a b c : GcS α} (h1 : Rel cw lo a b) (h2 : Rel cw lo b c) :
    Rel cw lo a c := by
  obtain ⟨a1, a2, a3, a4, a5⟩ := h1
  obtain ⟨b1, b2, b3, b4, b5⟩ := h2
  refine ⟨by rw [b1, a1], by rw [b2, a2], ?_, fun hc => le_trans (a4 hc) (b4 hc), fun hl => ?_⟩
  · rw [a1] at b3
    exact le_trans b3 (max_le a3 (le_max_right _ _))
  · rw [a1] at b5
    exact le_trans (le_min (a5 hl) (min_le_right _ _)) (b5 hl)

/-- adding `x ≤ max (limit − load) 0` (`0 ≤ x` in a window step, `−max (limit + load) 0 ≤ x` where the
lower bound is tracked) is a `Rel` step -/
theorem Rel.addLoad (cw lo : Bool) (g : GcS α) (k : String) (x : α)
    (hx : x ≤ max (g.curMax - g.currentLoad) 0) (hx0 : cw = true → 0 ≤ x)
    (hxl : lo = true → -(max (g.curMax + g.currentLoad) 0) ≤ x) :
    Rel cw lo g (g.addLoad k x).1 := by
  refine ⟨addLoad_curMax .., addLoad_id .., ?_, ?_, ?_⟩
  · rw [addLoad_load]
    rcases le_total (g.curMax - g.currentLoad) 0 with h | h
    · rw [max_eq_right h] at hx
      exact le_trans (by linarith) (le_max_left _ _)
    · rw [max_eq_left h] at hx
      exact le_trans (by linarith) (le_max_right _ _)
  · intro hc
    rw [addLoad_load]
    have := hx0 hc
    linarith
  · intro hl
    rw [addLoad_load]
    have := hxl hl
    rcases le_total (g.curMax + g.currentLoad) 0 with h | h
    · rw [max_eq_right h] at this
      exact le_trans (min_le_left _ _) (by linarith)
    · rw [max_eq_left h] at this
      exact le_trans (min_le_right _ _) (by linarith)

/-- a charging step (`0 ≤ x`) -/
theorem Rel.charge (cw lo : Bool) (g : GcS α) (k : String) (x : α)
    (hx : x ≤ max (g.curMax - g.currentLoad) 0) (hx0 : 0 ≤ x) : Rel cw lo g (g.addLoad k x).1 :=
  Rel.addLoad cw lo g k x hx (fun _ => hx0)
    (fun _ => le_trans (neg_nonpos.mpr (le_max_right _ _)) hx0)


/-- state invariant threaded through the passes, relative to the connector `g0` at the start -/
def Inv (cw lo : Bool) (g0 : GcS α) (st : FState α B) : Prop :=
  (∃ g, st.w.gcs = [g] ∧ Rel cw lo g0 g) ∧ truthy st.window = cw ∧
    (∀ t rest, st.ts = t :: rest → t.window = st.window)

theorem clampV_le (p : α) (cs : StationS α) (v : VehicleS α B) :
    0 ≤ clampV p cs v ∧ clampV p cs v ≤ max 0 p := clampPower_bounds ..

theorem clampV_zero (cs : StationS α) (v : VehicleS α B) : clampV (0 : α) cs v = 0 := by
  have := clampV_le (0 : α) cs v
  rw [max_self] at this
  exact le_antisymm this.2 this.1

/-! ### `distribute_balanced_vehicles` -/

theorem liftM_ok {β : Type} (x : Py β) (v : β) : (liftM x : FPy β) = .ok v ↔ x = .ok v := by
  cases x with
  | error e => simp [liftM, monadLift, MonadLift.monadLift, liftPy]
  | ok a => simp [liftM, monadLift, MonadLift.monadLift, liftPy]

theorem balPower_le (win ciw : Bool) (head pw : α) :
    (if win = true then (if ciw = true then pymin head pw else head)
     else (if ciw = true then 0 else pymin head pw)) ≤ max head 0 := by
  simp only [pymin_eq]
  split <;> split
  · exact le_trans (min_le_left _ _) (le_max_left _ _)
  · exact le_max_left _ _
  · exact le_max_right _ _
  · exact le_trans (min_le_left _ _) (le_max_left _ _)

theorem balVehicle_inv (ops : BatOps α B) (law : BatLaw ops) (env : FEnv α) (cw lo : Bool) (g0 : GcS α)
    (acc acc' : FState α B × List (String × α) × Option α) (v0 : VehicleS α B)
    (hinv : Inv cw lo g0 acc.1) (h : balVehicle ops env acc v0 = .ok acc') : Inv cw lo g0 acc'.1 := by
  unfold balVehicle at h
  simp only [bind, Except.bind] at h
  split at h
  · simp only [Except.ok.injEq] at h; subst h; exact hinv
  · rename_i csId hcs
    split at h
    · cases h
    · rename_i cs hst
      split at h
      · cases h
      · rename_i simBat hwp
        split at h
        · cases h
        · rename_i fin hbis
          obtain ⟨⟨g, hg, hrel⟩, hcw, hhead⟩ := hinv
          rw [theGc_single _ g hg] at h
          simp only at h
          split at h
          · cases h
          · rename_i pw hpw
            split at h
            · cases h
            · rename_i r hl
              rw [liftM_ok] at hl
              simp only [Except.ok.injEq] at h
              subst h
              obtain ⟨ha0, hap⟩ := law.load_max _ _ _ _ hl
              refine ⟨⟨(g.addLoad csId r.2).1, ?_, ?_⟩, hcw, ?_⟩
              · simp only [setStation_gcs]
                exact setGc_single _ g csId r.2 (by simpa using hg)
              · refine hrel.trans (Rel.charge cw lo g csId r.2 ?_ ha0)
                refine le_trans hap (max_le ?_ (le_max_right _ _))
                refine le_trans (clampV_le _ _ _).2 (max_le (le_max_right _ _) ?_)
                exact balPower_le _ _ _ _
              · intro t rest ht
                simp only at ht ⊢
                cases hts : acc.1.ts with
                | nil => rw [hts] at ht; simp at ht
                | cons t1 r1 =>
                  rw [hts] at ht
                  cases hpv : fin.pv with
                  | nil => rw [hpv] at ht; simp at ht
                  | cons p1 pr =>
                    rw [hpv] at ht
                    simp only [List.zip_cons_cons, List.map_cons, List.cons.injEq] at ht
                    obtain ⟨rfl, _⟩ := ht
                    exact hhead t1 r1 hts

theorem distributeBalancedVehicles_inv (ops : BatOps α B) (law : BatLaw ops) (env : FEnv α) (cw lo : Bool)
    (g0 : GcS α) (st st' : FState α B) (cmds : List (String × α))
    (hinv : Inv cw lo g0 st) (h : distributeBalancedVehicles ops env st = .ok (st', cmds)) :
    Inv cw lo g0 st' := by
  unfold distributeBalancedVehicles at h
  simp only [bind, Except.bind] at h
  split at h
  · cases h
  · rename_i vs _
    split at h
    · cases h
    · rename_i r hr
      simp only [Except.ok.injEq, Prod.mk.injEq] at h
      obtain ⟨rfl, _⟩ := h
      exact foldlM_inv (balVehicle ops env) (fun a => Inv cw lo g0 a.1)
        (fun s x s' hp hs => balVehicle_inv ops law env cw lo g0 s s' x hp hs) vs _ r hinv hr

/-- `distribute_surplus_to_vehicles` only charges, at most the surplus -/
theorem surplusToVehicles_rel (ops : BatOps α B) (law : BatLaw ops) (env : FEnv α) (cw lo : Bool)
    (w w' : SWorld α B) (cmds : List (String × α)) (g : GcS α) (hg : w.gcs = [g])
    (hM : 0 ≤ g.curMax) (h : surplusToVehicles ops env w = .ok (w', cmds)) :
    ∃ g', w'.gcs = [g'] ∧ Rel cw lo g g' := by
  unfold surplusToVehicles at h
  refine foldlM_inv _ (fun (a : SWorld α B × List (String × α)) => ∃ g', a.1.gcs = [g'] ∧ Rel cw lo g g')
    ?_ w.vehicles (w, []) (w', cmds) ⟨g, hg, Rel.refl cw lo g⟩ h
  intro s x s' hp hs
  obtain ⟨g1, hg1, hrel⟩ := hp
  simp only [bind, Except.bind] at hs
  split at hs
  · simp only [Except.ok.injEq] at hs; subst hs; exact ⟨g1, hg1, hrel⟩
  · rename_i csId hcs
    split at hs
    · cases hs
    · rename_i cs hst
      split at hs
      · cases hs
      · rename_i gc hgc
        have : gc = g1 := gc?_single _ g1 gc _ hg1 hgc
        subst this
        split at hs
        · cases hs
        · rename_i r hl
          rw [liftM_ok] at hl
          simp only [Except.ok.injEq] at hs
          subst hs
          obtain ⟨ha0, hap⟩ := law.load_max _ _ _ _ hl
          refine ⟨(gc.addLoad csId r.2).1, ?_, hrel.trans (Rel.charge cw lo gc csId r.2 ?_ ha0)⟩
          · simp only [setStation_gcs]
            exact setGc_single _ gc csId r.2 (by simpa using hg1)
          · refine le_trans hap (max_le ?_ (le_max_right _ _))
            refine le_trans (clampV_le _ _ _).2 (max_le (le_max_right _ _) ?_)
            have : 0 ≤ gc.curMax := by rw [hrel.1]; exact hM
            exact le_trans (by linarith) (le_max_left _ _)

theorem setGc_single' (w : SWorld α B) (b : StatBatS α B) (g : GcS α) (k : String) (x : α) (hg : w.gcs = [g]) :
    ((w.setBattery b).setGc (g.addLoad k x).1).gcs = [(g.addLoad k x).1] :=
  setGc_single _ g k x (by simpa using hg)

/-- `load_surplus_to_batteries` only charges, at most the surplus -/
theorem surplusToBatteries_rel (ops : BatOps α B) (law : BatLaw ops) (env : FEnv α) (cw lo : Bool)
    (w w' : SWorld α B) (g : GcS α) (hg : w.gcs = [g])
    (hM : 0 ≤ g.curMax) (h : surplusToBatteries ops env w = .ok w') :
    ∃ g', w'.gcs = [g'] ∧ Rel cw lo g g' := by
  unfold surplusToBatteries at h
  refine foldlM_inv _ (fun (a : SWorld α B) => ∃ g', a.gcs = [g'] ∧ Rel cw lo g g')
    ?_ w.batteries w w' ⟨g, hg, Rel.refl cw lo g⟩ h
  intro s x s' hp hs
  obtain ⟨g1, hg1, hrel⟩ := hp
  simp only [bind, Except.bind] at hs
  split at hs
  · cases hs
  · rename_i gc hgc
    have : gc = g1 := gc?_single _ g1 gc _ hg1 hgc
    subst this
    split at hs
    · cases hs
    · rename_i r hl
      rw [liftM_ok] at hl
      simp only [Except.ok.injEq] at hs
      subst hs
      obtain ⟨ha0, hap⟩ := law.load_max _ _ _ _ hl
      refine ⟨(gc.addLoad _ r.2).1, setGc_single' _ _ gc _ r.2 hg1,
        hrel.trans (Rel.charge cw lo gc _ r.2 ?_ ha0)⟩
      refine le_trans hap (max_le ?_ (le_max_right _ _))
      have : 0 ≤ gc.curMax := by rw [hrel.1]; exact hM
      split
      · exact le_max_right _ _
      · exact le_trans (by linarith) (le_max_left _ _)

theorem head_addTotal0 (ts : List (TS α)) (x : α) (w : Option Bool)
    (h : ∀ t rest, ts = t :: rest → t.window = w) : ∀ t rest, addTotal0 ts x = t :: rest → t.window = w := by
  intro t rest ht
  cases ts with
  | nil => simp [addTotal0] at ht
  | cons t1 r1 =>
    simp only [addTotal0, List.cons.injEq] at ht
    obtain ⟨rfl, _⟩ := ht
    exact h t1 r1 rfl

theorem head_subTotal0 (ts : List (TS α)) (x : α) (w : Option Bool)
    (h : ∀ t rest, ts = t :: rest → t.window = w) : ∀ t rest, subTotal0 ts x = t :: rest → t.window = w := by
  intro t rest ht
  cases ts with
  | nil => simp [subTotal0] at ht
  | cons t1 r1 =>
    simp only [subTotal0, List.cons.injEq] at ht
    obtain ⟨rfl, _⟩ := ht
    exact h t1 r1 rfl

theorem balV2gVehicle_inv (ops : BatOps α B) (law : BatLaw ops) (env : FEnv α) (heps : 0 ≤ env.base.eps)
    (cw lo : Bool) (g0 : GcS α) (curWindow : Option Bool) (hcur : truthy curWindow = cw)
    (acc acc' : V2gAcc α B) (v0 : VehicleS α B)
    (hinv : Inv cw lo g0 acc.st) (h : balV2gVehicle ops env curWindow acc v0 = .ok acc') :
    Inv cw lo g0 acc'.st := by
  unfold balV2gVehicle at h
  simp only [bind, Except.bind, pure, Except.pure] at h
  split at h
  · simp only [Except.ok.injEq] at h; subst h; exact hinv
  · split at h
    · simp only [Except.ok.injEq] at h; subst h; exact hinv
    · rename_i csId hcs
      split at h
      · cases h
      · rename_i cs hst
        split at h
        · cases h
        · rename_i conn hconn
          split at h
          · cases h
          · rename_i dlr hdl
            split at h
            · simp only [Except.ok.injEq] at h; subst h; exact hinv
            · obtain ⟨⟨g, hg, hrel⟩, hcw, hhead⟩ := hinv
              rw [theGc_single _ g hg] at h
              simp only at h
              split at h
              · cases h
              · rename_i total hbis
                -- the midpoint never exceeds the upper end of the bracket
                have htot : total ≤ max (if truthy curWindow = true then pymin cs.maxPower (g.curMax - g.currentLoad)
                    else pymin cs.maxPower (g.curMax + g.currentLoad)) 0 := by
                  refine bisectM_inv env.base.eps heps _ 0 _ (fun t => t ≤ max _ 0) ?_ env.fuel 0 _ 0 total
                    (le_refl _) (le_refl _) (le_max_right _ _) hbis
                  intro mid st r _ hm hr
                  split at hr
                  · cases hr
                  · simp only [Except.ok.injEq] at hr
                    subst hr
                    exact le_trans hm (le_max_left _ _)
                split at h
                · -- window: charge
                  rename_i hwin
                  rw [hwin] at hcur
                  simp only [hwin, if_true, pymin_eq] at htot
                  split at h
                  · cases h
                  · rename_i r hl
                    simp only [Except.ok.injEq] at h
                    subst h
                    have hr : 0 ≤ r.2 ∧ r.2 ≤ max total 0 := by
                      split at hl
                      · rw [liftM_ok] at hl
                        simp only [Except.ok.injEq] at hl
                        subst hl
                        exact ⟨le_refl _, le_max_right _ _⟩
                      · rw [liftM_ok] at hl
                        obtain ⟨ha0, hap⟩ := law.load_max _ _ _ _ hl
                        exact ⟨ha0, le_trans hap (max_le (le_trans (clampV_le _ _ _).2
                          (max_le (le_max_right _ _) (le_max_left _ _))) (le_max_right _ _))⟩
                    refine ⟨⟨(g.addLoad csId r.2).1, ?_, ?_⟩, hcw, head_addTotal0 _ _ _ hhead⟩
                    · simp only [setStation_gcs]
                      exact setGc_single _ g csId r.2 (by simpa using hg)
                    · refine hrel.trans (Rel.charge cw lo g csId r.2 ?_ hr.1)
                      refine le_trans hr.2 (max_le (le_trans htot (max_le ?_ (le_max_right _ _))) (le_max_right _ _))
                      exact le_trans (min_le_right _ _) (le_max_left _ _)
                · -- no window: discharge
                  rename_i hwin
                  have hcwf : cw = false := by
                    rw [← hcur]; simpa using hwin
                  split at h
                  · cases h
                  · rename_i d hd
                    split at h
                    · cases h
                    · rename_i r hl
                      simp only [Except.ok.injEq] at h
                      subst h
                      simp only [hwin, Bool.false_eq_true, ↓reduceIte, pymin_eq] at htot
                      have hr : 0 ≤ r.2 ∧ r.2 ≤ max total 0 := by
                        split at hl
                        · rw [liftM_ok] at hl
                          simp only [Except.ok.injEq] at hl
                          subst hl
                          exact ⟨le_refl _, le_max_right _ _⟩
                        · rw [liftM_ok] at hl
                          obtain ⟨hu0, hup⟩ := law.unload_max _ _ _ _ _ hl
                          refine ⟨hu0, le_trans hup (max_le ?_ (le_max_right _ _))⟩
                          rw [pymin_eq]
                          exact le_trans (min_le_left _ _) (le_trans (clampV_le _ _ _).2
                            (max_le (le_max_right _ _) (le_max_left _ _)))
                      refine ⟨⟨(g.addLoad csId (-r.2)).1, ?_, ?_⟩, hcw, head_subTotal0 _ _ _ hhead⟩
                      · simp only [setStation_gcs]
                        exact setGc_single _ g csId (-r.2) (by simpa using hg)
                      · refine hrel.trans (Rel.addLoad cw lo g csId (-r.2) ?_ (fun hc => ?_) (fun _ => ?_))
                        · exact le_trans (by linarith [hr.1]) (le_max_right _ _)
                        · rw [hcwf] at hc; cases hc
                        · rw [neg_le_neg_iff]
                          refine le_trans hr.2 (max_le (le_trans htot (max_le ?_ (le_max_right _ _)))
                            (le_max_right _ _))
                          exact le_trans (min_le_right _ _) (le_max_left _ _)

theorem distributeBalancedV2g_inv (ops : BatOps α B) (law : BatLaw ops) (env : FEnv α)
    (heps : 0 ≤ env.base.eps) (cw lo : Bool) (g0 : GcS α) (st st' : FState α B) (cmds : List (String × α))
    (hinv : Inv cw lo g0 st) (h : distributeBalancedV2g ops env st = .ok (st', cmds)) :
    Inv cw lo g0 st' := by
  unfold distributeBalancedV2g at h
  simp only [bind, Except.bind] at h
  split at h
  · cases h
  · rename_i vs _
    split at h
    · cases h
    · rename_i t0 rest hts
      split at h
      · cases h
      · rename_i r hr
        simp only [Except.ok.injEq, Prod.mk.injEq] at h
        obtain ⟨rfl, _⟩ := h
        have hcur : truthy t0.window = cw := by
          rw [hinv.2.2 t0 rest hts]; exact hinv.2.1
        exact foldlM_inv (balV2gVehicle ops env t0.window) (fun a => Inv cw lo g0 a.st)
          (fun s x s' hp hs => balV2gVehicle_inv ops law env heps cw lo g0 t0.window hcur s s' x hp hs)
          vs _ r hinv hr

/-- indexed fold invariant -/
theorem foldlM_inv_idx {σ β ε : Type} (f : σ → β → Except ε σ) (P : Nat → σ → Prop)
    (hf : ∀ k s x s', P k s → f s x = .ok s' → P (k + 1) s') :
    ∀ (l : List β) (k : Nat) (s s' : σ), P k s → l.foldlM f s = .ok s' → P (k + l.length) s' := by
  intro l
  induction l with
  | nil =>
    intro k s s' hp h
    simp only [List.foldlM_nil, pure, Except.pure, Except.ok.injEq] at h
    subst h; simpa using hp
  | cons x xs ih =>
    intro k s s' hp h
    simp only [List.foldlM_cons, bind, Except.bind] at h
    split at h
    · cases h
    · rename_i s1 hs1
      have := ih (k + 1) s1 s' (hf k s x s1 hp hs1) h
      simpa [Nat.add_assoc, Nat.add_comm 1] using this

theorem distributeBalancedBatteries_nobat (ops : BatOps α B) (env : FEnv α) (st st' : FState α B)
    (hb : st.w.batteries = []) (h : distributeBalancedBatteries ops env st = .ok st') : st' = st := by
  unfold distributeBalancedBatteries at h
  simp only [bind, Except.bind, hb, List.foldlM_nil, pure, Except.pure] at h
  split at h
  · cases h
  · split at h
    · cases h
    · simp only [Except.ok.injEq] at h
      exact h.symm

theorem distributeBalancedBatteries_inv (ops : BatOps α B) (law : FwLaw ops) (env : FEnv α)
    (heps : 0 ≤ env.base.eps) (cw lo : Bool) (g0 : GcS α) (st st' : FState α B)
    (hinv : Inv cw lo g0 st)
    (h : distributeBalancedBatteries ops env st = .ok st') :
    Inv cw lo g0 st' := by
  unfold distributeBalancedBatteries at h
  simp only [bind, Except.bind] at h
  obtain ⟨⟨g, hg, hrel⟩, hcw, hhead⟩ := hinv
  rw [theGc_single _ g hg] at h
  simp only at h
  split at h
  · cases h
  · rename_i total hbis
    -- the midpoint never exceeds the upper end of the bracket (repair FW3: feed-in headroom when discharging)
    have htot : total ≤ max (if truthy st.window = true then g.curMax - g.currentLoad
        else pymin (g.curMax - g.currentLoad) (g.curMax + g.currentLoad)) 0 := by
      refine bisectM_inv env.base.eps heps _ (-g.curMax) _ (fun t => t ≤ max _ 0) ?_ env.fuel _ _ 0 total
        (le_refl _) (le_refl _) (le_max_right _ _) hbis
      intro mid s r _ hm hr
      split at hr
      · cases hr
      · simp only [Except.ok.injEq] at hr
        subst hr
        exact le_trans hm (le_max_left _ _)
    set nb : α := (st.w.batteries.length : α) with hnb
    set c : α := max (total / nb) 0 with hc
    have hc0 : 0 ≤ c := le_max_right _ _
    have hsum : nb * c ≤ max total 0 := by
      rcases Nat.eq_zero_or_pos st.w.batteries.length with hz | hpos'
      · have : nb = 0 := by rw [hnb, hz]; simp
        rw [this, zero_mul]; exact le_max_right _ _
      · have hp : (0 : α) < nb := by rw [hnb]; exact_mod_cast hpos'
        rcases le_total (total / nb) 0 with hle | hle
        · rw [hc, max_eq_right hle, mul_zero]; exact le_max_right _ _
        · rw [hc, max_eq_left hle, mul_div_cancel₀ _ (ne_of_gt hp)]; exact le_max_left _ _
    by_cases hwin : truthy st.window = true
    · -- window: every battery is offered `total / n`
      simp only [hwin, if_true] at h htot
      have hsum' : nb * c ≤ max (g.curMax - g.currentLoad) 0 := le_trans hsum (max_le htot (le_max_right _ _))
      have hcw' : cw = true := by rw [← hcw]; exact hwin
      have key := foldlM_inv_idx _ (fun (k : Nat) (s : FState α B) =>
          (∃ g', s.w.gcs = [g'] ∧ g'.curMax = g.curMax ∧ g'.id = g.id ∧ g.currentLoad ≤ g'.currentLoad ∧
            g'.currentLoad ≤ g.currentLoad + (k : α) * c) ∧ s.window = st.window ∧
            (∀ t rest, s.ts = t :: rest → t.window = st.window))
          ?_ st.w.batteries 0 st st' ⟨⟨g, hg, rfl, rfl, le_refl _, by simp⟩, rfl, hhead⟩ h
      · obtain ⟨⟨g', hg', h1, h2, h3, h4⟩, hw', hh'⟩ := key
        refine ⟨⟨g', hg', hrel.trans ⟨h1, h2, ?_, fun _ => h3, fun _ => le_trans (min_le_left _ _) h3⟩⟩,
          by rw [hw']; exact hcw, by rw [hw']; exact hh'⟩
        simp only [Nat.zero_add] at h4
        have : g'.currentLoad ≤ g.currentLoad + max (g.curMax - g.currentLoad) 0 := by linarith
        rcases le_total (g.curMax - g.currentLoad) 0 with hle | hle
        · rw [max_eq_right hle] at this; exact le_trans (by linarith) (le_max_left _ _)
        · rw [max_eq_left hle] at this; exact le_trans (by linarith) (le_max_right _ _)
      · intro k s b0 s' hp hs
        obtain ⟨⟨g1, hg1, h1, h2, h3, h4⟩, hw1, hh1⟩ := hp
        rw [theGc_single _ g1 hg1] at hs
        simp only at hs
        set b := (List.find? (fun x => x.id == b0.id) s.w.batteries).getD b0 with hb
        have hav : (if total < b.minChargingPower then (0 : α) else total) / nb ≤ c := by
          split
          · rw [zero_div]; exact hc0
          · exact le_max_left _ _
        generalize (if total < b.minChargingPower then (0 : α) else total) = avail at hs hav
        split at hs
        · split at hs
          · cases hs
          · rename_i r hl
            rw [liftM_ok] at hl
            simp only [Except.ok.injEq] at hs
            subst hs
            obtain ⟨ha0, hap⟩ := law.load_max _ _ _ _ hl
            have hr : r.2 ≤ c := le_trans hap (max_le hav hc0)
            refine ⟨⟨(g1.addLoad _ r.2).1, setGc_single' _ _ g1 _ r.2 hg1, by rw [addLoad_curMax, h1],
              by rw [addLoad_id, h2], by rw [addLoad_load]; linarith, ?_⟩, hw1, head_addTotal0 _ _ _ hh1⟩
            rw [addLoad_load]
            push_cast
            linarith
        · simp only [Except.ok.injEq] at hs
          subst hs
          refine ⟨⟨g1, hg1, h1, h2, h3, ?_⟩, hw1, hh1⟩
          push_cast
          linarith
    · -- no window: every battery discharges at most `total / n`, in total at most the feed-in headroom
      simp only [hwin, Bool.false_eq_true, ↓reduceIte, pymin_eq] at h htot
      have hwinf : truthy st.window = false := by simpa using hwin
      have hcwf : cw = false := by rw [← hcw]; exact hwinf
      have hsum' : nb * c ≤ max (g.curMax + g.currentLoad) 0 :=
        le_trans hsum (max_le (le_trans htot (max_le (le_trans (min_le_right _ _) (le_max_left _ _))
          (le_max_right _ _))) (le_max_right _ _))
      have key := foldlM_inv_idx _ (fun (k : Nat) (s : FState α B) =>
          (∃ g', s.w.gcs = [g'] ∧ g'.curMax = g.curMax ∧ g'.id = g.id ∧ g'.currentLoad ≤ g.currentLoad ∧
            g.currentLoad - (k : α) * c ≤ g'.currentLoad) ∧ s.window = st.window ∧
            (∀ t rest, s.ts = t :: rest → t.window = st.window))
          ?_ st.w.batteries 0 st st' ⟨⟨g, hg, rfl, rfl, le_refl _, by simp⟩, rfl, hhead⟩ h
      · obtain ⟨⟨g', hg', h1, h2, h3, h4⟩, hw', hh'⟩ := key
        refine ⟨⟨g', hg', hrel.trans ⟨h1, h2, le_trans h3 (le_max_left _ _), fun hc' => ?_, fun _ => ?_⟩⟩,
          by rw [hw']; exact hcw, by rw [hw']; exact hh'⟩
        · rw [hcwf] at hc'; cases hc'
        · simp only [Nat.zero_add] at h4
          have : g.currentLoad - max (g.curMax + g.currentLoad) 0 ≤ g'.currentLoad := by linarith
          rcases le_total (g.curMax + g.currentLoad) 0 with hle | hle
          · rw [max_eq_right hle] at this
            exact le_trans (min_le_left _ _) (by linarith)
          · rw [max_eq_left hle] at this
            exact le_trans (min_le_right _ _) (by linarith)
      · intro k s b0 s' hp hs
        obtain ⟨⟨g1, hg1, h1, h2, h3, h4⟩, hw1, hh1⟩ := hp
        rw [theGc_single _ g1 hg1] at hs
        simp only at hs
        split at hs
        · cases hs
        · rename_i r hl
          simp only [Except.ok.injEq] at hs
          subst hs
          have hr : 0 ≤ r.2 ∧ r.2 ≤ c := by
            split at hl
            · rw [liftM_ok] at hl
              simp only [Except.ok.injEq] at hl
              subst hl
              exact ⟨le_refl _, hc0⟩
            · rw [liftM_ok] at hl
              obtain ⟨hu0, hup⟩ := law.unload_maxonly _ _ _ _ hl
              exact ⟨hu0, le_trans hup (max_le (le_max_left _ _) hc0)⟩
          refine ⟨⟨(g1.addLoad _ (-r.2)).1, setGc_single' _ _ g1 _ _ hg1, by rw [addLoad_curMax, h1],
            by rw [addLoad_id, h2], by rw [addLoad_load]; linarith [hr.1], ?_⟩, hw1, head_subTotal0 _ _ _ hh1⟩
          rw [addLoad_load]
          push_cast
          linarith [hr.2]

theorem surplusToVehicles_batteries (ops : BatOps α B) (env : FEnv α) (w w' : SWorld α B)
    (cmds : List (String × α)) (h : surplusToVehicles ops env w = .ok (w', cmds)) :
    w'.batteries = w.batteries := by
  unfold surplusToVehicles at h
  refine foldlM_inv _ (fun (a : SWorld α B × List (String × α)) => a.1.batteries = w.batteries) ?_
    w.vehicles (w, []) (w', cmds) rfl h
  intro s x s' hp hs
  simp only [bind, Except.bind] at hs
  repeat' split at hs
  all_goals first
    | (simp only [Except.ok.injEq] at hs; subst hs; exact hp)
    | cases hs

theorem surplusToBatteries_nobat (ops : BatOps α B) (env : FEnv α) (w w' : SWorld α B)
    (hb : w.batteries = []) (h : surplusToBatteries ops env w = .ok w') : w' = w := by
  unfold surplusToBatteries at h
  simp only [hb, List.foldlM_nil, pure, Except.pure, Except.ok.injEq] at h
  exact h.symm

theorem balV2gVehicle_batteries (ops : BatOps α B) (env : FEnv α) (curWindow : Option Bool)
    (acc acc' : V2gAcc α B) (v0 : VehicleS α B)
    (h : balV2gVehicle ops env curWindow acc v0 = .ok acc') :
    acc'.st.w.batteries = acc.st.w.batteries := by
  unfold balV2gVehicle at h
  simp only [bind, Except.bind, pure, Except.pure] at h
  repeat' split at h
  all_goals first
    | (simp only [Except.ok.injEq] at h; subst h; rfl)
    | cases h

theorem distributeBalancedV2g_batteries (ops : BatOps α B) (env : FEnv α) (st st' : FState α B)
    (cmds : List (String × α)) (h : distributeBalancedV2g ops env st = .ok (st', cmds)) :
    st'.w.batteries = st.w.batteries := by
  unfold distributeBalancedV2g at h
  simp only [bind, Except.bind] at h
  split at h
  · cases h
  · rename_i vs _
    split at h
    · cases h
    · split at h
      · cases h
      · rename_i r hr
        simp only [Except.ok.injEq, Prod.mk.injEq] at h
        obtain ⟨rfl, _⟩ := h
        exact foldlM_inv (balV2gVehicle ops env _) (fun a => a.st.w.batteries = st.w.batteries)
          (fun s x s' hp hs => by rw [balV2gVehicle_batteries ops env _ s s' x hs]; exact hp) vs _ r rfl hr

theorem step_balanced_rel (ops : BatOps α B) (law : FwLaw ops) (env : FEnv α)
    (hstrat : env.strat = .balanced) (heps : 0 ≤ env.base.eps) (lo : Bool)
    (w w' : SWorld α B) (window win' : Option Bool) (events : List (FEvent α))
    (cmds : List (String × α)) (g : GcS α) (hg : w.gcs = [g]) (hM : 0 ≤ g.curMax)
    (h : step ops env w window events = .ok (w', win', cmds)) :
    ∃ g', w'.gcs = [g'] ∧ Rel (truthy win') lo g g' := by
  unfold step at h
  rw [theGc_single _ g hg] at h
  simp only [bind, Except.bind, hstrat] at h
  split at h
  · cases h
  · rename_i ts hfc
    split at h
    · cases h
    · rename_i t0 rest
      simp only [beq_self_eq_true, if_true] at h
      set cw := truthy t0.window with hcwdef
      have hinv0 : Inv cw lo g (⟨resetStations w, t0.window, t0 :: rest⟩ : FState α B) :=
        ⟨⟨g, by simpa using hg, Rel.refl cw lo g⟩, rfl, by
          intro t r ht
          simp only [List.cons.injEq] at ht
          rw [ht.1]⟩
      split at h
      · cases h
      · rename_i r1 h1
        obtain ⟨st1, c1⟩ := r1
        have hinv1 := distributeBalancedVehicles_inv ops law.toBatLaw env cw lo g _ st1 c1 hinv0 h1
        obtain ⟨⟨g1, hg1, hrel1⟩, hcw1, hh1⟩ := hinv1
        simp only at h
        rw [theGc_single _ g1 hg1] at h
        simp only at h
        split at h
        · cases h
        · rename_i r2 h2
          obtain ⟨st2, c2, lv⟩ := r2
          have hinv2 : Inv cw lo g st2 := by
            split at h2
            · split at h2
              · cases h2
              · rename_i r hs
                simp only [pure, Except.pure, Except.ok.injEq, Prod.mk.injEq] at h2
                obtain ⟨rfl, _, _⟩ := h2
                obtain ⟨g2, hg2, hrel2⟩ := surplusToVehicles_rel ops law.toBatLaw env cw lo st1.w r.1 r.2 g1 hg1
                  (by rw [hrel1.1]; exact hM) hs
                exact ⟨⟨g2, hg2, hrel1.trans hrel2⟩, hcw1, hh1⟩
            · split at h2
              · cases h2
              · rename_i r hs
                simp only [pure, Except.pure, Except.ok.injEq, Prod.mk.injEq] at h2
                obtain ⟨rfl, _, _⟩ := h2
                exact distributeBalancedV2g_inv ops law.toBatLaw env heps cw lo g st1 r.1 r.2
                  ⟨⟨g1, hg1, hrel1⟩, hcw1, hh1⟩ hs
          obtain ⟨⟨g2, hg2, hrel2⟩, hcw2, hh2⟩ := hinv2
          simp only at h
          rw [theGc_single _ g2 hg2] at h
          simp only at h
          split at h
          · cases h
          · rename_i st3 h3
            simp only [Except.ok.injEq, Prod.mk.injEq] at h
            obtain ⟨rfl, rfl, _⟩ := h
            have hinv3 : Inv cw lo g st3 := by
              split at h3
              · split at h3
                · cases h3
                · rename_i w3 hs
                  simp only [pure, Except.pure, Except.ok.injEq] at h3
                  subst h3
                  obtain ⟨g3, hg3, hrel3⟩ := surplusToBatteries_rel ops law.toBatLaw env cw lo st2.w w3 g2 hg2
                    (by rw [hrel2.1]; exact hM) hs
                  exact ⟨⟨g3, hg3, hrel2.trans hrel3⟩, hcw2, hh2⟩
              · exact distributeBalancedBatteries_inv ops law env heps cw lo g st2 st3
                  ⟨⟨g2, hg2, hrel2⟩, hcw2, hh2⟩ h3
            obtain ⟨⟨g3, hg3, hrel3⟩, hcw3, _⟩ := hinv3
            exact ⟨g3, hg3, by rw [hcw3]; exact hrel3⟩

/-! ### fuel; signal following -/

/-- the fuel of a bisection suffices when `hi − lo ≤ eps · 2^fuel`: the loop itself never reports FUEL -/
theorem bisectM_fuel {σ : Type} (eps : α) (body : α → σ → FPy (Bool × σ)) :
    ∀ (fuel : Nat) (lo hi : α) (st : σ), hi - lo ≤ eps * 2 ^ fuel →
      bisectM eps body fuel lo hi st = .error (.py .fuel) →
      ∃ mid s, body mid s = .error (.py .fuel) := by
  intro fuel
  induction fuel with
  | zero =>
    intro lo hi st hgap h
    unfold bisectM at h
    simp only [pow_zero, mul_one] at hgap
    rw [if_neg (not_lt.mpr hgap)] at h
    cases h
  | succ f ih =>
    intro lo hi st hgap h
    unfold bisectM at h
    split at h
    · simp only [bind, Except.bind] at h
      have h2 : (two : α) = 2 := by simp [two]
      split at h
      · rename_i e he
        simp only [Except.error.injEq] at h
        subst h
        exact ⟨_, _, he⟩
      · rename_i r hr
        have hhalf : eps * 2 ^ (f + 1) = 2 * (eps * 2 ^ f) := by rw [pow_succ]; ring
        rw [hhalf] at hgap
        split at h
        · refine ih lo _ r.2 ?_ h
          rw [h2]
          have : (lo + hi) / 2 - lo = (hi - lo) / 2 := by ring
          rw [this, div_le_iff₀ (by norm_num : (0 : α) < 2)]; linarith
        · refine ih _ hi r.2 ?_ h
          rw [h2]
          have : hi - (lo + hi) / 2 = (hi - lo) / 2 := by ring
          rw [this, div_le_iff₀ (by norm_num : (0 : α) < 2)]; linarith
    · cases h

/-- **signal following, vehicle pass.** Outside a window, a vehicle for which charging at full
forecast power inside the windows before its departure reaches the desired SoC (`charged_in_window`)
gets exactly zero power from `distribute_balanced_vehicles` -/
theorem balVehicle_outside_window (ops : BatOps α B) (law : BatLaw ops) (env : FEnv α)
    (acc acc' : FState α B × List (String × α) × Option α) (v0 : VehicleS α B) (g : GcS α)
    (csId : String) (cs : StationS α) (simBat : B)
    (hg : acc.1.w.gcs = [g])
    (hcs : ((acc.1.w.vehicle? v0.id).getD v0).cs = some csId)
    (hst : getStation acc.1.w csId = .ok cs)
    (hwp : windowPass ops env cs ((acc.1.w.vehicle? v0.id).getD v0) ((acc.1.w.vehicle? v0.id).getD v0).bat
      (env.base.now - env.base.interval) acc.1.ts = .ok simBat)
    (hciw : ((acc.1.w.vehicle? v0.id).getD v0).desiredSoc - ops.soc simBat ≤ env.base.eps)
    (hwin : truthy acc.1.window = false)
    (h : balVehicle ops env acc v0 = .ok acc') :
    acc'.1.w.gcs = [(g.addLoad csId 0).1] ∧ sdGet acc'.2.1 csId = some (g.addLoad csId 0).2 := by
  unfold balVehicle at h
  simp only [bind, Except.bind, hcs, hst, hwp] at h
  split at h
  · cases h
  · rename_i fin hbis
    rw [theGc_single _ g hg] at h
    simp only at h
    split at h
    · cases h
    · rename_i pw hpw
      simp only [hwin, Bool.false_eq_true, ↓reduceIte, decide_eq_true hciw, clampV_zero] at h
      split at h
      · cases h
      · rename_i r hl
        rw [liftM_ok] at hl
        simp only [Except.ok.injEq] at h
        subst h
        obtain ⟨ha0, hap⟩ := law.load_max _ _ _ _ hl
        rw [max_self] at hap
        have hz : r.2 = 0 := le_antisymm hap ha0
        rw [hz]
        refine ⟨?_, sdGet_alSet_same _ _ _⟩
        simp only [setStation_gcs]
        exact setGc_single _ g csId 0 (by simpa using hg)
/-! ### stations -/

/-- station invariant relative to the stations `S0` at the start of the step: no station above its
maximum, and every station still has the id and maximum of a station of `S0` -/
def SInv (S0 : List (StationS α)) (w : SWorld α B) : Prop :=
  ∀ s ∈ w.stations, s.currentPower ≤ s.maxPower ∧ ∃ s0 ∈ S0, s0.id = s.id ∧ s0.maxPower = s.maxPower

theorem getStation_mem (w : SWorld α B) (id : String) (cs : StationS α) (h : getStation w id = .ok cs) :
    cs ∈ w.stations := by
  unfold getStation at h
  split at h
  · cases h
  · rename_i s hs
    simp only [Except.ok.injEq] at h
    subst h
    exact (station?_some w id s hs).1

theorem SInv.update (S0 : List (StationS α)) (w w1 : SWorld α B) (cs : StationS α) (x : α)
    (hinv : SInv S0 w) (hcs : cs ∈ w.stations) (hx : cs.currentPower + x ≤ cs.maxPower)
    (hw1 : w1.stations = w.stations) :
    SInv S0 (w1.setStation { cs with currentPower := cs.currentPower + x }) := by
  intro s hs
  rcases mem_setStation _ _ s hs with rfl | hm
  · exact ⟨hx, (hinv cs hcs).2⟩
  · rw [hw1] at hm; exact hinv s hm

theorem load_clampV_station (ops : BatOps α B) (law : BatLaw ops) (cs : StationS α) (v : VehicleS α B)
    (p : α) (bat : B) (r : B × α) (hcs : cs.currentPower ≤ cs.maxPower)
    (hl : ops.load bat (some (clampV p cs v)) none none = .ok r) :
    cs.currentPower + r.2 ≤ cs.maxPower := by
  obtain ⟨_, hap⟩ := law.load_max _ _ _ _ hl
  rw [max_eq_left (clampV_le p cs v).1] at hap
  have := clampPower_station p cs.currentPower cs.maxPower cs.minPower v.minChargingPower hcs
  unfold clampV at hap
  linarith

theorem balVehicle_sinv (ops : BatOps α B) (law : BatLaw ops) (env : FEnv α) (S0 : List (StationS α))
    (acc acc' : FState α B × List (String × α) × Option α) (v0 : VehicleS α B)
    (hinv : SInv S0 acc.1.w) (h : balVehicle ops env acc v0 = .ok acc') : SInv S0 acc'.1.w := by
  unfold balVehicle at h
  simp only [bind, Except.bind] at h
  split at h
  · simp only [Except.ok.injEq] at h; subst h; exact hinv
  · split at h
    · cases h
    · rename_i cs hst
      split at h
      · cases h
      · split at h
        · cases h
        · split at h
          · cases h
          · split at h
            · cases h
            · split at h
              · cases h
              · rename_i r hl
                rw [liftM_ok] at hl
                simp only [Except.ok.injEq] at h
                subst h
                have hmem := getStation_mem _ _ _ hst
                exact SInv.update S0 acc.1.w _ cs r.2 hinv hmem
                  (load_clampV_station ops law cs _ _ _ r (hinv cs hmem).1 hl) rfl

theorem surplusToVehicles_sinv (ops : BatOps α B) (law : BatLaw ops) (env : FEnv α) (S0 : List (StationS α))
    (w w' : SWorld α B) (cmds : List (String × α))
    (hinv : SInv S0 w) (h : surplusToVehicles ops env w = .ok (w', cmds)) : SInv S0 w' := by
  unfold surplusToVehicles at h
  refine foldlM_inv _ (fun (a : SWorld α B × List (String × α)) => SInv S0 a.1) ?_ w.vehicles (w, [])
    (w', cmds) hinv h
  intro s x s' hp hs
  simp only [bind, Except.bind] at hs
  split at hs
  · simp only [Except.ok.injEq] at hs; subst hs; exact hp
  · split at hs
    · cases hs
    · rename_i cs hst
      split at hs
      · cases hs
      · split at hs
        · cases hs
        · rename_i r hl
          rw [liftM_ok] at hl
          simp only [Except.ok.injEq] at hs
          subst hs
          have hmem := getStation_mem _ _ _ hst
          exact SInv.update S0 s.1 _ cs r.2 hp hmem
            (load_clampV_station ops law cs _ _ _ r (hp cs hmem).1 hl) rfl

theorem balV2gVehicle_sinv (ops : BatOps α B) (law : BatLaw ops) (env : FEnv α) (S0 : List (StationS α))
    (curWindow : Option Bool) (acc acc' : V2gAcc α B) (v0 : VehicleS α B)
    (hinv : SInv S0 acc.st.w) (h : balV2gVehicle ops env curWindow acc v0 = .ok acc') :
    SInv S0 acc'.st.w := by
  unfold balV2gVehicle at h
  simp only [bind, Except.bind, pure, Except.pure] at h
  split at h
  · simp only [Except.ok.injEq] at h; subst h; exact hinv
  · split at h
    · simp only [Except.ok.injEq] at h; subst h; exact hinv
    · split at h
      · cases h
      · rename_i cs hst
        have hmem := getStation_mem _ _ _ hst
        split at h
        · cases h
        · split at h
          · cases h
          · split at h
            · simp only [Except.ok.injEq] at h; subst h; exact hinv
            · split at h
              · cases h
              · split at h
                · cases h
                · split at h
                  · split at h
                    · cases h
                    · rename_i r hl
                      simp only [Except.ok.injEq] at h
                      subst h
                      refine SInv.update S0 acc.st.w _ cs r.2 hinv hmem ?_ rfl
                      split at hl
                      · rw [liftM_ok] at hl
                        simp only [Except.ok.injEq] at hl
                        subst hl
                        simpa using (hinv cs hmem).1
                      · rw [liftM_ok] at hl
                        exact load_clampV_station ops law cs _ _ _ r (hinv cs hmem).1 hl
                  · split at h
                    · cases h
                    · split at h
                      · cases h
                      · rename_i r hl
                        simp only [Except.ok.injEq] at h
                        subst h
                        have hr : 0 ≤ r.2 := by
                          split at hl
                          · rw [liftM_ok] at hl
                            simp only [Except.ok.injEq] at hl
                            subst hl
                            exact le_refl _
                          · rw [liftM_ok] at hl
                            exact (law.unload_max _ _ _ _ _ hl).1
                        intro s hs
                        rcases mem_setStation _ _ s hs with rfl | hm
                        · refine ⟨?_, (hinv cs hmem).2⟩
                          have := (hinv cs hmem).1
                          simp only
                          linarith
                        · exact hinv s (by simpa using hm)

theorem surplusToBatteries_stations (ops : BatOps α B) (env : FEnv α) (w w' : SWorld α B)
    (h : surplusToBatteries ops env w = .ok w') : w'.stations = w.stations := by
  unfold surplusToBatteries at h
  refine foldlM_inv _ (fun (a : SWorld α B) => a.stations = w.stations) ?_ w.batteries w w' rfl h
  intro s x s' hp hs
  simp only [bind, Except.bind] at hs
  split at hs
  · cases hs
  · split at hs
    · cases hs
    · simp only [Except.ok.injEq] at hs
      subst hs
      simpa using hp

theorem distributeBalancedBatteries_stations (ops : BatOps α B) (env : FEnv α) (st st' : FState α B)
    (h : distributeBalancedBatteries ops env st = .ok st') : st'.w.stations = st.w.stations := by
  unfold distributeBalancedBatteries at h
  simp only [bind, Except.bind] at h
  split at h
  · cases h
  · split at h
    · cases h
    · refine foldlM_inv _ (fun (a : FState α B) => a.w.stations = st.w.stations) ?_ st.w.batteries st st' rfl h
      intro s x s' hp hs
      repeat' split at hs
      all_goals first
        | (simp only [Except.ok.injEq] at hs; subst hs; exact hp)
        | cases hs

theorem step_balanced_sinv (ops : BatOps α B) (law : BatLaw ops) (env : FEnv α)
    (hstrat : env.strat = .balanced)
    (w w' : SWorld α B) (window win' : Option Bool) (events : List (FEvent α))
    (cmds : List (String × α)) (hmax : ∀ s ∈ w.stations, 0 ≤ s.maxPower)
    (h : step ops env w window events = .ok (w', win', cmds)) :
    SInv w.stations w' := by
  unfold step at h
  simp only [bind, Except.bind, hstrat] at h
  split at h
  · cases h
  · split at h
    · cases h
    · split at h
      · cases h
      · rename_i t0 rest
        simp only [beq_self_eq_true, if_true] at h
        have hinv0 : SInv w.stations (resetStations w) := by
          intro s hs
          unfold resetStations at hs
          simp only [List.mem_map] at hs
          obtain ⟨s0, hs0, rfl⟩ := hs
          exact ⟨hmax s0 hs0, s0, hs0, rfl, rfl⟩
        split at h
        · cases h
        · rename_i r1 h1
          obtain ⟨st1, c1⟩ := r1
          have hinv1 : SInv w.stations st1.w := by
            unfold distributeBalancedVehicles at h1
            simp only [bind, Except.bind] at h1
            split at h1
            · cases h1
            · rename_i vs _
              split at h1
              · cases h1
              · rename_i r hr
                simp only [Except.ok.injEq, Prod.mk.injEq] at h1
                obtain ⟨rfl, _⟩ := h1
                exact foldlM_inv (balVehicle ops env) (fun a => SInv w.stations a.1.w)
                  (fun s x s' hp hs => balVehicle_sinv ops law env _ s s' x hp hs) vs _ r hinv0 hr
          simp only at h
          split at h
          · cases h
          · split at h
            · cases h
            · rename_i r2 h2
              obtain ⟨st2, c2, lv⟩ := r2
              have hinv2 : SInv w.stations st2.w := by
                split at h2
                · split at h2
                  · cases h2
                  · rename_i r hs
                    simp only [pure, Except.pure, Except.ok.injEq, Prod.mk.injEq] at h2
                    obtain ⟨rfl, _, _⟩ := h2
                    exact surplusToVehicles_sinv ops law env _ st1.w r.1 r.2 hinv1 hs
                · split at h2
                  · cases h2
                  · rename_i r hs
                    simp only [pure, Except.pure, Except.ok.injEq, Prod.mk.injEq] at h2
                    obtain ⟨rfl, _, _⟩ := h2
                    unfold distributeBalancedV2g at hs
                    simp only [bind, Except.bind] at hs
                    split at hs
                    · cases hs
                    · rename_i vs _
                      split at hs
                      · cases hs
                      · split at hs
                        · cases hs
                        · rename_i rr hr
                          simp only [Except.ok.injEq] at hs
                          rw [← hs]
                          exact foldlM_inv (balV2gVehicle ops env _) (fun a => SInv w.stations a.st.w)
                            (fun s x s' hp hs => balV2gVehicle_sinv ops law env _ _ s s' x hp hs) vs _ rr hinv1 hr
              simp only at h
              split at h
              · cases h
              · split at h
                · cases h
                · rename_i st3 h3
                  simp only [Except.ok.injEq, Prod.mk.injEq] at h
                  obtain ⟨rfl, _, _⟩ := h
                  have hst3 : st3.w.stations = st2.w.stations := by
                    split at h3
                    · split at h3
                      · cases h3
                      · rename_i w3 hs
                        simp only [pure, Except.pure, Except.ok.injEq] at h3
                        subst h3
                        exact surplusToBatteries_stations ops env _ _ hs
                    · exact distributeBalancedBatteries_stations ops env _ _ h3
                  intro s hs
                  rw [hst3] at hs
                  exact hinv2 s hs

/-- **best effort inside a window.** In a window step a vehicle for which the windows before its
departure do *not* suffice (`charged_in_window` false) is offered the connector's whole remaining
headroom `cur_max − load` (clamped to station and vehicle by `clamp_power`) — the battery call of
`distribute_balanced_vehicles` is `load(interval, max_power=clamp_power(cur_max − load, v, cs))` -/
theorem balVehicle_window_full (ops : BatOps α B) (env : FEnv α)
    (acc acc' : FState α B × List (String × α) × Option α) (v0 : VehicleS α B) (g : GcS α)
    (csId : String) (cs : StationS α) (simBat : B)
    (hg : acc.1.w.gcs = [g])
    (hcs : ((acc.1.w.vehicle? v0.id).getD v0).cs = some csId)
    (hst : getStation acc.1.w csId = .ok cs)
    (hwp : windowPass ops env cs ((acc.1.w.vehicle? v0.id).getD v0) ((acc.1.w.vehicle? v0.id).getD v0).bat
      (env.base.now - env.base.interval) acc.1.ts = .ok simBat)
    (hciw : ¬ ((acc.1.w.vehicle? v0.id).getD v0).desiredSoc - ops.soc simBat ≤ env.base.eps)
    (hwin : truthy acc.1.window = true)
    (h : balVehicle ops env acc v0 = .ok acc') :
    ∃ r, ops.load ((acc.1.w.vehicle? v0.id).getD v0).bat
        (some (clampV (g.curMax - g.currentLoad) cs ((acc.1.w.vehicle? v0.id).getD v0))) none none = .ok r ∧
      acc'.1.w.gcs = [(g.addLoad csId r.2).1] ∧ sdGet acc'.2.1 csId = some (g.addLoad csId r.2).2 := by
  unfold balVehicle at h
  simp only [bind, Except.bind, hcs, hst, hwp] at h
  split at h
  · cases h
  · rename_i fin hbis
    rw [theGc_single _ g hg] at h
    simp only at h
    split at h
    · cases h
    · rename_i pw hpw
      simp only [hwin, ↓reduceIte, decide_eq_false hciw, Bool.false_eq_true] at h
      split at h
      · cases h
      · rename_i r hl
        rw [liftM_ok] at hl
        simp only [Except.ok.injEq] at h
        subst h
        refine ⟨r, hl, ?_, sdGet_alSet_same _ _ _⟩
        simp only [setStation_gcs]
        exact setGc_single _ g csId r.2 (by simpa using hg)

/-- one vehicle of `distribute_balanced_v2g`: the station's `current_power` moves by at most
`max (cs.max_power − cs.current_power) 0` in either direction (`clamp_power` bounds the charging call
and the discharging call alike) -/
theorem balV2gVehicle_station_step (ops : BatOps α B) (law : BatLaw ops) (env : FEnv α)
    (curWindow : Option Bool) (acc acc' : V2gAcc α B) (v0 : VehicleS α B) (csId : String) (cs : StationS α)
    (hcs : ((acc.st.w.vehicle? v0.id).getD v0).cs = some csId)
    (hst : getStation acc.st.w csId = .ok cs)
    (h : balV2gVehicle ops env curWindow acc v0 = .ok acc') :
    acc'.st.w.stations = acc.st.w.stations ∨
    ∃ x, acc'.st.w.stations = (acc.st.w.setStation { cs with currentPower := cs.currentPower + x }).stations ∧
      -(max (cs.maxPower - cs.currentPower) 0) ≤ x ∧ x ≤ max (cs.maxPower - cs.currentPower) 0 := by
  unfold balV2gVehicle at h
  simp only [bind, Except.bind, pure, Except.pure, hcs, hst] at h
  have hclamp : ∀ p : α, clampV p cs ((acc.st.w.vehicle? v0.id).getD v0) ≤ max (cs.maxPower - cs.currentPower) 0 := by
    intro p
    unfold clampV clampPower
    simp only [pymin_eq, pymax_eq]
    split
    · exact le_max_right _ _
    · exact max_le_max (min_le_right _ _) (le_refl _)
  split at h
  · simp only [Except.ok.injEq] at h; subst h; exact Or.inl rfl
  · split at h
    · cases h
    · split at h
      · cases h
      · split at h
        · simp only [Except.ok.injEq] at h; subst h; exact Or.inl rfl
        · split at h
          · cases h
          · split at h
            · cases h
            · rename_i total _
              split at h
              · split at h
                · cases h
                · rename_i r hl
                  simp only [Except.ok.injEq] at h
                  subst h
                  right
                  refine ⟨r.2, rfl, ?_, ?_⟩
                  · have h0 : 0 ≤ r.2 := by
                      split at hl
                      · rw [liftM_ok] at hl
                        simp only [Except.ok.injEq] at hl
                        subst hl; exact le_refl _
                      · rw [liftM_ok] at hl
                        exact (law.load_max _ _ _ _ hl).1
                    exact le_trans (neg_nonpos.mpr (le_max_right _ _)) h0
                  · split at hl
                    · rw [liftM_ok] at hl
                      simp only [Except.ok.injEq] at hl
                      subst hl; exact le_max_right _ _
                    · rw [liftM_ok] at hl
                      exact le_trans (law.load_max _ _ _ _ hl).2 (max_le (hclamp _) (le_max_right _ _))
              · split at h
                · cases h
                · split at h
                  · cases h
                  · rename_i r hl
                    simp only [Except.ok.injEq] at h
                    subst h
                    right
                    refine ⟨-r.2, by simp only [sub_eq_add_neg]; rfl, ?_, ?_⟩
                    · rw [neg_le_neg_iff]
                      split at hl
                      · rw [liftM_ok] at hl
                        simp only [Except.ok.injEq] at hl
                        subst hl; exact le_max_right _ _
                      · rw [liftM_ok] at hl
                        refine le_trans (law.unload_max _ _ _ _ _ hl).2 (max_le ?_ (le_max_right _ _))
                        rw [pymin_eq]
                        exact le_trans (min_le_left _ _) (hclamp _)
                    · have h0 : 0 ≤ r.2 := by
                        split at hl
                        · rw [liftM_ok] at hl
                          simp only [Except.ok.injEq] at hl
                          subst hl; exact le_refl _
                        · rw [liftM_ok] at hl
                          exact (law.unload_max _ _ _ _ _ hl).1
                      exact le_trans (neg_nonpos.mpr h0) (le_max_right _ _)
/-! ### stations in both directions (unique vehicle ids, one vehicle per station) -/

/-- what never changes of a vehicle during a step -/
def vkey (v : VehicleS α B) : String × Option String × Bool := (v.id, v.cs, v.v2g)

theorem eq_of_id_eq (l : List (VehicleS α B)) (hnd : (l.map (·.id)).Nodup) (x y : VehicleS α B)
    (hx : x ∈ l) (hy : y ∈ l) (h : x.id = y.id) : x = y :=
  List.inj_on_of_nodup_map hnd hx hy h

theorem setVehicle_keys (w : SWorld α B) (v0 : VehicleS α B) (b : B)
    (hnd : (w.vehicles.map (·.id)).Nodup) :
    (w.setVehicle { ((w.vehicle? v0.id).getD v0) with bat := b }).vehicles.map vkey = w.vehicles.map vkey := by
  unfold SWorld.setVehicle
  simp only [List.map_map]
  apply List.map_congr_left
  intro x hx
  simp only [Function.comp]
  split
  · rename_i hid
    cases hf : w.vehicle? v0.id with
    | some v1 =>
      simp only [hf, Option.getD_some] at hid ⊢
      unfold SWorld.vehicle? at hf
      have hv1 : v1 ∈ w.vehicles := List.mem_of_find?_eq_some hf
      have : x = v1 := eq_of_id_eq w.vehicles hnd x v1 hx hv1 (by simpa using hid)
      subst this
      rfl
    | none =>
      exfalso
      simp only [hf, Option.getD_none] at hid
      unfold SWorld.vehicle? at hf
      rw [List.find?_eq_none] at hf
      exact hf x hx hid
  · rfl

/-- the re-read of a vehicle by id returns a vehicle with the same station -/
theorem lookup_cs (w : SWorld α B) (K : List (String × Option String × Bool)) (hK : w.vehicles.map vkey = K)
    (hnd : (K.map (·.1)).Nodup) (v0 : VehicleS α B) (hv0 : vkey v0 ∈ K) :
    ((w.vehicle? v0.id).getD v0).cs = v0.cs := by
  cases hf : w.vehicle? v0.id with
  | none => rfl
  | some v1 =>
    simp only [Option.getD_some]
    unfold SWorld.vehicle? at hf
    have hv1 : v1 ∈ w.vehicles := List.mem_of_find?_eq_some hf
    have hid : v1.id = v0.id := by simpa using List.find?_some hf
    have h1 : vkey v1 ∈ K := by rw [← hK]; exact List.mem_map_of_mem hv1
    have := List.inj_on_of_nodup_map hnd h1 hv0 (by simpa [vkey] using hid)
    simp only [vkey, Prod.mk.injEq] at this
    exact this.2.1

theorem ids_of_keys (w : SWorld α B) (K : List (String × Option String × Bool)) (hK : w.vehicles.map vkey = K)
    (hnd : (K.map (·.1)).Nodup) : (w.vehicles.map (·.id)).Nodup := by
  rw [← hK, List.map_map] at hnd
  exact hnd

theorem balVehicle_keys (ops : BatOps α B) (env : FEnv α)
    (acc acc' : FState α B × List (String × α) × Option α) (v0 : VehicleS α B)
    (hnd : (acc.1.w.vehicles.map (·.id)).Nodup) (h : balVehicle ops env acc v0 = .ok acc') :
    acc'.1.w.vehicles.map vkey = acc.1.w.vehicles.map vkey := by
  unfold balVehicle at h
  simp only [bind, Except.bind] at h
  repeat' split at h
  all_goals first
    | (simp only [Except.ok.injEq] at h; subst h; first | rfl | exact setVehicle_keys _ _ _ hnd)
    | cases h

theorem surplusToVehicles_keys (ops : BatOps α B) (env : FEnv α) (w w' : SWorld α B)
    (cmds : List (String × α)) (K : List (String × Option String × Bool)) (hK : w.vehicles.map vkey = K)
    (hnd : (K.map (·.1)).Nodup) (h : surplusToVehicles ops env w = .ok (w', cmds)) :
    w'.vehicles.map vkey = K := by
  unfold surplusToVehicles at h
  refine foldlM_inv _ (fun (a : SWorld α B × List (String × α)) => a.1.vehicles.map vkey = K) ?_
    w.vehicles (w, []) (w', cmds) hK h
  intro s x s' hp hs
  have hnd' := ids_of_keys s.1 K hp hnd
  simp only [bind, Except.bind] at hs
  repeat' split at hs
  all_goals first
    | (simp only [Except.ok.injEq] at hs; subst hs; first | exact hp | (rw [← hp]; exact setVehicle_keys _ _ _ hnd'))
    | cases hs

theorem balV2gVehicle_keys (ops : BatOps α B) (env : FEnv α) (curWindow : Option Bool)
    (acc acc' : V2gAcc α B) (v0 : VehicleS α B)
    (hnd : (acc.st.w.vehicles.map (·.id)).Nodup)
    (h : balV2gVehicle ops env curWindow acc v0 = .ok acc') :
    acc'.st.w.vehicles.map vkey = acc.st.w.vehicles.map vkey := by
  unfold balV2gVehicle at h
  simp only [bind, Except.bind, pure, Except.pure] at h
  repeat' split at h
  all_goals first
    | (simp only [Except.ok.injEq] at h; subst h; first | rfl | exact setVehicle_keys _ _ _ hnd)
    | cases h

/-- no station carries negative power -/
def SNon (w : SWorld α B) : Prop := ∀ s ∈ w.stations, 0 ≤ s.currentPower

theorem SNon.update (w w1 : SWorld α B) (cs : StationS α) (x : α)
    (hinv : SNon w) (hcs : cs ∈ w.stations) (hx : 0 ≤ x) (hw1 : w1.stations = w.stations) :
    SNon (w1.setStation { cs with currentPower := cs.currentPower + x }) := by
  intro s hs
  rcases mem_setStation _ _ s hs with rfl | hm
  · have := hinv cs hcs
    simp only
    linarith
  · rw [hw1] at hm; exact hinv s hm

theorem balVehicle_snon (ops : BatOps α B) (law : BatLaw ops) (env : FEnv α)
    (acc acc' : FState α B × List (String × α) × Option α) (v0 : VehicleS α B)
    (hinv : SNon acc.1.w) (h : balVehicle ops env acc v0 = .ok acc') : SNon acc'.1.w := by
  unfold balVehicle at h
  simp only [bind, Except.bind] at h
  split at h
  · simp only [Except.ok.injEq] at h; subst h; exact hinv
  · split at h
    · cases h
    · rename_i cs hst
      split at h
      · cases h
      · split at h
        · cases h
        · split at h
          · cases h
          · split at h
            · cases h
            · split at h
              · cases h
              · rename_i r hl
                rw [liftM_ok] at hl
                simp only [Except.ok.injEq] at h
                subst h
                exact SNon.update acc.1.w _ cs r.2 hinv (getStation_mem _ _ _ hst)
                  (law.load_max _ _ _ _ hl).1 rfl

theorem surplusToVehicles_snon (ops : BatOps α B) (law : BatLaw ops) (env : FEnv α)
    (w w' : SWorld α B) (cmds : List (String × α))
    (hinv : SNon w) (h : surplusToVehicles ops env w = .ok (w', cmds)) : SNon w' := by
  unfold surplusToVehicles at h
  refine foldlM_inv _ (fun (a : SWorld α B × List (String × α)) => SNon a.1) ?_ w.vehicles (w, [])
    (w', cmds) hinv h
  intro s x s' hp hs
  simp only [bind, Except.bind] at hs
  split at hs
  · simp only [Except.ok.injEq] at hs; subst hs; exact hp
  · split at hs
    · cases hs
    · rename_i cs hst
      split at hs
      · cases hs
      · split at hs
        · cases hs
        · rename_i r hl
          rw [liftM_ok] at hl
          simp only [Except.ok.injEq] at hs
          subst hs
          exact SNon.update s.1 _ cs r.2 hp (getStation_mem _ _ _ hst) (law.load_max _ _ _ _ hl).1 rfl

/-- stations within ±maximum; those not in `N` (not yet visited by the V2G pass) carry no negative power -/
def BInv (N : List String) (l : List (StationS α)) : Prop :=
  ∀ s ∈ l, -s.maxPower ≤ s.currentPower ∧ s.currentPower ≤ s.maxPower ∧ (s.id ∉ N → 0 ≤ s.currentPower)

theorem balV2gVehicle_skip (ops : BatOps α B) (env : FEnv α) (curWindow : Option Bool)
    (acc acc' : V2gAcc α B) (v0 : VehicleS α B)
    (hskip : acc.stop = true ∨ ((acc.st.w.vehicle? v0.id).getD v0).cs = none)
    (h : balV2gVehicle ops env curWindow acc v0 = .ok acc') : acc' = acc := by
  unfold balV2gVehicle at h
  simp only [bind, Except.bind, pure, Except.pure] at h
  split at h
  · simp only [Except.ok.injEq] at h; exact h.symm
  · rename_i hns
    rcases hskip with hs | hs
    · exact absurd hs hns
    · rw [hs] at h
      simp only [Except.ok.injEq] at h; exact h.symm

theorem v2gFold_binv (ops : BatOps α B) (law : BatLaw ops) (env : FEnv α) (curWindow : Option Bool)
    (K : List (String × Option String × Bool)) (hnd : (K.map (·.1)).Nodup) :
    ∀ (vs : List (VehicleS α B)) (acc acc' : V2gAcc α B) (N : List String),
      acc.st.w.vehicles.map vkey = K →
      (∀ v0 ∈ vs, vkey v0 ∈ K) →
      (vs.filterMap (·.cs)).Nodup →
      (∀ c ∈ vs.filterMap (·.cs), c ∉ N) →
      BInv N acc.st.w.stations →
      vs.foldlM (balV2gVehicle ops env curWindow) acc = .ok acc' →
      ∃ N', BInv N' acc'.st.w.stations := by
  intro vs
  induction vs with
  | nil =>
    intro acc acc' N _ _ _ _ hb h
    simp only [List.foldlM_nil, pure, Except.pure, Except.ok.injEq] at h
    subst h; exact ⟨N, hb⟩
  | cons v0 rest ih =>
    intro acc acc' N hK hmem hndc hN hb h
    simp only [List.foldlM_cons, bind, Except.bind] at h
    split at h
    · cases h
    · rename_i acc1 h1
      have hids := ids_of_keys acc.st.w K hK hnd
      have hK1 : acc1.st.w.vehicles.map vkey = K := by
        rw [balV2gVehicle_keys ops env curWindow acc acc1 v0 hids h1]; exact hK
      have hmem' : ∀ v ∈ rest, vkey v ∈ K := fun v hv => hmem v (List.mem_cons_of_mem _ hv)
      have hsub : ∀ c ∈ rest.filterMap (·.cs), c ∈ (v0 :: rest).filterMap (·.cs) := by
        intro c hc
        rw [List.filterMap_cons]
        split
        · exact hc
        · exact List.mem_cons_of_mem _ hc
      have hndr : (rest.filterMap (·.cs)).Nodup := by
        rw [List.filterMap_cons] at hndc
        split at hndc
        · exact hndc
        · exact (List.nodup_cons.mp hndc).2
      by_cases hskip : acc.stop = true ∨ ((acc.st.w.vehicle? v0.id).getD v0).cs = none
      · have := balV2gVehicle_skip ops env curWindow acc acc1 v0 hskip h1
        rw [this] at h
        exact ih acc acc' N hK hmem' hndr (fun c hc => hN c (hsub c hc)) hb h
      · simp only [not_or] at hskip
        obtain ⟨hnstop, hcsne⟩ := hskip
        obtain ⟨csId, hcs⟩ := Option.ne_none_iff_exists'.mp hcsne
        have hv0cs : v0.cs = some csId := by
          rw [← lookup_cs acc.st.w K hK hnd v0 (hmem v0 (List.mem_cons_self ..))]; exact hcs
        have hhead : (v0 :: rest).filterMap (·.cs) = csId :: rest.filterMap (·.cs) := by
          rw [List.filterMap_cons, hv0cs]
        have hcsN : csId ∉ N := hN csId (by rw [hhead]; exact List.mem_cons_self ..)
        have hcsrest : csId ∉ rest.filterMap (·.cs) := by
          rw [hhead] at hndc; exact (List.nodup_cons.mp hndc).1
        cases hgs : getStation acc.st.w csId with
        | error e =>
          exfalso
          unfold balV2gVehicle at h1
          simp only [bind, Except.bind, pure, Except.pure, hcs, hgs] at h1
          split at h1
          · rename_i hst; exact hnstop hst
          · cases h1
        | ok cs =>
          have hcsm := getStation_mem _ _ _ hgs
          have hcsid : cs.id = csId := by
            unfold getStation at hgs
            split at hgs
            · cases hgs
            · rename_i s hs
              simp only [Except.ok.injEq] at hgs
              subst hgs
              exact (station?_some _ _ _ hs).2
          rcases balV2gVehicle_station_step ops law env curWindow acc acc1 v0 csId cs hcs hgs h1 with
            hsame | ⟨x, hx, hlo, hhi⟩
          · exact ih acc1 acc' N hK1 hmem' hndr (fun c hc => hN c (hsub c hc)) (by rw [hsame]; exact hb) h
          · refine ih acc1 acc' (csId :: N) hK1 hmem' hndr ?_ ?_ h
            · intro c hc
              simp only [List.mem_cons, not_or]
              exact ⟨fun hcc => hcsrest (hcc ▸ hc), hN c (hsub c hc)⟩
            · rw [hx]
              obtain ⟨b1, b2, b3⟩ := hb cs hcsm
              have h0 : 0 ≤ cs.currentPower := b3 (by rw [hcsid]; exact hcsN)
              have hm : max (cs.maxPower - cs.currentPower) 0 = cs.maxPower - cs.currentPower :=
                max_eq_left (by linarith)
              rw [hm] at hlo hhi
              intro s hs
              rcases mem_setStation _ _ s hs with rfl | hmm
              · refine ⟨by simp only; linarith, by simp only; linarith, fun hnot => ?_⟩
                exfalso; apply hnot
                simp only [hcsid]; exact List.mem_cons_self ..
              · obtain ⟨c1, c2, c3⟩ := hb s hmm
                exact ⟨c1, c2, fun hnot => c3 (fun hin => hnot (List.mem_cons_of_mem _ hin))⟩

theorem sortedVehicles_ok (ops : BatOps α B) (strat : LoadStrat) (l vs : List (VehicleS α B))
    (h : sortedVehicles ops strat l = .ok vs) :
    vs = l.mergeSort (fun a b => !(keyLt ops strat b a)) := by
  unfold sortedVehicles at h
  simp only at h
  repeat' split at h
  all_goals first
    | (simp only [Except.ok.injEq] at h; exact h.symm)
    | cases h

theorem step_balanced_station_both (ops : BatOps α B) (law : BatLaw ops) (env : FEnv α)
    (hstrat : env.strat = .balanced)
    (w w' : SWorld α B) (window win' : Option Bool) (events : List (FEvent α))
    (cmds : List (String × α)) (hmax : ∀ s ∈ w.stations, 0 ≤ s.maxPower)
    (hvid : (w.vehicles.map (·.id)).Nodup) (hcsd : (w.vehicles.filterMap (·.cs)).Nodup)
    (h : step ops env w window events = .ok (w', win', cmds)) :
    ∀ s ∈ w'.stations, -s.maxPower ≤ s.currentPower ∧ s.currentPower ≤ s.maxPower := by
  set K := w.vehicles.map vkey with hKdef
  have hnd : (K.map (·.1)).Nodup := by
    rw [hKdef, List.map_map]; exact hvid
  unfold step at h
  simp only [bind, Except.bind, hstrat] at h
  split at h
  · cases h
  · split at h
    · cases h
    · split at h
      · cases h
      · rename_i t0 rest
        simp only [beq_self_eq_true, if_true] at h
        have hinv0 : SInv w.stations (resetStations w) := by
          intro s hs
          unfold resetStations at hs
          simp only [List.mem_map] at hs
          obtain ⟨s0, hs0, rfl⟩ := hs
          exact ⟨hmax s0 hs0, s0, hs0, rfl, rfl⟩
        have hnon0 : SNon (resetStations w) := by
          intro s hs
          unfold resetStations at hs
          simp only [List.mem_map] at hs
          obtain ⟨s0, _, rfl⟩ := hs
          exact le_refl _
        split at h
        · cases h
        · rename_i r1 h1
          obtain ⟨st1, c1⟩ := r1
          have hinv1 : SInv w.stations st1.w ∧ SNon st1.w ∧ st1.w.vehicles.map vkey = K := by
            unfold distributeBalancedVehicles at h1
            simp only [bind, Except.bind] at h1
            split at h1
            · cases h1
            · rename_i vs _
              split at h1
              · cases h1
              · rename_i r hr
                simp only [Except.ok.injEq, Prod.mk.injEq] at h1
                obtain ⟨rfl, _⟩ := h1
                exact foldlM_inv (balVehicle ops env)
                  (fun a => SInv w.stations a.1.w ∧ SNon a.1.w ∧ a.1.w.vehicles.map vkey = K)
                  (fun s x s' hp hs => ⟨balVehicle_sinv ops law env _ s s' x hp.1 hs,
                    balVehicle_snon ops law env s s' x hp.2.1 hs,
                    by rw [balVehicle_keys ops env s s' x (ids_of_keys s.1.w K hp.2.2 hnd) hs]; exact hp.2.2⟩)
                  vs _ r ⟨hinv0, hnon0, rfl⟩ hr
          obtain ⟨hs1, hn1, hk1⟩ := hinv1
          have hmax1 : ∀ (wx : SWorld α B), SInv w.stations wx → ∀ s ∈ wx.stations, 0 ≤ s.maxPower := by
            intro wx hsx s hs
            obtain ⟨_, s0, hs0, _, he⟩ := hsx s hs
            rw [← he]; exact hmax s0 hs0
          simp only at h
          split at h
          · cases h
          · split at h
            · cases h
            · rename_i r2 h2
              obtain ⟨st2, c2, lv⟩ := r2
              have hb2 : ∀ s ∈ st2.w.stations, -s.maxPower ≤ s.currentPower ∧ s.currentPower ≤ s.maxPower := by
                split at h2
                · split at h2
                  · cases h2
                  · rename_i r hs
                    simp only [pure, Except.pure, Except.ok.injEq, Prod.mk.injEq] at h2
                    obtain ⟨rfl, _, _⟩ := h2
                    have ha := surplusToVehicles_sinv ops law env _ st1.w r.1 r.2 hs1 hs
                    have hb := surplusToVehicles_snon ops law env st1.w r.1 r.2 hn1 hs
                    intro s hsm
                    have := hmax1 r.1 ha s hsm
                    exact ⟨by have := hb s hsm; linarith, (ha s hsm).1⟩
                · split at h2
                  · cases h2
                  · rename_i r hs
                    simp only [pure, Except.pure, Except.ok.injEq, Prod.mk.injEq] at h2
                    obtain ⟨rfl, _, _⟩ := h2
                    unfold distributeBalancedV2g at hs
                    simp only [bind, Except.bind] at hs
                    split at hs
                    · cases hs
                    · rename_i vs hvs
                      have hvs' := sortedVehicles_ok ops _ _ vs hvs
                      split at hs
                      · cases hs
                      · split at hs
                        · cases hs
                        · rename_i rr hr
                          simp only [Except.ok.injEq] at hs
                          rw [← hs]
                          have hmemvs : ∀ v0 ∈ vs, v0 ∈ st1.w.vehicles := by
                            intro v0 hv0
                            rw [hvs', List.mem_mergeSort] at hv0
                            exact (List.mem_filter.mp hv0).1
                          have hfm : st1.w.vehicles.filterMap (·.cs) = w.vehicles.filterMap (·.cs) := by
                            have e1 : ∀ l : List (VehicleS α B), l.filterMap (·.cs) = (l.map vkey).filterMap (·.2.1) := by
                              intro l; rw [List.filterMap_map]; rfl
                            rw [e1, e1, hk1]
                          have hndvs : (vs.filterMap (·.cs)).Nodup := by
                            have hperm : vs.Perm (st1.w.vehicles.filter (fun v => v.cs.isSome && v.v2g)) := by
                              rw [hvs']; exact List.mergeSort_perm _ _
                            rw [(hperm.filterMap _).nodup_iff]
                            refine List.Nodup.sublist ?_ (hfm ▸ hcsd)
                            exact List.Sublist.filterMap _ List.filter_sublist
                          have hb0 : BInv [] st1.w.stations := by
                            intro s hsm
                            have := hmax1 st1.w hs1 s hsm
                            have h0 := hn1 s hsm
                            exact ⟨by linarith, (hs1 s hsm).1, fun _ => h0⟩
                          obtain ⟨N', hN'⟩ := v2gFold_binv ops law env _ K hnd vs _ rr [] hk1
                            (fun v0 hv0 => by rw [← hk1]; exact List.mem_map_of_mem (hmemvs v0 hv0)) hndvs
                            (fun c _ => List.not_mem_nil) hb0 hr
                          intro s hsm
                          exact ⟨(hN' s hsm).1, (hN' s hsm).2.1⟩
              simp only at h
              split at h
              · cases h
              · split at h
                · cases h
                · rename_i st3 h3
                  simp only [Except.ok.injEq, Prod.mk.injEq] at h
                  obtain ⟨rfl, _, _⟩ := h
                  have hst3 : st3.w.stations = st2.w.stations := by
                    split at h3
                    · split at h3
                      · cases h3
                      · rename_i w3 hs
                        simp only [pure, Except.pure, Except.ok.injEq] at h3
                        subst h3
                        exact surplusToBatteries_stations ops env _ _ hs
                    · exact distributeBalancedBatteries_stations ops env _ _ h3
                  intro s hs
                  rw [hst3] at hs
                  exact hb2 s hs

theorem foldlM_inv_mem {σ β ε : Type} (f : σ → β → Except ε σ) (P : σ → Prop) :
    ∀ (l : List β), (∀ s x s', x ∈ l → P s → f s x = .ok s' → P s') →
      ∀ (s s' : σ), P s → l.foldlM f s = .ok s' → P s' := by
  intro l
  induction l with
  | nil =>
    intro _ s s' hp h
    simp only [List.foldlM_nil, pure, Except.pure, Except.ok.injEq] at h
    subst h; exact hp
  | cons x xs ih =>
    intro hf s s' hp h
    simp only [List.foldlM_cons, bind, Except.bind] at h
    split at h
    · cases h
    · rename_i s1 hs1
      exact ih (fun s x' s' hx => hf s x' s' (List.mem_cons_of_mem _ hx)) s1 s'
        (hf s x s1 (List.mem_cons_self ..) hp hs1) h

theorem getStation_id (w : SWorld α B) (id : String) (cs : StationS α) (h : getStation w id = .ok cs) :
    cs.id = id := by
  unfold getStation at h
  split at h
  · cases h
  · rename_i s hs
    simp only [Except.ok.injEq] at h
    subst h
    exact (station?_some _ _ _ hs).2

/-- the key of the re-read vehicle is the key of the vehicle the loop iterates over -/
theorem lookup_key (w : SWorld α B) (K : List (String × Option String × Bool)) (hK : w.vehicles.map vkey = K)
    (hnd : (K.map (·.1)).Nodup) (v0 : VehicleS α B) (hv0 : vkey v0 ∈ K) :
    vkey ((w.vehicle? v0.id).getD v0) = vkey v0 := by
  cases hf : w.vehicle? v0.id with
  | none => rfl
  | some v1 =>
    simp only [Option.getD_some]
    unfold SWorld.vehicle? at hf
    have hv1 : v1 ∈ w.vehicles := List.mem_of_find?_eq_some hf
    have hid : v1.id = v0.id := by simpa using List.find?_some hf
    have h1 : vkey v1 ∈ K := by rw [← hK]; exact List.mem_map_of_mem hv1
    exact List.inj_on_of_nodup_map hnd h1 hv0 (by simpa [vkey] using hid)

/-- only stations of connected vehicles carry power; only stations of V2G-capable vehicles carry negative power -/
def CInv (K : List (String × Option String × Bool)) (l : List (StationS α)) : Prop :=
  ∀ s ∈ l, (s.currentPower = 0 ∨ ∃ k ∈ K, k.2.1 = some s.id) ∧
    (0 ≤ s.currentPower ∨ ∃ k ∈ K, k.2.1 = some s.id ∧ k.2.2 = true)

theorem CInv.update (K : List (String × Option String × Bool)) (w : SWorld α B) (cs : StationS α) (x : α)
    (k : String × Option String × Bool) (hk : k ∈ K) (hkc : k.2.1 = some cs.id)
    (hinv : CInv K w.stations) (hcs : cs ∈ w.stations) (hx : 0 ≤ x ∨ k.2.2 = true) :
    CInv K (w.setStation { cs with currentPower := cs.currentPower + x }).stations := by
  intro s hs
  rcases mem_setStation _ _ s hs with rfl | hm
  · refine ⟨Or.inr ⟨k, hk, hkc⟩, ?_⟩
    rcases hx with hx | hx
    · rcases (hinv cs hcs).2 with h0 | h0
      · left; simp only; linarith
      · exact Or.inr h0
    · exact Or.inr ⟨k, hk, hkc, hx⟩
  · exact hinv s hm

/-- what one vehicle of `distribute_balanced_vehicles` does to the stations -/
theorem balVehicle_station_step (ops : BatOps α B) (law : BatLaw ops) (env : FEnv α)
    (acc acc' : FState α B × List (String × α) × Option α) (v0 : VehicleS α B)
    (h : balVehicle ops env acc v0 = .ok acc') :
    acc'.1.w.stations = acc.1.w.stations ∨
    ∃ csId cs x, ((acc.1.w.vehicle? v0.id).getD v0).cs = some csId ∧ getStation acc.1.w csId = .ok cs ∧
      0 ≤ x ∧ acc'.1.w.stations = (acc.1.w.setStation { cs with currentPower := cs.currentPower + x }).stations := by
  unfold balVehicle at h
  simp only [bind, Except.bind] at h
  split at h
  · simp only [Except.ok.injEq] at h; subst h; exact Or.inl rfl
  · rename_i csId hcs
    split at h
    · cases h
    · rename_i cs hst
      split at h
      · cases h
      · split at h
        · cases h
        · split at h
          · cases h
          · split at h
            · cases h
            · split at h
              · cases h
              · rename_i r hl
                rw [liftM_ok] at hl
                simp only [Except.ok.injEq] at h
                subst h
                exact Or.inr ⟨csId, cs, r.2, hcs, hst, (law.load_max _ _ _ _ hl).1, rfl⟩

theorem balVehicle_cinv (ops : BatOps α B) (law : BatLaw ops) (env : FEnv α)
    (K : List (String × Option String × Bool)) (hnd : (K.map (·.1)).Nodup)
    (acc acc' : FState α B × List (String × α) × Option α) (v0 : VehicleS α B)
    (hK : acc.1.w.vehicles.map vkey = K) (hv0 : vkey v0 ∈ K)
    (hinv : CInv K acc.1.w.stations) (h : balVehicle ops env acc v0 = .ok acc') :
    CInv K acc'.1.w.stations := by
  rcases balVehicle_station_step ops law env acc acc' v0 h with hs | ⟨csId, cs, x, hcs, hst, hx, hs⟩
  · rw [hs]; exact hinv
  · rw [hs]
    have hkey := lookup_key acc.1.w K hK hnd v0 hv0
    refine CInv.update K acc.1.w cs x (vkey v0) hv0 ?_ hinv (getStation_mem _ _ _ hst) (Or.inl hx)
    rw [getStation_id _ _ _ hst, ← hkey]
    exact hcs

theorem surplusToVehicles_cinv (ops : BatOps α B) (law : BatLaw ops) (env : FEnv α)
    (K : List (String × Option String × Bool)) (hnd : (K.map (·.1)).Nodup)
    (w w' : SWorld α B) (cmds : List (String × α)) (hK : w.vehicles.map vkey = K)
    (hinv : CInv K w.stations) (h : surplusToVehicles ops env w = .ok (w', cmds)) :
    CInv K w'.stations := by
  unfold surplusToVehicles at h
  refine (foldlM_inv_mem _ (fun (a : SWorld α B × List (String × α)) =>
    a.1.vehicles.map vkey = K ∧ CInv K a.1.stations) w.vehicles ?_ (w, []) (w', cmds) ⟨hK, hinv⟩ h).2
  intro s x s' hx hp hs
  obtain ⟨hKs, hcs⟩ := hp
  have hv0 : vkey x ∈ K := by rw [← hK]; exact List.mem_map_of_mem hx
  have hkey := lookup_key s.1 K hKs hnd x hv0
  have hnd' := ids_of_keys s.1 K hKs hnd
  simp only [bind, Except.bind] at hs
  split at hs
  · simp only [Except.ok.injEq] at hs; subst hs; exact ⟨hKs, hcs⟩
  · rename_i csId hcsid
    split at hs
    · cases hs
    · rename_i cs hst
      split at hs
      · cases hs
      · split at hs
        · cases hs
        · rename_i r hl
          rw [liftM_ok] at hl
          simp only [Except.ok.injEq] at hs
          subst hs
          refine ⟨by rw [← hKs]; exact setVehicle_keys _ _ _ hnd', ?_⟩
          refine CInv.update K s.1 cs r.2 (vkey x) hv0 ?_ hcs (getStation_mem _ _ _ hst)
            (Or.inl (law.load_max _ _ _ _ hl).1)
          rw [getStation_id _ _ _ hst, ← hkey]
          exact hcsid

theorem balV2gVehicle_cinv (ops : BatOps α B) (law : BatLaw ops) (env : FEnv α) (curWindow : Option Bool)
    (K : List (String × Option String × Bool)) (hnd : (K.map (·.1)).Nodup)
    (acc acc' : V2gAcc α B) (v0 : VehicleS α B)
    (hK : acc.st.w.vehicles.map vkey = K) (hv0 : vkey v0 ∈ K) (hv2g : v0.v2g = true)
    (hinv : CInv K acc.st.w.stations) (h : balV2gVehicle ops env curWindow acc v0 = .ok acc') :
    CInv K acc'.st.w.stations := by
  by_cases hskip : acc.stop = true ∨ ((acc.st.w.vehicle? v0.id).getD v0).cs = none
  · rw [balV2gVehicle_skip ops env curWindow acc acc' v0 hskip h]; exact hinv
  · simp only [not_or] at hskip
    obtain ⟨hnstop, hcsne⟩ := hskip
    obtain ⟨csId, hcs⟩ := Option.ne_none_iff_exists'.mp hcsne
    have hkey := lookup_key acc.st.w K hK hnd v0 hv0
    cases hgs : getStation acc.st.w csId with
    | error e =>
      exfalso
      unfold balV2gVehicle at h
      simp only [bind, Except.bind, pure, Except.pure, hcs, hgs] at h
      split at h
      · rename_i hst; exact hnstop hst
      · cases h
    | ok cs =>
      rcases balV2gVehicle_station_step ops law env curWindow acc acc' v0 csId cs hcs hgs h with
        hsame | ⟨x, hx, _, _⟩
      · rw [hsame]; exact hinv
      · rw [hx]
        refine CInv.update K acc.st.w cs x (vkey v0) hv0 ?_ hinv (getStation_mem _ _ _ hgs) (Or.inr hv2g)
        rw [getStation_id _ _ _ hgs, ← hkey]
        exact hcs

/-- **whole step, balanced:** only stations of connected vehicles carry power, only stations of
V2G-capable vehicles carry negative power -/
theorem step_balanced_cinv (ops : BatOps α B) (law : BatLaw ops) (env : FEnv α)
    (hstrat : env.strat = .balanced)
    (w w' : SWorld α B) (window win' : Option Bool) (events : List (FEvent α))
    (cmds : List (String × α)) (hvid : (w.vehicles.map (·.id)).Nodup)
    (h : step ops env w window events = .ok (w', win', cmds)) :
    CInv (w.vehicles.map vkey) w'.stations := by
  set K := w.vehicles.map vkey with hKdef
  have hnd : (K.map (·.1)).Nodup := by
    rw [hKdef, List.map_map]; exact hvid
  unfold step at h
  simp only [bind, Except.bind, hstrat] at h
  split at h
  · cases h
  · split at h
    · cases h
    · split at h
      · cases h
      · rename_i t0 rest
        simp only [beq_self_eq_true, if_true] at h
        have hinv0 : CInv K (resetStations w).stations := by
          intro s hs
          unfold resetStations at hs
          simp only [List.mem_map] at hs
          obtain ⟨s0, _, rfl⟩ := hs
          exact ⟨Or.inl rfl, Or.inl (le_refl _)⟩
        split at h
        · cases h
        · rename_i r1 h1
          obtain ⟨st1, c1⟩ := r1
          have hinv1 : st1.w.vehicles.map vkey = K ∧ CInv K st1.w.stations := by
            unfold distributeBalancedVehicles at h1
            simp only [bind, Except.bind] at h1
            split at h1
            · cases h1
            · rename_i vs hvs
              have hvs' := sortedVehicles_ok ops _ _ vs hvs
              split at h1
              · cases h1
              · rename_i r hr
                simp only [Except.ok.injEq, Prod.mk.injEq] at h1
                obtain ⟨rfl, _⟩ := h1
                refine foldlM_inv_mem (balVehicle ops env)
                  (fun a => a.1.w.vehicles.map vkey = K ∧ CInv K a.1.w.stations) vs ?_ _ r ⟨rfl, hinv0⟩ hr
                intro s x s' hx hp hs
                have hxK : vkey x ∈ K := by
                  rw [hvs', List.mem_mergeSort] at hx
                  exact List.mem_map_of_mem (List.mem_filter.mp hx).1
                exact ⟨by rw [balVehicle_keys ops env s s' x (ids_of_keys s.1.w K hp.1 hnd) hs]; exact hp.1,
                  balVehicle_cinv ops law env K hnd s s' x hp.1 hxK hp.2 hs⟩
          obtain ⟨hk1, hc1⟩ := hinv1
          simp only at h
          split at h
          · cases h
          · split at h
            · cases h
            · rename_i r2 h2
              obtain ⟨st2, c2, lv⟩ := r2
              have hc2 : CInv K st2.w.stations := by
                split at h2
                · split at h2
                  · cases h2
                  · rename_i r hs
                    simp only [pure, Except.pure, Except.ok.injEq, Prod.mk.injEq] at h2
                    obtain ⟨rfl, _, _⟩ := h2
                    exact surplusToVehicles_cinv ops law env K hnd st1.w r.1 r.2 hk1 hc1 hs
                · split at h2
                  · cases h2
                  · rename_i r hs
                    simp only [pure, Except.pure, Except.ok.injEq, Prod.mk.injEq] at h2
                    obtain ⟨rfl, _, _⟩ := h2
                    unfold distributeBalancedV2g at hs
                    simp only [bind, Except.bind] at hs
                    split at hs
                    · cases hs
                    · rename_i vs hvs
                      have hvs' := sortedVehicles_ok ops _ _ vs hvs
                      split at hs
                      · cases hs
                      · split at hs
                        · cases hs
                        · rename_i rr hr
                          simp only [Except.ok.injEq] at hs
                          rw [← hs]
                          refine (foldlM_inv_mem (balV2gVehicle ops env _)
                            (fun a => a.st.w.vehicles.map vkey = K ∧ CInv K a.st.w.stations) vs ?_ _ rr
                            ⟨hk1, hc1⟩ hr).2
                          intro s x s' hx hp hsx
                          rw [hvs', List.mem_mergeSort] at hx
                          obtain ⟨hxm, hxf⟩ := List.mem_filter.mp hx
                          have hxK : vkey x ∈ K := by rw [← hk1]; exact List.mem_map_of_mem hxm
                          have hxv : x.v2g = true := by
                            simp only [Bool.and_eq_true] at hxf; exact hxf.2
                          exact ⟨by rw [balV2gVehicle_keys ops env _ s s' x (ids_of_keys s.st.w K hp.1 hnd) hsx]; exact hp.1,
                            balV2gVehicle_cinv ops law env _ K hnd s s' x hp.1 hxK hxv hp.2 hsx⟩
              simp only at h
              split at h
              · cases h
              · split at h
                · cases h
                · rename_i st3 h3
                  simp only [Except.ok.injEq, Prod.mk.injEq] at h
                  obtain ⟨rfl, _, _⟩ := h
                  have hst3 : st3.w.stations = st2.w.stations := by
                    split at h3
                    · split at h3
                      · cases h3
                      · rename_i w3 hs
                        simp only [pure, Except.pure, Except.ok.injEq] at h3
                        subst h3
                        exact surplusToBatteries_stations ops env _ _ hs
                    · exact distributeBalancedBatteries_stations ops env _ _ h3
                  rw [hst3]; exact hc2
/-! ### bookkeeping: load entries of the stations -/

theorem sdGet_append_none {β : Type} (l : List (String × β)) (k k' : String) (v : β)
    (h : sdGet l k = none) :
    sdGet (l ++ [(k, v)]) k' = if k' = k then some v else sdGet l k' := by
  induction l with
  | nil =>
    by_cases hk : k' = k
    · subst hk; simp [sdGet]
    · have : (k == k') = false := by simpa using (Ne.symm hk)
      simp [sdGet, this, hk]
  | cons x xs ih =>
    obtain ⟨xk, xv⟩ := x
    by_cases hxk : xk = k
    · subst hxk; simp [sdGet] at h
    · have hb : (xk == k) = false := by simpa using hxk
      simp only [sdGet, hb, Bool.false_eq_true, if_false] at h
      simp only [List.cons_append, sdGet]
      by_cases hk' : xk = k'
      · subst hk'
        have : ¬ xk = k := hxk
        simp [this]
      · have hb' : (xk == k') = false := by simpa using hk'
        simp only [hb', Bool.false_eq_true, if_false]
        exact ih h

/-- the load entries after `gc.add_load(k, x)` -/
theorem addLoad_entry (g : GcS α) (k k' : String) (x : α) :
    (sdGet (g.addLoad k x).1.loads k').getD 0 =
      if k' = k then (sdGet g.loads k).getD 0 + x else (sdGet g.loads k').getD 0 := by
  unfold GcS.addLoad
  cases h : sdGet g.loads k with
  | some old =>
    simp only
    by_cases hk : k' = k
    · subst hk; simp [sdGet_alSet_same]
    · simp [hk, sdGet_alSet_ne _ _ _ _ hk]
  | none =>
    simp only
    rw [sdGet_append_none _ _ _ _ h]
    by_cases hk : k' = k
    · subst hk; simp
    · simp [hk]

theorem mem_setStation' (w : SWorld α B) (s' s : StationS α) (h : s ∈ (w.setStation s').stations) :
    s = s' ∨ (s ∈ w.stations ∧ s.id ≠ s'.id) := by
  unfold SWorld.setStation at h
  simp only [List.mem_map] at h
  obtain ⟨x, hx, rfl⟩ := h
  by_cases hid : (x.id == s'.id) = true
  · left; simp [hid]
  · right
    simp only [hid, Bool.false_eq_true, if_false]
    exact ⟨hx, by simpa using hid⟩

/-- every station's load entry at the connector equals its `current_power` -/
def EInv (w : SWorld α B) : Prop :=
  ∀ g, w.gcs = [g] → ∀ s ∈ w.stations, (sdGet g.loads s.id).getD 0 = s.currentPower

theorem EInv.vehicleUpdate (w : SWorld α B) (g : GcS α) (hg : w.gcs = [g]) (cs : StationS α) (x : α)
    (v : VehicleS α B) (hinv : EInv w) (hcs : cs ∈ w.stations) :
    EInv (((w.setVehicle v).setGc (g.addLoad cs.id x).1).setStation
      { cs with currentPower := cs.currentPower + x }) := by
  intro g' hg' s hs
  have hgs : (((w.setVehicle v).setGc (g.addLoad cs.id x).1).setStation
      { cs with currentPower := cs.currentPower + x }).gcs = [(g.addLoad cs.id x).1] := by
    simp only [setStation_gcs]
    exact setGc_single _ g cs.id x (by simpa using hg)
  rw [hgs] at hg'
  simp only [List.cons.injEq, and_true] at hg'
  subst hg'
  rw [addLoad_entry]
  rcases mem_setStation' _ _ s hs with rfl | ⟨hm, hne⟩
  · simp only [if_true]
    rw [hinv g hg cs hcs]
  · have : s.id ≠ cs.id := hne
    simp only [this, if_false]
    exact hinv g hg s (by simpa using hm)

theorem EInv.batteryUpdate (w : SWorld α B) (g : GcS α) (hg : w.gcs = [g]) (b : StatBatS α B) (k : String)
    (x : α) (hinv : EInv w) (hk : ∀ s ∈ w.stations, s.id ≠ k) :
    EInv ((w.setBattery b).setGc (g.addLoad k x).1) := by
  intro g' hg' s hs
  have hgs : ((w.setBattery b).setGc (g.addLoad k x).1).gcs = [(g.addLoad k x).1] :=
    setGc_single _ g k x (by simpa using hg)
  rw [hgs] at hg'
  simp only [List.cons.injEq, and_true] at hg'
  subst hg'
  have hs' : s ∈ w.stations := by simpa using hs
  rw [addLoad_entry]
  simp only [hk s hs', if_false]
  exact hinv g hg s hs'

/-- bookkeeping invariant: one connector, station entries = station power, station ids are not battery
ids (`BK` = the battery ids of the world) -/
def FInv (BK : List String) (w : SWorld α B) : Prop :=
  (∃ g, w.gcs = [g]) ∧ EInv w ∧ (∀ s ∈ w.stations, s.id ∉ BK) ∧ (∀ b ∈ w.batteries, b.id ∈ BK)

theorem FInv.vehicleUpdate (BK : List String) (w : SWorld α B) (g : GcS α) (hg : w.gcs = [g])
    (csId : String) (cs : StationS α) (x : α) (v : VehicleS α B) (hinv : FInv BK w)
    (hst : getStation w csId = .ok cs) :
    FInv BK (((w.setVehicle v).setGc (g.addLoad csId x).1).setStation
      { cs with currentPower := cs.currentPower + x }) := by
  have hid := getStation_id _ _ _ hst
  subst hid
  have hcs := getStation_mem _ _ _ hst
  obtain ⟨_, he, hs, hb⟩ := hinv
  refine ⟨⟨(g.addLoad cs.id x).1, ?_⟩, EInv.vehicleUpdate w g hg cs x v he hcs, ?_, hb⟩
  · simp only [setStation_gcs]
    exact setGc_single _ g cs.id x (by simpa using hg)
  · intro s hsm
    rcases mem_setStation _ _ s hsm with rfl | hm
    · exact hs cs hcs
    · exact hs s (by simpa using hm)

theorem balVehicle_finv (ops : BatOps α B) (env : FEnv α) (BK : List String)
    (acc acc' : FState α B × List (String × α) × Option α) (v0 : VehicleS α B)
    (hinv : FInv BK acc.1.w) (h : balVehicle ops env acc v0 = .ok acc') : FInv BK acc'.1.w := by
  obtain ⟨g, hg⟩ := hinv.1
  unfold balVehicle at h
  simp only [bind, Except.bind] at h
  split at h
  · simp only [Except.ok.injEq] at h; subst h; exact hinv
  · split at h
    · cases h
    · rename_i cs hst
      split at h
      · cases h
      · split at h
        · cases h
        · rw [theGc_single _ g hg] at h
          simp only at h
          split at h
          · cases h
          · split at h
            · cases h
            · simp only [Except.ok.injEq] at h
              subst h
              exact FInv.vehicleUpdate BK acc.1.w g hg _ cs _ _ hinv hst

theorem surplusToVehicles_finv (ops : BatOps α B) (env : FEnv α) (BK : List String)
    (w w' : SWorld α B) (cmds : List (String × α))
    (hinv : FInv BK w) (h : surplusToVehicles ops env w = .ok (w', cmds)) : FInv BK w' := by
  unfold surplusToVehicles at h
  refine foldlM_inv _ (fun (a : SWorld α B × List (String × α)) => FInv BK a.1) ?_ w.vehicles (w, [])
    (w', cmds) hinv h
  intro s x s' hp hs
  obtain ⟨g, hg⟩ := hp.1
  simp only [bind, Except.bind] at hs
  split at hs
  · simp only [Except.ok.injEq] at hs; subst hs; exact hp
  · split at hs
    · cases hs
    · rename_i cs hst
      split at hs
      · cases hs
      · rename_i gc hgc
        have : gc = g := gc?_single _ g gc _ hg hgc
        subst this
        split at hs
        · cases hs
        · simp only [Except.ok.injEq] at hs
          subst hs
          exact FInv.vehicleUpdate BK s.1 gc hg _ cs _ _ hp hst

theorem balV2gVehicle_finv (ops : BatOps α B) (env : FEnv α) (BK : List String) (curWindow : Option Bool)
    (acc acc' : V2gAcc α B) (v0 : VehicleS α B)
    (hinv : FInv BK acc.st.w) (h : balV2gVehicle ops env curWindow acc v0 = .ok acc') :
    FInv BK acc'.st.w := by
  obtain ⟨g, hg⟩ := hinv.1
  unfold balV2gVehicle at h
  simp only [bind, Except.bind, pure, Except.pure] at h
  split at h
  · simp only [Except.ok.injEq] at h; subst h; exact hinv
  · split at h
    · simp only [Except.ok.injEq] at h; subst h; exact hinv
    · split at h
      · cases h
      · rename_i cs hst
        split at h
        · cases h
        · split at h
          · cases h
          · split at h
            · simp only [Except.ok.injEq] at h; subst h; exact hinv
            · rw [theGc_single _ g hg] at h
              simp only at h
              split at h
              · cases h
              · split at h
                · split at h
                  · cases h
                  · simp only [Except.ok.injEq] at h
                    subst h
                    exact FInv.vehicleUpdate BK acc.st.w g hg _ cs _ _ hinv hst
                · split at h
                  · cases h
                  · split at h
                    · cases h
                    · rename_i r _
                      simp only [Except.ok.injEq] at h
                      subst h
                      have := FInv.vehicleUpdate BK acc.st.w g hg _ cs (-r.2)
                        { ((acc.st.w.vehicle? v0.id).getD v0) with bat := r.1 } hinv hst
                      simpa [sub_eq_add_neg] using this

theorem FInv.batteryUpdate (BK : List String) (w : SWorld α B) (g : GcS α) (hg : w.gcs = [g])
    (b0 : StatBatS α B) (hb0 : b0.id ∈ BK) (bat : B) (x : α) (hinv : FInv BK w) :
    FInv BK ((w.setBattery { ((w.batteries.find? (·.id == b0.id)).getD b0) with bat := bat }).setGc
      (g.addLoad ((w.batteries.find? (·.id == b0.id)).getD b0).id x).1) := by
  obtain ⟨_, he, hs, hb⟩ := hinv
  have hbid : ((w.batteries.find? (·.id == b0.id)).getD b0).id ∈ BK := by
    cases hf : w.batteries.find? (·.id == b0.id) with
    | none => simpa using hb0
    | some b1 => simpa using hb b1 (List.mem_of_find?_eq_some hf)
  refine ⟨⟨_, setGc_single' _ _ g _ x hg⟩, ?_, ?_, ?_⟩
  · exact EInv.batteryUpdate w g hg _ _ x he (fun s hsm hid => hs s hsm (hid ▸ hbid))
  · intro s hsm
    exact hs s (by simpa using hsm)
  · intro b hbm
    have : b ∈ (w.setBattery { ((w.batteries.find? (·.id == b0.id)).getD b0) with bat := bat }).batteries := by
      simpa using hbm
    unfold SWorld.setBattery at this
    simp only [List.mem_map] at this
    obtain ⟨y, hy, rfl⟩ := this
    split
    · exact hbid
    · exact hb y hy

theorem surplusToBatteries_finv (ops : BatOps α B) (env : FEnv α) (BK : List String)
    (w w' : SWorld α B) (hinv : FInv BK w) (h : surplusToBatteries ops env w = .ok w') : FInv BK w' := by
  unfold surplusToBatteries at h
  refine foldlM_inv_mem _ (fun (a : SWorld α B) => FInv BK a) w.batteries ?_ w w' hinv h
  intro s x s' hx hp hs
  obtain ⟨g, hg⟩ := hp.1
  have hxb : x.id ∈ BK := hinv.2.2.2 x hx
  simp only [bind, Except.bind] at hs
  split at hs
  · cases hs
  · rename_i gc hgc
    have : gc = g := gc?_single _ g gc _ hg hgc
    subst this
    split at hs
    · cases hs
    · simp only [Except.ok.injEq] at hs
      subst hs
      exact FInv.batteryUpdate BK s gc hg x hxb _ _ hp

theorem distributeBalancedBatteries_finv (ops : BatOps α B) (env : FEnv α) (BK : List String)
    (st st' : FState α B) (hinv : FInv BK st.w)
    (h : distributeBalancedBatteries ops env st = .ok st') : FInv BK st'.w := by
  unfold distributeBalancedBatteries at h
  simp only [bind, Except.bind] at h
  split at h
  · cases h
  · split at h
    · cases h
    · refine foldlM_inv_mem _ (fun (a : FState α B) => FInv BK a.w) st.w.batteries ?_ st st' hinv h
      intro s x s' hx hp hs
      obtain ⟨g, hg⟩ := hp.1
      have hxb : x.id ∈ BK := hinv.2.2.2 x hx
      rw [theGc_single _ g hg] at hs
      simp only at hs
      repeat' split at hs
      all_goals first
        | (simp only [Except.ok.injEq] at hs; subst hs;
           first | exact hp | exact FInv.batteryUpdate BK s.w g hg x hxb _ _ hp)
        | cases hs

/-- **whole step, balanced:** afterwards every station's load entry at the connector equals its `current_power` -/
theorem step_balanced_finv (ops : BatOps α B) (env : FEnv α) (hstrat : env.strat = .balanced)
    (w w' : SWorld α B) (window win' : Option Bool) (events : List (FEvent α))
    (cmds : List (String × α)) (g : GcS α) (hg : w.gcs = [g])
    (h0 : ∀ s ∈ w.stations, (sdGet g.loads s.id).getD 0 = 0)
    (hsb : ∀ s ∈ w.stations, ∀ b ∈ w.batteries, s.id ≠ b.id)
    (h : step ops env w window events = .ok (w', win', cmds)) :
    FInv (w.batteries.map (·.id)) w' := by
  set BK := w.batteries.map (·.id) with hBK
  unfold step at h
  simp only [bind, Except.bind, hstrat] at h
  split at h
  · cases h
  · split at h
    · cases h
    · split at h
      · cases h
      · rename_i t0 rest
        simp only [beq_self_eq_true, if_true] at h
        have hinv0 : FInv BK (resetStations w) := by
          refine ⟨⟨g, by simpa using hg⟩, ?_, ?_, ?_⟩
          · intro g' hg' s hs
            rw [resetStations_gcs, hg] at hg'
            simp only [List.cons.injEq, and_true] at hg'
            subst hg'
            unfold resetStations at hs
            simp only [List.mem_map] at hs
            obtain ⟨s0, hs0, rfl⟩ := hs
            exact h0 s0 hs0
          · intro s hs hin
            unfold resetStations at hs
            simp only [List.mem_map] at hs
            obtain ⟨s0, hs0, rfl⟩ := hs
            rw [hBK, List.mem_map] at hin
            obtain ⟨b, hb, hbe⟩ := hin
            exact hsb s0 hs0 b hb hbe.symm
          · intro b hb
            rw [hBK]
            exact List.mem_map_of_mem (by simpa using hb)
        split at h
        · cases h
        · rename_i r1 h1
          obtain ⟨st1, c1⟩ := r1
          have hinv1 : FInv BK st1.w := by
            unfold distributeBalancedVehicles at h1
            simp only [bind, Except.bind] at h1
            split at h1
            · cases h1
            · rename_i vs _
              split at h1
              · cases h1
              · rename_i r hr
                simp only [Except.ok.injEq, Prod.mk.injEq] at h1
                obtain ⟨rfl, _⟩ := h1
                exact foldlM_inv (balVehicle ops env) (fun a => FInv BK a.1.w)
                  (fun s x s' hp hs => balVehicle_finv ops env BK s s' x hp hs) vs _ r hinv0 hr
          simp only at h
          split at h
          · cases h
          · split at h
            · cases h
            · rename_i r2 h2
              obtain ⟨st2, c2, lv⟩ := r2
              have hinv2 : FInv BK st2.w := by
                split at h2
                · split at h2
                  · cases h2
                  · rename_i r hs
                    simp only [pure, Except.pure, Except.ok.injEq, Prod.mk.injEq] at h2
                    obtain ⟨rfl, _, _⟩ := h2
                    exact surplusToVehicles_finv ops env BK st1.w r.1 r.2 hinv1 hs
                · split at h2
                  · cases h2
                  · rename_i r hs
                    simp only [pure, Except.pure, Except.ok.injEq, Prod.mk.injEq] at h2
                    obtain ⟨rfl, _, _⟩ := h2
                    unfold distributeBalancedV2g at hs
                    simp only [bind, Except.bind] at hs
                    split at hs
                    · cases hs
                    · rename_i vs _
                      split at hs
                      · cases hs
                      · split at hs
                        · cases hs
                        · rename_i rr hr
                          simp only [Except.ok.injEq] at hs
                          rw [← hs]
                          exact foldlM_inv (balV2gVehicle ops env _) (fun a => FInv BK a.st.w)
                            (fun s x s' hp hsx => balV2gVehicle_finv ops env BK _ s s' x hp hsx) vs _ rr hinv1 hr
              simp only at h
              split at h
              · cases h
              · split at h
                · cases h
                · rename_i st3 h3
                  simp only [Except.ok.injEq, Prod.mk.injEq] at h
                  obtain ⟨rfl, _, _⟩ := h
                  split at h3
                  · split at h3
                    · cases h3
                    · rename_i w3 hs
                      simp only [pure, Except.pure, Except.ok.injEq] at h3
                      subst h3
                      exact surplusToBatteries_finv ops env BK _ _ hinv2 hs
                  · exact distributeBalancedBatteries_finv ops env BK _ _ hinv2 h3
/-! ### LOAD_STRAT greedy after the repairs FW1 … FW5 -/

/-- sum of the values of a dict -/
def asum (l : List (String × α)) : α := l.foldl (fun a kv => a + kv.2) 0

theorem asum_cons (x : String × α) (xs : List (String × α)) : asum (x :: xs) = x.2 + asum xs := by
  unfold asum
  simp only [List.foldl_cons]
  rw [foldl_add_init]; ring

theorem asum_sdSet_le (l : List (String × α)) (k : String) (v : α) (h0 : ∀ kv ∈ l, 0 ≤ kv.2) :
    asum (sdSet l k v) ≤ asum l + v := by
  induction l with
  | nil => simp [sdSet, asum]
  | cons x xs ih =>
    obtain ⟨xk, xv⟩ := x
    have hx0 : 0 ≤ xv := h0 (xk, xv) (List.mem_cons_self ..)
    by_cases hk : (xk == k) = true
    · simp only [sdSet, hk, if_true, asum_cons]; linarith
    · simp only [sdSet, hk, Bool.false_eq_true, if_false, asum_cons]
      have := ih (fun kv hkv => h0 kv (List.mem_cons_of_mem _ hkv))
      linarith

theorem mem_sdSet (l : List (String × α)) (k : String) (v : α) (kv : String × α)
    (h : kv ∈ sdSet l k v) : kv ∈ l ∨ kv.2 = v := by
  induction l with
  | nil => simp [sdSet] at h; right; rw [h]
  | cons x xs ih =>
    obtain ⟨xk, xv⟩ := x
    by_cases hk : (xk == k) = true
    · simp only [sdSet, hk, if_true, List.mem_cons] at h
      rcases h with h | h
      · right; rw [h]
      · left; exact List.mem_cons_of_mem _ h
    · simp only [sdSet, hk, Bool.false_eq_true, if_false, List.mem_cons] at h
      rcases h with h | h
      · left; rw [h]; exact List.mem_cons_self ..
      · rcases ih h with h' | h'
        · left; exact List.mem_cons_of_mem _ h'
        · right; exact h'

/-- **repair FW4:** greedy `distribute_power` hands out at most the budget in total -/
theorem distributePower_greedy_sum (ops : BatOps α B) (law : BatLaw ops) (env : FEnv α)
    (hstrat : env.strat = .greedy) (w : SWorld α B) (vs vs' : List (VehicleS α B)) (P N : α)
    (cmds : List (String × α)) (h : distributePower ops env w vs P N = .ok (vs', cmds)) :
    (∀ kv ∈ cmds, 0 ≤ kv.2) ∧ asum cmds ≤ max P 0 := by
  unfold distributePower at h
  split at h
  · simp only [Except.ok.injEq, Prod.mk.injEq] at h
    obtain ⟨_, rfl⟩ := h
    exact ⟨by simp, by simp [asum]⟩
  · rename_i hpos
    simp only [not_or, not_le] at hpos
    simp only [bind, Except.bind] at h
    split at h
    · cases h
    · rename_i r hr
      simp only [Except.ok.injEq, Prod.mk.injEq] at h
      obtain ⟨_, rfl⟩ := h
      have key := foldlM_inv _ (fun (a : List (VehicleS α B) × List (String × α) × α) =>
          0 ≤ a.2.2 ∧ (∀ kv ∈ a.2.1, 0 ≤ kv.2) ∧ asum a.2.1 + a.2.2 ≤ P) ?_ vs ([], [], P) r
          ⟨hpos.1.le, by simp, by simp [asum]⟩ hr
      · exact ⟨key.2.1, le_trans (by linarith [key.1, key.2.2]) (le_max_left _ _)⟩
      · intro s x s' hp hs
        obtain ⟨hrem, hnn, hsum⟩ := hp
        simp only [hstrat] at hs
        split at hs
        · cases hs
        · split at hs
          · cases hs
          · rename_i cs hst
            split at hs
            · cases hs
            · rename_i rl hl
              rw [liftM_ok] at hl
              simp only [Except.ok.injEq] at hs
              subst hs
              obtain ⟨ha0, hap⟩ := law.load_max _ _ _ _ hl
              have hle : rl.2 ≤ s.2.2 := by
                refine le_trans hap (max_le (le_trans (clampV_le _ _ _).2 (max_le hrem (le_refl _))) hrem)
              have hb : (LoadStrat.greedy == LoadStrat.greedy) = true := rfl
              simp only [hb, if_true]
              refine ⟨by linarith, ?_, ?_⟩
              · intro kv hkv
                rcases mem_sdSet _ _ _ kv hkv with h1 | h1
                · exact hnn kv h1
                · rw [h1]; exact ha0
              · refine le_trans (add_le_add_left (asum_sdSet_le _ _ _ hnn) _) ?_
                linarith

theorem asum_eq (l : List (String × α)) : asum l = (l.map (·.2)).sum := by
  induction l with
  | nil => simp [asum]
  | cons x xs ih => rw [asum_cons, ih]; simp

theorem asum_nonneg (l : List (String × α)) (h : ∀ kv ∈ l, 0 ≤ kv.2) : 0 ≤ asum l := by
  induction l with
  | nil => simp [asum]
  | cons x xs ih =>
    rw [asum_cons]
    have := ih (fun kv hkv => h kv (List.mem_cons_of_mem _ hkv))
    have := h x (List.mem_cons_self ..)
    linarith

theorem foldlM_measure {σ β ε : Type} (f : σ → β → Except ε σ) (Q : σ → Prop) (m : σ → α) (wt : β → α)
    (hf : ∀ s x s', Q s → f s x = .ok s' → Q s' ∧ m s' = m s + wt x) :
    ∀ (l : List β) (s s' : σ), Q s → l.foldlM f s = .ok s' → Q s' ∧ m s' = m s + (l.map wt).sum := by
  intro l
  induction l with
  | nil =>
    intro s s' hq h
    simp only [List.foldlM_nil, pure, Except.pure, Except.ok.injEq] at h
    subst h; exact ⟨hq, by simp⟩
  | cons x xs ih =>
    intro s s' hq h
    simp only [List.foldlM_cons, bind, Except.bind] at h
    split at h
    · cases h
    · rename_i s1 hs1
      obtain ⟨hq1, hm1⟩ := hf s x s1 hq hs1
      obtain ⟨hq', hm'⟩ := ih s1 s' hq1 h
      refine ⟨hq', ?_⟩
      rw [hm', hm1, List.map_cons, List.sum_cons]; ring

/-- `distribute_power` hands out at most its budget (greedy: repair FW4; needy: exact shares) -/
def DPBound (ops : BatOps α B) (env : FEnv α) : Prop :=
  ∀ (w : SWorld α B) (vs vs' : List (VehicleS α B)) (P : α) (cmds : List (String × α)),
    distributePower ops env w vs P (env.sum (vs.map (fun v => energyNeededFull ops v.bat))) = .ok (vs', cmds) →
    (∀ kv ∈ cmds, 0 ≤ kv.2) ∧ asum cmds ≤ max P 0

theorem DPBound.greedy (ops : BatOps α B) (law : BatLaw ops) (env : FEnv α) (hstrat : env.strat = .greedy) :
    DPBound ops env :=
  fun w vs vs' P cmds h => distributePower_greedy_sum ops law env hstrat w vs vs' P _ cmds h

/-- `distribute_peak_shaving_vehicles` is a `Rel` step when `distribute_power` keeps its budget -/
theorem distributePeakShavingVehicles_inv (ops : BatOps α B) (law : BatLaw ops) (env : FEnv α)
    (hdpb : DPBound ops env) (heps : 0 ≤ env.base.eps) (cw lo : Bool) (g0 : GcS α)
    (st st' : FState α B) (cmds : List (String × α)) (hM : 0 ≤ g0.curMax)
    (hinv : Inv cw lo g0 st) (h : distributePeakShavingVehicles ops env st = .ok (st', cmds)) :
    Inv cw lo g0 st' := by
  unfold distributePeakShavingVehicles at h
  obtain ⟨⟨g, hg, hrel⟩, hcw, hhead⟩ := hinv
  rw [theGc_single _ g hg] at h
  simp only [bind, Except.bind] at h
  split at h
  · cases h
  · rename_i vehicles _
    split at h
    · cases h
    · rename_i sim _
      split at h
      · cases h
      · rename_i total hbis
        have hgM : 0 ≤ g.curMax := by rw [hrel.1]; exact hM
        have htot : ∀ tp, total = some tp → tp ≤ g.curMax := by
          refine bisectM_inv env.base.eps heps _ (-g.curMax) g.curMax
            (fun (t : Option α) => ∀ tp, t = some tp → tp ≤ g.curMax) ?_ env.fuel _ _ none total
            (le_refl _) (le_refl _) (by simp) hbis
          intro mid s r _ hm hr
          split at hr
          · cases hr
          · simp only [Except.ok.injEq] at hr
            subst hr
            intro tp htp
            simp only [Option.some.injEq] at htp
            rw [← htp]; exact hm
        split at h
        · cases h
        · rename_i dp hdp
          obtain ⟨vs', dcm⟩ := dp
          -- what `distribute_power` handed out
          have hd : (∀ kv ∈ dcm, 0 ≤ kv.2) ∧ asum dcm ≤ max (g.curMax - g.currentLoad) 0 := by
            split at hdp
            · split at hdp
              · cases hdp
              · obtain ⟨h1, h2⟩ := hdpb _ _ _ _ _ hdp
                refine ⟨h1, le_trans h2 (max_le_max ?_ (le_refl _))⟩
                have := htot _ rfl
                linarith
            · split at hdp
              · exact hdpb _ _ _ _ _ hdp
              · simp only [Except.ok.injEq, Prod.mk.injEq] at hdp
                obtain ⟨_, rfl⟩ := hdp
                exact ⟨by simp, by simp [asum]⟩
          simp only at h
          have key := foldlM_measure _
            (fun (a : FState α B × List (String × α)) =>
              (∃ g', a.1.w.gcs = [g'] ∧ g'.curMax = g.curMax ∧ g'.id = g.id) ∧ a.1.window = st.window ∧
                (∀ t rest, a.1.ts = t :: rest → t.window = st.window))
            (fun a => (a.1.w.gcs.map GcS.currentLoad).sum) (fun (kv : String × α) => kv.2) ?_ dcm _ (st', cmds)
            ⟨⟨g, hg, rfl, rfl⟩, rfl, hhead⟩ h
          · obtain ⟨⟨⟨g', hg', h1, h2⟩, hw', hh'⟩, hm⟩ := key
            simp only at hg' hw' hh' hm
            simp only [hg', hg, List.map_cons, List.map_nil, List.sum_cons, List.sum_nil, add_zero] at hm
            rw [← asum_eq] at hm
            have hs0 := asum_nonneg dcm hd.1
            refine ⟨⟨g', hg', hrel.trans ⟨h1, h2, ?_, fun _ => by linarith, fun _ => ?_⟩⟩,
              by rw [hw']; exact hcw, by rw [hw']; exact hh'⟩
            · rw [hm]
              rcases le_total (g.curMax - g.currentLoad) 0 with hle | hle
              · have := hd.2; rw [max_eq_right hle] at this
                exact le_trans (by linarith) (le_max_left _ _)
              · have := hd.2; rw [max_eq_left hle] at this
                exact le_trans (by linarith) (le_max_right _ _)
            · exact le_trans (min_le_left _ _) (by linarith)
          · intro a kv a' hq ha
            obtain ⟨⟨g1, hg1, e1, e2⟩, hw1, hh1⟩ := hq
            split at ha
            · cases ha
            · rw [theGc_single _ g1 hg1] at ha
              simp only at ha
              split at ha
              · cases ha
              · rename_i hass
                simp only [Except.ok.injEq] at ha
                subst ha
                have hgs : (a.1.w.setGc (g1.addLoad kv.1 kv.2).1).gcs = [(g1.addLoad kv.1 kv.2).1] :=
                  setGc_single _ g1 _ _ hg1
                refine ⟨⟨⟨_, by simp only [setStation_gcs]; exact hgs, by rw [addLoad_curMax, e1],
                  by rw [addLoad_id, e2]⟩, hw1, ?_⟩, ?_⟩
                · intro t rest ht
                  simp only at ht
                  cases hts : a.1.ts with
                  | nil => rw [hts] at ht; simp at ht
                  | cons t1 r1 =>
                    rw [hts] at ht
                    simp only [List.cons.injEq] at ht
                    obtain ⟨rfl, _⟩ := ht
                    exact hh1 t1 r1 hts
                · simp only [setStation_gcs, hgs, hg1, List.map_cons, List.map_nil, List.sum_cons, List.sum_nil,
                    add_zero, addLoad_load]

/-- `Strategy.distribute_surplus_power` (one vehicle) on a single-connector world is a `Rel` step -/
theorem surplusVehicle_rel (ops : BatOps α B) (law : BatLaw ops) (env : StratEnv α) (heps : 0 ≤ env.eps)
    (lo : Bool) (cheap : List (String × Bool)) (w w' : SWorld α B) (cmds cmds' : List (String × α))
    (v : VehicleS α B) (g : GcS α) (hg : w.gcs = [g]) (hM : 0 ≤ g.curMax)
    (h : surplusVehicle ops env cheap w cmds v = .ok (w', cmds')) :
    ∃ g', w'.gcs = [g'] ∧ Rel false lo g g' := by
  unfold surplusVehicle at h
  split at h
  · simp only [Except.ok.injEq, Prod.mk.injEq] at h; obtain ⟨rfl, _⟩ := h; exact ⟨g, hg, Rel.refl _ _ g⟩
  · rename_i csId _
    split at h
    · cases h
    · rename_i cs _
      split at h
      · cases h
      · rename_i gc hgc
        have : gc = g := gc?_single _ g gc _ hg hgc
        subst this
        simp only at h
        split at h
        · rename_i hsur
          simp only [bind, Except.bind] at h
          split at h
          · cases h
          · rename_i r hl
            simp only [Except.ok.injEq, Prod.mk.injEq] at h
            obtain ⟨rfl, _⟩ := h
            obtain ⟨ha0, hap⟩ := law.load_max _ _ _ _ hl
            refine ⟨(gc.addLoad csId r.2).1, by simp only [setStation_gcs]; exact setGc_single _ gc csId r.2 (by simpa using hg),
              Rel.charge false lo gc csId r.2 ?_ ha0⟩
            have hpos : 0 < -gc.currentLoad := lt_of_le_of_lt heps hsur
            have hc := (clampPower_bounds (-gc.currentLoad) cs.currentPower cs.maxPower cs.minPower v.minChargingPower)
            rw [max_eq_right hpos.le] at hc
            rw [max_eq_left hc.1] at hap
            exact le_trans (by linarith [hc.2]) (le_max_left _ _)
        · split at h
          · rename_i hcond
            simp only [bind, Except.bind] at h
            split at h
            · cases h
            · rename_i r hl
              simp only [Except.ok.injEq, Prod.mk.injEq] at h
              obtain ⟨rfl, _⟩ := h
              obtain ⟨ha0, hap⟩ := law.unload_max _ _ _ _ _ hl
              have hL : 0 < gc.currentLoad := by
                have := hcond.1
                linarith
              have hle : r.2 ≤ gc.currentLoad := by
                refine le_trans hap (max_le ?_ hL.le)
                simp only [pymin_eq]
                refine le_trans (min_le_left _ _) (le_trans (min_le_left _ _) ?_)
                simp
              refine ⟨(gc.addLoad csId (-r.2)).1, by simp only [setStation_gcs]; exact setGc_single _ gc csId _ (by simpa using hg),
                Rel.addLoad false lo gc csId (-r.2) (le_trans (by linarith) (le_max_right _ _)) (by simp) (fun _ => ?_)⟩
              rw [neg_le_neg_iff]
              exact le_trans (by linarith) (le_max_left _ _)
          · simp only [Except.ok.injEq, Prod.mk.injEq] at h; obtain ⟨rfl, _⟩ := h; exact ⟨gc, hg, Rel.refl _ _ gc⟩

theorem distributeSurplus_rel (ops : BatOps α B) (law : BatLaw ops) (env : StratEnv α) (heps : 0 ≤ env.eps)
    (lo : Bool) (w w' : SWorld α B) (cmds : List (String × α)) (g : GcS α) (hg : w.gcs = [g])
    (hM : 0 ≤ g.curMax) (h : distributeSurplus ops env w = .ok (w', cmds)) :
    ∃ g', w'.gcs = [g'] ∧ Rel false lo g g' := by
  unfold distributeSurplus at h
  simp only [bind, Except.bind] at h
  split at h
  · cases h
  · rename_i cheap _
    refine foldlM_inv _ (fun (a : SWorld α B × List (String × α)) => ∃ g', a.1.gcs = [g'] ∧ Rel false lo g g')
      ?_ w.vehicles (w, []) (w', cmds) ⟨g, hg, Rel.refl _ _ g⟩ h
    intro s x s' hp hs
    obtain ⟨g1, hg1, hrel1⟩ := hp
    split at hs
    · simp only [Except.ok.injEq] at hs; subst hs; exact ⟨g1, hg1, hrel1⟩
    · obtain ⟨g2, hg2, hrel2⟩ := surplusVehicle_rel ops law env heps lo cheap s.1 s'.1 s.2 s'.2 _ g1 hg1
        (by rw [hrel1.1]; exact hM) hs
      exact ⟨g2, hg2, hrel1.trans hrel2⟩

/-- invariant of the greedy/needy passes: no statement about the direction (the surplus pass may discharge in a window) -/
def Inv2 (lo : Bool) (g0 : GcS α) (st : FState α B) : Prop :=
  (∃ g, st.w.gcs = [g] ∧ Rel false lo g0 g) ∧ (∀ t rest, st.ts = t :: rest → t.window = st.window)

theorem Rel.weaken {cw lo : Bool} {a b : GcS α} (h : Rel cw lo a b) : Rel false lo a b :=
  ⟨h.1, h.2.1, h.2.2.1, by simp, h.2.2.2.2⟩

theorem psV2gVehicle_inv (ops : BatOps α B) (law : BatLaw ops) (env : FEnv α)
    (lo : Bool) (g0 : GcS α) (curWindow : Option Bool)
    (acc acc' : V2gAcc α B) (v0 : VehicleS α B)
    (hinv : Inv2 lo g0 acc.st)
    (h : psV2gVehicle ops env curWindow acc v0 = .ok acc') :
    (∃ g', acc'.st.w.gcs = [g'] ∧ Rel false lo g0 g') ∧ acc'.st.window = acc.st.window ∧
      (∀ t rest, acc'.st.ts = t :: rest → t.window = acc.st.window) := by
  obtain ⟨⟨g, hg, hrel⟩, hhead⟩ := hinv
  unfold psV2gVehicle at h
  simp only [bind, Except.bind, pure, Except.pure] at h
  split at h
  · simp only [Except.ok.injEq] at h; subst h; exact ⟨⟨g, hg, hrel⟩, rfl, hhead⟩
  · split at h
    · cases h
    · rename_i csId _
      split at h
      · cases h
      · rename_i cs _
        split at h
        · cases h
        · split at h
          · cases h
          · split at h
            · simp only [Except.ok.injEq] at h; subst h; exact ⟨⟨g, hg, hrel⟩, rfl, hhead⟩
            · rw [theGc_single _ g hg] at h
              simp only at h
              split at h
              · -- window: charge
                split at h
                · cases h
                · split at h
                  · cases h
                  · split at h
                    · cases h
                    · split at h
                      · cases h
                      · rename_i r hl
                        rw [liftM_ok] at hl
                        simp only [Except.ok.injEq] at h
                        subst h
                        obtain ⟨ha0, hap⟩ := law.load_max _ _ _ _ hl
                        refine ⟨⟨(g.addLoad csId r.2).1, by simp only [setStation_gcs]; exact setGc_single _ g csId r.2 (by simpa using hg),
                          hrel.trans (Rel.charge false lo g csId r.2 ?_ ha0)⟩, rfl, head_addTotal0 _ _ _ hhead⟩
                        refine le_trans hap (max_le (le_trans (clampV_le _ _ _).2 (max_le (le_max_right _ _) ?_))
                          (le_max_right _ _))
                        split
                        · exact le_max_right _ _
                        · rw [pymin_eq]; exact le_trans (min_le_right _ _) (le_max_left _ _)
              · -- no window: discharge
                split at h
                · cases h
                · split at h
                  · cases h
                  · split at h
                    · cases h
                    · split at h
                      · cases h
                      · split at h
                        · cases h
                        · rename_i r hl
                          simp only [Except.ok.injEq] at h
                          subst h
                          have hr : 0 ≤ r.2 ∧ r.2 ≤ max (g.curMax + g.currentLoad) 0 := by
                            split at hl
                            · rw [liftM_ok] at hl
                              simp only [Except.ok.injEq] at hl
                              subst hl
                              exact ⟨le_refl _, le_max_right _ _⟩
                            · rw [liftM_ok] at hl
                              obtain ⟨hu0, hup⟩ := law.unload_max _ _ _ _ _ hl
                              refine ⟨hu0, le_trans hup (max_le ?_ (le_max_right _ _))⟩
                              simp only [pymin_eq]
                              exact le_trans (min_le_left _ _) (le_trans (min_le_left _ _)
                                (le_trans (min_le_right _ _) (le_max_left _ _)))
                          refine ⟨⟨(g.addLoad csId (-r.2)).1, by simp only [setStation_gcs]; exact setGc_single _ g csId _ (by simpa using hg),
                            hrel.trans (Rel.addLoad false lo g csId (-r.2) (le_trans (by linarith [hr.1]) (le_max_right _ _))
                              (by simp) (fun _ => by rw [neg_le_neg_iff]; exact hr.2))⟩, rfl, head_subTotal0 _ _ _ hhead⟩

theorem distributePeakShavingV2g_inv (ops : BatOps α B) (law : BatLaw ops) (env : FEnv α)
    (lo : Bool) (g0 : GcS α) (st st' : FState α B) (cmds : List (String × α))
    (hinv : Inv2 lo g0 st) (h : distributePeakShavingV2g ops env st = .ok (st', cmds)) :
    Inv2 lo g0 st' := by
  unfold distributePeakShavingV2g at h
  simp only [bind, Except.bind] at h
  split at h
  · cases h
  · rename_i vs _
    split at h
    · cases h
    · split at h
      · cases h
      · rename_i r hr
        simp only [Except.ok.injEq, Prod.mk.injEq] at h
        obtain ⟨rfl, _⟩ := h
        have := foldlM_inv (psV2gVehicle ops env _) (fun a => Inv2 lo g0 a.st ∧ a.st.window = st.window)
          (fun s x s' hp hs => by
            obtain ⟨h1, h2, h3⟩ := psV2gVehicle_inv ops law env lo g0 _ s s' x hp.1 hs
            exact ⟨⟨h1, by rw [h2]; exact h3⟩, by rw [h2]; exact hp.2⟩) vs _ r ⟨hinv, rfl⟩ hr
        exact this.1

/-- `distribute_peak_shaving_batteries` after repair FW5: both modes stay within the actual headroom -/
theorem distributePeakShavingBatteries_inv (ops : BatOps α B) (law : FwLaw ops) (env : FEnv α)
    (lo : Bool) (g0 : GcS α) (st st' : FState α B)
    (hinv : Inv2 lo g0 st) (h : distributePeakShavingBatteries ops env st = .ok st') :
    ∃ g', st'.w.gcs = [g'] ∧ Rel false lo g0 g' := by
  unfold distributePeakShavingBatteries at h
  obtain ⟨⟨g, hg, hrel⟩, hhead⟩ := hinv
  rw [theGc_single _ g hg] at h
  simp only [bind, Except.bind] at h
  set nb : α := (st.w.batteries.length : α) with hnb
  have hnb0 : 0 ≤ nb := by rw [hnb]; exact Nat.cast_nonneg _
  have hmul : ∀ A : α, 0 ≤ A → nb * (A / nb) ≤ A := by
    intro A hA
    rcases Nat.eq_zero_or_pos st.w.batteries.length with hz | hpos
    · have : nb = 0 := by rw [hnb, hz]; simp
      rw [this, zero_mul]; exact hA
    · have hp : (0 : α) < nb := by rw [hnb]; exact_mod_cast hpos
      rw [mul_div_cancel₀ _ (ne_of_gt hp)]
  split at h
  · -- charging mode
    split at h
    · cases h
    · rename_i total _
      split at h
      · cases h
      · cases h
      · rename_i tp t0 rest
        simp only [pymin_eq] at h
        split at h
        · cases h
        · rename_i r hr
          simp only [Except.ok.injEq] at h
          subst h
          set A : α := max (g.curMax - g.currentLoad) 0 with hA
          have hA0 : 0 ≤ A := le_max_right _ _
          have key := foldlM_inv_idx _ (fun (k : Nat) (a : FState α B × α) =>
              (∃ g', a.1.w.gcs = [g'] ∧ g'.curMax = g.curMax ∧ g'.id = g.id ∧ g.currentLoad ≤ g'.currentLoad ∧
                g'.currentLoad ≤ g.currentLoad + (k : α) * (A / nb)) ∧ a.2 ≤ A) ?_ st.w.batteries 0 _ r
              ⟨⟨g, hg, rfl, rfl, le_refl _, by simp⟩, le_trans (min_le_right _ _) (le_max_left _ _)⟩ hr
          · obtain ⟨⟨g', hg', h1, h2, h3, h4⟩, _⟩ := key
            refine ⟨g', hg', hrel.trans ⟨h1, h2, ?_, by simp, fun _ => le_trans (min_le_left _ _) h3⟩⟩
            simp only [Nat.zero_add] at h4
            have := hmul A hA0
            have h5 : g'.currentLoad ≤ g.currentLoad + A := by linarith
            rcases le_total (g.curMax - g.currentLoad) 0 with hle | hle
            · rw [hA, max_eq_right hle] at h5; exact le_trans (by linarith) (le_max_left _ _)
            · rw [hA, max_eq_left hle] at h5; exact le_trans (by linarith) (le_max_right _ _)
          · intro k a b0 a' hp ha
            obtain ⟨⟨g1, hg1, e1, e2, e3, e4⟩, hav⟩ := hp
            have hdiv0 : 0 ≤ A / nb := div_nonneg hA0 hnb0
            set b := (List.find? (fun x => x.id == b0.id) a.1.w.batteries).getD b0 with hb
            have hav' : (if a.2 < b.minChargingPower then (0 : α) else a.2) ≤ A := by
              split
              · exact hA0
              · exact hav
            generalize (if a.2 < b.minChargingPower then (0 : α) else a.2) = avail at ha hav'
            split at ha
            · rw [theGc_single _ g1 hg1] at ha
              simp only at ha
              split at ha
              · cases ha
              · rename_i rl hl
                rw [liftM_ok] at hl
                simp only [Except.ok.injEq] at ha
                subst ha
                obtain ⟨ha0, hap⟩ := law.load_max _ _ _ _ hl
                have hr2 : rl.2 ≤ A / nb :=
                  le_trans hap (max_le (div_le_div_of_nonneg_right hav' hnb0) hdiv0)
                refine ⟨⟨(g1.addLoad _ rl.2).1, setGc_single' _ _ g1 _ rl.2 hg1, by rw [addLoad_curMax, e1],
                  by rw [addLoad_id, e2], by rw [addLoad_load]; linarith, ?_⟩, hav'⟩
                rw [addLoad_load]
                push_cast
                linarith
            · simp only [Except.ok.injEq] at ha
              subst ha
              refine ⟨⟨g1, hg1, e1, e2, e3, ?_⟩, hav'⟩
              push_cast
              linarith
  · -- discharging mode
    split at h
    · cases h
    · rename_i total _
      split at h
      · cases h
      · cases h
      · rename_i t0 rest tp _ _
        simp only [pymin_eq] at h
        set A : α := max (g.curMax + g.currentLoad) 0 with hA
        have hA0 : 0 ≤ A := le_max_right _ _
        have hdiv0 : 0 ≤ A / nb := div_nonneg hA0 hnb0
        have hneed : min (t0.totalLoad - tp) (g.curMax + g.currentLoad) ≤ A :=
          le_trans (min_le_right _ _) (le_max_left _ _)
        generalize min (t0.totalLoad - tp) (g.curMax + g.currentLoad) = needed at h hneed
        have key := foldlM_inv_idx _ (fun (k : Nat) (a : FState α B) =>
            (∃ g', a.w.gcs = [g'] ∧ g'.curMax = g.curMax ∧ g'.id = g.id ∧ g'.currentLoad ≤ g.currentLoad ∧
              g.currentLoad - (k : α) * (A / nb) ≤ g'.currentLoad)) ?_ st.w.batteries 0 st st'
            ⟨g, hg, rfl, rfl, le_refl _, by simp⟩ h
        · obtain ⟨g', hg', h1, h2, h3, h4⟩ := key
          refine ⟨g', hg', hrel.trans ⟨h1, h2, le_trans h3 (le_max_left _ _), by simp, fun _ => ?_⟩⟩
          simp only [Nat.zero_add] at h4
          have := hmul A hA0
          have h5 : g.currentLoad - A ≤ g'.currentLoad := by linarith
          rcases le_total (g.curMax + g.currentLoad) 0 with hle | hle
          · rw [hA, max_eq_right hle] at h5; exact le_trans (min_le_left _ _) (by linarith)
          · rw [hA, max_eq_left hle] at h5; exact le_trans (min_le_right _ _) (by linarith)
        · intro k a b0 a' hp ha
          obtain ⟨g1, hg1, e1, e2, e3, e4⟩ := hp
          rw [theGc_single _ g1 hg1] at ha
          simp only at ha
          split at ha
          · cases ha
          · rename_i rl hl
            simp only [Except.ok.injEq] at ha
            subst ha
            have hr : 0 ≤ rl.2 ∧ rl.2 ≤ A / nb := by
              split at hl
              · rw [liftM_ok] at hl
                simp only [Except.ok.injEq] at hl
                subst hl
                exact ⟨le_refl _, hdiv0⟩
              · rw [liftM_ok] at hl
                obtain ⟨hu0, hup⟩ := law.unload_maxonly _ _ _ _ hl
                exact ⟨hu0, le_trans hup (max_le (div_le_div_of_nonneg_right hneed hnb0) hdiv0)⟩
            refine ⟨(g1.addLoad _ (-rl.2)).1, setGc_single' _ _ g1 _ _ hg1, by rw [addLoad_curMax, e1],
              by rw [addLoad_id, e2], by rw [addLoad_load]; linarith [hr.1], ?_⟩
            rw [addLoad_load]
            push_cast
            linarith [hr.2]

theorem liftPy_ok {β : Type} (x : Py β) (v : β) : liftPy x = (.ok v : FPy β) ↔ x = .ok v := by
  cases x <;> simp [liftPy]

/-- **whole step, LOAD_STRAT ≠ balanced, code with the repairs FW1 … FW5:** the connector stays within
`[min load (−limit), max load limit]` -/
theorem step_ps_rel (ops : BatOps α B) (law : FwLaw ops) (env : FEnv α)
    (hstrat : env.strat ≠ .balanced) (hdpb : DPBound ops env) (heps : 0 ≤ env.base.eps)
    (w w' : SWorld α B) (window win' : Option Bool) (events : List (FEvent α))
    (cmds : List (String × α)) (g : GcS α) (hg : w.gcs = [g]) (hM : 0 ≤ g.curMax)
    (h : step ops env w window events = .ok (w', win', cmds)) :
    ∃ g', w'.gcs = [g'] ∧ Rel false true g g' := by
  unfold step at h
  rw [theGc_single _ g hg] at h
  simp only [bind, Except.bind] at h
  split at h
  · cases h
  · split at h
    · cases h
    · rename_i t0 rest _
      have hne : (env.strat == LoadStrat.balanced) = false := by simpa using hstrat
      simp only [hne, Bool.false_eq_true, if_false] at h
      have hinv0 : Inv (truthy t0.window) true g (⟨resetStations w, t0.window, t0 :: rest⟩ : FState α B) :=
        ⟨⟨g, by simpa using hg, Rel.refl _ _ g⟩, rfl, by
          intro t r ht
          simp only [List.cons.injEq] at ht
          rw [ht.1]⟩
      split at h
      · cases h
      · rename_i r1 h1
        obtain ⟨st1, c1⟩ := r1
        have hinv1 := distributePeakShavingVehicles_inv ops law.toBatLaw env hdpb heps _ true g _ st1 c1 hM hinv0 h1
        obtain ⟨⟨g1, hg1, hrel1⟩, _, hh1⟩ := hinv1
        have hrel1' := hrel1.weaken
        simp only at h
        rw [theGc_single _ g1 hg1] at h
        simp only at h
        split at h
        · cases h
        · rename_i r2 h2
          obtain ⟨st2, c2, lv⟩ := r2
          have hinv2 : Inv2 true g st2 := by
            split at h2
            · split at h2
              · cases h2
              · rename_i r hs
                rw [liftPy_ok] at hs
                simp only [pure, Except.pure, Except.ok.injEq, Prod.mk.injEq] at h2
                obtain ⟨rfl, _, _⟩ := h2
                obtain ⟨g2, hg2, hrel2⟩ := distributeSurplus_rel ops law.toBatLaw env.base heps true st1.w r.1 r.2 g1 hg1
                  (by rw [hrel1.1]; exact hM) hs
                exact ⟨⟨g2, hg2, hrel1'.trans hrel2⟩, hh1⟩
            · split at h2
              · cases h2
              · rename_i r hs
                simp only [pure, Except.pure, Except.ok.injEq, Prod.mk.injEq] at h2
                obtain ⟨rfl, _, _⟩ := h2
                exact distributePeakShavingV2g_inv ops law.toBatLaw env true g st1 r.1 r.2
                  ⟨⟨g1, hg1, hrel1'⟩, hh1⟩ hs
          obtain ⟨⟨g2, hg2, hrel2⟩, hh2⟩ := hinv2
          simp only at h
          rw [theGc_single _ g2 hg2] at h
          simp only at h
          split at h
          · cases h
          · rename_i st3 h3
            simp only [Except.ok.injEq, Prod.mk.injEq] at h
            obtain ⟨rfl, _, _⟩ := h
            split at h3
            · split at h3
              · cases h3
              · rename_i w3 hs
                simp only [pure, Except.pure, Except.ok.injEq] at h3
                subst h3
                obtain ⟨g3, hg3, hrel3⟩ := surplusToBatteries_rel ops law.toBatLaw env false true st2.w w3 g2 hg2
                  (by rw [hrel2.1]; exact hM) hs
                exact ⟨g3, hg3, hrel2.trans hrel3⟩
            · exact distributePeakShavingBatteries_inv ops law env true g st2 st3 ⟨⟨g2, hg2, hrel2⟩, hh2⟩ h3

theorem foldlM_measure_le {σ β ε : Type} (f : σ → β → Except ε σ) (Q : σ → Prop) (m : σ → α) (wt : β → α)
    (hf : ∀ s x s', Q s → f s x = .ok s' → Q s' ∧ m s' ≤ m s + wt x) :
    ∀ (l : List β) (s s' : σ), Q s → l.foldlM f s = .ok s' → Q s' ∧ m s' ≤ m s + (l.map wt).sum := by
  intro l
  induction l with
  | nil =>
    intro s s' hq h
    simp only [List.foldlM_nil, pure, Except.pure, Except.ok.injEq] at h
    subst h; exact ⟨hq, by simp⟩
  | cons x xs ih =>
    intro s s' hq h
    simp only [List.foldlM_cons, bind, Except.bind] at h
    split at h
    · cases h
    · rename_i s1 hs1
      obtain ⟨hq1, hm1⟩ := hf s x s1 hq hs1
      obtain ⟨hq', hm'⟩ := ih s1 s' hq1 h
      refine ⟨hq', ?_⟩
      rw [List.map_cons, List.sum_cons]; linarith

theorem energyNeededFull_nonneg (ops : BatOps α B) (hcap : ∀ b, 0 ≤ ops.capacity b) (b : B) :
    0 ≤ energyNeededFull ops b := by
  unfold energyNeededFull
  rw [pymax_eq]
  exact mul_nonneg (le_max_right _ _) (hcap b)

theorem sum_share {β : Type} (l : List β) (e : β → α) (c P : α) :
    (l.map (fun v => e v / c * P)).sum = (l.map e).sum / c * P := by
  induction l with
  | nil => simp
  | cons x xs ih => simp only [List.map_cons, List.sum_cons]; rw [ih]; ring

/-- needy `distribute_power`: the shares `energy_i / Σ energy` add up to the budget (exact arithmetic,
`sum` = the plain sum, capacities ≥ 0) -/
theorem distributePower_needy_sum (ops : BatOps α B) (law : BatLaw ops) (env : FEnv α)
    (hstrat : env.strat = .needy) (hsum : env.sum = List.sum) (hcap : ∀ b, 0 ≤ ops.capacity b)
    (w : SWorld α B) (vs vs' : List (VehicleS α B)) (P : α)
    (cmds : List (String × α))
    (h : distributePower ops env w vs P (env.sum (vs.map (fun v => energyNeededFull ops v.bat))) = .ok (vs', cmds)) :
    (∀ kv ∈ cmds, 0 ≤ kv.2) ∧ asum cmds ≤ max P 0 := by
  unfold distributePower at h
  split at h
  · simp only [Except.ok.injEq, Prod.mk.injEq] at h
    obtain ⟨_, rfl⟩ := h
    exact ⟨by simp, by simp [asum]⟩
  · rename_i hpos
    simp only [not_or, not_le] at hpos
    obtain ⟨hP, hN⟩ := hpos
    set N := env.sum (vs.map (fun v => energyNeededFull ops v.bat)) with hNdef
    simp only [bind, Except.bind] at h
    split at h
    · cases h
    · rename_i r hr
      simp only [Except.ok.injEq, Prod.mk.injEq] at h
      obtain ⟨_, rfl⟩ := h
      have key := foldlM_measure_le _
          (fun (a : List (VehicleS α B) × List (String × α) × α) => (∀ kv ∈ a.2.1, 0 ≤ kv.2) ∧ a.2.2 = P)
          (fun a => asum a.2.1) (fun (v : VehicleS α B) => energyNeededFull ops v.bat / N * P) ?_ vs ([], [], P) r
          ⟨by simp, rfl⟩ hr
      · obtain ⟨⟨hnn, _⟩, hle⟩ := key
        refine ⟨hnn, le_trans hle (le_trans (le_of_eq ?_) (le_max_left _ _))⟩
        simp only [asum, List.foldl_nil, zero_add]
        rw [sum_share vs (fun v => energyNeededFull ops v.bat) N P, ← hsum, ← hNdef, div_self (ne_of_gt hN), one_mul]
      · intro s x s' hp hs
        obtain ⟨hnn, hP'⟩ := hp
        simp only [hstrat] at hs
        split at hs
        · cases hs
        · split at hs
          · cases hs
          · skip
            split at hs
            · cases hs
            · rename_i rl hl
              rw [liftM_ok] at hl
              simp only [Except.ok.injEq] at hs
              subst hs
              obtain ⟨ha0, hap⟩ := law.load_max _ _ _ _ hl
              have hb : (LoadStrat.needy == LoadStrat.greedy) = false := rfl
              simp only [hb, Bool.false_eq_true, if_false]
              have he := energyNeededFull_nonneg ops hcap x.bat
              have hshare : 0 ≤ energyNeededFull ops x.bat / N * P :=
                mul_nonneg (div_nonneg he hN.le) hP.le
              refine ⟨⟨?_, hP'⟩, ?_⟩
              · intro kv hkv
                rcases mem_sdSet _ _ _ kv hkv with h1 | h1
                · exact hnn kv h1
                · rw [h1]; exact ha0
              · refine le_trans (asum_sdSet_le _ _ _ hnn) (add_le_add_right ?_ _)
                refine le_trans hap (max_le (le_trans (clampV_le _ _ _).2 (max_le hshare ?_)) hshare)
                rw [if_pos hN, hP']

theorem DPBound.needy (ops : BatOps α B) (law : BatLaw ops) (env : FEnv α) (hstrat : env.strat = .needy)
    (hsum : env.sum = List.sum) (hcap : ∀ b, 0 ≤ ops.capacity b) : DPBound ops env :=
  fun w vs vs' P cmds h => distributePower_needy_sum ops law env hstrat hsum hcap w vs vs' P cmds h

/-! ### stations, LOAD_STRAT greedy / needy after FW1/FW2 -/

/-- both station invariants of the step: within ± maximum (`BInv`), connected / V2G (`CInv`) -/
def JInv (N : List String) (K : List (String × Option String × Bool)) (l : List (StationS α)) : Prop :=
  BInv N l ∧ CInv K l

/-- a station update that stays within ± the maximum and is justified by a vehicle key -/
theorem JInv.update (N : List String) (K : List (String × Option String × Bool)) (w : SWorld α B)
    (cs : StationS α) (x : α) (k : String × Option String × Bool) (hk : k ∈ K) (hkc : k.2.1 = some cs.id)
    (hinv : JInv N K w.stations) (hcs : cs ∈ w.stations)
    (hb : -cs.maxPower ≤ cs.currentPower + x ∧ cs.currentPower + x ≤ cs.maxPower)
    (hx : 0 ≤ x ∨ k.2.2 = true) :
    JInv (cs.id :: N) K (w.setStation { cs with currentPower := cs.currentPower + x }).stations := by
  refine ⟨?_, CInv.update K w cs x k hk hkc hinv.2 hcs hx⟩
  intro s hs
  rcases mem_setStation _ _ s hs with rfl | hm
  · exact ⟨hb.1, hb.2, fun hnot => absurd (List.mem_cons_self ..) hnot⟩
  · obtain ⟨c1, c2, c3⟩ := hinv.1 s hm
    exact ⟨c1, c2, fun hnot => c3 (fun hin => hnot (List.mem_cons_of_mem _ hin))⟩

/-- a charging update (`0 ≤ x`, within the room) keeps the invariant for the same `N` -/
theorem JInv.charge (N : List String) (K : List (String × Option String × Bool)) (w : SWorld α B)
    (cs : StationS α) (x : α) (k : String × Option String × Bool) (hk : k ∈ K) (hkc : k.2.1 = some cs.id)
    (hinv : JInv N K w.stations) (hcs : cs ∈ w.stations)
    (hx0 : 0 ≤ x) (hx : x ≤ max (cs.maxPower - cs.currentPower) 0) :
    JInv N K (w.setStation { cs with currentPower := cs.currentPower + x }).stations := by
  refine ⟨?_, CInv.update K w cs x k hk hkc hinv.2 hcs (Or.inl hx0)⟩
  obtain ⟨b1, b2, b3⟩ := hinv.1 cs hcs
  have hm : max (cs.maxPower - cs.currentPower) 0 = cs.maxPower - cs.currentPower := max_eq_left (by linarith)
  rw [hm] at hx
  intro s hs
  rcases mem_setStation _ _ s hs with rfl | hmm
  · exact ⟨by simp only; linarith, by simp only; linarith, fun hnot => by have := b3 hnot; simp only; linarith⟩
  · exact hinv.1 s hmm

theorem clampV_le_room (p : α) (cs : StationS α) (v : VehicleS α B) :
    clampV p cs v ≤ max (cs.maxPower - cs.currentPower) 0 := by
  unfold clampV clampPower
  simp only [pymin_eq, pymax_eq]
  split
  · exact le_max_right _ _
  · exact max_le_max (min_le_right _ _) (le_refl _)

/-- generic fold over vehicles that visit each station at most once (unique vehicle ids, one vehicle per
station): the station invariants survive -/
theorem visitFold {σ ε : Type} (proj : σ → SWorld α B) (f : σ → VehicleS α B → Except ε σ)
    (K : List (String × Option String × Bool)) (Pv : VehicleS α B → Prop)
    (hkeys : ∀ s v0 s', f s v0 = .ok s' → (proj s).vehicles.map vkey = K → (proj s').vehicles.map vkey = K)
    (hstep : ∀ s v0 s', f s v0 = .ok s' → (proj s).vehicles.map vkey = K → vkey v0 ∈ K → Pv v0 →
      (proj s').stations = (proj s).stations ∨
      ∃ cs x, cs ∈ (proj s).stations ∧ v0.cs = some cs.id ∧
        (proj s').stations = ((proj s).setStation { cs with currentPower := cs.currentPower + x }).stations ∧
        (0 ≤ cs.currentPower → cs.currentPower ≤ cs.maxPower →
          -cs.maxPower ≤ cs.currentPower + x ∧ cs.currentPower + x ≤ cs.maxPower) ∧
        (0 ≤ x ∨ v0.v2g = true)) :
    ∀ (vs : List (VehicleS α B)) (s s' : σ) (N : List String),
      (proj s).vehicles.map vkey = K →
      (∀ v0 ∈ vs, vkey v0 ∈ K ∧ Pv v0) →
      (vs.filterMap (·.cs)).Nodup →
      (∀ c ∈ vs.filterMap (·.cs), c ∉ N) →
      JInv N K (proj s).stations →
      vs.foldlM f s = .ok s' →
      (proj s').vehicles.map vkey = K ∧ ∃ N', JInv N' K (proj s').stations := by
  intro vs
  induction vs with
  | nil =>
    intro s s' N hK _ _ _ hj h
    simp only [List.foldlM_nil, pure, Except.pure, Except.ok.injEq] at h
    subst h; exact ⟨hK, N, hj⟩
  | cons v0 rest ih =>
    intro s s' N hK hmem hndc hN hj h
    simp only [List.foldlM_cons, bind, Except.bind] at h
    split at h
    · cases h
    · rename_i s1 h1
      have hK1 := hkeys s v0 s1 h1 hK
      have hmem' : ∀ v ∈ rest, vkey v ∈ K ∧ Pv v := fun v hv => hmem v (List.mem_cons_of_mem _ hv)
      have hsub : ∀ c ∈ rest.filterMap (·.cs), c ∈ (v0 :: rest).filterMap (·.cs) := by
        intro c hc
        rw [List.filterMap_cons]
        split
        · exact hc
        · exact List.mem_cons_of_mem _ hc
      have hndr : (rest.filterMap (·.cs)).Nodup := by
        rw [List.filterMap_cons] at hndc
        split at hndc
        · exact hndc
        · exact (List.nodup_cons.mp hndc).2
      rcases hstep s v0 s1 h1 hK (hmem v0 (List.mem_cons_self ..)).1 (hmem v0 (List.mem_cons_self ..)).2 with hsame | ⟨cs, x, hcs, hv0cs, hst, hb, hx⟩
      · exact ih s1 s' N hK1 hmem' hndr (fun c hc => hN c (hsub c hc)) (by rw [hsame]; exact hj) h
      · have hhead : (v0 :: rest).filterMap (·.cs) = cs.id :: rest.filterMap (·.cs) := by
          rw [List.filterMap_cons, hv0cs]
        have hcsN : cs.id ∉ N := hN cs.id (by rw [hhead]; exact List.mem_cons_self ..)
        have hcsrest : cs.id ∉ rest.filterMap (·.cs) := by
          rw [hhead] at hndc; exact (List.nodup_cons.mp hndc).1
        obtain ⟨b1, b2, b3⟩ := hj.1 cs hcs
        refine ih s1 s' (cs.id :: N) hK1 hmem' hndr ?_ ?_ h
        · intro c hc
          simp only [List.mem_cons, not_or]
          exact ⟨fun hcc => hcsrest (hcc ▸ hc), hN c (hsub c hc)⟩
        · rw [hst]
          exact JInv.update N K (proj s) cs x (vkey v0) (hmem v0 (List.mem_cons_self ..)).1 hv0cs hj hcs
            (hb (b3 hcsN) b2) hx

theorem psV2gVehicle_keys (ops : BatOps α B) (env : FEnv α) (curWindow : Option Bool)
    (acc acc' : V2gAcc α B) (v0 : VehicleS α B)
    (hnd : (acc.st.w.vehicles.map (·.id)).Nodup)
    (h : psV2gVehicle ops env curWindow acc v0 = .ok acc') :
    acc'.st.w.vehicles.map vkey = acc.st.w.vehicles.map vkey := by
  unfold psV2gVehicle at h
  simp only [bind, Except.bind, pure, Except.pure] at h
  repeat' split at h
  all_goals first
    | (simp only [Except.ok.injEq] at h; subst h; first | rfl | exact setVehicle_keys _ _ _ hnd)
    | cases h

/-- **per-call bound, repairs FW1/FW2:** one vehicle of `distribute_peak_shaving_v2g` moves its station's
`current_power` up by at most `max (max_power − current_power) 0` (FW1: `clamp_power`) or down by at most
`max_power` (FW2: `min(…, cs.max_power)`) -/
theorem psV2gVehicle_station_step (ops : BatOps α B) (law : BatLaw ops) (env : FEnv α)
    (curWindow : Option Bool) (acc acc' : V2gAcc α B) (v0 : VehicleS α B)
    (h : psV2gVehicle ops env curWindow acc v0 = .ok acc') :
    acc'.st.w.stations = acc.st.w.stations ∨
    ∃ csId cs x, ((acc.st.w.vehicle? v0.id).getD v0).cs = some csId ∧ getStation acc.st.w csId = .ok cs ∧
      acc'.st.w.stations = (acc.st.w.setStation { cs with currentPower := cs.currentPower + x }).stations ∧
      ((0 ≤ x ∧ x ≤ max (cs.maxPower - cs.currentPower) 0) ∨ (x ≤ 0 ∧ -(max cs.maxPower 0) ≤ x)) := by
  unfold psV2gVehicle at h
  simp only [bind, Except.bind, pure, Except.pure] at h
  split at h
  · simp only [Except.ok.injEq] at h; subst h; exact Or.inl rfl
  · split at h
    · cases h
    · rename_i csId hcs
      split at h
      · cases h
      · rename_i cs hst
        split at h
        · cases h
        · split at h
          · cases h
          · split at h
            · simp only [Except.ok.injEq] at h; subst h; exact Or.inl rfl
            · split at h
              · cases h
              · split at h
                · -- window: charge
                  split at h
                  · cases h
                  · split at h
                    · cases h
                    · split at h
                      · cases h
                      · split at h
                        · cases h
                        · rename_i r hl
                          rw [liftM_ok] at hl
                          simp only [Except.ok.injEq] at h
                          subst h
                          obtain ⟨ha0, hap⟩ := law.load_max _ _ _ _ hl
                          exact Or.inr ⟨csId, cs, r.2, hcs, hst, rfl, Or.inl ⟨ha0,
                            le_trans hap (max_le (clampV_le_room _ _ _) (le_max_right _ _))⟩⟩
                · -- no window: discharge
                  split at h
                  · cases h
                  · split at h
                    · cases h
                    · split at h
                      · cases h
                      · split at h
                        · cases h
                        · split at h
                          · cases h
                          · rename_i r hl
                            simp only [Except.ok.injEq] at h
                            subst h
                            have hr : 0 ≤ r.2 ∧ r.2 ≤ max cs.maxPower 0 := by
                              split at hl
                              · rw [liftM_ok] at hl
                                simp only [Except.ok.injEq] at hl
                                subst hl
                                exact ⟨le_refl _, le_max_right _ _⟩
                              · rw [liftM_ok] at hl
                                obtain ⟨hu0, hup⟩ := law.unload_max _ _ _ _ _ hl
                                refine ⟨hu0, le_trans hup (max_le ?_ (le_max_right _ _))⟩
                                simp only [pymin_eq]
                                exact le_trans (min_le_right _ _) (le_max_left _ _)
                            exact Or.inr ⟨csId, cs, -r.2, hcs, hst, by simp only [sub_eq_add_neg]; rfl,
                              Or.inr ⟨by linarith [hr.1], by rw [neg_le_neg_iff]; exact hr.2⟩⟩

/-- from "moves by at most the room up / at most the maximum down" to "stays within ± maximum" -/
theorem room_bounds (cs : StationS α) (x : α)
    (hx : (0 ≤ x ∧ x ≤ max (cs.maxPower - cs.currentPower) 0) ∨ (x ≤ 0 ∧ -(max cs.maxPower 0) ≤ x))
    (h0 : 0 ≤ cs.currentPower) (h1 : cs.currentPower ≤ cs.maxPower) :
    -cs.maxPower ≤ cs.currentPower + x ∧ cs.currentPower + x ≤ cs.maxPower := by
  have hm : max (cs.maxPower - cs.currentPower) 0 = cs.maxPower - cs.currentPower := max_eq_left (by linarith)
  have hm2 : max cs.maxPower 0 = cs.maxPower := max_eq_left (by linarith)
  rw [hm, hm2] at hx
  rcases hx with ⟨a, b⟩ | ⟨a, b⟩
  · exact ⟨by linarith, by linarith⟩
  · exact ⟨by linarith, by linarith⟩

theorem psV2gVehicle_hstep (ops : BatOps α B) (law : BatLaw ops) (env : FEnv α) (curWindow : Option Bool)
    (K : List (String × Option String × Bool)) (hnd : (K.map (·.1)).Nodup)
    (acc : V2gAcc α B) (v0 : VehicleS α B) (acc' : V2gAcc α B)
    (h : psV2gVehicle ops env curWindow acc v0 = .ok acc')
    (hK : acc.st.w.vehicles.map vkey = K) (hv0 : vkey v0 ∈ K) (hv2g : v0.v2g = true) :
    acc'.st.w.stations = acc.st.w.stations ∨
    ∃ cs x, cs ∈ acc.st.w.stations ∧ v0.cs = some cs.id ∧
      acc'.st.w.stations = (acc.st.w.setStation { cs with currentPower := cs.currentPower + x }).stations ∧
      (0 ≤ cs.currentPower → cs.currentPower ≤ cs.maxPower →
        -cs.maxPower ≤ cs.currentPower + x ∧ cs.currentPower + x ≤ cs.maxPower) ∧
      (0 ≤ x ∨ v0.v2g = true) := by
  rcases psV2gVehicle_station_step ops law env curWindow acc acc' v0 h with hs | ⟨csId, cs, x, hcs, hst, hs, hx⟩
  · exact Or.inl hs
  · right
    have hkey := lookup_key acc.st.w K hK hnd v0 hv0
    have hcs' : v0.cs = some cs.id := by
      have : ((acc.st.w.vehicle? v0.id).getD v0).cs = v0.cs := by
        have := congrArg (fun k => k.2.1) hkey
        simpa [vkey] using this
      rw [← this, getStation_id _ _ _ hst]; exact hcs
    exact ⟨cs, x, getStation_mem _ _ _ hst, hcs', hs, fun h0 h1 => room_bounds cs x hx h0 h1, Or.inr hv2g⟩

/-- what `Strategy.distribute_surplus_power` does to the station of one vehicle -/
theorem surplusVehicle_station_step (ops : BatOps α B) (law : BatLaw ops) (env : StratEnv α)
    (cheap : List (String × Bool)) (w w' : SWorld α B) (cmds cmds' : List (String × α)) (v : VehicleS α B)
    (h : surplusVehicle ops env cheap w cmds v = .ok (w', cmds')) :
    (w'.stations = w.stations ∧ w'.vehicles = w.vehicles) ∨
    ∃ csId cs x bat', v.cs = some csId ∧ w.station? csId = some cs ∧
      w'.stations = (w.setStation { cs with currentPower := cs.currentPower + x }).stations ∧
      w'.vehicles = (w.setVehicle { v with bat := bat' }).vehicles ∧
      ((0 ≤ x ∧ x ≤ max (cs.maxPower - cs.currentPower) 0) ∨ (x ≤ 0 ∧ -(max cs.maxPower 0) ≤ x ∧ v.v2g = true)) := by
  unfold surplusVehicle at h
  split at h
  · simp only [Except.ok.injEq, Prod.mk.injEq] at h; obtain ⟨rfl, _⟩ := h; exact Or.inl ⟨rfl, rfl⟩
  · rename_i csId hcs
    split at h
    · cases h
    · rename_i cs hst
      split at h
      · cases h
      · simp only at h
        split at h
        · simp only [bind, Except.bind] at h
          split at h
          · cases h
          · rename_i r hl
            simp only [Except.ok.injEq, Prod.mk.injEq] at h
            obtain ⟨rfl, _⟩ := h
            obtain ⟨ha0, hap⟩ := law.load_max _ _ _ _ hl
            refine Or.inr ⟨csId, cs, r.2, r.1, hcs, hst, rfl, rfl, Or.inl ⟨ha0, le_trans hap (max_le ?_ (le_max_right _ _))⟩⟩
            exact clampV_le_room (B := B) _ cs v
        · split at h
          · rename_i hcond
            simp only [bind, Except.bind] at h
            split at h
            · cases h
            · rename_i r hl
              simp only [Except.ok.injEq, Prod.mk.injEq] at h
              obtain ⟨rfl, _⟩ := h
              obtain ⟨ha0, hap⟩ := law.unload_max _ _ _ _ _ hl
              refine Or.inr ⟨csId, cs, -r.2, r.1, hcs, hst, by simp only [sub_eq_add_neg]; rfl, rfl,
                Or.inr ⟨by linarith, ?_, hcond.2.2.1⟩⟩
              rw [neg_le_neg_iff]
              refine le_trans hap (max_le ?_ (le_max_right _ _))
              simp only [pymin_eq]
              exact le_trans (min_le_right _ _) (le_max_left _ _)
          · simp only [Except.ok.injEq, Prod.mk.injEq] at h; obtain ⟨rfl, _⟩ := h; exact Or.inl ⟨rfl, rfl⟩

theorem setVehicle_keys' (w : SWorld α B) (v0 v : VehicleS α B) (b : B) (hf : w.vehicle? v0.id = some v)
    (hnd : (w.vehicles.map (·.id)).Nodup) :
    (w.setVehicle { v with bat := b }).vehicles.map vkey = w.vehicles.map vkey := by
  have := setVehicle_keys w v0 b hnd
  rw [hf] at this
  simpa using this

/-- the surplus pass of the base class (used by greedy / needy) keeps the station invariants -/
theorem distributeSurplus_jinv (ops : BatOps α B) (law : BatLaw ops) (env : StratEnv α)
    (K : List (String × Option String × Bool)) (hnd : (K.map (·.1)).Nodup)
    (w w' : SWorld α B) (cmds : List (String × α)) (N : List String)
    (hK : w.vehicles.map vkey = K) (hcsd : (w.vehicles.filterMap (·.cs)).Nodup)
    (hN : ∀ c ∈ w.vehicles.filterMap (·.cs), c ∉ N)
    (hj : JInv N K w.stations) (h : distributeSurplus ops env w = .ok (w', cmds)) :
    w'.vehicles.map vkey = K ∧ ∃ N', JInv N' K w'.stations := by
  unfold distributeSurplus at h
  simp only [bind, Except.bind] at h
  split at h
  · cases h
  · rename_i cheap _
    refine visitFold (fun (a : SWorld α B × List (String × α)) => a.1) _ K (fun _ => True) ?_ ?_
      w.vehicles (w, []) (w', cmds) N hK (fun v0 hv0 => ⟨by rw [← hK]; exact List.mem_map_of_mem hv0, trivial⟩)
      hcsd hN hj h
    · intro s v0 s' hf hKs
      split at hf
      · simp only [Except.ok.injEq] at hf; subst hf; exact hKs
      · rename_i v hv
        rcases surplusVehicle_station_step ops law env cheap s.1 s'.1 s.2 s'.2 v hf with ⟨_, hveh⟩ | ⟨_, _, _, b', _, _, _, hveh, _⟩
        · rw [hveh]; exact hKs
        · rw [hveh, ← hKs]
          exact setVehicle_keys' s.1 v0 v b' hv (ids_of_keys s.1 K hKs hnd)
    · intro s v0 s' hf hKs hv0 _
      split at hf
      · simp only [Except.ok.injEq] at hf; subst hf; exact Or.inl rfl
      · rename_i v hv
        have hkey := lookup_key s.1 K hKs hnd v0 hv0
        rw [hv] at hkey
        simp only [Option.getD_some] at hkey
        rcases surplusVehicle_station_step ops law env cheap s.1 s'.1 s.2 s'.2 v hf with ⟨hst, _⟩ | ⟨csId, cs, x, _, hcs, hst, hs, _, hx⟩
        · exact Or.inl hst
        · right
          obtain ⟨hmem, hid⟩ := station?_some s.1 csId cs hst
          have hv0cs : v0.cs = some cs.id := by
            have : v.cs = v0.cs := by
              have := congrArg (fun k => k.2.1) hkey
              simpa [vkey] using this
            rw [← this, hid]; exact hcs
          have hv2 : v.v2g = v0.v2g := by
            have := congrArg (fun k => k.2.2) hkey
            simpa [vkey] using this
          refine ⟨cs, x, hmem, hv0cs, hs, fun h0 h1 => ?_, ?_⟩
          · refine room_bounds cs x ?_ h0 h1
            rcases hx with hx | ⟨a, b, _⟩
            · exact Or.inl hx
            · exact Or.inr ⟨a, b⟩
          · rcases hx with hx | ⟨_, _, c⟩
            · exact Or.inl hx.1
            · exact Or.inr (hv2 ▸ c)

/-- the sorted, filtered vehicle list: members, and their stations -/
theorem sortedSub (ops : BatOps α B) (strat : LoadStrat) (l vs : List (VehicleS α B))
    (p : VehicleS α B → Bool) (h : sortedVehicles ops strat (l.filter p) = .ok vs) :
    (∀ v0 ∈ vs, v0 ∈ l ∧ p v0 = true) ∧ ((l.filterMap (·.cs)).Nodup → (vs.filterMap (·.cs)).Nodup) ∧
      (∀ c ∈ vs.filterMap (·.cs), c ∈ l.filterMap (·.cs)) := by
  have hvs := sortedVehicles_ok ops strat _ vs h
  have hperm : vs.Perm (l.filter p) := by rw [hvs]; exact List.mergeSort_perm _ _
  have hsubl : (vs.filterMap (·.cs)).Perm ((l.filter p).filterMap (·.cs)) := hperm.filterMap _
  have hsl : ((l.filter p).filterMap (·.cs)).Sublist (l.filterMap (·.cs)) :=
    List.Sublist.filterMap _ List.filter_sublist
  refine ⟨?_, ?_, ?_⟩
  · intro v0 hv0
    have := hperm.mem_iff.mp hv0
    exact List.mem_filter.mp this
  · intro hnd
    rw [hsubl.nodup_iff]
    exact List.Nodup.sublist hsl hnd
  · intro c hc
    exact hsl.subset (hsubl.mem_iff.mp hc)

theorem distributePeakShavingV2g_jinv (ops : BatOps α B) (law : BatLaw ops) (env : FEnv α)
    (K : List (String × Option String × Bool)) (hnd : (K.map (·.1)).Nodup)
    (st st' : FState α B) (cmds : List (String × α)) (N : List String)
    (hK : st.w.vehicles.map vkey = K) (hcsd : (st.w.vehicles.filterMap (·.cs)).Nodup)
    (hN : ∀ c ∈ st.w.vehicles.filterMap (·.cs), c ∉ N)
    (hj : JInv N K st.w.stations) (h : distributePeakShavingV2g ops env st = .ok (st', cmds)) :
    st'.w.vehicles.map vkey = K ∧ ∃ N', JInv N' K st'.w.stations := by
  unfold distributePeakShavingV2g at h
  simp only [bind, Except.bind] at h
  split at h
  · cases h
  · rename_i vs hvs
    obtain ⟨hm, hndv, hsubc⟩ := sortedSub ops _ _ vs _ hvs
    split at h
    · cases h
    · split at h
      · cases h
      · rename_i r hr
        simp only [Except.ok.injEq, Prod.mk.injEq] at h
        obtain ⟨rfl, _⟩ := h
        exact visitFold (fun (a : V2gAcc α B) => a.st.w) (psV2gVehicle ops env _) K (fun v => v.v2g = true)
          (fun s v0 s' hf hKs => by
            rw [psV2gVehicle_keys ops env _ s s' v0 (ids_of_keys s.st.w K hKs hnd) hf]; exact hKs)
          (fun s v0 s' hf hKs hv0 hv2 => psV2gVehicle_hstep ops law env _ K hnd s v0 s' hf hKs hv0 hv2)
          vs _ r N hK
          (fun v0 hv0 => ⟨by rw [← hK]; exact List.mem_map_of_mem (hm v0 hv0).1, by
            have := (hm v0 hv0).2
            simp only [Bool.and_eq_true] at this; exact this.2⟩)
          (hndv hcsd) (fun c hc => hN c (hsubc c hc)) hj hr

theorem mem_sdSet' {β : Type} (l : List (String × β)) (k : String) (v : β) (kv : String × β)
    (h : kv ∈ sdSet l k v) : kv ∈ l ∨ kv = (k, v) := by
  induction l with
  | nil => simp [sdSet] at h; right; exact h
  | cons x xs ih =>
    obtain ⟨xk, xv⟩ := x
    by_cases hk : (xk == k) = true
    · simp only [sdSet, hk, if_true, List.mem_cons] at h
      rcases h with h | h
      · right; rw [h]; simp at hk; rw [hk]
      · left; exact List.mem_cons_of_mem _ h
    · simp only [sdSet, hk, Bool.false_eq_true, if_false, List.mem_cons] at h
      rcases h with h | h
      · left; rw [h]; exact List.mem_cons_self ..
      · rcases ih h with h' | h'
        · left; exact List.mem_cons_of_mem _ h'
        · right; exact h'

theorem sdSet_nodup {β : Type} (l : List (String × β)) (k : String) (v : β)
    (hnd : (l.map (·.1)).Nodup) : ((sdSet l k v).map (·.1)).Nodup := by
  induction l with
  | nil => simp [sdSet]
  | cons x xs ih =>
    obtain ⟨xk, xv⟩ := x
    simp only [List.map_cons, List.nodup_cons] at hnd
    by_cases hk : (xk == k) = true
    · simp only [sdSet, hk, if_true, List.map_cons, List.nodup_cons]; exact hnd
    · simp only [sdSet, hk, Bool.false_eq_true, if_false, List.map_cons, List.nodup_cons]
      refine ⟨?_, ih hnd.2⟩
      intro hin
      simp only [List.mem_map] at hin
      obtain ⟨kv, hkv, hkv1⟩ := hin
      rcases mem_sdSet' xs k v kv hkv with h' | h'
      · exact hnd.1 (by rw [← hkv1]; exact List.mem_map_of_mem h')
      · rw [h'] at hkv1; simp only at hkv1; rw [hkv1] at hk; simp at hk

theorem station?_setStation_ne (w : SWorld α B) (s' : StationS α) (k : String) (hne : k ≠ s'.id) :
    (w.setStation s').station? k = w.station? k := by
  unfold SWorld.setStation SWorld.station?
  simp only
  induction w.stations with
  | nil => rfl
  | cons x xs ih =>
    simp only [List.map_cons, List.find?_cons]
    by_cases hx : (x.id == s'.id) = true
    · have hxk : (x.id == k) = false := by
        simp only [beq_iff_eq] at hx
        simp only [beq_eq_false_iff_ne]; rw [hx]; exact Ne.symm hne
      have hsk : (s'.id == k) = false := by simp only [beq_eq_false_iff_ne]; exact Ne.symm hne
      simp only [hx, if_true, hsk, hxk]
      exact ih
    · simp only [hx, Bool.false_eq_true, if_false]
      split
      · rfl
      · exact ih

/-- **per-call bound of `distribute_power`:** every command is the charge of a connected vehicle at that
station, non-negative and within the station's room; one entry per station -/
theorem distributePower_entries (ops : BatOps α B) (law : BatLaw ops) (env : FEnv α)
    (w : SWorld α B) (vs vs' : List (VehicleS α B)) (P N : α) (cmds : List (String × α))
    (h : distributePower ops env w vs P N = .ok (vs', cmds)) :
    (cmds.map (·.1)).Nodup ∧ ∀ kv ∈ cmds, ∃ cs0 v, v ∈ vs ∧ v.cs = some kv.1 ∧ getStation w kv.1 = .ok cs0 ∧
      0 ≤ kv.2 ∧ kv.2 ≤ max (cs0.maxPower - cs0.currentPower) 0 := by
  unfold distributePower at h
  split at h
  · simp only [Except.ok.injEq, Prod.mk.injEq] at h
    obtain ⟨_, rfl⟩ := h
    exact ⟨by simp, by simp⟩
  · simp only [bind, Except.bind] at h
    split at h
    · cases h
    · rename_i r hr
      simp only [Except.ok.injEq, Prod.mk.injEq] at h
      obtain ⟨_, rfl⟩ := h
      refine foldlM_inv_mem _ (fun (a : List (VehicleS α B) × List (String × α) × α) =>
        (a.2.1.map (·.1)).Nodup ∧ ∀ kv ∈ a.2.1, ∃ cs0 v, v ∈ vs ∧ v.cs = some kv.1 ∧ getStation w kv.1 = .ok cs0 ∧
          0 ≤ kv.2 ∧ kv.2 ≤ max (cs0.maxPower - cs0.currentPower) 0) vs ?_ ([], [], P) r ⟨by simp, by simp⟩ hr
      intro s x s' hx hp hs
      obtain ⟨hnd, hent⟩ := hp
      split at hs
      · cases hs
      · rename_i csId hcs
        split at hs
        · cases hs
        · rename_i cs hst
          split at hs
          · cases hs
          · skip
            split at hs
            · cases hs
            · rename_i rl hl
              rw [liftM_ok] at hl
              simp only [Except.ok.injEq] at hs
              subst hs
              obtain ⟨ha0, hap⟩ := law.load_max _ _ _ _ hl
              refine ⟨sdSet_nodup _ _ _ hnd, ?_⟩
              intro kv hkv
              rcases mem_sdSet' _ _ _ kv hkv with h1 | h1
              · exact hent kv h1
              · rw [h1]
                exact ⟨cs, x, hx, hcs, hst, ha0, le_trans hap (max_le (clampV_le_room _ _ _) (le_max_right _ _))⟩

theorem getStation_congr (w w0 : SWorld α B) (k : String) (h : w.station? k = w0.station? k) :
    getStation w k = getStation w0 k := by
  unfold getStation; rw [h]

/-- the loop `for cs_id, power in commands.items()` of `distribute_peak_shaving_vehicles` -/
theorem applyFold {ε : Type}
    (f : FState α B × List (String × α) → String × α → Except ε (FState α B × List (String × α)))
    (hspec : ∀ a kv a', f a kv = .ok a' → ∃ cs, getStation a.1.w kv.1 = .ok cs ∧
      a'.1.w.stations = (a.1.w.setStation { cs with currentPower := cs.currentPower + kv.2 }).stations ∧
      a'.1.w.vehicles = a.1.w.vehicles)
    (w0 : SWorld α B) (N : List String) (K : List (String × Option String × Bool)) :
    ∀ (l : List (String × α)) (a a' : FState α B × List (String × α)), (l.map (·.1)).Nodup →
      (∀ kv ∈ l, a.1.w.station? kv.1 = w0.station? kv.1) →
      (∀ kv ∈ l, ∃ cs0 k, getStation w0 kv.1 = .ok cs0 ∧ 0 ≤ kv.2 ∧
        kv.2 ≤ max (cs0.maxPower - cs0.currentPower) 0 ∧ k ∈ K ∧ k.2.1 = some kv.1) →
      JInv N K a.1.w.stations → l.foldlM f a = .ok a' →
      JInv N K a'.1.w.stations ∧ a'.1.w.vehicles = a.1.w.vehicles := by
  intro l
  induction l with
  | nil =>
    intro a a' _ _ _ hj h
    simp only [List.foldlM_nil, pure, Except.pure, Except.ok.injEq] at h
    subst h; exact ⟨hj, rfl⟩
  | cons kv rest ih =>
    intro a a' hnd hsame hent hj h
    simp only [List.foldlM_cons, bind, Except.bind] at h
    split at h
    · cases h
    · rename_i a1 h1
      obtain ⟨cs, hgs, hst, hveh⟩ := hspec a kv a1 h1
      obtain ⟨cs0, k, hgs0, hx0, hx, hk, hkc⟩ := hent kv (List.mem_cons_self ..)
      have : cs = cs0 := by
        rw [getStation_congr _ w0 _ (hsame kv (List.mem_cons_self ..)), hgs0] at hgs
        simp only [Except.ok.injEq] at hgs; exact hgs.symm
      subst this
      have hid := getStation_id _ _ _ hgs
      simp only [List.map_cons, List.nodup_cons] at hnd
      have hj1 : JInv N K a1.1.w.stations := by
        rw [hst]
        exact JInv.charge N K a.1.w cs kv.2 k hk (by rw [hid]; exact hkc) hj (getStation_mem _ _ _ hgs) hx0 hx
      have hsame1 : ∀ kv' ∈ rest, a1.1.w.station? kv'.1 = w0.station? kv'.1 := by
        intro kv' hkv'
        rw [← hsame kv' (List.mem_cons_of_mem _ hkv')]
        have hne : kv'.1 ≠ cs.id := by
          rw [hid]; intro he
          exact hnd.1 (by rw [← he]; exact List.mem_map_of_mem hkv')
        have : a1.1.w.station? kv'.1 = (a.1.w.setStation { cs with currentPower := cs.currentPower + kv.2 }).station? kv'.1 := by
          unfold SWorld.station?; rw [hst]
        rw [this]
        exact station?_setStation_ne _ _ _ hne
      obtain ⟨hj', hv'⟩ := ih a1 a' hnd.2 hsame1 (fun kv' hkv' => hent kv' (List.mem_cons_of_mem _ hkv')) hj1 h
      exact ⟨hj', by rw [hv', hveh]⟩

/-- the vehicles returned by `distribute_power` are the given ones with new batteries -/
theorem distributePower_vehicles (ops : BatOps α B) (env : FEnv α)
    (w : SWorld α B) (vs vs' : List (VehicleS α B)) (P N : α) (cmds : List (String × α))
    (h : distributePower ops env w vs P N = .ok (vs', cmds)) :
    ∀ u ∈ vs', ∃ v ∈ vs, vkey u = vkey v := by
  unfold distributePower at h
  split at h
  · simp only [Except.ok.injEq, Prod.mk.injEq] at h
    obtain ⟨rfl, _⟩ := h
    exact fun u hu => ⟨u, hu, rfl⟩
  · simp only [bind, Except.bind] at h
    split at h
    · cases h
    · rename_i r hr
      simp only [Except.ok.injEq, Prod.mk.injEq] at h
      obtain ⟨rfl, _⟩ := h
      refine foldlM_inv_mem _ (fun (a : List (VehicleS α B) × List (String × α) × α) =>
        ∀ u ∈ a.1, ∃ v ∈ vs, vkey u = vkey v) vs ?_ ([], [], P) r (by simp) hr
      intro s x s' hx hp hs
      repeat' split at hs
      all_goals first
        | (simp only [Except.ok.injEq] at hs; subst hs
           intro u hu
           simp only [List.mem_append, List.mem_singleton] at hu
           rcases hu with hu | hu
           · exact hp u hu
           · exact ⟨x, hx, by rw [hu]; rfl⟩)
        | cases hs

theorem mergeById_keys (sim upd : List (VehicleS α B)) (hnd : (sim.map (·.id)).Nodup)
    (hupd : ∀ u ∈ upd, ∃ v ∈ sim, vkey u = vkey v) : (mergeById sim upd).map vkey = sim.map vkey := by
  unfold mergeById
  rw [List.map_map]
  apply List.map_congr_left
  intro x hx
  simp only [Function.comp]
  cases hf : upd.find? (·.id == x.id) with
  | none => rfl
  | some u =>
    simp only [Option.getD_some]
    have hu : u ∈ upd := List.mem_of_find?_eq_some hf
    have hid : u.id = x.id := by simpa using List.find?_some hf
    obtain ⟨v, hv, hkey⟩ := hupd u hu
    have hvid : v.id = x.id := by
      have := congrArg (fun k => k.1) hkey
      simp only [vkey] at this
      rw [← this]; exact hid
    have : v = x := eq_of_id_eq sim hnd v x hv hx hvid
    rw [hkey, this]

theorem distributePeakShavingVehicles_jinv (ops : BatOps α B) (law : BatLaw ops) (env : FEnv α)
    (K : List (String × Option String × Bool)) (hnd : (K.map (·.1)).Nodup)
    (st st' : FState α B) (cmds : List (String × α)) (N : List String)
    (hK : st.w.vehicles.map vkey = K)
    (hj : JInv N K st.w.stations) (h : distributePeakShavingVehicles ops env st = .ok (st', cmds)) :
    st'.w.vehicles.map vkey = K ∧ JInv N K st'.w.stations := by
  unfold distributePeakShavingVehicles at h
  simp only [bind, Except.bind] at h
  split at h
  · cases h
  · split at h
    · cases h
    · rename_i vehicles hvs
      obtain ⟨hm, _, _⟩ := sortedSub ops _ _ vehicles _ hvs
      split at h
      · cases h
      · split at h
        · cases h
        · split at h
          · cases h
          · rename_i dp hdp
            obtain ⟨vs', dcm⟩ := dp
            have hfacts : ((dcm.map (·.1)).Nodup ∧ ∀ kv ∈ dcm, ∃ cs0 v, v ∈ vehicles ∧ v.cs = some kv.1 ∧
                getStation st.w kv.1 = .ok cs0 ∧ 0 ≤ kv.2 ∧ kv.2 ≤ max (cs0.maxPower - cs0.currentPower) 0) ∧
                ∀ u ∈ vs', ∃ v ∈ vehicles, vkey u = vkey v := by
              split at hdp
              · split at hdp
                · cases hdp
                · exact ⟨distributePower_entries ops law env _ _ _ _ _ _ hdp,
                    distributePower_vehicles ops env _ _ _ _ _ _ hdp⟩
              · split at hdp
                · exact ⟨distributePower_entries ops law env _ _ _ _ _ _ hdp,
                    distributePower_vehicles ops env _ _ _ _ _ _ hdp⟩
                · simp only [Except.ok.injEq, Prod.mk.injEq] at hdp
                  obtain ⟨rfl, rfl⟩ := hdp
                  exact ⟨⟨by simp, by simp⟩, fun u hu => ⟨u, hu, rfl⟩⟩
            obtain ⟨⟨hndk, hent⟩, hvs'⟩ := hfacts
            simp only at h
            have hids := ids_of_keys st.w K hK hnd
            have hkeys0 : (mergeById st.w.vehicles vs').map vkey = K := by
              rw [mergeById_keys st.w.vehicles vs' hids
                (fun u hu => by obtain ⟨v, hv, e⟩ := hvs' u hu; exact ⟨v, (hm v hv).1, e⟩)]
              exact hK
            have res := applyFold _ ?_ st.w N K dcm _ (st', cmds) hndk (fun kv _ => rfl) ?_ hj h
            · obtain ⟨hj', hv'⟩ := res
              exact ⟨by rw [hv']; exact hkeys0, hj'⟩
            · intro a kv a' ha
              split at ha
              · cases ha
              · rename_i cs hgs
                split at ha
                · cases ha
                · split at ha
                  · cases ha
                  · rename_i hass
                    simp only [Except.ok.injEq] at ha
                    subst ha
                    simp only [Bool.not_eq_true', Bool.not_eq_false, Bool.and_eq_true, decide_eq_true_eq] at hass
                    have hval := le_antisymm hass.1 hass.2
                    refine ⟨cs, hgs, ?_, rfl⟩
                    simp only [hval]
                    rfl
            · intro kv hkv
              obtain ⟨cs0, v, hv, hvc, hgs, h0, h1⟩ := hent kv hkv
              exact ⟨cs0, vkey v, hgs, h0, h1, by rw [← hK]; exact List.mem_map_of_mem (hm v hv).1, hvc⟩

theorem distributePeakShavingBatteries_stations (ops : BatOps α B) (env : FEnv α) (st st' : FState α B)
    (h : distributePeakShavingBatteries ops env st = .ok st') : st'.w.stations = st.w.stations := by
  unfold distributePeakShavingBatteries at h
  simp only [bind, Except.bind] at h
  split at h
  · cases h
  · split at h
    · split at h
      · cases h
      · split at h
        · cases h
        · cases h
        · split at h
          · cases h
          · rename_i r hr
            simp only [Except.ok.injEq] at h
            subst h
            refine foldlM_inv _ (fun (a : FState α B × α) => a.1.w.stations = st.w.stations) ?_ st.w.batteries _ r rfl hr
            intro s x s' hp hs
            repeat' split at hs
            all_goals first
              | (simp only [Except.ok.injEq] at hs; subst hs; exact hp)
              | cases hs
    · split at h
      · cases h
      · split at h
        · cases h
        · cases h
        · refine foldlM_inv _ (fun (a : FState α B) => a.w.stations = st.w.stations) ?_ st.w.batteries st st' rfl h
          intro s x s' hp hs
          repeat' split at hs
          all_goals first
            | (simp only [Except.ok.injEq] at hs; subst hs; exact hp)
            | cases hs

/-- **whole step, LOAD_STRAT ≠ balanced (code with FW1/FW2):** the station invariants hold afterwards -/
theorem step_ps_jinv (ops : BatOps α B) (law : BatLaw ops) (env : FEnv α)
    (hstrat : env.strat ≠ .balanced)
    (w w' : SWorld α B) (window win' : Option Bool) (events : List (FEvent α))
    (cmds : List (String × α)) (hmax : ∀ s ∈ w.stations, 0 ≤ s.maxPower)
    (hvid : (w.vehicles.map (·.id)).Nodup) (hcsd : (w.vehicles.filterMap (·.cs)).Nodup)
    (h : step ops env w window events = .ok (w', win', cmds)) :
    ∃ N', JInv N' (w.vehicles.map vkey) w'.stations := by
  set K := w.vehicles.map vkey with hKdef
  have hnd : (K.map (·.1)).Nodup := by
    rw [hKdef, List.map_map]; exact hvid
  have hfm : ∀ l : List (VehicleS α B), l.map vkey = K → l.filterMap (·.cs) = w.vehicles.filterMap (·.cs) := by
    intro l hl
    have e1 : ∀ l : List (VehicleS α B), l.filterMap (·.cs) = (l.map vkey).filterMap (·.2.1) := by
      intro l; rw [List.filterMap_map]; rfl
    rw [e1, e1, hl]
  unfold step at h
  simp only [bind, Except.bind] at h
  split at h
  · cases h
  · split at h
    · cases h
    · split at h
      · cases h
      · rename_i t0 rest
        have hne : (env.strat == LoadStrat.balanced) = false := by simpa using hstrat
        simp only [hne, Bool.false_eq_true, if_false] at h
        have hj0 : JInv [] K (resetStations w).stations := by
          constructor
          · intro s hs
            unfold resetStations at hs
            simp only [List.mem_map] at hs
            obtain ⟨s0, hs0, rfl⟩ := hs
            have := hmax s0 hs0
            exact ⟨by simp only; linarith, by simpa using this, fun _ => le_refl _⟩
          · intro s hs
            unfold resetStations at hs
            simp only [List.mem_map] at hs
            obtain ⟨s0, _, rfl⟩ := hs
            exact ⟨Or.inl rfl, Or.inl (le_refl _)⟩
        split at h
        · cases h
        · rename_i r1 h1
          obtain ⟨st1, c1⟩ := r1
          obtain ⟨hk1, hj1⟩ := distributePeakShavingVehicles_jinv ops law env K hnd _ st1 c1 [] rfl hj0 h1
          simp only at h
          split at h
          · cases h
          · split at h
            · cases h
            · rename_i r2 h2
              obtain ⟨st2, c2, lv⟩ := r2
              have hj2 : ∃ N', JInv N' K st2.w.stations := by
                split at h2
                · split at h2
                  · cases h2
                  · rename_i r hs
                    rw [liftPy_ok] at hs
                    simp only [pure, Except.pure, Except.ok.injEq, Prod.mk.injEq] at h2
                    obtain ⟨rfl, _, _⟩ := h2
                    exact (distributeSurplus_jinv ops law env.base K hnd st1.w r.1 r.2 [] hk1
                      (by rw [hfm _ hk1]; exact hcsd) (fun c _ => List.not_mem_nil) hj1 hs).2
                · split at h2
                  · cases h2
                  · rename_i r hs
                    simp only [pure, Except.pure, Except.ok.injEq, Prod.mk.injEq] at h2
                    obtain ⟨rfl, _, _⟩ := h2
                    exact (distributePeakShavingV2g_jinv ops law env K hnd st1 r.1 r.2 [] hk1
                      (by rw [hfm _ hk1]; exact hcsd) (fun c _ => List.not_mem_nil) hj1 hs).2
              simp only at h
              split at h
              · cases h
              · split at h
                · cases h
                · rename_i st3 h3
                  simp only [Except.ok.injEq, Prod.mk.injEq] at h
                  obtain ⟨rfl, _, _⟩ := h
                  have hst3 : st3.w.stations = st2.w.stations := by
                    split at h3
                    · split at h3
                      · cases h3
                      · rename_i w3 hs
                        simp only [pure, Except.pure, Except.ok.injEq] at h3
                        subst h3
                        exact surplusToBatteries_stations ops env _ _ hs
                    · exact distributePeakShavingBatteries_stations ops env _ _ h3
                  rw [hst3]; exact hj2
/-! ### bookkeeping, LOAD_STRAT greedy / needy -/

/-- `FInv` only looks at connectors, stations and batteries -/
theorem FInv.congr (BK : List String) (w1 w2 : SWorld α B) (hg : w2.gcs = w1.gcs) (hs : w2.stations = w1.stations)
    (hb : w2.batteries = w1.batteries) (h : FInv BK w1) : FInv BK w2 := by
  obtain ⟨⟨g, hg1⟩, he, h3, h4⟩ := h
  refine ⟨⟨g, by rw [hg]; exact hg1⟩, ?_, by rw [hs]; exact h3, by rw [hb]; exact h4⟩
  intro g' hg' s hsm
  rw [hg] at hg'; rw [hs] at hsm
  exact he g' hg' s hsm

theorem psV2gVehicle_finv (ops : BatOps α B) (env : FEnv α) (BK : List String) (curWindow : Option Bool)
    (acc acc' : V2gAcc α B) (v0 : VehicleS α B)
    (hinv : FInv BK acc.st.w) (h : psV2gVehicle ops env curWindow acc v0 = .ok acc') :
    FInv BK acc'.st.w := by
  obtain ⟨g, hg⟩ := hinv.1
  unfold psV2gVehicle at h
  simp only [bind, Except.bind, pure, Except.pure] at h
  split at h
  · simp only [Except.ok.injEq] at h; subst h; exact hinv
  · split at h
    · cases h
    · split at h
      · cases h
      · rename_i cs hst
        split at h
        · cases h
        · split at h
          · cases h
          · split at h
            · simp only [Except.ok.injEq] at h; subst h; exact hinv
            · rw [theGc_single _ g hg] at h
              simp only at h
              split at h
              · repeat' split at h
                all_goals first
                  | (simp only [Except.ok.injEq] at h; subst h
                     exact FInv.vehicleUpdate BK acc.st.w g hg _ cs _ _ hinv hst)
                  | cases h
              · split at h
                · cases h
                · split at h
                  · cases h
                  · split at h
                    · cases h
                    · split at h
                      · cases h
                      · split at h
                        · cases h
                        · rename_i r _
                          simp only [Except.ok.injEq] at h
                          subst h
                          have := FInv.vehicleUpdate BK acc.st.w g hg _ cs (-r.2)
                            { ((acc.st.w.vehicle? v0.id).getD v0) with bat := r.1 } hinv hst
                          simpa [sub_eq_add_neg] using this

theorem surplusVehicle_finv (ops : BatOps α B) (env : StratEnv α) (BK : List String)
    (cheap : List (String × Bool)) (w w' : SWorld α B) (cmds cmds' : List (String × α)) (v : VehicleS α B)
    (hinv : FInv BK w) (h : surplusVehicle ops env cheap w cmds v = .ok (w', cmds')) : FInv BK w' := by
  obtain ⟨g, hg⟩ := hinv.1
  unfold surplusVehicle at h
  split at h
  · simp only [Except.ok.injEq, Prod.mk.injEq] at h; obtain ⟨rfl, _⟩ := h; exact hinv
  · rename_i csId _
    split at h
    · cases h
    · rename_i cs hst
      have hgs : getStation w csId = .ok cs := by unfold getStation; rw [hst]
      split at h
      · cases h
      · rename_i gc hgc
        have : gc = g := gc?_single _ g gc _ hg hgc
        subst this
        simp only at h
        split at h
        · simp only [bind, Except.bind] at h
          split at h
          · cases h
          · simp only [Except.ok.injEq, Prod.mk.injEq] at h
            obtain ⟨rfl, _⟩ := h
            exact FInv.vehicleUpdate BK w gc hg _ cs _ _ hinv hgs
        · split at h
          · simp only [bind, Except.bind] at h
            split at h
            · cases h
            · rename_i r _
              simp only [Except.ok.injEq, Prod.mk.injEq] at h
              obtain ⟨rfl, _⟩ := h
              have := FInv.vehicleUpdate BK w gc hg csId cs (-r.2) { v with bat := r.1 } hinv hgs
              simpa [sub_eq_add_neg] using this
          · simp only [Except.ok.injEq, Prod.mk.injEq] at h; obtain ⟨rfl, _⟩ := h; exact hinv

theorem distributeSurplus_finv (ops : BatOps α B) (env : StratEnv α) (BK : List String)
    (w w' : SWorld α B) (cmds : List (String × α))
    (hinv : FInv BK w) (h : distributeSurplus ops env w = .ok (w', cmds)) : FInv BK w' := by
  unfold distributeSurplus at h
  simp only [bind, Except.bind] at h
  split at h
  · cases h
  · refine foldlM_inv _ (fun (a : SWorld α B × List (String × α)) => FInv BK a.1) ?_ w.vehicles (w, [])
      (w', cmds) hinv h
    intro s x s' hp hs
    split at hs
    · simp only [Except.ok.injEq] at hs; subst hs; exact hp
    · exact surplusVehicle_finv ops env BK _ s.1 s'.1 s.2 s'.2 _ hp hs

/-- station update without a vehicle update (the command loop of `distribute_peak_shaving_vehicles`) -/
theorem FInv.stationUpdate (BK : List String) (w : SWorld α B) (g : GcS α) (hg : w.gcs = [g])
    (csId : String) (cs : StationS α) (x : α) (hinv : FInv BK w) (hst : getStation w csId = .ok cs) :
    FInv BK ((w.setGc (g.addLoad csId x).1).setStation { cs with currentPower := cs.currentPower + x }) := by
  have hid := getStation_id _ _ _ hst
  subst hid
  have hcs := getStation_mem _ _ _ hst
  obtain ⟨_, he, hs, hb⟩ := hinv
  have hgs : ((w.setGc (g.addLoad cs.id x).1).setStation
      { cs with currentPower := cs.currentPower + x }).gcs = [(g.addLoad cs.id x).1] := by
    simp only [setStation_gcs]
    exact setGc_single _ g cs.id x hg
  refine ⟨⟨_, hgs⟩, ?_, ?_, hb⟩
  · intro g' hg' s hsm
    rw [hgs] at hg'
    simp only [List.cons.injEq, and_true] at hg'
    subst hg'
    rw [addLoad_entry]
    rcases mem_setStation' _ _ s hsm with rfl | ⟨hm, hne⟩
    · simp only [if_true]
      rw [he g hg cs hcs]
    · have : s.id ≠ cs.id := hne
      simp only [this, if_false]
      exact he g hg s (by simpa using hm)
  · intro s hsm
    rcases mem_setStation _ _ s hsm with rfl | hm
    · exact hs cs hcs
    · exact hs s (by simpa using hm)

theorem distributePeakShavingVehicles_finv (ops : BatOps α B) (env : FEnv α) (BK : List String)
    (st st' : FState α B) (cmds : List (String × α))
    (hinv : FInv BK st.w) (h : distributePeakShavingVehicles ops env st = .ok (st', cmds)) : FInv BK st'.w := by
  unfold distributePeakShavingVehicles at h
  simp only [bind, Except.bind] at h
  split at h
  · cases h
  · split at h
    · cases h
    · split at h
      · cases h
      · split at h
        · cases h
        · split at h
          · cases h
          · refine foldlM_inv _ (fun (a : FState α B × List (String × α)) => FInv BK a.1.w) ?_ _ _ (st', cmds)
              (FInv.congr BK st.w _ rfl rfl rfl hinv) h
            intro a kv a' hp ha
            obtain ⟨g, hg⟩ := hp.1
            split at ha
            · cases ha
            · rename_i cs hgs
              rw [theGc_single _ g hg] at ha
              simp only at ha
              split at ha
              · cases ha
              · rename_i hass
                simp only [Except.ok.injEq] at ha
                subst ha
                simp only [Bool.not_eq_true', Bool.not_eq_false, Bool.and_eq_true, decide_eq_true_eq] at hass
                have hval := le_antisymm hass.1 hass.2
                have := FInv.stationUpdate BK a.1.w g hg kv.1 cs kv.2 hp hgs
                simp only [hval]
                exact this

theorem distributePeakShavingV2g_finv (ops : BatOps α B) (env : FEnv α) (BK : List String)
    (st st' : FState α B) (cmds : List (String × α))
    (hinv : FInv BK st.w) (h : distributePeakShavingV2g ops env st = .ok (st', cmds)) : FInv BK st'.w := by
  unfold distributePeakShavingV2g at h
  simp only [bind, Except.bind] at h
  split at h
  · cases h
  · rename_i vs _
    split at h
    · cases h
    · split at h
      · cases h
      · rename_i r hr
        simp only [Except.ok.injEq, Prod.mk.injEq] at h
        obtain ⟨rfl, _⟩ := h
        exact foldlM_inv (psV2gVehicle ops env _) (fun a => FInv BK a.st.w)
          (fun s x s' hp hs => psV2gVehicle_finv ops env BK _ s s' x hp hs) vs _ r hinv hr

theorem distributePeakShavingBatteries_finv (ops : BatOps α B) (env : FEnv α) (BK : List String)
    (st st' : FState α B) (hinv : FInv BK st.w)
    (h : distributePeakShavingBatteries ops env st = .ok st') : FInv BK st'.w := by
  unfold distributePeakShavingBatteries at h
  simp only [bind, Except.bind] at h
  split at h
  · cases h
  · split at h
    · split at h
      · cases h
      · split at h
        · cases h
        · cases h
        · split at h
          · cases h
          · rename_i r hr
            simp only [Except.ok.injEq] at h
            subst h
            refine foldlM_inv_mem _ (fun (a : FState α B × α) => FInv BK a.1.w) st.w.batteries ?_ _ r hinv hr
            intro s x s' hx hp hs
            obtain ⟨g, hg⟩ := hp.1
            have hxb : x.id ∈ BK := hinv.2.2.2 x hx
            simp only [theGc_single _ g hg] at hs
            repeat' split at hs
            all_goals first
              | (simp only [Except.ok.injEq] at hs; subst hs
                 first | exact hp | exact FInv.batteryUpdate BK s.1.w g hg x hxb _ _ hp)
              | (cases hs; done)
    · split at h
      · cases h
      · split at h
        · cases h
        · cases h
        · refine foldlM_inv_mem _ (fun (a : FState α B) => FInv BK a.w) st.w.batteries ?_ st st' hinv h
          intro s x s' hx hp hs
          obtain ⟨g, hg⟩ := hp.1
          have hxb : x.id ∈ BK := hinv.2.2.2 x hx
          rw [theGc_single _ g hg] at hs
          simp only at hs
          split at hs
          · cases hs
          · simp only [Except.ok.injEq] at hs
            subst hs
            exact FInv.batteryUpdate BK s.w g hg x hxb _ _ hp

/-- **whole step, LOAD_STRAT ≠ balanced:** afterwards every station's load entry at the connector equals its
`current_power` -/
theorem step_ps_finv (ops : BatOps α B) (env : FEnv α) (hstrat : env.strat ≠ .balanced)
    (w w' : SWorld α B) (window win' : Option Bool) (events : List (FEvent α))
    (cmds : List (String × α)) (g : GcS α) (hg : w.gcs = [g])
    (h0 : ∀ s ∈ w.stations, (sdGet g.loads s.id).getD 0 = 0)
    (hsb : ∀ s ∈ w.stations, ∀ b ∈ w.batteries, s.id ≠ b.id)
    (h : step ops env w window events = .ok (w', win', cmds)) :
    FInv (w.batteries.map (·.id)) w' := by
  set BK := w.batteries.map (·.id) with hBK
  unfold step at h
  simp only [bind, Except.bind] at h
  split at h
  · cases h
  · split at h
    · cases h
    · split at h
      · cases h
      · rename_i t0 rest
        have hne : (env.strat == LoadStrat.balanced) = false := by simpa using hstrat
        simp only [hne, Bool.false_eq_true, if_false] at h
        have hinv0 : FInv BK (resetStations w) := by
          refine ⟨⟨g, by simpa using hg⟩, ?_, ?_, ?_⟩
          · intro g' hg' s hs
            rw [resetStations_gcs, hg] at hg'
            simp only [List.cons.injEq, and_true] at hg'
            subst hg'
            unfold resetStations at hs
            simp only [List.mem_map] at hs
            obtain ⟨s0, hs0, rfl⟩ := hs
            exact h0 s0 hs0
          · intro s hs hin
            unfold resetStations at hs
            simp only [List.mem_map] at hs
            obtain ⟨s0, hs0, rfl⟩ := hs
            rw [hBK, List.mem_map] at hin
            obtain ⟨b, hb, hbe⟩ := hin
            exact hsb s0 hs0 b hb hbe.symm
          · intro b hb
            rw [hBK]
            exact List.mem_map_of_mem (by simpa using hb)
        split at h
        · cases h
        · rename_i r1 h1
          obtain ⟨st1, c1⟩ := r1
          have hinv1 := distributePeakShavingVehicles_finv ops env BK _ st1 c1 hinv0 h1
          simp only at h
          split at h
          · cases h
          · split at h
            · cases h
            · rename_i r2 h2
              obtain ⟨st2, c2, lv⟩ := r2
              have hinv2 : FInv BK st2.w := by
                split at h2
                · split at h2
                  · cases h2
                  · rename_i r hs
                    rw [liftPy_ok] at hs
                    simp only [pure, Except.pure, Except.ok.injEq, Prod.mk.injEq] at h2
                    obtain ⟨rfl, _, _⟩ := h2
                    exact distributeSurplus_finv ops env.base BK st1.w r.1 r.2 hinv1 hs
                · split at h2
                  · cases h2
                  · rename_i r hs
                    simp only [pure, Except.pure, Except.ok.injEq, Prod.mk.injEq] at h2
                    obtain ⟨rfl, _, _⟩ := h2
                    exact distributePeakShavingV2g_finv ops env BK st1 r.1 r.2 hinv1 hs
              simp only at h
              split at h
              · cases h
              · split at h
                · cases h
                · rename_i st3 h3
                  simp only [Except.ok.injEq, Prod.mk.injEq] at h
                  obtain ⟨rfl, _, _⟩ := h
                  split at h3
                  · split at h3
                    · cases h3
                    · rename_i w3 hs
                      simp only [pure, Except.pure, Except.ok.injEq] at h3
                      subst h3
                      exact surplusToBatteries_finv ops env BK _ _ hinv2 hs
                  · exact distributePeakShavingBatteries_finv ops env BK _ _ hinv2 h3
/-! ### concrete instances for the non-vacuity examples and witnesses -/

/-- an ideal 10 kWh battery for 1 h steps (state = SoC), used for the non-vacuity examples -/
def idealOps : BatOps ℚ ℚ where
  soc b := b
  capacity _ := 10
  efficiency _ := 1
  unloadMaxPower _ := 5
  load b mp _ tp :=
    let p : ℚ := match mp, tp with | some m, _ => m | none, some t => t | none, none => 5
    let e := max (min p ((1 - b) * 10)) 0
    .ok (b + e / 10, e)
  unload b mp ts tp :=
    let p : ℚ := match mp, tp with | some m, _ => m | none, some t => t | none, none => 5
    let e := max (min p ((b - ts.getD 0) * 10)) 0
    .ok (b - e / 10, e)
  available b := .ok (max 0 (min 5 (b * 10)))

theorem idealOps_law : FwLaw idealOps where
  load_max := by
    intro b p b' avg h
    simp only [idealOps, Except.ok.injEq, Prod.mk.injEq] at h
    obtain ⟨_, rfl⟩ := h
    exact ⟨le_max_right _ _, max_le (le_trans (min_le_left _ _) (le_max_left _ _)) (le_max_right _ _)⟩
  load_target := by
    intro b p b' avg h
    simp only [idealOps, Except.ok.injEq, Prod.mk.injEq] at h
    obtain ⟨_, rfl⟩ := h
    exact ⟨le_max_right _ _, max_le (le_trans (min_le_left _ _) (le_max_left _ _)) (le_max_right _ _)⟩
  unload_max := by
    intro b p ts b' avg h
    simp only [idealOps, Except.ok.injEq, Prod.mk.injEq] at h
    obtain ⟨_, rfl⟩ := h
    exact ⟨le_max_right _ _, max_le (le_trans (min_le_left _ _) (le_max_left _ _)) (le_max_right _ _)⟩
  unload_target := by
    intro b p b' avg h
    simp only [idealOps, Except.ok.injEq, Prod.mk.injEq] at h
    obtain ⟨_, rfl⟩ := h
    exact ⟨le_max_right _ _, max_le (le_trans (min_le_left _ _) (le_max_left _ _)) (le_max_right _ _)⟩
  available_nonneg := by
    intro b a h
    simp only [idealOps, Except.ok.injEq] at h
    subst h
    exact le_max_left _ _
  unload_maxonly := by
    intro b p b' avg h
    simp only [idealOps, Except.ok.injEq, Prod.mk.injEq] at h
    obtain ⟨_, rfl⟩ := h
    exact ⟨le_max_right _ _, max_le (le_trans (min_le_left _ _) (le_max_left _ _)) (le_max_right _ _)⟩

def hourUs : Int := 3600000000
/-- 1 h steps, 3 h horizon, EPS 1e-5, no fixed-load table -/
def exEnv (s : LoadStrat) : FEnv ℚ :=
  ⟨⟨1/100000, 0, 1, 0, hourUs⟩, 3 * hourUs, 0, s, none, List.sum, 40⟩
/-- connector 10 kW with 3 kW fixed load, one 11 kW station, one vehicle (SoC 0.2 → 0.8, leaves in 3 h) -/
def exWorld : SWorld ℚ ℚ :=
  ⟨[⟨"GC", 10, some (.fixed (3/10)), [("load", 3)]⟩], [⟨"CS", "GC", 11, 0, 0⟩],
   [⟨"v1", some "CS", 4/5, some (3 * hourUs), 0, false, 1/2, 1/5⟩], []⟩

/-- two vehicles (SoC 0.2 → 0.8, 3 h) at two 11 kW stations on a 3 kW connector without other load -/
def exWorld2 : SWorld ℚ ℚ :=
  ⟨[⟨"GC", 3, some (.fixed (3/10)), []⟩], [⟨"CS1", "GC", 11, 0, 0⟩, ⟨"CS2", "GC", 11, 0, 0⟩],
   [⟨"v1", some "CS1", 4/5, some (3 * hourUs), 0, false, 1/2, 1/5⟩,
    ⟨"v2", some "CS2", 4/5, some (3 * hourUs), 0, false, 1/2, 1/5⟩], []⟩
/-- a full V2G vehicle (desired 0.5, discharge limit 0.2) and a full stationary battery on a 4 kW connector
with 1 kW load -/
def exWorld3 : SWorld ℚ ℚ :=
  ⟨[⟨"GC", 4, some (.fixed (3/10)), [("load", 1)]⟩], [⟨"CS1", "GC", 11, 0, 0⟩],
   [⟨"v1", some "CS1", 1/2, some (3 * hourUs), 0, true, 1/5, 1⟩], [⟨"BAT", "GC", 0, 1⟩]⟩
/-- a V2G-capable vehicle (SoC 0.2 → 0.8) at a 2 kW station on a 10 kW connector -/
def exWorld5 : SWorld ℚ ℚ :=
  ⟨[⟨"GC", 10, some (.fixed (3/10)), []⟩], [⟨"CS1", "GC", 2, 0, 0⟩],
   [⟨"v1", some "CS1", 4/5, some (3 * hourUs), 0, true, 1/2, 1/5⟩], []⟩

/-- connector loads and station powers after a step (`none` = the step raised) -/
def resLoads (r : FPy (SWorld ℚ ℚ × Option Bool × List (String × ℚ))) : Option (List ℚ × List ℚ) :=
  match r with
  | .ok (w, _, _) => some (w.gcs.map GcS.currentLoad, w.stations.map StationS.currentPower)
  | .error _ => none

end SpiceEv.FlexWindow
