/-
C15 — time-window membership: the window table as `PeakLoadWindow.__init__` derives it from the text of the window file
(model: Model/StratInit.lean `convertFile` / `convertSeasonJ` / `convertDate`, tied to the real constructor by the
`init_plw` lines of harness/s_init.py in every run-level check and by the boundary stream inside `./check C15`).

The window predicate `datetimeWithinTimeWindow` (theorems `C15_window_*` of Properties/C15.lean) reads the CONVERTED table:
season bounds as date ordinals, window ends as µs since midnight.  The theorems here say what those numbers are in terms
of the file's text, so that together with `C15_window_iff` the set of instants the converted table denotes is the set the
text denotes: a date of the file is moved into the scenario year only if no season of the file starts in the scenario
year and the date lies in the OLDEST start year; month and day are kept; 29 February cannot be moved into a non-leap
year (`ValueError`, as `date.replace` raises); ordinals order dates as the calendar does.
-/
import SpiceEv.Proofs.StratInit
namespace SpiceEv
open SpiceEv.StratInit

/-- **Year replacement keeps month and day.** -/
theorem C15_init_year_replacement_keeps_month_day (x x' : Ymd) (y' : Int) (h : x.replaceYear y' = .ok x') :
    x'.y = y' ∧ x'.m = x.m ∧ x'.d = x.d :=
  replaceYear_ok h

/-- **29 February is mapped as the code maps it**: into a leap year it stays 29 February, into a non-leap year the
constructor raises `ValueError` (it does not fall back to 28 February or 1 March). -/
theorem C15_init_year_replacement_feb29 (y y' : Int) (hy : 1 ≤ y' ∧ y' ≤ 9999) :
    (Ymd.mk y 2 29).replaceYear y' = (if isLeap y' then .ok ⟨y', 2, 29⟩ else .error .valueError) :=
  replaceYear_feb29 y y' hy

/-- **Every other date can be moved into every year** 1…9999: 29 February is the only date for which the year
replacement raises. -/
theorem C15_init_year_replacement_total (x : Ymd) (y' : Int) (hv : validYmd x.y x.m x.d = true)
    (hy : 1 ≤ y' ∧ y' ≤ 9999) (h29 : ¬ (x.m = 2 ∧ x.d = 29)) :
    x.replaceYear y' = .ok ⟨y', x.m, x.d⟩ :=
  replaceYear_succeeds x y' hv hy h29

/-- **Ordinals order dates as the calendar does**: for valid dates the ordinal the conversion stores is strictly
monotone in (year, month, day) — the season test `start ≤ dt.date() ≤ end` on ordinals is the test on calendar dates. -/
theorem C15_init_dates_compare_like_ordinals (y m d y' m' d' : Int) (hv : validYmd y m d = true)
    (hv' : validYmd y' m' d' = true) (h : y < y' ∨ (y = y' ∧ (m < m' ∨ (m = m' ∧ d < d')))) :
    ymdToOrd y m d < ymdToOrd y' m' d' :=
  ord_lt_of_lex hv hv' h

/-- **A converted date is the date written in the file**, in the year `targetYear`: the written year, unless the
scenario year is missing from the file's start years and the written year is the oldest of them — then the scenario
year.  A date entry that is missing, not of the form YYYY-MM-DD, not a calendar date, or not a calendar date after the
year replacement makes the constructor raise (no converted value exists). -/
theorem C15_init_converted_date (replace : Option (Int × Int)) (ds : Option DateStr) (o : Int)
    (h : convertDate replace ds = .ok o) :
    ∃ y m d, ds = some (.ymd y m d) ∧ validYmd y m d = true ∧
      validYmd (targetYear replace y) m d = true ∧ o = ymdToOrd (targetYear replace y) m d :=
  convertDate_ok h

/-- **A converted season denotes what the file's text denotes.**  If the season converts, then (i) its bounds are the
ordinals of the written start / end dates (year replaced as above), so `Season.contains` is the inclusive date-range test
on those dates; (ii) for every voltage level the converted windows are, in file order, the written window texts read as
times of day (µs since midnight, `0 ≤ t < 24 h`) — nothing is added, dropped or reordered, a level or a `windows` entry
missing in the file is missing afterwards.  With `C15_window_iff` this fixes the set of instants inside a window. -/
theorem C15_init_converted_season (replace : Option (Int × Int)) (sj : SeasonJ) (s : Season)
    (h : convertSeasonJ replace sj = .ok s) :
    (∃ y m d, sj.start = some (.ymd y m d) ∧ s.start = ymdToOrd (targetYear replace y) m d) ∧
    (∃ y m d, sj.stop = some (.ymd y m d) ∧ s.stop = ymdToOrd (targetYear replace y) m d) ∧
    (∀ dt : DateTime, s.contains dt ↔ s.start ≤ dt.date ∧ dt.date ≤ s.stop) ∧
    ∀ level, List.Forall₂
      (fun (a : TimeStr × TimeStr) (b : Int × Int) =>
        a.1.parse = .ok b.1 ∧ a.2.parse = .ok b.2 ∧ 0 ≤ b.1 ∧ b.1 < usPerDay ∧ 0 ≤ b.2 ∧ b.2 < usPerDay)
      (((sj.windows.getD []).lookup level).getD []) (s.levelWindows level) := by
  obtain ⟨ha, hb, _⟩ := convertSeasonJ_ok h
  obtain ⟨y, m, d, e1, _, _, e2⟩ := convertDate_ok ha
  obtain ⟨y2, m2, d2, f1, _, _, f2⟩ := convertDate_ok hb
  refine ⟨⟨y, m, d, e1, e2⟩, ⟨y2, m2, d2, f1, f2⟩, fun dt => Iff.rfl, fun level => ?_⟩
  refine forall₂_imp ?_ (levelWindows_converted h level)
  intro a b ⟨h1, h2⟩
  obtain ⟨_, _, _, _, _, _, _, _, _, _, _, _, _, _, p1, p2⟩ := timeStr_parse_ok h1
  obtain ⟨_, _, _, _, _, _, _, _, _, _, _, _, _, _, q1, q2⟩ := timeStr_parse_ok h2
  exact ⟨h1, h2, p1, p2, q1, q2⟩

/-- **The converted table denotes the instants the file's text denotes.**  For the season list of one operator, if the
conversion succeeds, then the window predicate on the CONVERTED seasons (the one `PeakLoadWindow` evaluates at every step,
characterised by `C15_window_iff`) is true at `dt` iff, reading the file's TEXT: the FIRST season in file order whose
written date range (years replaced per `targetYear`, bounds inclusive) contains `dt`'s date has, for the voltage level, a
written window `[a, b]` whose two texts are times of day and `a ≤ t < b` (wrapping over midnight when `b < a`).  Seasons after
the first containing one are not consulted; season names play no role. -/
theorem C15_init_window_table_denotes (replace : Option (Int × Int)) (sjs : List (String × SeasonJ))
    (ss : List (String × Season))
    (h : sjs.mapM (fun (s : String × SeasonJ) => do
      let s' ← convertSeasonJ replace s.2
      pure (s.1, s')) = .ok ss) (dt : DateTime) (level : String) :
    ss.map (·.1) = sjs.map (·.1) ∧
    (datetimeWithinTimeWindow dt (ss.map (·.2)) level = true ↔
      ∃ pre sj post, sjs = pre ++ sj :: post ∧ (∀ r ∈ pre, ¬ r.2.containsDate replace dt.date) ∧
        sj.2.containsDate replace dt.date ∧ sj.2.hasWindow level dt.time) := by
  have hf := convertSeasons_forall₂ h
  refine ⟨?_, window_converted_iff dt level hf⟩
  clear h
  induction hf with
  | nil => rfl
  | cons hab _ ih => simp only [List.map_cons, ih, hab.1]

/-- **A file without any season is rejected** (`assert len(years) > 0`): whatever the operators are called. -/
theorem C15_init_no_season_rejected (startYear : Int) (file : List (String × List (String × SeasonJ)))
    (h : ∀ op ∈ file, op.2 = []) : convertFile startYear file = .error .assertion := by
  have hy : collectYears file = .ok [] := by
    unfold collectYears
    induction file with
    | nil => rfl
    | cons op rest ih =>
      rw [List.foldlM_cons]
      have : op.2 = [] := h op List.mem_cons_self
      simp only [this, List.foldlM_nil, bind, Except.bind, pure, Except.pure]
      exact ih (fun o ho => h o (List.mem_cons_of_mem _ ho))
  unfold convertFile
  simp [hy, bind, Except.bind, pyassert]

/-- **Connector defaults**: a missing voltage level becomes "MV"; a missing grid operator becomes the LAST operator of
the file (the loop variable that leaks from the conversion loop — the code's warning text says "first"); given values
are kept. -/
theorem C15_init_connector_defaults {α : Type} (lastOp : Option String) (g : GcIn α) :
    (g.level = none → (gcDefaults lastOp g).level = some "MV") ∧
    (∀ l, g.level = some l → (gcDefaults lastOp g).level = some l) ∧
    (g.operator = none → (gcDefaults lastOp g).operator = lastOp) ∧
    (∀ o, g.operator = some o → (gcDefaults lastOp g).operator = some o) ∧
    (gcDefaults lastOp g).id = g.id ∧ (gcDefaults lastOp g).loads = g.loads := by
  unfold gcDefaults
  refine ⟨fun h => by simp [h], fun l h => by simp [h], fun h => by simp [h], fun o h => by simp [h], rfl, rfl⟩

/-! ### non-vacuity: concrete files -/

/-- a file for 2020 (`exFile2020`) read for a scenario in 2021: both seasons are moved to 2021, month and day kept -/
example :
    convertFile 2021 exFile2020 = .ok [("op", [
      ("winter", { start := ymdToOrd 2021 1 1, stop := ymdToOrd 2021 2 28, windows := some [("MV", [(29700000000, 34200000000), (79200000000, 3600000000)])] }),
      ("rest", { start := ymdToOrd 2021 3 1, stop := ymdToOrd 2021 12 31, windows := none })])] ∧
    ymdToOrd 2021 1 1 = 737791 ∧ ordToYear 737791 = 2021 ∧ ordToYear 737790 = 2020 := by
  decide

/-- a file whose winter ends on 29 February 2020 cannot be read for 2021 (`ValueError`), but for 2024 and 2020 -/
example : convertFile 2021 exFileFeb29 = .error .valueError := by decide
example : convertFile 2024 exFileFeb29 = .ok [("op", [("winter", { start := ymdToOrd 2024 1 1, stop := ymdToOrd 2024 2 29, windows := none })])] := by
  decide
example : convertFile 2020 exFileFeb29 = .ok [("op", [("winter", { start := 737425, stop := 737484, windows := none })])] := by
  decide

/-- only the OLDEST start year is replaced: a season written 2019-11-01 … 2020-02-28 next to one starting in 2020,
read for 2023, becomes 2023-11-01 … 2020-02-28 — an empty date range -/
example :
    convertFile 2023 exFileMixed = .ok [("op", [
      ("w", { start := ymdToOrd 2023 11 1, stop := ymdToOrd 2020 2 28, windows := none }),
      ("s", { start := ymdToOrd 2020 3 1, stop := ymdToOrd 2020 10 31, windows := none })])] ∧
    ymdToOrd 2020 2 28 < ymdToOrd 2023 11 1 := by
  decide

example : (Ymd.mk 2020 2 29).replaceYear 2021 = .error .valueError ∧
    (Ymd.mk 2020 2 29).replaceYear 2024 = .ok ⟨2024, 2, 29⟩ ∧
    (Ymd.mk 2020 12 31).replaceYear 2021 = .ok ⟨2021, 12, 31⟩ := by decide

example : validYmd 2020 2 29 = true ∧ validYmd 2021 3 1 = true ∧ ymdToOrd 2020 2 29 < ymdToOrd 2021 3 1 := by decide

example : convertDate (some (2020, 2021)) (some (.ymd 2020 12 31)) = .ok (ymdToOrd 2021 12 31) := by decide
example : convertDate none (some (.bad (some 2020))) = .error .valueError := by decide
example : convertDate none none = .error .keyError := by decide

example : convertFile 2020 [("a", []), ("b", [])] = .error .assertion := by decide

/-- `exFile2020` read for 2021: 15 January 2021 08:30 lies in the (moved) winter season inside its MV window 08:15–09:30;
09:30 does not (half-open); 00:30 lies in the wrapping window 22:00–01:00; 15 June lies in the season without windows -/
example :
    (SeasonJ.containsDate (some (2020, 2021)) { start := some (.ymd 2020 1 1), stop := some (.ymd 2020 2 28), windows := none } (ymdToOrd 2021 1 15)) ∧
    datetimeWithinTimeWindow (DateTime.ofParts (ymdToOrd 2021 1 15) 30600000000)
      [{ start := ymdToOrd 2021 1 1, stop := ymdToOrd 2021 2 28, windows := some [("MV", [(29700000000, 34200000000), (79200000000, 3600000000)])] },
       { start := ymdToOrd 2021 3 1, stop := ymdToOrd 2021 12 31, windows := none }] "MV" = true := by
  refine ⟨⟨2020, 1, 1, 2020, 2, 28, rfl, rfl, by decide, by decide⟩, by decide⟩

example : (gcDefaults (α := Int) (some "last") ⟨"g", none, none, []⟩).level = some "MV" ∧
    (gcDefaults (α := Int) (some "last") ⟨"g", none, none, []⟩).operator = some "last" := by decide

end SpiceEv
