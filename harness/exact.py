"""Exact rational duck-number used to run the real spice_ev code in exact arithmetic.

`Q` wraps fractions.Fraction.  Unlike Fraction it never degrades to float: a float or int
operand is converted exactly (Fraction(float) is exact), so literals such as `1.0` inside
the code under test stay exact.  Only the arithmetic the code performs is provided.
"""
from fractions import Fraction
import numbers


def _f(x):
    if isinstance(x, Q):
        return x.v
    if isinstance(x, bool):
        return Fraction(int(x))
    if isinstance(x, (int, float, Fraction)):
        return Fraction(x)
    return NotImplemented


class Q:
    __slots__ = ("v",)

    def __init__(self, n=0, d=None):
        if d is None:
            self.v = _f(n) if not isinstance(n, str) else Fraction(n)
        else:
            self.v = Fraction(n, d)

    # arithmetic
    def _bin(self, o, fn):
        o = _f(o)
        if o is NotImplemented:
            return NotImplemented
        return Q(fn(self.v, o))

    def _rbin(self, o, fn):
        o = _f(o)
        if o is NotImplemented:
            return NotImplemented
        return Q(fn(o, self.v))

    def __add__(self, o): return self._bin(o, lambda a, b: a + b)
    def __radd__(self, o): return self._rbin(o, lambda a, b: a + b)
    def __sub__(self, o): return self._bin(o, lambda a, b: a - b)
    def __rsub__(self, o): return self._rbin(o, lambda a, b: a - b)
    def __mul__(self, o): return self._bin(o, lambda a, b: a * b)
    def __rmul__(self, o): return self._rbin(o, lambda a, b: a * b)
    def __truediv__(self, o): return self._bin(o, lambda a, b: a / b)
    def __rtruediv__(self, o): return self._rbin(o, lambda a, b: a / b)
    def __floordiv__(self, o): return self._bin(o, lambda a, b: Fraction(a // b))
    def __rfloordiv__(self, o): return self._rbin(o, lambda a, b: Fraction(a // b))
    def __mod__(self, o): return self._bin(o, lambda a, b: a % b)
    def __neg__(self): return Q(-self.v)
    def __pos__(self): return self
    def __abs__(self): return Q(abs(self.v))

    def __pow__(self, o):
        if isinstance(o, int):
            return Q(self.v ** o)
        return NotImplemented

    # comparisons
    def _cmp(self, o, fn):
        o = _f(o)
        if o is NotImplemented:
            return NotImplemented
        return fn(self.v, o)

    def __eq__(self, o): 
        r = self._cmp(o, lambda a, b: a == b)
        return False if r is NotImplemented else r
    def __ne__(self, o): return not self.__eq__(o)
    def __lt__(self, o): return self._cmp(o, lambda a, b: a < b)
    def __le__(self, o): return self._cmp(o, lambda a, b: a <= b)
    def __gt__(self, o): return self._cmp(o, lambda a, b: a > b)
    def __ge__(self, o): return self._cmp(o, lambda a, b: a >= b)
    def __hash__(self): return hash(self.v)
    def __bool__(self): return self.v != 0

    # conversions
    def __float__(self): return float(self.v)
    def __int__(self): return int(self.v)
    def __trunc__(self): return self.v.__trunc__()
    def __floor__(self): return self.v.__floor__()
    def __ceil__(self): return self.v.__ceil__()

    def __round__(self, n=None):
        r = round(self.v, n)
        return r if n is None else Q(r)

    def __repr__(self): return "Q(%s)" % self.v
    def __str__(self): return str(self.v)
    def __format__(self, spec): return format(float(self.v), spec) if spec else str(self.v)

    def __deepcopy__(self, memo): return self
    def __copy__(self): return self
    def __reduce__(self): return (Q, (self.v.numerator, self.v.denominator))


numbers.Number.register(Q)
