/-
C07 — VEHICLE frame of the `balanced_market` strategy's own step (`BalancedMarket.step`, `BalancedMarket.stepGc`,
Model/StratBalancedMarket.lean): the step changes a vehicle only through its battery.  The invariant
`KeepsVeh.VInv K ids0` (Proofs/C07KeepsVeh.lean) is threaded through every function of the model that returns / updates a
world.  Purely structural, instance-free (the typeclass context is the one of the model's section: plain operations, no
algebraic / order axioms), no extra hypotheses.  Same control flow as Proofs/C07KeepsBalancedMarket.lean.

The per-vehicle planning state `VSt` carries NO vehicle record (only connector, station, two battery values `bat` / `sim`,
the power plan and the command dicts); `desired_soc = 1 if cheap` is used as a number inside `chargeLoop` only.  The two
`setVehicle` of the model are
  * `vehicleBody`:  `g.w.setVehicle { v with bat := st.bat }`   with `g.w.vehicle? vid = some v`,
  * `surplusBody`:  `g.w.setVehicle { v with bat := bat' }`     with `g.w.vehicle? vid = some v`,
so the written record has the key of the record found in the world (`vehKey_bat`, `VInv.key_of_vehicle?`); therefore
`chargeLoop`, `applyV2g`, `v2gLoop`, `VSt.book` need no lemma here.  `batteryBody` only does `setBattery`.

Covered (one lemma each): `vehicleBody`, `surplusBody`, `batteryBody` (for `GVInv` = `VInv K ids0 g.w`); `stepGc`, `step`.
-/
import SpiceEv.Proofs.C07KeepsVeh
import SpiceEv.Model.StratBalancedMarket
set_option linter.unusedSectionVars false
set_option linter.unusedSimpArgs false
set_option linter.unusedVariables false
namespace SpiceEv
namespace KeepsVeh
namespace BalancedMarket
open SpiceEv.BalancedMarket

variable {α B : Type} [Add α] [Sub α] [Mul α] [Div α] [Neg α] [LT α] [LE α]
  [DecidableLT α] [DecidableLE α] [OfNat α 0] [OfNat α 1] [NatCast α] [IntCast α]
variable {K : List (String × Option String × α × Option Int × α × Bool × α)} {ids0 : List String}

/-! ### the accumulator of `step_gc` -/

/-- the invariant of the accumulator: its world satisfies `VInv` -/
def GVInv (K : List (String × Option String × α × Option Int × α × Bool × α)) (ids0 : List String)
    (g : GSt α B) : Prop := VInv K ids0 g.w

theorem vehicleBody_vinv (ops : Ops α B) (env : Env α) (g g' : GSt α B) (vid : String)
    (hi : GVInv K ids0 g) (h : vehicleBody ops env g vid = .ok g') : GVInv K ids0 g' := by
  unfold vehicleBody at h
  split at h
  · cases h
  · rename_i v hv
    have hk : vehKey v ∈ K := VInv.key_of_vehicle? hi hv
    split at h
    · cases h
    · rename_i csId hcs
      split at h
      · cases h
      · rename_i cs hst
        split at h
        · cases h
        · simp only [bind, Except.bind] at h
          split at h
          · cases h
          · rename_i sorted hsorted
            split at h
            · cases h
            · rename_i st1 hch
              split at h
              · cases h
              · rename_i st2 hv2g
                split at h
                · cases h
                · simp only [Except.ok.injEq] at h
                  subst h
                  exact (VInv.setBat hi hk _).setStation _

theorem surplusBody_vinv (ops : Ops α B) (env : Env α) (g g' : GSt α B) (vid : String)
    (hi : GVInv K ids0 g) (h : surplusBody ops env g vid = .ok g') : GVInv K ids0 g' := by
  unfold surplusBody at h
  split at h
  · cases h
  · rename_i v hv
    have hk : vehKey v ∈ K := VInv.key_of_vehicle? hi hv
    split at h
    · cases h
    · rename_i csId hcs
      split at h
      · cases h
      · rename_i cs hst
        simp only at h
        split at h
        · simp only [bind, Except.bind] at h
          split at h
          · cases h
          · rename_i r hr
            obtain ⟨bat', avg⟩ := r
            simp only [Except.ok.injEq] at h
            subst h
            exact (VInv.setBat hi hk _).setStation _
        · simp only [Except.ok.injEq] at h
          subst h; exact hi

theorem batteryBody_vinv (ops : Ops α B) (env : Env α) (nCheap : Option Nat) (g g' : GSt α B) (bid : String)
    (hi : GVInv K ids0 g) (h : batteryBody ops env nCheap g bid = .ok g') : GVInv K ids0 g' := by
  unfold batteryBody at h
  split at h
  · cases h
  · rename_i b hb
    split at h
    · simp only [Except.ok.injEq] at h; subst h; exact hi
    · split at h
      · cases h
      · rename_i n
        simp only [bind, Except.bind] at h
        split at h
        · cases h
        · rename_i r1 hr1
          obtain ⟨bat1', bp1⟩ := r1
          simp only at h
          split at h
          · cases h
          · rename_i r2 hr2
            obtain ⟨bat2', bp2⟩ := r2
            simp only at h
            split at h
            · cases h
            · rename_i r3 hr3
              obtain ⟨bat3, avg⟩ := r3
              simp only at h
              split at h
              · split at h
                · cases h
                · rename_i r4 hr4
                  obtain ⟨bat4, out⟩ := r4
                  simp only [Except.ok.injEq] at h
                  subst h
                  exact VInv.setBattery hi _
              · simp only [Except.ok.injEq] at h
                subst h
                exact VInv.setBattery hi _

/-! ### `step_gc`, `step` -/

/-- **balanced_market, one connector.**  `step_gc` keeps the vehicle invariant. -/
theorem stepGc_vinv (ops : BalancedMarket.Ops α B) (env : BalancedMarket.Env α) (w w' : SWorld α B) (gcId : String)
    (cmds : List (String × α)) (hi : VInv K ids0 w)
    (h : BalancedMarket.stepGc ops env w gcId = .ok (w', cmds)) : VInv K ids0 w' := by
  unfold stepGc at h
  split at h
  · cases h
  · rename_i gc hgc
    simp only [bind, Except.bind] at h
    split at h
    · cases h
    · split at h
      · cases h
      · rename_i vids hvids
        split at h
        · cases h
        · rename_i ts hts
          split at h
          · cases h
          · rename_i g1 hg1
            split at h
            · cases h
            · rename_i g2 hg2
              split at h
              · cases h
              · rename_i nCheap hn
                split at h
                · cases h
                · rename_i g3 hg3
                  simp only [Except.ok.injEq, Prod.mk.injEq] at h
                  obtain ⟨rfl, -⟩ := h
                  have h0 : GVInv K ids0 (⟨w, gc, ts, [], []⟩ : GSt α B) := hi
                  have h1 : GVInv K ids0 g1 := foldlM_inv _ (fun g => GVInv K ids0 g)
                    (fun g vid g' hg hstep => vehicleBody_vinv ops env g g' vid hg hstep) vids _ g1 h0 hg1
                  have h2 : GVInv K ids0 g2 := foldlM_inv _ (fun g => GVInv K ids0 g)
                    (fun g vid g' hg hstep => surplusBody_vinv ops env g g' vid hg hstep) vids _ g2 h1 hg2
                  have h3 : GVInv K ids0 g3 := foldlM_inv _ (fun g => GVInv K ids0 g)
                    (fun g bid g' hg hstep => batteryBody_vinv ops env nCheap g g' bid hg hstep) _ _ g3 h2 hg3
                  exact VInv.setGc h3 _

/-- **balanced_market.**  The step keeps the vehicle invariant: a vehicle is changed only through its battery. -/
theorem step_vinv (ops : BalancedMarket.Ops α B) (env : BalancedMarket.Env α) (w w' : SWorld α B)
    (cmds : List (String × α)) (hi : VInv K ids0 w)
    (h : BalancedMarket.step ops env w = .ok (w', cmds)) : VInv K ids0 w' := by
  unfold BalancedMarket.step at h
  refine foldlM_inv _ (fun (st : SWorld α B × List (String × α)) => VInv K ids0 st.1) ?_ _ _ (w', cmds)
    (VInv.resetStations hi) h
  intro st gid st' hst hf
  simp only [bind, Except.bind] at hf
  split at hf
  · cases hf
  · rename_i r hr
    obtain ⟨w1, c1⟩ := r
    simp only [pure, Except.pure, Except.ok.injEq] at hf
    subst hf
    exact stepGc_vinv ops env st.1 w1 gid c1 hst hr

theorem step_vkeeps (ops : BalancedMarket.Ops α B) (env : BalancedMarket.Env α) (w w' : SWorld α B)
    (cmds : List (String × α)) (h : BalancedMarket.step ops env w = .ok (w', cmds)) :
    VehKeeps (w.vehicles.map vehKey) (w.vehicles.map (·.id)) w'.vehicles :=
  step_vinv ops env w w' cmds (VInv.init w) h

end BalancedMarket
end KeepsVeh
end SpiceEv
