/-
C15 — Time-window and core-standing-time membership.

Property theorems only (helper lemmas and the specification vocabulary `InWindow`, `Season.contains`,
`InCoreWindowCode`, `CoreSpec`, `AtInclusiveEnd`, `CoreWF`, `WeeklyInside`, `NeverLeaves` live in
SpiceEv/Proofs/Util.lean).  All statements are about the executable model of
SpiceEv/Model/Util.lean, which the driver runs against the real `spice_ev.util` functions.
Times of day are integers (µs since midnight), dates are ordinals, datetimes are `DateTime`.
-/
import SpiceEv.Proofs.Util
namespace SpiceEv

/-! ### datetime_within_time_window -/

/-- **Peak-load window.**  A timestamp is inside iff the FIRST listed season whose inclusive date
range contains its date has, for the voltage level, a window with `w₀ ≤ t < w₁`, or — for a window
crossing midnight (`w₁ < w₀`) — `t ≥ w₀ ∨ t < w₁`.  Seasons listed after that one are not consulted
(`List.find?` returns the first match); no season containing the date means "outside". -/
theorem C15_window_iff (dt : DateTime) (seasons : List Season) (level : String) :
    datetimeWithinTimeWindow dt seasons level = true ↔
      ∃ s, seasons.find? (fun s => decide (s.contains dt)) = some s ∧
        ∃ w ∈ s.levelWindows level, InWindow dt.time w := by
  rw [datetimeWithinTimeWindow_find]
  cases h : seasons.find? (fun s => decide (s.contains dt)) with
  | none => simp
  | some s => simp [windowsLoop_iff]

/-- The same with the list split made explicit: whatever follows the first matching season
(`post`) has no influence on the answer. -/
theorem C15_window_first_season_decides (dt : DateTime) (pre post : List Season) (s : Season)
    (level : String) (hpre : ∀ r ∈ pre, ¬ r.contains dt) (hs : s.contains dt) :
    datetimeWithinTimeWindow dt (pre ++ s :: post) level = true ↔
      ∃ w ∈ s.levelWindows level, InWindow dt.time w := by
  induction pre with
  | nil =>
    rw [List.nil_append, datetimeWithinTimeWindow_cons, if_pos hs, windowsLoop_iff]
  | cons r pre ih =>
    rw [List.cons_append, datetimeWithinTimeWindow_cons, if_neg (hpre r List.mem_cons_self)]
    exact ih (fun x hx => hpre x (List.mem_cons_of_mem _ hx))

/-- A season without a `"windows"` entry, or without the voltage level, has no windows: if it is
the first season containing the date the answer is "outside", whatever later seasons say. -/
theorem C15_window_missing_level (dt : DateTime) (pre post : List Season) (s : Season)
    (level : String) (hpre : ∀ r ∈ pre, ¬ r.contains dt) (hs : s.contains dt)
    (hmiss : s.windows = none ∨ ∃ w, s.windows = some w ∧ w.lookup level = none) :
    datetimeWithinTimeWindow dt (pre ++ s :: post) level = false := by
  rw [Bool.eq_false_iff, Ne, C15_window_first_season_decides dt pre post s level hpre hs]
  have : s.levelWindows level = [] := by
    unfold Season.levelWindows
    rcases hmiss with h | ⟨w, h1, h2⟩
    · simp [h]
    · simp [h1, h2]
  simp [this]

/-- `InWindow` is half-open membership on the 24-hour circle — the formula the Python oracle
evaluates: `(t − w₀) mod 24h < (w₁ − w₀) mod 24h`. -/
theorem C15_window_circle (t a b : Int) (ht : 0 ≤ t ∧ t < usPerDay) (ha : 0 ≤ a ∧ a < usPerDay)
    (hb : 0 ≤ b ∧ b < usPerDay) :
    InWindow t (a, b) ↔ (t - a) % usPerDay < (b - a) % usPerDay := by
  unfold InWindow usPerDay at *
  simp only
  omega

/-! ### dt_within_core_standing_time -/

/-- **Core standing time, exact characterisation of the code.**  For a configuration whose time
tuples are valid (`CoreWF`; `None` is valid) the function returns a Boolean — it does not raise — and
that Boolean is true iff: nothing is configured, or the weekday is a no-drive day, or the date is a
listed holiday, or some configured window accepts the time of day, where a wrapping window
(`end < start`) accepts `t ≥ start ∨ t < end` and a non-wrapping one accepts `start ≤ t ≤ end`
(closed at the end — see `C15_core_halfopen`). -/
theorem C15_core_iff (dt : DateTime) (cst : Option CoreStandingTime) (hwf : CoreWF cst) :
    ∃ b, dtWithinCoreStandingTime dt cst = .ok b ∧
      (b = true ↔
        cst = none ∨ ∃ c, cst = some c ∧
          (dt.weekday ∈ c.noDriveDays.getD [] ∨ dt.date ∈ c.holidays.getD [] ∨
            ∃ w ∈ c.times.getD [], ∃ s e, w.parse = .ok (s, e) ∧
              ((e < s ∧ (s ≤ dt.time ∨ dt.time < e)) ∨ (s ≤ e ∧ s ≤ dt.time ∧ dt.time ≤ e)))) := by
  cases cst with
  | none => exact ⟨true, rfl, by simp⟩
  | some c =>
    obtain ⟨b, hb, hiff⟩ := dtWithinCore_ok dt c hwf
    refine ⟨b, hb, ?_⟩
    rw [hiff]
    unfold WeeklyInside InCoreWindowCode
    simp only [reduceCtorEq, false_or, Option.some.injEq, exists_eq_left']
    exact ⟨fun h => h.elim (fun h => h.elim Or.inl (fun h => Or.inr (Or.inr h))) (fun h => Or.inr (Or.inl h)),
      fun h => h.elim (fun h => Or.inl (Or.inl h)) (fun h => h.elim Or.inr (fun h => Or.inl (Or.inr h)))⟩

/-- **Error branch.**  The function raises iff a malformed window tuple (`KeyError` for a missing
`start`/`end`, `ValueError`/`TypeError` from `datetime.time(*tuple)`) is reached before the day, the
holiday list or an earlier window has decided; the error is that window's. -/
theorem C15_core_error (dt : DateTime) (cst : Option CoreStandingTime) (err : PyErr) :
    dtWithinCoreStandingTime dt cst = .error err ↔
      ∃ c, cst = some c ∧ dt.weekday ∉ c.noDriveDays.getD [] ∧ dt.date ∉ c.holidays.getD [] ∧
        ∃ pre w post, c.times.getD [] = pre ++ w :: post ∧ w.parse = .error err ∧
          ∀ v ∈ pre, ∃ s e, v.parse = .ok (s, e) ∧ ¬ InCoreWindowCode dt.time s e := by
  cases cst with
  | none => simp [dtWithinCoreStandingTime, pure, Except.pure]
  | some c =>
    rw [dtWithinCore_some]
    simp only [Option.some.injEq, exists_eq_left']
    by_cases a : dt.weekday ∈ c.noDriveDays.getD []
    · simp [a]
    · by_cases b : dt.date ∈ c.holidays.getD []
      · simp [a, b]
      · simp only [a, b, if_false, not_false_eq_true, true_and]
        exact coreTimesLoop_error_iff _ _ _

/-- **Code vs. the property's half-open reading.**  The code's answer equals the property's
predicate `CoreSpec` (windows `start ≤ t < end`, wrapping over midnight) EXCEPT that it also answers
"inside" when `t` is exactly the end of a configured non-wrapping window (`AtInclusiveEnd`). -/
theorem C15_core_halfopen (dt : DateTime) (cst : Option CoreStandingTime) (hwf : CoreWF cst) :
    ∃ b, dtWithinCoreStandingTime dt cst = .ok b ∧
      (b = true ↔ CoreSpec dt cst ∨ AtInclusiveEnd dt cst) := by
  obtain ⟨b, hb, hiff⟩ := C15_core_iff dt cst hwf
  refine ⟨b, hb, ?_⟩
  rw [hiff]
  unfold CoreSpec AtInclusiveEnd InWindow
  constructor
  · rintro (h | ⟨c, hc, h | h | ⟨w, hw, s, e, hp, h⟩⟩)
    · exact Or.inl (Or.inl h)
    · exact Or.inl (Or.inr ⟨c, hc, Or.inl h⟩)
    · exact Or.inl (Or.inr ⟨c, hc, Or.inr (Or.inl h)⟩)
    · by_cases hend : s ≤ e ∧ dt.time = e
      · exact Or.inr ⟨c, hc, w, hw, s, e, hp, hend.1, hend.2⟩
      · refine Or.inl (Or.inr ⟨c, hc, Or.inr (Or.inr ⟨w, hw, s, e, hp, ?_⟩)⟩)
        simp only
        omega
  · rintro ((h | ⟨c, hc, h | h | ⟨w, hw, s, e, hp, h⟩⟩) | ⟨c, hc, w, hw, s, e, hp, h1, h2⟩)
    · exact Or.inl h
    · exact Or.inr ⟨c, hc, Or.inl h⟩
    · exact Or.inr ⟨c, hc, Or.inr (Or.inl h)⟩
    · refine Or.inr ⟨c, hc, Or.inr (Or.inr ⟨w, hw, s, e, hp, ?_⟩)⟩
      simp only at h
      omega
    · refine Or.inr ⟨c, hc, Or.inr (Or.inr ⟨w, hw, s, e, hp, ?_⟩)⟩
      omega

/-- Away from the end instants of non-wrapping windows the code IS the property's predicate. -/
theorem C15_core_halfopen_agree (dt : DateTime) (cst : Option CoreStandingTime) (hwf : CoreWF cst)
    (hne : ¬ AtInclusiveEnd dt cst) :
    ∃ b, dtWithinCoreStandingTime dt cst = .ok b ∧ (b = true ↔ CoreSpec dt cst) := by
  obtain ⟨b, hb, hiff⟩ := C15_core_halfopen dt cst hwf
  exact ⟨b, hb, by rw [hiff]; exact ⟨fun h => h.elim id (fun h => absurd h hne), Or.inl⟩⟩

/-- **Witness of the deviation (finding F1).**  Thursday 2020-01-02 (ordinal 737426), 13:00:00, core
standing time 10:00–13:00: the code answers "inside", the half-open reading says "outside"
(`coreSpecB` is the executable form of `CoreSpec`, `coreSpecB_iff`).  One microsecond later both
say "outside".  Checked by kernel evaluation (`decide`). -/
theorem C15_core_halfopen_witness :
    let cst : Option CoreStandingTime := some { times := some [⟨some [10, 0], some [13, 0]⟩] }
    let dt := DateTime.ofParts 737426 (13 * usPerHour)
    dtWithinCoreStandingTime dt cst = .ok true ∧ coreSpecB dt cst = false ∧
      dtWithinCoreStandingTime (dt.add 1) cst = .ok false ∧ coreSpecB (dt.add 1) cst = false := by
  decide

/-! ### get_time_windows_from_json -/

/-- **Series.**  For a file that lists the operator, whose seasons all have a `"windows"` entry, a
positive interval and comparable start/stop (both naive or both aware), the function returns — with
the fuel the driver supplies, `seriesLength` — a list with exactly `seriesLength start stop Δ`
entries, and entry `i` is the window predicate (on the seasons as listed in the file) at
`start + i·Δ`. -/
theorem C15_series (file : List (String × List Season)) (operator level : String)
    (seasons : List Season) (start stop : DateTime) (Δ : Int)
    (hop : file.lookup operator = some seasons) (hw : ∀ s ∈ seasons, s.windows ≠ none)
    (hΔ : 0 < Δ) (hc : start.comparable stop) :
    getTimeWindowsFromJson file operator level start stop Δ (seriesLength start stop Δ) =
      .ok ((List.range (seriesLength start stop Δ)).map
        (fun (i : Nat) => datetimeWithinTimeWindow (start.add ((i : Int) * Δ)) seasons level)) := by
  obtain ⟨r, hr⟩ := mapM_convert_isOk level seasons hw
  unfold getTimeWindowsFromJson
  simp only [hop, hr, bind, Except.bind, pure, Except.pure]
  rw [seriesLoop_eq _ stop Δ hΔ _ start #[] hc (Nat.le_refl _)]
  simp only [seriesSpec_eq_map, datetimeWithinTimeWindow_convert level seasons r hr]
  simp

/-- More fuel changes nothing (the loop has ended): the result does not depend on the fuel. -/
theorem C15_series_fuel (file : List (String × List Season)) (operator level : String)
    (seasons : List Season) (start stop : DateTime) (Δ : Int) (fuel : Nat)
    (hop : file.lookup operator = some seasons) (hw : ∀ s ∈ seasons, s.windows ≠ none)
    (hΔ : 0 < Δ) (hc : start.comparable stop) (hf : seriesLength start stop Δ ≤ fuel) :
    getTimeWindowsFromJson file operator level start stop Δ fuel =
      getTimeWindowsFromJson file operator level start stop Δ (seriesLength start stop Δ) := by
  obtain ⟨r, hr⟩ := mapM_convert_isOk level seasons hw
  unfold getTimeWindowsFromJson
  simp only [hop, hr, bind, Except.bind, pure, Except.pure]
  rw [seriesLoop_eq _ stop Δ hΔ _ start #[] hc (Nat.le_refl _),
    seriesLoop_eq _ stop Δ hΔ _ start #[] hc hf]

/-- The length is the ceiling of `(stop − start) / Δ` (0 if `stop ≤ start`): the unique `n` with
`start + (n−1)·Δ < stop ≤ start + n·Δ`, instants compared the way Python compares datetimes. -/
theorem C15_series_length (start stop : DateTime) (Δ : Int) (hΔ : 0 < Δ) :
    (stop.instant ≤ start.instant → seriesLength start stop Δ = 0) ∧
    (start.instant < stop.instant →
      start.instant + ((seriesLength start stop Δ : Nat) - 1 : Int) * Δ < stop.instant ∧
      stop.instant ≤ start.instant + (seriesLength start stop Δ : Nat) * Δ) := by
  constructor
  · intro h; exact seriesLength_of_not_lt _ _ _ hΔ (by omega)
  · intro h
    obtain ⟨c1, c2⟩ := ceilDiv_spec (stop.instant - start.instant) Δ hΔ
    have hpos : 0 ≤ ceilDiv (stop.instant - start.instant) Δ := by
      by_contra hc
      have : ceilDiv (stop.instant - start.instant) Δ ≤ -1 := by omega
      nlinarith
    unfold seriesLength
    rw [Int.toNat_of_nonneg hpos]
    constructor <;> linarith

/-- A non-positive interval with `start < stop` never leaves the `while` loop: the model reports
exhausted fuel for EVERY fuel (the real function then runs until memory or the year range ends). -/
theorem C15_series_nonterminating (file : List (String × List Season)) (operator level : String)
    (seasons : List Season) (start stop : DateTime) (Δ : Int) (fuel : Nat)
    (hop : file.lookup operator = some seasons) (hw : ∀ s ∈ seasons, s.windows ≠ none)
    (hΔ : Δ ≤ 0) (hc : start.comparable stop) (hlt : start.instant < stop.instant) :
    getTimeWindowsFromJson file operator level start stop Δ fuel = .error .fuel := by
  obtain ⟨r, hr⟩ := mapM_convert_isOk level seasons hw
  unfold getTimeWindowsFromJson
  simp only [hop, hr, bind, Except.bind, pure, Except.pure]
  rw [seriesLoop_nonterminating _ stop Δ hΔ fuel start #[] hc hlt]

/-- **Error branches of the series.**  Unknown operator → `KeyError`; a season without `"windows"`
→ `KeyError` (raised by the conversion loop, before any timestamp is looked at); naive/aware mix of
start and stop → `TypeError` at the first comparison. -/
theorem C15_series_errors (file : List (String × List Season)) (operator level : String)
    (start stop : DateTime) (Δ : Int) (fuel : Nat) :
    (file.lookup operator = none →
      getTimeWindowsFromJson file operator level start stop Δ fuel = .error .keyError) ∧
    (∀ seasons, file.lookup operator = some seasons → (∃ s ∈ seasons, s.windows = none) →
      getTimeWindowsFromJson file operator level start stop Δ fuel = .error .keyError) ∧
    (∀ seasons, file.lookup operator = some seasons → (∀ s ∈ seasons, s.windows ≠ none) →
      ¬ start.comparable stop →
      getTimeWindowsFromJson file operator level start stop Δ fuel = .error .typeError) := by
  refine ⟨?_, ?_, ?_⟩
  · intro h
    unfold getTimeWindowsFromJson
    simp only [h, bind, Except.bind]
  · intro seasons h hs
    unfold getTimeWindowsFromJson
    simp only [h, mapM_convert_error level seasons hs, bind, Except.bind, pure, Except.pure]
  · intro seasons h hw hc
    obtain ⟨r, hr⟩ := mapM_convert_isOk level seasons hw
    unfold getTimeWindowsFromJson
    simp only [h, hr, bind, Except.bind, pure, Except.pure]
    rw [seriesLoop_typeError _ _ _ _ _ _ hc]

/-! ### Schedule.dt_to_end_of_time_window (shared with C17) -/

/-- **The scan ends iff some minute of the week is outside**, and then within the driver's fuel.
If `¬ NeverLeaves cur cst` — a core standing time is configured and at least one of the 10080
minute-grid instants of the week after `cur` is neither a no-drive day nor inside a window (holidays
play no role: they are finitely many) — the scan returns `k` minutes for the least `k` whose instant
is outside, `k ≤ dtToEndFuel`, for every fuel ≥ `k`. -/
theorem C15_end_of_window (cur : DateTime) (cst : Option CoreStandingTime) (hwf : CoreWF cst)
    (h : ¬ NeverLeaves cur cst) :
    ∃ k : Nat, k ≤ dtToEndFuel cur cst ∧
      dtWithinCoreStandingTime (cur.add ((k : Int) * usPerMinute)) cst = .ok false ∧
      (∀ i : Nat, i < k →
        dtWithinCoreStandingTime (cur.add ((i : Int) * usPerMinute)) cst = .ok true) ∧
      ∀ fuel, k ≤ fuel → dtToEndOfTimeWindow cur cst fuel = .ok ((k : Int) * usPerMinute) := by
  cases cst with
  | none => exact absurd (Or.inl rfl) h
  | some c =>
    have hex : ∃ r : Nat, r < minutesPerWeek ∧ ¬ WeeklyInside c (cur.add ((r : Int) * usPerMinute)) := by
      by_contra hno
      apply h
      refine Or.inr ⟨c, rfl, fun r hr => ?_⟩
      by_contra hr'
      exact hno ⟨r, hr, hr'⟩
    obtain ⟨r, hr, hout⟩ := hex
    obtain ⟨k0, hk0, hk0out⟩ := exists_outside_within_fuel cur c hwf r hr hout
    obtain ⟨k, hk, hkout, hleast⟩ := exists_least
      (fun i => dtWithinCoreStandingTime (cur.add ((i : Int) * usPerMinute)) (some c) = .ok true)
      (dtToEndFuel cur (some c)) ⟨k0, hk0, by rw [hk0out]; simp⟩
    have hval : ∀ i : Nat, dtWithinCoreStandingTime (cur.add ((i : Int) * usPerMinute)) (some c) ≠ .ok true →
        dtWithinCoreStandingTime (cur.add ((i : Int) * usPerMinute)) (some c) = .ok false := by
      intro i hi
      obtain ⟨b, hb, -⟩ := dtWithinCore_ok (cur.add ((i : Int) * usPerMinute)) c hwf
      rw [hb] at hi ⊢
      cases b with
      | true => exact absurd rfl hi
      | false => rfl
    refine ⟨k, hk, hval k hkout, hleast, fun fuel hf => ?_⟩
    unfold dtToEndOfTimeWindow
    have := dtToEndLoop_ok cur (some c) k (hval k hkout) fuel 0 (Nat.zero_le _) (by omega)
      (fun i _ hi => hleast i hi)
    simpa using this

/-- **The non-terminating configurations, exactly.**  If nothing is configured, or every
minute-grid instant of one week after `cur` is a no-drive day or inside a window (e.g. all seven
weekdays listed, or windows that cover the whole day), the scan never ends: the model reports
exhausted fuel for every fuel.  Together with `C15_end_of_window`: the real loop terminates iff
`¬ NeverLeaves`. -/
theorem C15_end_of_window_never (cur : DateTime) (cst : Option CoreStandingTime) (hwf : CoreWF cst)
    (h : NeverLeaves cur cst) (fuel : Nat) :
    dtToEndOfTimeWindow cur cst fuel = .error .fuel := by
  have hin : ∀ i : Nat, dtWithinCoreStandingTime (cur.add ((i : Int) * usPerMinute)) cst = .ok true := by
    intro i
    rcases h with rfl | ⟨c, rfl, hall⟩
    · rfl
    · obtain ⟨b, hb, hiff⟩ := dtWithinCore_ok (cur.add ((i : Int) * usPerMinute)) c hwf
      have : b = true := hiff.mpr (Or.inl (weeklyInside_all c cur hall i))
      rw [hb, this]
  unfold dtToEndOfTimeWindow
  have := dtToEndLoop_never cur cst hin fuel 0
  simpa using this

/-! ### non-vacuity -/

/-- the test-suite's table: January 2–31, level "lvl": 11:00–11:45 and 22:00–02:00 -/
def exSeasons : List Season :=
  [{ start := 737426, stop := 737455,
     windows := some [("lvl", [(11 * usPerHour, 11 * usPerHour + 45 * usPerMinute),
                               (22 * usPerHour, 2 * usPerHour)])] }]

/-- inclusive start, exclusive end, midnight wrap, season bounds, wrong level -/
example :
    datetimeWithinTimeWindow (DateTime.ofParts 737439 (11 * usPerHour)) exSeasons "lvl" = true ∧
    datetimeWithinTimeWindow (DateTime.ofParts 737439 (11 * usPerHour + 45 * usPerMinute)) exSeasons "lvl" = false ∧
    datetimeWithinTimeWindow (DateTime.ofParts 737439 (2 * usPerHour - 1)) exSeasons "lvl" = true ∧
    datetimeWithinTimeWindow (DateTime.ofParts 737439 (2 * usPerHour)) exSeasons "lvl" = false ∧
    datetimeWithinTimeWindow (DateTime.ofParts 737455 (23 * usPerHour)) exSeasons "lvl" = true ∧
    datetimeWithinTimeWindow (DateTime.ofParts 737456 0) exSeasons "lvl" = false ∧
    datetimeWithinTimeWindow (DateTime.ofParts 737439 (11 * usPerHour)) exSeasons "other" = false := by
  decide

/-- the hypotheses of `C15_window_first_season_decides` / `C15_window_missing_level` are satisfiable:
a first season without the level shadows a later season that has a matching window -/
example :
    let s1 : Season := { start := 737426, stop := 737455, windows := some [("HV", [(0, 1)])] }
    let dt := DateTime.ofParts 737439 (11 * usPerHour)
    s1.contains dt ∧ (∃ w, s1.windows = some w ∧ w.lookup "lvl" = none) ∧
      datetimeWithinTimeWindow dt exSeasons "lvl" = true ∧
      datetimeWithinTimeWindow dt (s1 :: exSeasons) "lvl" = false := by
  refine ⟨by decide, ⟨_, rfl, by decide⟩, by decide, by decide⟩

/-- `CoreWF` is satisfiable by a non-trivial configuration, and all four outcomes occur:
no-drive day, holiday, wrapping window, outside; a malformed tuple raises only when it is reached. -/
example :
    let c : CoreStandingTime := { noDriveDays := some [5, 6], holidays := some [737425],
                                  times := some [⟨some [22, 0], some [5, 30]⟩] }
    c.WF ∧
    dtWithinCoreStandingTime (DateTime.ofParts 737428 (12 * usPerHour)) (some c) = .ok true ∧   -- Saturday
    dtWithinCoreStandingTime (DateTime.ofParts 737425 (12 * usPerHour)) (some c) = .ok true ∧   -- holiday
    dtWithinCoreStandingTime (DateTime.ofParts 737426 (5 * usPerHour)) (some c) = .ok true ∧
    dtWithinCoreStandingTime (DateTime.ofParts 737426 (5 * usPerHour + 30 * usPerMinute)) (some c) = .ok false ∧
    dtWithinCoreStandingTime (DateTime.ofParts 737426 0)
      (some { times := some [⟨some [22, 0], some [5, 30]⟩, ⟨some [24, 0], some [5, 0]⟩] }) = .ok true ∧
    dtWithinCoreStandingTime (DateTime.ofParts 737426 (12 * usPerHour))
      (some { times := some [⟨some [22, 0], some [5, 30]⟩, ⟨some [24, 0], some [5, 0]⟩] }) = .error .valueError ∧
    dtWithinCoreStandingTime (DateTime.ofParts 737426 (12 * usPerHour))
      (some { times := some [⟨some [22, 0], none⟩] }) = .error .keyError := by
  refine ⟨?_, by decide, by decide, by decide, by decide, by decide, by decide, by decide⟩
  intro w hw
  simp only [Option.getD_some, List.mem_singleton] at hw
  subst hw
  exact ⟨(79200000000, 19800000000), by decide⟩

/-- the series of the test-suite (`11:11:11` + 11 × 15 min, windows as above): 11 entries, the first
three inside; and a stop that is not a multiple of the interval gives the ceiling -/
example :
    getTimeWindowsFromJson [("operator", exSeasons)] "operator" "lvl"
      (DateTime.ofParts 737435 40271000000) (DateTime.ofParts 737435 50171000000) (15 * usPerMinute) 11
      = .ok [true, true, true, false, false, false, false, false, false, false, false] ∧
    seriesLength (DateTime.ofParts 737435 40271000000) (DateTime.ofParts 737435 50171000000)
      (15 * usPerMinute) = 11 ∧
    seriesLength (DateTime.ofParts 737435 0) (DateTime.ofParts 737435 (15 * usPerMinute + 1))
      (15 * usPerMinute) = 2 := by
  decide

/-- both cases of the end-of-window scan occur: a scan started on the inclusive end 13:00 of a
10:00–13:00 window ends after one minute; all seven weekdays no-drive never ends -/
example :
    dtToEndOfTimeWindow (DateTime.ofParts 737426 (13 * usPerHour))
      (some { noDriveDays := some [5, 6], times := some [⟨some [10, 0], some [13, 0]⟩] }) 10 =
        .ok (1 * usPerMinute) ∧
    NeverLeaves (DateTime.ofParts 737426 0) (some { noDriveDays := some [0, 1, 2, 3, 4, 5, 6] }) := by
  refine ⟨by decide, Or.inr ⟨_, rfl, fun r _ => Or.inl ?_⟩⟩
  have := DateTime.weekday_range ((DateTime.ofParts 737426 0).add ((r : Int) * usPerMinute))
  simp only [Option.getD_some, List.mem_cons, List.not_mem_nil, or_false]
  omega

end SpiceEv
