/-
C14 — delegation of `Distributed.step`, stated against the SPECIFICATION of the delegated rule.

`C14_distributed_deps_is_substep` / `…_opps_is_substep` (C14_Distributed.lean) say that the treatment of a depot /
opportunity connector IS `ruleStep` (the transliterated greedy / balanced step) on the connector's virtual world.
With `C10_ruleStep_refines_spec` and the well-formedness of the virtual world (distinct candidates ⇒ distinct
connected vehicles, distinct battery ids, a priced connector) the treatment is the DOCUMENTED rule
`RuleSpec.specStep` (Model/RuleSpec.lean) on that virtual world.
-/
import SpiceEv.Proofs.RuleSpecDistributed
import SpiceEv.Properties.C14_Distributed
import SpiceEv.Properties.C10_Spec
set_option linter.unusedSectionVars false
set_option linter.unusedVariables false
namespace SpiceEv
open SpiceEv.Distrib
variable {α : Type} [Field α] [LinearOrder α] [IsStrictOrderedRing α]

/-- **At a depot connector the step is the documented rule.** Under the hypotheses of
`C14_distributed_deps_is_substep`, distinct candidates, distinct battery ids of the connector and a priced connector:
the treatment of the connector is `specStep` of the depot sub-strategy (balanced by default) on the virtual world,
followed by writing the returned objects back. -/
theorem C14_distributed_deps_is_spec {B : Type} (dops : DOps α B) (de : DEnv α) (hd : de.deps.isRule)
    (ncs : List (String × Option Int)) (conn : List (String × List String)) (lk : Look α)
    (w : SWorld α B) (ini : DInit α) (acc : List (String × α)) (gcId : String)
    (gc : GcS α) (cands : List String) (cvs : List (VehicleS α B)) (stations : List (StationS α))
    (hgc : w.gc? gcId = some gc) (hk : sdGet ini.strategies gcId = some Kind.deps)
    (hc : candidates w ncs conn gcId = .ok cands) (hcv : connectedAt w gcId cands = .ok cvs)
    (hne : (cvs.isEmpty && ((sdGet ini.gcBattery gcId).getD []).isEmpty) = false)
    (hs : subStations w cvs = .ok stations)
    (hcn : cands.Nodup) (hbn : ((sdGet ini.gcBattery gcId).getD []).Nodup) (hprice : gc.cost ≠ none) :
    stepGc dops de ncs conn lk (w, ini, acc) gcId =
      (RuleSpec.specStep de.deps.rule dops.bat
          ⟨de.deps.eps, de.deps.priceThreshold, de.deps.tsPerHour, de.env.now, de.deps.interval⟩
          ⟨[gc], stations, cvs, depotBatteries w ((sdGet ini.gcBattery gcId).getD [])⟩ >>= fun r =>
        .ok (mergeDeps w (syncStations r.1) stations cvs, ini, sdUpdate acc r.2)) := by
  rw [(C14_distributed_deps_is_substep dops de hd ncs conn lk w ini acc gcId gc cands cvs stations
    hgc hk hc hcv hne hs).1,
    C10_ruleStep_refines_spec _ _ _ _ (RuleSpec.virtualWorld_wf w gcId gc cands cvs stations _ hcv hcn hbn hprice)]

/-- non-vacuity: the depot connector GC2 of `toyState` (one vehicle, no battery, priced) satisfies every hypothesis -/
example : ∃ gc cands cvs stations,
    toyState.world.gc? "GC2" = some gc ∧ sdGet toyState.init.strategies "GC2" = some Kind.deps ∧
    candidates toyState.world toyState.numberCs toyState.connected "GC2" = .ok cands ∧
    connectedAt toyState.world "GC2" cands = .ok cvs ∧
    (cvs.isEmpty && ((sdGet toyState.init.gcBattery "GC2").getD []).isEmpty) = false ∧
    subStations toyState.world cvs = .ok stations ∧
    cands.Nodup ∧ ((sdGet toyState.init.gcBattery "GC2").getD []).Nodup ∧ gc.cost ≠ none :=
  ⟨_, _, _, _, rfl, rfl, rfl, rfl, rfl, rfl, by decide, by decide, by simp⟩

/-- **At an opportunity connector without stationary battery the step is the documented rule.** Whenever the
treatment returns, it ran `specStep` of the opportunity sub-strategy (greedy by default) on the virtual world of the
connector; the appended commands are the specification's commands, the connector afterwards is the one it returned. -/
theorem C14_distributed_opps_is_spec {B : Type} (dops : DOps α B) (de : DEnv α) (ho : de.opps.isRule)
    (ncs : List (String × Option Int)) (conn : List (String × List String)) (lk : Look α)
    (w : SWorld α B) (ini : DInit α) (acc : List (String × α)) (gcId : String)
    (gc : GcS α) (cands : List String) (cvs : List (VehicleS α B)) (stations : List (StationS α))
    (hgc : w.gc? gcId = some gc) (hk : sdGet ini.strategies gcId = some Kind.opps)
    (hc : candidates w ncs conn gcId = .ok cands) (hcv : connectedAt w gcId cands = .ok cvs)
    (hb : (sdGet ini.gcBattery gcId).getD [] = []) (hne : cvs.isEmpty = false)
    (hs : subStations w cvs = .ok stations) (hcn : cands.Nodup) (hprice : gc.cost ≠ none)
    (w' : SWorld α B) (ini' : DInit α) (acc' : List (String × α))
    (h : stepGc dops de ncs conn lk (w, ini, acc) gcId = .ok (w', ini', acc')) :
    ∃ vw' cmds g1, RuleSpec.specStep de.opps.rule dops.bat (de.opps.env de.env.now) ⟨[gc], stations, cvs, []⟩
        = .ok (vw', cmds) ∧
      vw'.gcs = [g1] ∧ acc' = sdUpdate acc cmds ∧ g1 ∈ w'.gcs ∧ (∀ g' ∈ w'.gcs, g'.id = gcId → g' = g1) ∧
      w'.batteries = w.batteries := by
  obtain ⟨vw', cmds, g1, h1, h2⟩ := C14_distributed_opps_is_substep dops de ho ncs conn lk w ini acc gcId gc cands
    cvs stations hgc hk hc hcv hb hne hs w' ini' acc' h
  have wf : RuleSpec.WF (⟨[gc], stations, cvs, []⟩ : SWorld α B) := by
    have := RuleSpec.virtualWorld_wf w gcId gc cands cvs stations [] hcv hcn List.nodup_nil hprice
    simpa [depotBatteries] using this
  rw [C10_ruleStep_refines_spec _ _ _ _ wf] at h1
  exact ⟨vw', cmds, g1, h1, h2⟩

/-- non-vacuity: `toyState` without the battery entry — GC1 is an opportunity connector with vehicle v1, priced, and
its treatment returns -/
example : ∃ gc cands cvs stations,
    toyState.world.gc? "GC1" = some gc ∧ sdGet toyState.init.strategies "GC1" = some Kind.opps ∧
    candidates toyState.world toyState.numberCs toyState.connected "GC1" = .ok cands ∧
    connectedAt toyState.world "GC1" cands = .ok cvs ∧ cvs.isEmpty = false ∧
    subStations toyState.world cvs = .ok stations ∧ cands.Nodup ∧ gc.cost ≠ none ∧
    (stepGc (toyDOps 5) toyEnv toyState.numberCs toyState.connected ⟨[("GC1", []), ("GC2", [])], []⟩
      (toyState.world, { toyState.init with gcBattery := [] }, []) "GC1").toBool = true :=
  ⟨_, _, _, _, rfl, rfl, rfl, rfl, rfl, rfl, by decide, by simp, by decide +kernel⟩

end SpiceEv
