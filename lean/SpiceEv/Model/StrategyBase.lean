/-
Model of `Strategy.__init__` and `Strategy.step` (spice_ev/strategy.py: the event loop of the base
class), of the component attributes it touches (spice_ev/components.py) and of the first
`try/except` of `Scenario.run` (spice_ev/scenario.py), transliterated statement by statement.

* Python objects are mutated in place and an exception leaves the mutations made so far, so every
  function that can raise returns the state reached **and** `Option PyErr` (not `Except`, which
  would drop the state; `Strat.stepPy` is the `Except` view).
* dicts are insertion-ordered association lists (`alSet` = `d[k] = v`, `alErase` = `del d[k]`).
* `raise Exception("Unknown event type")` is not reachable: the four classes below are the only
  ones `Events` constructs from JSON/CSV input.
* generic in the number type `α` of powers, SoCs, `EPS`, `margin` (run on `Rat` in the driver).
-/
import SpiceEv.Py
import SpiceEv.Model.Events
namespace SpiceEv

/-! ### insertion-ordered dict -/

def alGet? {β : Type} (k : String) : List (String × β) → Option β
  | [] => none
  | (k', v) :: rest => if k' = k then some v else alGet? k rest

def alHas {β : Type} (k : String) (l : List (String × β)) : Bool := (alGet? k l).isSome

/-- `d[k] = v`: overwrite in place, or append -/
def alSet {β : Type} (k : String) (v : β) : List (String × β) → List (String × β)
  | [] => [(k, v)]
  | (k', v') :: rest => if k' = k then (k, v) :: rest else (k', v') :: alSet k v rest

/-! ### components -/

/-- `GridConnector`: the attributes `Strategy.step` reads or writes -/
structure Connector (α : Type) where
  maxPower : α
  curMaxPower : Option α          -- `None` after a limit-less signal on a connector without rating
  cost : Cost α
  target : Option α
  window : Option Bool
  loads : List (String × α)       -- `current_loads`
  deriving Repr

/-- `GridConnector.__init__`: `self.cur_max_power = self.max_power` -/
def Connector.new {α : Type} (maxPower : α) (cost : Cost α) (target : Option α)
    (window : Option Bool) (loads : List (String × α)) : Connector α :=
  { maxPower, curMaxPower := some maxPower, cost, target, window, loads }

structure Station (α : Type) where
  maxPower : α
  parent : String
  deriving Repr

/-- `Vehicle`: the attributes `Strategy.step` reads or writes; `soc` is `vehicle.battery.soc`,
`socDelta = none` ⇔ `not hasattr(vehicle, 'soc_delta')` -/
structure Vehicle (α : Type) where
  station : Option String
  eta : Option Int
  etd : Option Int
  desired : α
  soc : α
  socDelta : Option α
  schedule : Option α
  deriving Repr

/-- `world_state` (stationary batteries: only their names are used by the base step) -/
structure World (α : Type) where
  connectors : List (String × Connector α)
  stations : List (String × Station α)
  vehicles : List (String × Vehicle α)
  batteries : List String
  queue : List (Event α)          -- `future_events`

/-- options of `Strategy.__init__` that the base step reads -/
structure Cfg (α : Type) where
  interval : Int
  eps : α
  margin : α
  allowNeg : Bool                 -- truthiness of `ALLOW_NEGATIVE_SOC`
  resetNeg : Bool                 -- truthiness of `RESET_NEGATIVE_SOC`

/-- the strategy object: world state, clock and bookkeeping.  The tracker stores the step time
(Python stores `str(self.current_time)`). -/
structure Strat (α : Type) where
  world : World α
  now : Int
  tracker : List (String × List Int)
  desiredCounter : Nat
  marginCounter : Nat

section
variable {α : Type} [Add α] [Sub α] [Mul α] [Neg α] [LT α] [LE α]
  [DecidableLT α] [DecidableLE α] [OfNat α 0] [OfNat α 1]

/-- `Strategy.__init__(components, start_time, interval=…, CONCURRENCY=…)`:
`ts_per_hour = timedelta(hours=1) / interval` raises for a zero interval; station powers are scaled;
the clock starts one interval early. -/
def Strat.init (w : World α) (start interval : Int) (concurrency : α) : Py (Strat α) :=
  if interval = 0 then .error .zeroDivision
  else .ok {
    world := { w with
      stations := w.stations.map (fun (n, cs) => (n, { cs with maxPower := concurrency * cs.maxPower }))
      queue := [] }
    now := start - interval
    tracker := []
    desiredCounter := 0
    marginCounter := 0 }

/-- `for k, v in ev.update.items(): setattr(vehicle, k, v)` -/
def Vehicle.applyUpdate (v : Vehicle α) (u : VehUpdate α) : Vehicle α :=
  { station := match u.station with | some x => x | none => v.station
    eta := match u.eta with | some x => x | none => v.eta
    etd := match u.etd with | some x => x | none => v.etd
    desired := match u.desired with | some x => x | none => v.desired
    soc := v.soc
    socDelta := match u.socDelta with | some x => some x | none => v.socDelta
    schedule := match u.schedule with | some x => some x | none => v.schedule }

def Strat.setConnector (s : Strat α) (gc : String) (c : Connector α) : Strat α :=
  { s with world := { s.world with connectors := alSet gc c s.world.connectors } }

def Strat.setVehicle (s : Strat α) (vid : String) (v : Vehicle α) : Strat α :=
  { s with world := { s.world with vehicles := alSet vid v s.world.vehicles } }

/-- `self.negative_soc_tracker[vid].append(str(now))` with the `KeyError` fallback -/
def trackerAdd (vid : String) (now : Int) (t : List (String × List Int)) : List (String × List Int) :=
  match alGet? vid t with
  | some l => alSet vid (l ++ [now]) t
  | none => alSet vid [now] t

/-- the `GridOperatorSignal` branch on a known connector -/
def Connector.applySignal (c : Connector α) (maxPower : Option α) (cost : Option (Cost α))
    (target : Option α) (window : Option Bool) : Connector α :=
  let c := match cost with | some k => { c with cost := k } | none => c
  let c := match target with | some t => { c with target := some t } | none => c
  let c := match window with | some w => { c with window := some w } | none => c
  if !(isZero c.maxPower) then                       -- `if connector.max_power:`
    match maxPower with
    | some m => { c with curMaxPower := some (pymin c.maxPower m) }
    | none => c
  else { c with curMaxPower := maxPower }            -- connector max power not set

/-- the `departure` branch (after `setattr` of the update) -/
def departVehicle (cfg : Cfg α) (s : Strat α) (evStart : Int) (isConnected : Bool) (v : Vehicle α) :
    Vehicle α × Nat × Nat :=
  let v := { v with etd := none }
  let v := if evStart < s.now - cfg.interval then { v with soc := v.desired } else v
  let dc := if isConnected && decide (v.soc < v.desired - cfg.eps) then s.desiredCounter + 1
            else s.desiredCounter
  let mc := if isConnected && decide (0 ≤ v.soc) && decide (v.soc < (1 - cfg.margin) * v.desired - cfg.eps)
            then s.marginCounter + 1 else s.marginCounter
  ({ v with station := none }, dc, mc)

/-- `type(ev) is events.FixedLoad` branch -/
def applyFixedLoad (s : Strat α) (name gc : String) (value : α) : Strat α × Option PyErr :=
  match alGet? gc s.world.connectors with
  | none => (s, none)                                             -- `continue`
  | some c =>
    if alHas name s.world.stations then (s, some .assertion)
    else (s.setConnector gc { c with loads := alSet name value c.loads }, none)

/-- `type(ev) is events.LocalEnergyGeneration` branch (the assertion comes *before* the lookup) -/
def applyLocalGen (s : Strat α) (name gc : String) (value : α) : Strat α × Option PyErr :=
  if alHas name s.world.stations then (s, some .assertion)
  else
    match alGet? gc s.world.connectors with
    | none => (s, none)
    | some c => (s.setConnector gc { c with loads := alSet name (-value) c.loads }, none)

/-- `type(ev) is events.GridOperatorSignal` branch -/
def applyGridSignal (s : Strat α) (gc : String) (maxPower : Option α) (cost : Option (Cost α))
    (target : Option α) (window : Option Bool) : Strat α × Option PyErr :=
  match alGet? gc s.world.connectors with
  | none => (s, none)
  | some c => (s.setConnector gc (c.applySignal maxPower cost target window), none)

/-- the `arrival` branch (after `setattr` of the update; `v` is the updated vehicle) -/
def arriveVehicle (cfg : Cfg α) (s : Strat α) (vid : String) (v : Vehicle α) : Strat α × Option PyErr :=
  match v.socDelta with
  | none => (s.setVehicle vid v, some .assertion)             -- `assert hasattr(vehicle, 'soc_delta')`
  | some d =>
    let v := { v with soc := v.soc + d }
    if v.soc + cfg.eps < 0 then
      let s := { s with tracker := trackerAdd vid s.now s.tracker }
      if cfg.allowNeg then
        let v := if cfg.resetNeg then { v with soc := 0 } else v
        (s.setVehicle vid { v with socDelta := none }, none)
      else (s.setVehicle vid v, some .runtime)
    else (s.setVehicle vid { v with socDelta := none }, none)

/-- `type(ev) is events.VehicleEvent` branch -/
def applyVehicleEvent (cfg : Cfg α) (s : Strat α) (evStart : Int) (vid : String) (kind : VehKind)
    (upd : VehUpdate α) : Strat α × Option PyErr :=
  match alGet? vid s.world.vehicles with
  | none => (s, none)                                             -- skip events without vehicle
  | some v0 =>
    let isConnected := v0.station.isSome
    let v := v0.applyUpdate upd
    match kind with
    | .departure =>
      let r := departVehicle cfg s evStart isConnected v
      ({ s.setVehicle vid r.1 with desiredCounter := r.2.1, marginCounter := r.2.2 }, none)
    | .arrival => arriveVehicle cfg s vid v
    | .other => (s.setVehicle vid v, none)

/-- body of the `while` loop of `Strategy.step` for the popped event `ev` (`s.now` is
`self.current_time`).  `(state, none)` also covers the `continue` statements. -/
def applyEvent (cfg : Cfg α) (s : Strat α) (ev : Event α) : Strat α × Option PyErr :=
  match ev.kind with
  | .fixedLoad name gc value => applyFixedLoad s name gc value
  | .localGen name gc value => applyLocalGen s name gc value
  | .gridSignal gc maxPower cost target window => applyGridSignal s gc maxPower cost target window
  | .vehicle vid kind upd => applyVehicleEvent cfg s ev.start vid kind upd

/-- result of the `while` loop: state, the events popped (in order, including one that raised),
the events left in `future_events`, the exception -/
structure QResult (α : Type) where
  strat : Strat α
  popped : List (Event α)
  rest : List (Event α)
  err : Option PyErr

/-- the `while True:` loop over the sorted `future_events` -/
def processQueue (cfg : Cfg α) (s : Strat α) : List (Event α) → QResult α
  | [] => ⟨s, [], [], none⟩
  | ev :: rest =>
    if s.now < ev.start then ⟨s, [], ev :: rest, none⟩          -- ignore future events
    else
      match applyEvent cfg s ev with
      | (s', some e) => ⟨s', [ev], rest, some e⟩
      | (s', none) =>
        let r := processQueue cfg s' rest
        ⟨r.strat, ev :: r.popped, r.rest, r.err⟩

/-- `for load_name in list(connector.current_loads.keys()): …` — a name that is both a charging
station and a battery is deleted twice (`KeyError`) -/
def resetLoads (isStation isBattery : String → Bool) :
    List (String × α) → List (String × α) × Option PyErr
  | [] => ([], none)
  | (k, v) :: rest =>
    if isStation k then
      if isBattery k then (rest, some .keyError)
      else resetLoads isStation isBattery rest
    else if isBattery k then resetLoads isStation isBattery rest
    else
      let r := resetLoads isStation isBattery rest
      ((k, v) :: r.1, r.2)

/-- `not connector.cost` -/
def Cost.falsy : Cost α → Bool
  | .empty => true
  | _ => false

/-- the `for name, connector in grid_connectors.items()` loop after the event loop -/
def resetConnectors (isStation isBattery : String → Bool) :
    List (String × Connector α) → List (String × Connector α) × Option PyErr
  | [] => ([], none)
  | (name, c) :: rest =>
    let (loads', e) := resetLoads isStation isBattery c.loads
    let c' := { c with loads := loads' }
    match e with
    | some err => ((name, c') :: rest, some err)
    | none =>
      if c'.cost.falsy && c'.target.isNone then ((name, c') :: rest, some .exception)
      else
        let r := resetConnectors isStation isBattery rest
        ((name, c') :: r.1, r.2)

/-- `future_events.sort(key=lambda ev: ev.start_time)` (stable) -/
def sortByStart (l : List (Event α)) : List (Event α) :=
  l.mergeSort (fun a b => decide (a.start ≤ b.start))

structure StepResult (α : Type) where
  strat : Strat α
  popped : List (Event α)
  err : Option PyErr

/-- `self.current_time += self.interval` -/
def Strat.tick (cfg : Cfg α) (s : Strat α) : Strat α := { s with now := s.now + cfg.interval }

/-- what `Strategy.step` does after the `while` loop ended with `r` (an exception propagates, else
the connector loop runs) -/
def finishStep (r : QResult α) : StepResult α :=
  let s : Strat α := { r.strat with world := { r.strat.world with queue := r.rest } }
  match r.err with
  | some e => ⟨s, r.popped, some e⟩
  | none =>
    let rc := resetConnectors (fun k => alHas k s.world.stations) (fun k => s.world.batteries.contains k)
      s.world.connectors
    ⟨{ s with world := { s.world with connectors := rc.1 } }, r.popped, rc.2⟩

/-- `Strategy.step(event_list)` of the base class -/
def Strat.step (cfg : Cfg α) (s : Strat α) (eventList : List (Event α)) : StepResult α :=
  finishStep (processQueue cfg (s.tick cfg) (sortByStart (s.world.queue ++ eventList)))

/-- `Except` view of `Strat.step` -/
def Strat.stepPy (cfg : Cfg α) (s : Strat α) (eventList : List (Event α)) : Py (Strat α) :=
  match (s.step cfg eventList).err with
  | some e => .error e
  | none => .ok (s.step cfg eventList).strat

/-- Result of the simulation loop of `Scenario.run` as far as event processing is concerned:
final strategy object, latched `error`, `step_i` after the loop, and the sequence of states right
after each executed base step. -/
structure RunResult (α : Type) where
  strat : Strat α
  error : Option PyErr
  stepI : Nat
  trace : List (StepResult α)

/-- The `for step_i in range(n_intervals)` loop of `Scenario.run`, reduced to what concerns the
base step: `try: super(type(strat), strat).step(event_steps[step_i]) except Exception: error = …`,
then the rest of the iteration (`rest`: the strategy's own step — called only `if error is None` —,
battery losses, monitor; it may itself set the error), then `if error is not None: break`.
`restOnError` is what the iteration still does when event processing failed (losses, bookkeeping). -/
def runLoop (cfg : Cfg α) (rest : Strat α → Strat α × Option PyErr) (restOnError : Strat α → Strat α) :
    Strat α → List (List (Event α)) → RunResult α
  | s, [] => ⟨s, none, 0, []⟩
  | s, bucket :: buckets =>
    let r := s.step cfg bucket
    match r.err with
    | some e => ⟨restOnError r.strat, some e, 1, [r]⟩
    | none =>
      match rest r.strat with
      | (s', some e) => ⟨s', some e, 1, [r]⟩
      | (s', none) =>
        let rr := runLoop cfg rest restOnError s' buckets
        ⟨rr.strat, rr.error, rr.stepI + 1, r :: rr.trace⟩

end
end SpiceEv
