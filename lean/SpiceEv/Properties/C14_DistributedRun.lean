/-
C14 at the level of a RUN — "for connectors without local generation, V2G or stationary batteries, the distributed
strategy produces exactly the balanced result at depot stations and exactly the greedy result at opportunity-charging
stations; each connector's result is independent of the other connectors".

Model: `runD` (Model/StratDistributedRun.lean) = `Distributed.step` (Model/StratDistributed.lean, tied to the code
step by step at the bit level) iterated over the steps of a period; what the simulation loop hands to a step (`StepIn`:
options, clock, the connectors after event processing, the effect of the step's vehicle events on each vehicle object,
the visible arrival events) is data.  `runSub kind` = a stand-alone `Greedy` / `Balanced` object with the options of the
sub-strategy of station type `kind` (`strategy_deps` — balanced by default — for `kind = deps`, `strategy_opps` —
greedy by default — for `kind = opps`; `ruleStep`, the model of C10) iterated over the same steps on a world of its own.
`part σ w` (Proofs/StrategiesFrame.lean) is the part of a world that belongs to connector `σ.g`: the connector, its
stations `σ.S`, the vehicles `σ.V` that use them (connected now or not), i.e. the scenario restricted to that connector.

Premises: `StateOK` (ids unique; a station is selected iff it hangs on `σ.g`; a connected vehicle is selected iff its
station is; no stationary battery; no V2G vehicle; `σ.g` without `number_cs`, of station type `kind`; `gc_battery`
empty) on the strategy object at the beginning, `InOK` on every step's input (connector ids unique; no negative entry
at any connector = no generation; the base step removed the entries under `σ.g`'s station ids; `σ.g` exists and has a
price; both sub-strategies are greedy / balanced objects; tolerance ≥ 0; vehicle events keep ids and the vehicle
premises), and the battery contract `BatLaw`.
-/
import SpiceEv.Proofs.StratDistributedRunToy
set_option linter.unusedSectionVars false
set_option linter.unusedVariables false
namespace SpiceEv
open SpiceEv.Distrib SpiceEv.Frame SpiceEv.DistRun
variable {α : Type} [Field α] [LinearOrder α] [IsStrictOrderedRing α]

/-- **One step is the delegated step.** Whenever `Distributed.step` returns on a world that meets the premises
(`StepHyp`), the stand-alone greedy / balanced step — options of the sub-strategy of the connector's station type, same
clock — on the connector's part of the world returns as well; its result is the connector's part of the world after the
distributed step (connector loads, station powers, vehicle batteries — idle stations and unconnected vehicles
included), its commands are exactly the distributed step's commands for the connector's stations.  The world stays
well-formed; `number_cs`, `gc_battery`, station types are kept. -/
theorem C14_distributed_step_is_delegated {B : Type} (σ : Sel) (kind : Kind) (dops : DOps α B)
    (law : BatLaw dops.bat) (de : DEnv α) (s s' : DState α B) (cmds : List (String × α))
    (hh : StepHyp σ kind de s) (h : step dops de s = .ok (s', cmds)) :
    ruleStep (de.sub kind).rule dops.bat ((de.sub kind).env de.env.now) (part σ s.world)
        = .ok (part σ s'.world, cmds.filter (fun kv => σ.S.contains kv.1)) ∧
      WF σ s'.world ∧ s'.world.gcs.map (·.id) = s.world.gcs.map (·.id) ∧
      s'.numberCs = s.numberCs ∧ s'.init.gcBattery = s.init.gcBattery ∧
      s'.init.strategies = s.init.strategies :=
  step_proj' σ kind dops law de s s' cmds hh h

/-- **The run is the delegated run.** Whenever the distributed strategy gets through the steps `ins` of a run — any
number of steps, arrivals and departures between them —, the stand-alone balanced (depot) / greedy (opportunity)
strategy gets through the same steps on the scenario restricted to the connector, and at EVERY step the connector's
part of the distributed world (loads, station powers, SoCs) and the commands for its stations are the stand-alone
strategy's world and commands. -/
theorem C14_distributed_run_is_delegated {B : Type} (σ : Sel) (kind : Kind) (dops : DOps α B)
    (law : BatLaw dops.bat) (ins : List (StepIn α B)) (s : DState α B)
    (trace : List (DState α B × List (String × α)))
    (hs : StateOK σ kind s) (hi : ∀ i ∈ ins, InOK σ i) (h : runD dops s ins = .ok trace) :
    runSub kind dops.bat (part σ s.world) (ins.map (StepIn.restrict σ.g))
      = .ok (trace.map (fun r => (part σ r.1.world, r.2.filter (fun kv => σ.S.contains kv.1)))) :=
  runD_proj σ kind dops law ins s trace hs hi h

/-- **The run, object by object.** Under the premises of `C14_distributed_run_is_delegated`: the stand-alone run returns
a trace of the same length, and at every step the connector `σ.g` (limit, price, every load entry), every station of the
connector (its power), every vehicle of the connector (its battery, SoC) and every command for one of the connector's
stations are the same objects in both runs. -/
theorem C14_distributed_run_same_objects {B : Type} (σ : Sel) (kind : Kind) (dops : DOps α B)
    (law : BatLaw dops.bat) (ins : List (StepIn α B)) (s : DState α B)
    (trace : List (DState α B × List (String × α)))
    (hs : StateOK σ kind s) (hi : ∀ i ∈ ins, InOK σ i) (h : runD dops s ins = .ok trace) :
    ∃ traceR, runSub kind dops.bat (part σ s.world) (ins.map (StepIn.restrict σ.g)) = .ok traceR ∧
      List.Forall₂ (SameAtGc σ) trace traceR :=
  ⟨_, runD_proj σ kind dops law ins s trace hs hi h, sameAtGc_map σ trace⟩

/-- **Independence over a run.** Two distributed runs whose worlds agree on connector `σ.g`'s part at the beginning
and whose step inputs agree at `σ.g` (`SameAt`: sub-strategy options, clock, the connector object, the events of the
selected vehicles) — whatever else they contain: other connectors, their stations, vehicles, loads, prices, limits,
events — produce at every step the same part at `σ.g` and the same commands for its stations. -/
theorem C14_distributed_run_independent {B : Type} (σ : Sel) (kind : Kind) (dops : DOps α B)
    (law : BatLaw dops.bat) (ins1 ins2 : List (StepIn α B)) (s1 s2 : DState α B)
    (t1 t2 : List (DState α B × List (String × α)))
    (hs1 : StateOK σ kind s1) (hs2 : StateOK σ kind s2)
    (hi1 : ∀ i ∈ ins1, InOK σ i) (hi2 : ∀ i ∈ ins2, InOK σ i)
    (hsame : List.Forall₂ (SameAt σ kind) ins1 ins2) (hpart : part σ s1.world = part σ s2.world)
    (h1 : runD dops s1 ins1 = .ok t1) (h2 : runD dops s2 ins2 = .ok t2) :
    t1.map (fun r => (part σ r.1.world, r.2.filter (fun kv => σ.S.contains kv.1)))
      = t2.map (fun r => (part σ r.1.world, r.2.filter (fun kv => σ.S.contains kv.1))) :=
  runD_independent σ kind dops law ins1 ins2 s1 s2 t1 t2 hs1 hs2 hi1 hi2 hsame hpart h1 h2

/-- **The stand-alone step ignores what the virtual world leaves out.** If `Greedy.step` / `Balanced.step` returns on a
sub-world `t` of `X` (same connectors, no batteries, the vehicles selected by `p` — every other vehicle of `X` is
unconnected —, some of `X`'s stations), it returns on `X` with the same commands, and its result is `t'` laid over
`X` with the idle stations reset. -/
theorem C14_substep_ignores_idle {B : Type} (p : String → Bool) (rule : Rule) (ops : BatOps α B)
    (env : StratEnv α) (X t t' : SWorld α B) (cmds : List (String × α)) (hs : Sub p X t)
    (h : ruleStep rule ops env t = .ok (t', cmds)) :
    ruleStep rule ops env X = .ok (overlay (resetStations X) t', cmds) :=
  ruleStep_embed p rule ops env X t t' cmds hs h

/-- **Under the property's premise the final surplus pass of `Distributed.step` does nothing**: no connector with a
negative entry (no generation), no V2G vehicle, tolerance ≥ 0 ⇒ world and commands come back unchanged. -/
theorem C14_distributed_final_pass_noop {B : Type} (ops : BatOps α B) (env : StratEnv α) (heps : 0 ≤ env.eps)
    (w w' : SWorld α B) (ids : List String) (cmds' : List (String × α)) (hn : NonNegW w) (hv : NoV2G w)
    (h : distributeSurplusOn ops env w ids = .ok (w', cmds')) : w' = w ∧ cmds' = [] :=
  finalPass_id ops env heps w w' ids cmds' hn hv h

/-- Non-vacuity of the run theorem (two connectors, two steps, depot connector GC2 / balanced): the premises hold for
`runState 4 (1/5)` and `runIns 4`, the distributed run returns (kernel-evaluated on ℚ), hence the stand-alone balanced
run on GC2's part returns with the projected trace. -/
example : ∃ trace, runD runDOps (runState 4 (1/5)) (runIns 4) = .ok trace ∧ trace.length = 2 ∧
    runSub .deps runOps (part selGC2 (runState 4 (1/5)).world) ((runIns 4).map (StepIn.restrict "GC2"))
      = .ok (trace.map (fun r => (part selGC2 r.1.world, r.2.filter (fun kv => selGC2.S.contains kv.1)))) := by
  obtain ⟨trace, h⟩ := toBool_ok _ runToy_returns
  refine ⟨trace, h, ?_, C14_distributed_run_is_delegated selGC2 .deps runDOps runOps_law (runIns 4) _ trace
    (runState_ok2 4 (1/5)) (runIns_ok selGC2 (Or.inr rfl) 4 (by norm_num)) h⟩
  have hl : ∀ (ins : List (StepIn ℚ ℚ)) (s : DState ℚ ℚ) t, runD runDOps s ins = .ok t → t.length = ins.length := by
    intro ins
    induction ins with
    | nil => intro s t h; simp only [runD, Except.ok.injEq] at h; subst h; rfl
    | cons i ins ih =>
      intro s t h
      simp only [runD, bind, Except.bind] at h
      split at h
      · cases h
      · split at h
        · cases h
        · rename_i tl htl
          simp only [Except.ok.injEq] at h
          subst h
          simp [ih _ _ htl]
  exact hl _ _ _ h

/-- Non-vacuity of the object-by-object form: same instance. -/
example : ∃ trace, runD runDOps (runState 4 (1/5)) (runIns 4) = .ok trace ∧
    ∃ traceR, runSub .deps runOps (part selGC2 (runState 4 (1/5)).world) ((runIns 4).map (StepIn.restrict "GC2"))
      = .ok traceR ∧ List.Forall₂ (SameAtGc selGC2) trace traceR := by
  obtain ⟨trace, h⟩ := toBool_ok _ runToy_returns
  exact ⟨trace, h, C14_distributed_run_same_objects selGC2 .deps runDOps runOps_law (runIns 4) _ trace
    (runState_ok2 4 (1/5)) (runIns_ok selGC2 (Or.inr rfl) 4 (by norm_num)) h⟩

/-- the same at the opportunity connector GC1 (greedy) -/
example : ∃ trace, runD runDOps (runState 4 (1/5)) (runIns 4) = .ok trace ∧
    runSub .opps runOps (part selGC1 (runState 4 (1/5)).world) ((runIns 4).map (StepIn.restrict "GC1"))
      = .ok (trace.map (fun r => (part selGC1 r.1.world, r.2.filter (fun kv => selGC1.S.contains kv.1)))) := by
  obtain ⟨trace, h⟩ := toBool_ok _ runToy_returns
  exact ⟨trace, h, C14_distributed_run_is_delegated selGC1 .opps runDOps runOps_law (runIns 4) _ trace
    (runState_ok1 4 (1/5)) (runIns_ok selGC1 (Or.inl rfl) 4 (by norm_num)) h⟩

/-- Non-vacuity of the step theorem: the first step of the toy run. -/
example : StepHyp selGC2 .deps (runEnv 0) (enter ⟨runEnv 0, runGcs 4, id, []⟩ (runState 4 (1/5))) ∧
    (step runDOps (runEnv 0) (enter ⟨runEnv 0, runGcs 4, id, []⟩ (runState 4 (1/5)))).toBool = true :=
  ⟨stepHyp_enter selGC2 .deps _ _ (runState_ok2 4 (1/5)) (runIns_ok selGC2 (Or.inr rfl) 4 (by norm_num) ⟨runEnv 0, runGcs 4, id, []⟩ (by simp [runIns])),
   by decide +kernel⟩

/-- Non-vacuity of the independence theorem: the second scenario has another fixed load at GC1 (6 kW instead of 4 kW)
and another SoC of the vehicle there; the parts at GC2 agree, both runs return — and indeed GC1 gets 4 kW instead of
6 kW while GC2's result is the same. -/
example : StateOK selGC2 .deps (runState 4 (1/5)) ∧ StateOK selGC2 .deps (runState 6 (3/10)) ∧
    (∀ i ∈ runIns 4, InOK selGC2 i) ∧ (∀ i ∈ runIns 6, InOK selGC2 i) ∧
    List.Forall₂ (SameAt selGC2 .deps) (runIns 4) (runIns 6) ∧
    part selGC2 (runState 4 (1/5)).world = part selGC2 (runState 6 (3/10)).world ∧
    (runD runDOps (runState 4 (1/5)) (runIns 4)).toBool = true ∧
    (runD runDOps (runState 6 (3/10)) (runIns 6)).toBool = true := by
  refine ⟨runState_ok2 _ _, runState_ok2 _ _, runIns_ok selGC2 (Or.inr rfl) 4 (by norm_num),
    runIns_ok selGC2 (Or.inr rfl) 6 (by norm_num), ?_, ?_, runToy_returns, runToy2_returns⟩
  · refine List.Forall₂.cons ⟨rfl, rfl, ?_, fun _ _ => rfl⟩ (List.Forall₂.cons ⟨rfl, rfl, ?_, fun _ _ => rfl⟩ List.Forall₂.nil)
    <;> simp [runGcs, selGC2]
  · simp [part, runState, runGcs, selGC2]

/-- Non-vacuity of `C14_substep_ignores_idle`: the depot's part of the toy world with an extra idle station and an
unconnected vehicle; the sub-world leaves them out. -/
example : Sub (fun id => id == "v2")
    (⟨[⟨"GC2", 20, some (.fixed (3/10)), []⟩], [⟨"CS_v2_deps", "GC2", 11, 0, 0⟩, ⟨"CS_v3_deps", "GC2", 11, 0, 7⟩],
      [⟨"v2", some "CS_v2_deps", 4/5, some 3600000000, 0, false, 1/2, 1/5⟩,
       ⟨"v3", none, 4/5, none, 0, false, 1/2, 1/2⟩], []⟩ : SWorld ℚ ℚ)
    ⟨[⟨"GC2", 20, some (.fixed (3/10)), []⟩], [⟨"CS_v2_deps", "GC2", 11, 0, 0⟩],
      [⟨"v2", some "CS_v2_deps", 4/5, some 3600000000, 0, false, 1/2, 1/5⟩], []⟩ :=
  ⟨rfl, rfl, rfl, by simp, by simp, by simp [SWorld.station?], by simp, by simp⟩

/-- Non-vacuity of the final-pass theorem: the toy world has no negative entry and no V2G vehicle. -/
example : NonNegW (runState 4 (1/5)).world ∧ NoV2G (runState 4 (1/5)).world := by
  constructor
  · intro g hg kv hkv
    simp only [runState, runGcs, List.mem_cons, List.not_mem_nil, or_false] at hg
    rcases hg with rfl | rfl
    · simp only [List.mem_cons, List.not_mem_nil, or_false] at hkv
      subst hkv; norm_num
    · simp at hkv
  · intro v hv
    simp only [runState, List.mem_cons, List.not_mem_nil, or_false] at hv
    rcases hv with rfl | rfl <;> rfl

end SpiceEv
