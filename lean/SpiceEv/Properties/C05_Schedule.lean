/-
C05 (charging-station and vehicle power limits) for the charging strategy `schedule`
(spice_ev/strategies/schedule.py, model: Model/StratSchedule.lean).
-/
import SpiceEv.Proofs.StratSchedule
set_option linter.unusedSectionVars false
namespace SpiceEv
open SpiceEv.Sched
variable {α B : Type} [Field α] [LinearOrder α] [IsStrictOrderedRing α]

/-- **schedule (individual): every station carries a power within `[0, max_power]` after the step.**
For any battery obeying `Sched.Law`, any world in which station maxima are non-negative and no
connector holds a load entry under a station id when the step begins (that is what `Strategy.step`
establishes before every strategy step): after `Schedule.step` in the `individual` sub-strategy the
`current_power` of every station — the value that is also the command and the station's load entry at
its connector — is at least 0 (no vehicle is ever discharged, V2G-capable or not) and at most the
station's (concurrency-scaled) `max_power`.  This holds for any number of vehicles per station. -/
theorem C05_schedule_individual_station (ops : Ops α B) (law : Law ops) (env : Env α)
    (hc : env.collective = false) (w w' : SWorld α B) (st st' : CState α) (cmds : List (String × α))
    (hmx : ∀ s ∈ w.stations, 0 ≤ s.maxPower)
    (hfresh : ∀ s ∈ w.stations, ∀ g ∈ w.gcs, sdGet g.loads s.id = none)
    (h : step ops env w st = .ok (w', st', cmds)) :
    ∀ s ∈ w'.stations, 0 ≤ s.currentPower ∧ s.currentPower ≤ s.maxPower := by
  obtain ⟨w1, h1, h2, _⟩ := step_individual_ok ops env hc w w' st st' cmds h
  have hok := chargeIndividually_station ops law env _ w1 cmds (link_reset w hfresh)
    (stationOK_reset w hmx) h1
  rw [utilizeBatteries_stations ops env w1 w' h2]
  exact hok

/-- **schedule (individual): one real battery call per served vehicle, bounded by the station.**
One pass of the vehicle loop either leaves the world untouched (vehicle not connected) or makes
exactly one real `Battery.load(interval, target_power = P)` call on the vehicle's battery as it was
before the step — every look-ahead simulation is undone — with
`P ≤ clamp_power(schedule + add_power) ≤ station maximum − station power so far`.  Together with
C01 (`avg_power` never exceeds what the charging curve allows over the timestep for one call) this
is the vehicle-curve sentence of C05 for the individual sub-strategy: the finding "several battery
calls in one step" (collective sub-strategy) cannot occur here. -/
theorem C05_schedule_individual_single_call (ops : Ops α B) (env : Env α)
    (st st' : SWorld α B × List (String × α) × Option α) (v0 : VehicleS α B)
    (hok : ∀ s ∈ st.1.stations, s.currentPower ≤ s.maxPower)
    (h : indVehicle ops env st v0 = .ok st') :
    st' = st ∨
    ∃ v csId cs gc P r, st.1.vehicle? v0.id = some v ∧ v.cs = some csId ∧
      getStation st.1 csId = .ok cs ∧ getGc st.1 cs.parent = .ok gc ∧
      ops.load v.bat env.interval none none (some P) = .ok r ∧
      cs.currentPower + max P 0 ≤ cs.maxPower ∧
      st'.1 = (commit st.1 st.2.1 v r.1 cs gc csId r.2.1).1 := by
  rcases indVehicle_inv ops env st st' v0 h with h | ⟨v, csId, cs, gc, x, sched, addP, r, h1, h2, h3, h4,
    h5, h6, h7, h8, h9⟩
  · exact Or.inl h
  · refine Or.inr ⟨v, csId, cs, gc, _, r, h1, h2, h3, h4, h8, ?_, by rw [h9]⟩
    exact individualPower_station _ _ _ _ _ _ _ (hok cs (getStation_ok _ _ _ h3).1)

/-- Non-vacuity: in the example world (one vehicle, 11 kW station, nothing booked under the station
id) the step succeeds and the station ends with 6 kW (up to the bisection tolerance) ≤ 11 kW. -/
example :
    (∀ s ∈ exWorld.stations, 0 ≤ s.maxPower) ∧
    (∀ s ∈ exWorld.stations, ∀ g ∈ exWorld.gcs, sdGet g.loads s.id = none) ∧
    (match step toyOps exEnv exWorld exState with
     | .ok r => r.1.stations.all (fun s => decide (6 - 1/1000 ≤ s.currentPower ∧ s.currentPower ≤ 6))
     | .error _ => false) = true := by
  refine ⟨?_, ?_, by decide +kernel⟩
  · intro s hs
    simp only [exWorld, List.mem_singleton] at hs
    subst hs; norm_num
  · intro s hs g hg
    simp only [exWorld, List.mem_singleton] at hs hg
    subst hs; subst hg
    decide

/-- **schedule (collective), no V2G-capable vehicle: every station carries a power within
`[0, max_power]` after the step — partial.**  For any battery obeying `Sched.Law`, a world with one
connector `G` on which all stations hang (the sub-strategy asserts a single connector), non-negative
station maxima and no load entry under a station id when the step begins: after `Schedule.step` in the
`collective` sub-strategy — inside the core standing time (excess branch and on-schedule branch with
its retry loop, whichever is taken, with or without the evaluation at the first step) as well as
outside (`charge_vehicles`, `charge_vehicles_after_core_standing_time`) — every station's
`current_power` is in `[0, max_power]`, although a vehicle may be served by several passes in one step:
every pass clamps against the power the station already carries.
Missing for the full sentence: the V2G pass (`charge_vehicles_during_core_standing_time_v2g`, which
adds to / subtracts from `cs.current_power` instead of re-reading the connector entry) is excluded by
the hypothesis that no vehicle is V2G-capable. -/
theorem C05_schedule_collective_station_partial (ops : Ops α B) (law : Law ops) (env : Env α)
    (heps : 0 ≤ env.eps) (hc : env.collective = true) (G : String) (w w' : SWorld α B)
    (st st' : CState α) (cmds : List (String × α))
    (hg : ∀ g ∈ w.gcs, g.id = G) (hs : ∀ s ∈ w.stations, s.parent = G)
    (hmx : ∀ s ∈ w.stations, 0 ≤ s.maxPower)
    (hfresh : ∀ s ∈ w.stations, ∀ g ∈ w.gcs, sdGet g.loads s.id = none)
    (hn : ∀ v ∈ w.vehicles, v.v2g = false)
    (h : step ops env w st = .ok (w', st', cmds)) :
    ∀ s ∈ w'.stations, 0 ≤ s.currentPower ∧ s.currentPower ≤ s.maxPower := by
  refine step_collective_station (w.vehicles.map strip2) ops law env heps hc G w w' st st' cmds
    ⟨link_reset w hfresh, stationOK_reset w hmx, ⟨hg, ?_⟩, fun _ => hn, fun _ => rfl⟩ h
  intro s hsm
  simp only [resetStations, List.mem_map] at hsm
  obtain ⟨s0, hs0, rfl⟩ := hsm
  exact hs s0 hs0

/-- Non-vacuity: the collective example world (one connector, one station, no V2G) inside its core
standing time: the step succeeds and the station carries 2 kW ≤ 11 kW. -/
example :
    (match step toyOps (exEnvC 6) exWorldC ⟨true, false, [2, 2], [true, true], 4, [("v1", 12)], [("v1", 0)], 0⟩ with
     | .ok r => r.1.stations.all (fun s => decide (2 - 1/1000 ≤ s.currentPower ∧ s.currentPower ≤ 2))
     | .error _ => false) = true := by decide +kernel

/-- **schedule (collective) WITH V2G-capable vehicles: every station carries a power within
`± max_power` after the step — partial.**  For any battery obeying `Sched.Law`, a world with one
connector `G` on which all stations hang, non-negative station maxima, no load entry under a station id
when the step begins, distinct vehicle ids, and no two connected vehicles at the same station: after
`Schedule.step` in the `collective` sub-strategy — outside the core standing time, or inside it with the
evaluation, the excess or on-schedule branch AND the V2G pass in a charge or a discharge window, any
number of V2G-capable vehicles — every station's `current_power` is in `[−max_power, max_power]`.
A charge is clamped against what the station already carries; a discharge is at most `max_power` and
starts from a station that carries a non-negative power.  (Without a V2G-capable vehicle the lower bound
is 0: `C05_schedule_collective_station_partial` — no vehicle is discharged without V2G capability.)
Excluded, exactly: two connected vehicles sharing one station (then two V2G discharges through the same
station add up: `cs.current_power -= discharge` twice, each bounded by `max_power` only). -/
theorem C05_schedule_collective_station_v2g_partial (ops : Ops α B) (law : Law ops) (env : Env α)
    (heps : 0 ≤ env.eps) (hc : env.collective = true) (G : String) (w w' : SWorld α B)
    (st st' : CState α) (cmds : List (String × α))
    (hg : ∀ g ∈ w.gcs, g.id = G) (hs : ∀ s ∈ w.stations, s.parent = G)
    (hmx : ∀ s ∈ w.stations, 0 ≤ s.maxPower)
    (hfresh : ∀ s ∈ w.stations, ∀ g ∈ w.gcs, sdGet g.loads s.id = none)
    (hid : (w.vehicles.map (·.id)).Nodup)
    (hd : ∀ v1 ∈ w.vehicles, ∀ v2 ∈ w.vehicles, ∀ c, v1.cs = some c → v2.cs = some c → v1.id = v2.id)
    (h : step ops env w st = .ok (w', st', cmds)) :
    ∀ s ∈ w'.stations, -s.maxPower ≤ s.currentPower ∧ s.currentPower ≤ s.maxPower := by
  refine step_collective_station_v2g (w.vehicles.map strip2) ops law env heps hc G w w' st st' cmds
    ⟨link_reset w hfresh, stationOK_reset w hmx, ⟨hg, ?_⟩, (fun hb => Bool.noConfusion hb), fun _ => rfl⟩ ?_ ?_ h
  · intro s hsm
    simp only [resetStations, List.mem_map] at hsm
    obtain ⟨s0, hs0, rfl⟩ := hsm
    exact hs s0 hs0
  · have : (w.vehicles.map strip2).map (·.1) = w.vehicles.map (·.id) := by
      rw [List.map_map]; rfl
    rw [this]; exact hid
  · intro m1 hm1 m2 hm2 c h1 h2
    simp only [List.mem_map] at hm1 hm2
    obtain ⟨v1, hv1, rfl⟩ := hm1
    obtain ⟨v2, hv2, rfl⟩ := hm2
    exact hd v1 hv1 v2 hv2 c h1 h2

/-- Non-vacuity with a V2G discharge: the feed-in example world (one V2G-capable vehicle above its
desired SoC, discharge window) meets the hypotheses; the step succeeds and the station ends with a
negative power (the vehicle is discharged by the 2 kW of feed-in headroom) within `−11 kW`. -/
example :
    (exWorldFeed.vehicles.map (·.id)).Nodup ∧
    (∀ s ∈ exWorldFeed.stations, ∀ g ∈ exWorldFeed.gcs, sdGet g.loads s.id = none) ∧
    (match step toyOps (exEnvC 5) exWorldFeed exStateFeed with
     | .ok r => r.1.stations.all (fun s => decide (-s.maxPower ≤ s.currentPower ∧ s.currentPower < -1))
     | .error _ => false) = true := by
  refine ⟨by decide, ?_, by decide +kernel⟩
  intro s hs g hg
  simp only [exWorldFeed, exWorldV2G, exWorldC, exWorld, List.mem_singleton] at hs hg
  subst hs; subst hg
  decide

end SpiceEv
