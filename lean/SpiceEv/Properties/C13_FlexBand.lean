/-
C13 — content of the flexibility band (generate_flex_band / generate_individual_flex_band).

Property theorems only (helper lemmas: SpiceEv/Proofs/FlexBand.lean).  All statements are about the
executable model `SpiceEv.FlexBand` (SpiceEv/Model/FlexBand.lean) instantiated at an arbitrary
linearly ordered field and an arbitrary battery type; the driver runs the same definitions on
`Float` with the battery of Model/Battery.lean against the two real functions (harness/s_flexband.py,
every field of the returned dicts compared bit for bit).

The collective function records one `StepRec` per timestep (`Flex.trace`): the five appended values
and ghost data (world vehicles, the `vehicles` dict, the five summands of the band); the lists of the
returned dict are the projections of that trace (`C13_flexband_lists`).
-/
import SpiceEv.Proofs.FlexBand
import Mathlib.Tactic.NormNum
set_option linter.unusedSectionVars false
set_option linter.unusedVariables false
namespace SpiceEv
open SpiceEv.FlexBand SpiceEv.ScheduleGen

section collective
variable {α B : Type} [Field α] [LinearOrder α] [IsStrictOrderedRing α]

/-- Well-formedness of the inputs of `generate_flex_band`: the battery contract
(`get_available_power` never negative), `sum` adds up, `float(int)` is the embedding, and the static
data are physically meaningful (powers, capacities, V2G factors ≥ 0, efficiencies > 0,
`ts_per_hour > 0`). -/
structure FlexBandOK (ops : Ops α B) (tsph : α) (sc : Scen α B) : Prop where
  tsph : 0 < tsph
  avail : ∀ b p, ops.available b = .ok p → 0 ≤ p
  sum : ∀ l, ops.sum l = l.sum
  sumTagged : ∀ l, ops.sumTagged l = (l.map Prod.fst).sum
  ofInt : ∀ k : Int, ops.ofInt k = (k : α)
  vt : ∀ vid vt, alGet? vid sc.vtypes = some vt →
    0 ≤ ops.loadMax vt.battery ∧ 0 ≤ ops.capacity vt.battery ∧ 0 < ops.efficiency vt.battery ∧
    0 ≤ vt.v2gFactor
  stations : ∀ id cs, alGet? id sc.stations = some cs → 0 ≤ cs.maxPower

theorem FlexBandOK.laws {ops : Ops α B} {tsph : α} {sc : Scen α B} (ok : FlexBandOK ops tsph sc)
    (eps stratEps : α) (gcId : String) (cst : Option CoreStandingTime) (R : α) (bat : BatInfo α) :
    Laws (envOf ops eps stratEps tsph sc gcId cst R bat) :=
  ⟨ok.tsph, ok.avail, ok.sum, ok.sumTagged, ok.ofInt, ok.vt⟩

theorem FlexBandOK.stationsOK {ops : Ops α B} {tsph : α} {sc : Scen α B} (ok : FlexBandOK ops tsph sc) :
    StationsOK (sc.stations.map (fun p => (p.1, ({ p.2 with maxPower := 1 * p.2.maxPower } : Station α)))) := by
  intro id cs h
  rw [alGet?_map_snd (fun c : Station α => ({ c with maxPower := 1 * c.maxPower } : Station α))] at h
  cases h0 : alGet? id sc.stations with
  | none => rw [h0] at h; cases h
  | some c =>
    rw [h0] at h
    cases h
    simpa using ok.stations id c h0

/-- **The returned lists are the per-step records.**  If `generate_flex_band` returns, it has
appended exactly one value per timestep to each of the five lists, and entry `i` of every list is the
corresponding field of the `i`-th step record. -/
theorem C13_flexband_lists (ops : Ops α B) (eps stratEps tsph : α) (sc : Scen α B) (gcId : String)
    (cst : Option CoreStandingTime) (f : Flex α)
    (h : generateFlexBand ops eps stratEps tsph sc gcId cst = .ok f) :
    f.trace.length = sc.n ∧ f.min = f.trace.map (·.min) ∧ f.base = f.trace.map (·.base) ∧
    f.max = f.trace.map (·.max) ∧ f.vmin = f.trace.map (·.vmin) ∧ f.vmax = f.trace.map (·.vmax) := by
  obtain ⟨gc, bat, s, steps, st, hgc, hbat, hs, hlen, hrun, htr, h1, h2, h3, h4, h5, -, -⟩ :=
    generateFlexBand_spec ops eps stratEps tsph sc gcId cst f h
  obtain ⟨new, hnew, hl, -⟩ := runSteps_spec _ _ _ _ _ hrun
  refine ⟨?_, h1, h2, h3, h4, h5⟩
  rw [htr, hnew]
  simpa [hl] using hlen

/-- **Band ⊆ ± rating (clamp_to_gc).**  For every scenario, connector with a non-negative rating,
core standing time, battery behaviour: every value of `flex["base"]`, `flex["min"]`, `flex["max"]`
lies in `[−rating, rating]`.  No other hypothesis. -/
theorem C13_flexband_within_rating (ops : Ops α B) (eps stratEps tsph : α) (sc : Scen α B)
    (gcId : String) (cst : Option CoreStandingTime) (f : Flex α) (gc : Connector α)
    (h : generateFlexBand ops eps stratEps tsph sc gcId cst = .ok f)
    (hgc : alGet? gcId sc.connectors = some gc) (hR : 0 ≤ gc.maxPower) :
    ∀ x ∈ f.min ++ f.base ++ f.max, -gc.maxPower ≤ x ∧ x ≤ gc.maxPower := by
  obtain ⟨gc', bat, s, steps, st, hgc', hbat, hs, hlen, hrun, htr, h1, h2, h3, -⟩ :=
    generateFlexBand_spec ops eps stratEps tsph sc gcId cst f h
  rw [hgc] at hgc'
  cases hgc'
  obtain ⟨new, hnew, hl, hspec, -⟩ := runSteps_spec _ _ _ _ _ hrun
  have hall : ∀ r ∈ f.trace, (-gc.maxPower ≤ r.min ∧ r.min ≤ gc.maxPower) ∧
      (-gc.maxPower ≤ r.base ∧ r.base ≤ gc.maxPower) ∧ (-gc.maxPower ≤ r.max ∧ r.max ≤ gc.maxPower) := by
    intro r hr
    rw [htr, hnew] at hr
    simp only [List.nil_append] at hr
    obtain ⟨k, hk, rfl⟩ := List.getElem_of_mem hr
    obtain ⟨rs, -⟩ := hspec k _ (List.getElem?_eq_getElem hk)
    rw [rs.min, rs.base, rs.max]
    exact ⟨clamp_bounds _ _ hR, clamp_bounds _ _ hR, clamp_bounds _ _ hR⟩
  intro x hx
  rw [h1, h2, h3] at hx
  simp only [List.mem_append, List.mem_map] at hx
  rcases hx with (⟨r, hr, rfl⟩ | ⟨r, hr, rfl⟩) | ⟨r, hr, rfl⟩
  · exact (hall r hr).1
  · exact (hall r hr).2.1
  · exact (hall r hr).2.2

/-- **Content of the band.**  For the record `r` of timestep `i` (any scenario; only "`sum` adds up"
is assumed):
`base = clamp(base_flex)`, `min = clamp(base_flex − battery discharge − V2G)`,
`max = clamp(base_flex + vehicle power + battery charge)` where
* battery discharge = the summed `get_available_power` of the connector's batteries at their initial
  SoC in step 0 and at SoC 1 afterwards;
* battery charge lies in `[0, Σ loading_curve.max_power]` (what local generation leaves);
* V2G and vehicle power are `0` when no vehicle stands inside the core standing time, and otherwise
  the sums, over the vehicles that are CONNECTED in this step, of their V2G power resp. charging
  power (`connected` = pairs (world vehicle, dict entry) with `connected_charging_station` set);
* `flex["vehicles"]["min"/"max"]` are `−V2G` and the vehicle power.
The last conjunct relates every world vehicle to its dict entry (same id; a vehicle without station
has charging power 0 and V2G power 0). -/
theorem C13_flexband_band_content (ops : Ops α B) (eps stratEps tsph : α) (sc : Scen α B)
    (gcId : String) (cst : Option CoreStandingTime) (f : Flex α) (gc : Connector α)
    (hsum : ∀ l, ops.sum l = l.sum) (hsumT : ∀ l, ops.sumTagged l = (l.map Prod.fst).sum)
    (h : generateFlexBand ops eps stratEps tsph sc gcId cst = .ok f)
    (hgc : alGet? gcId sc.connectors = some gc) :
    ∀ (i : Nat) (r : StepRec α), f.trace[i]? = some r →
      r.base = clampToGc gc.maxPower r.baseFlex ∧
      r.min = clampToGc gc.maxPower (r.baseFlex - r.batDis - r.v2gFlex) ∧
      r.max = clampToGc gc.maxPower (r.baseFlex + r.vehFlex + r.batCharge) ∧
      r.vmin = -r.v2gFlex ∧ r.vmax = r.vehFlex ∧
      r.batDis = (if i = 0 then f.batteries.initDischarge else f.batteries.fullDischarge) ∧
      0 ≤ r.batCharge ∧ (0 ≤ f.batteries.power → r.batCharge ≤ f.batteries.power) ∧
      r.vehFlex = (if r.present then ((connected r.vehicles r.recs).map (·.2.2.power)).sum else 0) ∧
      r.v2gFlex = (if r.present then ((connected r.vehicles r.recs).map (·.2.2.v2g)).sum else 0) ∧
      List.Forall₂ VehRec r.vehicles r.recs := by
  obtain ⟨gc', bat, s, steps, st, hgc', hbat, hs, hlen, hrun, htr, -, -, -, -, -, -, hb⟩ :=
    generateFlexBand_spec ops eps stratEps tsph sc gcId cst f h
  rw [hgc] at hgc'
  cases hgc'
  obtain ⟨new, hnew, hl, hspec, -⟩ := runSteps_spec _ _ _ _ _ hrun
  intro i r hr
  rw [htr, hnew] at hr
  simp only [List.nil_append] at hr
  obtain ⟨rs, hv⟩ := hspec i r hr
  obtain ⟨s1, s2⟩ := sum_connected hv
  refine ⟨rs.base, rs.min, rs.max, rs.vmin, rs.vmax, ?_, rs.batCharge.1, ?_, ?_, ?_, hv⟩
  · rw [rs.batDis, hb]; simp [envOf]
  · rw [hb]; exact rs.batCharge.2
  · rw [rs.veh]
    split
    · show ops.sumTagged _ = _
      rw [hsumT, ← s1]; simp [List.map_map, Function.comp_def]
    · rfl
  · rw [rs.v2g]
    split
    · show ops.sum _ = _
      rw [hsum, ← s2]
    · rfl

/-- **A departed vehicle contributes nothing** (no hypothesis at all).  In every timestep, the dict
entry of a vehicle whose `connected_charging_station` is `None` after the events of that step has
charging power `0` and V2G power `0` — it takes no part in `flex["max"]`, `flex["min"]` or the
vehicle lists of that step. -/
theorem C13_flexband_departed_contributes_nothing (ops : Ops α B) (eps stratEps tsph : α)
    (sc : Scen α B) (gcId : String) (cst : Option CoreStandingTime) (f : Flex α)
    (h : generateFlexBand ops eps stratEps tsph sc gcId cst = .ok f) :
    ∀ (i j : Nat) (r : StepRec α) (v : String × Vehicle α) (rc : String × VRec α),
      f.trace[i]? = some r → r.vehicles[j]? = some v → r.recs[j]? = some rc → v.2.station = none →
      v.1 = rc.1 ∧ rc.2.power = 0 ∧ rc.2.v2g = 0 := by
  obtain ⟨gc', bat, s, steps, st, hgc', hbat, hs, hlen, hrun, htr, -⟩ :=
    generateFlexBand_spec ops eps stratEps tsph sc gcId cst f h
  obtain ⟨new, hnew, hl, hspec, -⟩ := runSteps_spec _ _ _ _ _ hrun
  intro i j r v rc hr hv hrc hst
  rw [htr, hnew] at hr
  simp only [List.nil_append] at hr
  obtain ⟨-, hrel⟩ := hspec i r hr
  obtain ⟨h1, h2⟩ := forall₂_getElem? hrel j v rc hv hrc
  exact ⟨h1, h2 hst⟩

/-- **min ≤ base ≤ max** at every timestep, for well-formed inputs (`FlexBandOK`). -/
theorem C13_flexband_min_le_base_le_max (ops : Ops α B) (eps stratEps tsph : α) (sc : Scen α B)
    (gcId : String) (cst : Option CoreStandingTime) (f : Flex α) (ok : FlexBandOK ops tsph sc)
    (h : generateFlexBand ops eps stratEps tsph sc gcId cst = .ok f) :
    (∀ r ∈ f.trace, r.min ≤ r.base ∧ r.base ≤ r.max) ∧
    ∀ i, f.min.getD i 0 ≤ f.base.getD i 0 ∧ f.base.getD i 0 ≤ f.max.getD i 0 := by
  obtain ⟨gc, bat, s, steps, st, hgc, hbat, hs, hlen, hrun, htr, h1, h2, h3, -⟩ :=
    generateFlexBand_spec ops eps stratEps tsph sc gcId cst f h
  obtain ⟨new, hnew, hl, hspec, -, -, hpv, -⟩ := runSteps_spec _ _ _ _ _ hrun
  have L := ok.laws eps stratEps gcId cst gc.maxPower bat
  have hpv' := hpv L (by simp only; rw [hs]; exact ok.stationsOK) (by
    intro rc hrc
    simp only [List.mem_map] at hrc
    obtain ⟨p, _, rfl⟩ := hrc
    exact ⟨le_rfl, le_rfl⟩)
  obtain ⟨b1, b2⟩ := batteryInfo_nonneg ops gcId sc.batteries bat ok.avail ok.sum hbat
  have hall : ∀ r ∈ f.trace, r.min ≤ r.base ∧ r.base ≤ r.max := by
    intro r hr
    rw [htr, hnew] at hr
    simp only [List.nil_append] at hr
    obtain ⟨k, hk, rfl⟩ := List.getElem_of_mem hr
    have hk' := List.getElem?_eq_getElem hk
    obtain ⟨rs, hv⟩ := hspec k _ hk'
    have hnn := hpv' k _ hk'
    have hd : 0 ≤ new[k].batDis := by
      rw [rs.batDis]; split
      · exact b1
      · exact b2
    have hv2g : 0 ≤ new[k].v2gFlex := by
      rw [rs.v2g]; split
      · show 0 ≤ ops.sum _
        rw [ok.sum]
        apply List.sum_nonneg
        intro x hx
        obtain ⟨rc, hrc, rfl⟩ := List.mem_map.mp hx
        exact (hnn rc hrc).2
      · exact le_rfl
    have hveh : 0 ≤ new[k].vehFlex := by
      rw [rs.veh]; split
      · show 0 ≤ ops.sumTagged _
        rw [ok.sumTagged]
        apply List.sum_nonneg
        intro x hx
        simp only [List.map_map, List.mem_map, Function.comp] at hx
        obtain ⟨rc, hrc, rfl⟩ := hx
        exact (hnn rc hrc).1
      · exact le_rfl
    rw [rs.min, rs.base, rs.max]
    exact ⟨clamp_mono _ _ _ (by linarith), clamp_mono _ _ _ (by linarith [rs.batCharge.1])⟩
  refine ⟨hall, fun i => ?_⟩
  rw [h1, h2, h3]
  cases hi : f.trace[i]? with
  | none => simp [List.getD, hi]
  | some r =>
    have := hall r (List.mem_of_getElem? hi)
    simpa [List.getD, hi] using this

/-- **Energy needed is non-negative — partial.**  Well-formed inputs, and whenever a connected
vehicle can be registered in step `i` (its charging power in the dict at the start of the iteration,
`recsIn`, is 0) its estimated time of departure — if it has one — falls into a LATER step: then every
entry of the `vehicles` dict has `energy ≥ 0` in every step and the `needed` energy of every standing
interval is `≥ 0`.
Excluded (that is what makes the theorem partial): a vehicle that is registered in step `i` while its
estimate `dep` has index `≤ i`.  `dep = i` raises `ZeroDivisionError`
(`C13_flexband_stale_estimate_raises`), `dep < i` makes the scaling factor
`min((n − i)/(dep − i), 1)` negative and with it the energy need (witness: the example below
`C13_flexband_stale_estimate_raises`; finding FB1). -/
theorem C13_flexband_energy_nonneg_partial (ops : Ops α B) (eps stratEps tsph : α) (sc : Scen α B)
    (gcId : String) (cst : Option CoreStandingTime) (f : Flex α) (ok : FlexBandOK ops tsph sc)
    (h : generateFlexBand ops eps stratEps tsph sc gcId cst = .ok f)
    (hetd : ∀ (i : Nat) (r : StepRec α), f.trace[i]? = some r →
      ∀ x ∈ r.vehicles.zip r.recsIn, x.2.2.power = 0 → ∀ dep, x.1.2.etd = some dep →
        x.1.2.station.isSome → (i : Int) < bucketIndex sc.start.instant dep sc.interval) :
    (∀ r ∈ f.trace, ∀ rc ∈ r.recs, 0 ≤ rc.2.energy) ∧ ∀ iv ∈ f.intervals, 0 ≤ iv.needed := by
  obtain ⟨gc, bat, s, steps, st, hgc, hbat, hs, hlen, hrun, htr, -, -, -, -, -, hiv, -⟩ :=
    generateFlexBand_spec ops eps stratEps tsph sc gcId cst f h
  obtain ⟨new, hnew, hl, -, -, -, -, hen⟩ := runSteps_spec _ _ _ _ _ hrun
  have L := ok.laws eps stratEps gcId cst gc.maxPower bat
  have htr' : f.trace = new := by rw [htr, hnew]; simp
  obtain ⟨e1, e2⟩ := hen L (by simp [envOf, hlen]) (by
      intro rc hrc
      simp only [List.mem_map] at hrc
      obtain ⟨p, _, rfl⟩ := hrc
      exact le_rfl) (by intro iv hiv; cases hiv)
    (by
      intro k r hk p hp hz dep hdep hst
      have := hetd k r (htr' ▸ hk) p hp hz dep hdep hst
      simpa [envOf] using this)
  refine ⟨?_, ?_⟩
  · intro r hr rc hrc
    rw [htr'] at hr
    obtain ⟨k, hk, rfl⟩ := List.getElem_of_mem hr
    exact e1 k _ (List.getElem?_eq_getElem hk) rc hrc
  · intro iv hiv'
    rw [hiv] at hiv'
    exact e2 iv (List.mem_reverse.mp hiv')

/-- **Error branch of the scaling factor.**  A vehicle whose estimated departure has the index of
the step in which it is registered makes `(n − step_i) / (dep − step_i)` a division by zero:
the registration, and with it `generate_flex_band`, raises `ZeroDivisionError`. -/
theorem C13_flexband_stale_estimate_raises (env : Env α B) (stepI : Nat) (v : Vehicle α)
    (vt : VehType α B) (cs : Station α) (old : VRec α) (dep : Int) (hdep : v.etd = some dep)
    (hidx : bucketIndex env.start.instant dep env.interval = (stepI : Int)) :
    register env stepI v vt cs old = .error .zeroDivision := by
  unfold register scaledDeltaSoc
  simp [hdep, hidx, bind, Except.bind]

/-- **Reset when all vehicles have left.**  `prev_vehicles_present` of step `i+1` is
`vehicles_present` of step `i` (false before step 0).  In the first step without vehicles (inside the
core standing time) after a step with vehicles, the `vehicles` dict handed to the next step is all
zero — charging power, energy needed and V2G power of every vehicle —, in every other step it is
handed on unchanged. -/
theorem C13_flexband_reset (ops : Ops α B) (eps stratEps tsph : α) (sc : Scen α B)
    (gcId : String) (cst : Option CoreStandingTime) (f : Flex α)
    (h : generateFlexBand ops eps stratEps tsph sc gcId cst = .ok f) :
    (∀ r : StepRec α, f.trace[0]? = some r → r.prev = false) ∧
    (∀ (i : Nat) (r r' : StepRec α), f.trace[i]? = some r → f.trace[i + 1]? = some r' → r'.prev = r.present) ∧
    (∀ r ∈ f.trace, r.prev = true → r.present = false →
      ∀ rc ∈ r.recsOut, rc.2.power = 0 ∧ rc.2.energy = 0 ∧ rc.2.v2g = 0) ∧
    (∀ r ∈ f.trace, ¬(r.prev = true ∧ r.present = false) → r.recsOut = r.recs) := by
  obtain ⟨gc, bat, s, steps, st, hgc, hbat, hs, hlen, hrun, htr, -⟩ :=
    generateFlexBand_spec ops eps stratEps tsph sc gcId cst f h
  obtain ⟨new, hnew, hl, hspec, hfirst, hchain, -⟩ := runSteps_spec _ _ _ _ _ hrun
  have htr' : f.trace = new := by rw [htr, hnew]; simp
  rw [htr']
  refine ⟨hfirst, hchain, ?_, ?_⟩
  · intro r hr hp hq rc hrc
    obtain ⟨k, hk, rfl⟩ := List.getElem_of_mem hr
    obtain ⟨rs, -⟩ := hspec k _ (List.getElem?_eq_getElem hk)
    rw [rs.out, hp, hq] at hrc
    exact zeroRecs_mem _ _ hrc
  · intro r hr hn
    obtain ⟨k, hk, rfl⟩ := List.getElem_of_mem hr
    obtain ⟨rs, -⟩ := hspec k _ (List.getElem?_eq_getElem hk)
    rw [rs.out]
    cases hp : new[k].prev <;> cases hq : new[k].present <;> simp_all

end collective

section individual
variable {α B : Type} [Field α] [LinearOrder α] [IsStrictOrderedRing α]

/-- **Individual band = ∓ the operator limit in force.**  If `generate_individual_flex_band`
returns: it appended one value per timestep, `flex["min"][i] = −flex["max"][i]`, and
`flex["max"][i]` is `gc.cur_max_power` after applying, in order, every event of the start-time
buckets `0..i` (`startBuckets`: events handed over by `get_event_steps`, re-bucketed by the ceiling
index of their START time) with `limitAfter` — only `GridOperatorSignal`s for this connector write
it (see `C13_flexband_individual_limit_event`). -/
theorem C13_flexband_individual_band (ops : Ops α B) (sc : Scen α B) (gcId : String)
    (f : IndFlex α) (gc : Connector α)
    (h : generateIndividualFlexBand ops sc gcId = .ok f) (hgc : alGet? gcId sc.connectors = some gc) :
    ∃ steps : Steps α,
      getEventSteps sc.start.instant sc.n sc.interval sc.events.allEvents = .ok steps ∧
      f.max.length = sc.n ∧ f.min = f.max.map (fun x => -x) ∧
      ∀ i, i < sc.n → (f.max[i]?).map some = some
        (((startBuckets sc.start.instant sc.interval sc.n steps.steps).take (i + 1)).flatten.foldl
          (limitAfter gcId gc.maxPower) gc.curMaxPower) := by
  unfold generateIndividualFlexBand at h
  obtain ⟨gc', hgc', h⟩ := bind_ok h
  have := lookupPy_ok hgc'
  rw [hgc] at this
  cases this
  obtain ⟨steps, hsteps, h⟩ := bind_ok h
  obtain ⟨bat, hbat, h⟩ := bind_ok h
  obtain ⟨st1, h1, h⟩ := bind_ok h
  obtain ⟨st, h2, h⟩ := bind_ok h
  cases h
  have k1 := initialVehicles_keep ops sc gcId _ _ st1 h1
  obtain ⟨s1, s2⟩ := indSteps_spec ops sc gcId gc.maxPower _ 0 st1 st h2
  rw [k1.max, k1.curMax] at s1
  simp only [List.map_nil, List.nil_append] at s1
  have hlen : st.max.length = sc.n := by
    have := congrArg List.length s1
    rw [List.length_map, limitScan_length, startBuckets_length] at this
    exact this
  refine ⟨steps, hsteps, hlen, s2 (by rw [k1.min, k1.max]; rfl), fun i hi => ?_⟩
  have := limitScan_getElem? gcId gc.maxPower
    (startBuckets sc.start.instant sc.interval sc.n steps.steps) gc.curMaxPower i
    (by rw [startBuckets_length]; exact hi)
  rw [← s1, List.getElem?_map] at this
  exact this

/-- **What a limit event does** (connector with a non-zero rating `R`): a signal for this connector
with limit `m` sets the limit to `min(R, m)`, a signal without limit restores `R`, a signal for another
connector and every other event kind leave it as it is — whatever the limit was before. -/
theorem C13_flexband_individual_limit_event (gcId : String) (R : α) (hR : R ≠ 0) (cur : Option α)
    (sig start : Int) :
    (∀ m cost target window,
      limitAfter gcId R cur ⟨sig, start, .gridSignal gcId (some m) cost target window⟩ = some (min R m)) ∧
    (∀ cost target window,
      limitAfter gcId R cur ⟨sig, start, .gridSignal gcId none cost target window⟩ = some R) ∧
    (∀ gc mp cost target window, gc ≠ gcId →
      limitAfter gcId R cur ⟨sig, start, .gridSignal gc mp cost target window⟩ = cur) ∧
    (∀ name gc v, limitAfter gcId R cur ⟨sig, start, .fixedLoad name gc v⟩ = cur) ∧
    (∀ name gc v, limitAfter gcId R cur ⟨sig, start, .localGen name gc v⟩ = cur) ∧
    (∀ vid k u, limitAfter gcId R cur ⟨sig, start, .vehicle vid k u⟩ = cur) := by
  have hz : (!(isZero R)) = true := by
    cases hb : isZero R with
    | false => rfl
    | true => exact absurd ((isZero_iff R).mp hb) hR
  refine ⟨?_, ?_, ?_, ?_, ?_, ?_⟩
  · intro m _ _ _; simp [limitAfter, hz]
  · intro _ _ _; simp [limitAfter, hz]
  · intro gc mp _ _ _ hne; simp [limitAfter, hne]
  · intro _ _ _; rfl
  · intro _ _ _; rfl
  · intro _ _ _; rfl

/-- **Individual band ⊆ ± rating.**  Connector with non-zero rating whose limit starts at the
rating (`GridConnector.__init__`): every `flex["max"][i]` is `≤ rating`, every `flex["min"][i]`
is `≥ −rating`. -/
theorem C13_flexband_individual_within_rating (ops : Ops α B) (sc : Scen α B) (gcId : String)
    (f : IndFlex α) (gc : Connector α)
    (h : generateIndividualFlexBand ops sc gcId = .ok f) (hgc : alGet? gcId sc.connectors = some gc)
    (hR : gc.maxPower ≠ 0) (hcur : gc.curMaxPower = some gc.maxPower) :
    (∀ x ∈ f.max, x ≤ gc.maxPower) ∧ (∀ x ∈ f.min, -gc.maxPower ≤ x) := by
  obtain ⟨steps, -, hlen, hmin, hmax⟩ := C13_flexband_individual_band ops sc gcId f gc h hgc
  have hz : (!(isZero gc.maxPower)) = true := by
    cases hb : isZero gc.maxPower with
    | false => rfl
    | true => exact absurd ((isZero_iff _).mp hb) hR
  have hfold : ∀ (evs : List (Event α)) (cur : Option α), (∀ c, cur = some c → c ≤ gc.maxPower) →
      ∀ c, evs.foldl (limitAfter gcId gc.maxPower) cur = some c → c ≤ gc.maxPower := by
    intro evs
    induction evs with
    | nil => intro cur hc c h; exact hc c h
    | cons e es ih =>
      intro cur hc c h
      rw [List.foldl_cons] at h
      refine ih _ ?_ c h
      intro c' hc'
      unfold limitAfter at hc'
      cases hk : e.kind with
      | fixedLoad _ _ _ => rw [hk] at hc'; exact hc c' hc'
      | localGen _ _ _ => rw [hk] at hc'; exact hc c' hc'
      | vehicle _ _ _ => rw [hk] at hc'; exact hc c' hc'
      | gridSignal g mp _ _ _ =>
        rw [hk] at hc'
        simp only [hz, if_true] at hc'
        by_cases hg : g = gcId
        · simp only [hg, if_true] at hc'
          cases mp with
          | none => simp only [Option.some.injEq] at hc'; rw [← hc']
          | some m =>
            simp only [Option.some.injEq, pymin_eq] at hc'
            rw [← hc']; exact min_le_left _ _
        · simp only [hg, if_false] at hc'
          exact hc c' hc'
  have hmaxle : ∀ x ∈ f.max, x ≤ gc.maxPower := by
    intro x hx
    obtain ⟨i, hi, rfl⟩ := List.getElem_of_mem hx
    have := hmax i (hlen ▸ hi)
    rw [List.getElem?_eq_getElem hi] at this
    simp only [Option.map_some, Option.some.injEq] at this
    exact hfold _ _ (fun c hc => by rw [hcur] at hc; cases hc; exact le_rfl) _ this.symm
  refine ⟨hmaxle, ?_⟩
  intro x hx
  rw [hmin] at hx
  obtain ⟨y, hy, rfl⟩ := List.mem_map.mp hx
  have := hmaxle y hy
  linarith

/-- **Error branch: no limit at all.**  When, after the events of a timestep, `gc.cur_max_power`
is `None` (connector without rating and a signal without limit), `-gc.cur_max_power` raises
`TypeError`: the step, and with it the function, does not return a band. -/
theorem C13_flexband_individual_none_limit_raises (ops : Ops α B) (sc : Scen α B) (gcId : String)
    (gcMax : α) (idx : Nat) (st st2 : IndState α) (ts : List (Event α))
    (h2 : ts.foldlM (indEvent ops sc gcId gcMax idx)
      (if idx ≠ 0 then { st with records := st.records ++ [[]] } else st) = .ok st2)
    (hn : st2.curMax = none) :
    indStep ops sc gcId gcMax idx st ts = .error .typeError := by
  unfold indStep
  simp only [h2, bind, Except.bind, hn]

end individual

/-! ### Non-vacuity: a concrete fleet on ℚ with a toy battery (evaluated by the kernel) -/
namespace C13FlexBandEx

/-- toy battery: 50 kWh, efficiency 1, 11 kW charger, delivers `10·soc` kW for one interval -/
structure Toy where
  soc : ℚ

def toyOps : Ops ℚ Toy where
  capacity _ := 50
  efficiency _ := 1
  soc b := b.soc
  setSoc _ s := ⟨s⟩
  loadMax _ := 11
  available b := .ok (10 * max b.soc 0)
  sum l := l.sum
  sumTagged l := (l.map Prod.fst).sum
  ofInt k := (k : ℚ)

def Δ : Int := 900000000

/-- one connector (20 kW), two stations, two vehicles (v1 connected, V2G; v2 away), one stationary
battery (SoC 1/5); v2 arrives in step 1 (estimated departure: step 3), v1 leaves in step 3; fixed load
3 kW from step 0 and 4 kW from step 2 -/
def exScen : Scen ℚ Toy where
  connectors := [("GC1", Connector.new 20 (.fixed 1) none none [])]
  stations := [("CS1", ⟨11, "GC1"⟩), ("CS2", ⟨7, "GC1"⟩)]
  stationMin := [("CS1", 0), ("CS2", 1)]
  vehicles := [("v1", ⟨some "CS1", none, none, 1, 1/2, none, none⟩), ("v2", ⟨none, none, none, 1, 1, none, none⟩)]
  vtypes := [("v1", ⟨⟨1/2⟩, true, 1/2, 0, false⟩), ("v2", ⟨⟨1⟩, false, 1/2, 2, false⟩)]
  batteries := [("BAT", "GC1", ⟨1/5⟩)]
  start := ⟨0, none⟩
  stop := 4 * Δ
  interval := Δ
  n := 4
  events :=
    { fixedLoads := [("L", ⟨0, 2 * Δ, "GC1", [3, 4], 1⟩)]
      localGen := []
      gridSignals := []
      vehicleEvents := [⟨3 * Δ, 3 * Δ, .vehicle "v1" .departure {}⟩,
        ⟨Δ, Δ, .vehicle "v2" .arrival { etd := some (some (3 * Δ)), desired := some 1,
                                         socDelta := some (-2/5), station := some (some "CS2") }⟩] }

def res := generateFlexBand toyOps (1/100000) (1/100000) 4 exScen "GC1" none

/-- the hypotheses of the theorems are satisfiable -/
example : FlexBandOK toyOps 4 exScen where
  tsph := by norm_num
  avail := by
    intro b p h
    cases h
    exact mul_nonneg (by norm_num) (le_max_right _ _)
  sum := fun _ => rfl
  sumTagged := fun _ => rfl
  ofInt := fun _ => rfl
  vt := by
    intro vid vt h
    refine ⟨by norm_num [toyOps], by norm_num [toyOps], by norm_num [toyOps], ?_⟩
    simp only [exScen, alGet?] at h
    split at h
    · cases h; norm_num
    · split at h
      · cases h; norm_num
      · cases h
  stations := by
    intro id cs h
    simp only [exScen, alGet?] at h
    split at h
    · cases h; norm_num
    · split at h
      · cases h; norm_num
      · cases h

/-- the run returns; the band: step 0 `3 ∓ …` with the battery's initial 2 kW and v1's 5 kW V2G
(`min = −4`), full battery (10 kW) from step 1, v2's 7 kW added in step 1, and in step 3 — v1 has
left — V2G 0 and vehicle power 7: the departed vehicle contributes nothing; max clamped to 20 -/
example : res.toOption.map (fun f => (f.min, f.base, f.max, f.vmin, f.vmax)) =
    some ([-4, -12, -11, -6], [3, 3, 4, 4], [20, 20, 20, 20], [-5, -5, -5, 0], [11, 18, 18, 7]) := by
  decide +kernel

/-- one standing interval over all four steps, needed = 25 (v1) + 20 (v2) kWh, kept after v1 left -/
example : res.toOption.map (fun f => f.intervals.map (fun iv => (iv.needed, iv.time, iv.numPresent))) =
    some [(45, [0, 1, 2, 3], 1)] := by decide +kernel

/-- the hypothesis of `C13_flexband_energy_nonneg_partial` holds on this run (Boolean form: whenever
a connected vehicle's charging power at the start of the iteration is 0, its estimate is ahead) -/
example : res.toOption.map (fun f => (List.range 4).all (fun i =>
    match f.trace[i]? with
    | none => false
    | some r => (r.vehicles.zip r.recsIn).all (fun x =>
        !(x.2.2.power == 0) || (match x.1.2.etd with
          | none => true
          | some dep => !x.1.2.station.isSome || decide ((i : Int) < bucketIndex 0 dep Δ))))) = some true := by
  decide +kernel

/-- witness for what `C13_flexband_energy_nonneg_partial` excludes (finding FB1): a vehicle
(SoC 1/5, desired 1, 50 kWh) registered in step 5 of 10 whose estimated departure has index 2:
factor `min((10 − 5)/(2 − 5), 1) = −5/3`, energy needed `−200/3 kWh` -/
example :
    let env : Env ℚ Toy :=
      { ops := toyOps, eps := 1/100000, tsph := 4, gcId := "GC1", gcMax := 20, cst := none
        cfg := ⟨Δ, 1/100000, 1, true, false⟩, start := ⟨0, none⟩, interval := Δ, n := 10
        vtypes := [], bat := ⟨0, 0, 0, 1, 0, 0⟩ }
    (register env 5 ⟨some "CS1", none, some (2 * Δ), 1, 1/5, none, none⟩ ⟨⟨1/5⟩, false, 1/2, 0, false⟩
      ⟨11, "GC1"⟩ ⟨0, 0, 0, true⟩).toOption.map (fun x => x.2.energy) = some (-200/3) := by
  decide +kernel

/-- individual mode: the same fleet with operator limit events — 8 kW from step 2 (signalled at the
start), 50 kW (above the rating) from step 3: band ∓20, ∓20, ∓8, ∓min(20, 50) -/
def exScenI : Scen ℚ Toy :=
  { exScen with events := { exScen.events with
      gridSignals := [⟨0, 2 * Δ, .gridSignal "GC1" (some 8) none none none⟩,
                      ⟨3 * Δ, 3 * Δ, .gridSignal "GC1" (some 50) none none none⟩] } }

example : (generateIndividualFlexBand toyOps exScenI "GC1").toOption.map (fun f => (f.min, f.base, f.max)) =
    some ([-20, -20, -8, -20], [3, 3, 4, 4], [20, 20, 8, 20]) := by decide +kernel

/-- the arrival records: v1 from step 0 until its departure in step 3 (V2G 10·(1/2)·(1/2)),
v2 from step 1 until its estimated departure (index 3), energy 25 and 20 kWh -/
example : (generateIndividualFlexBand toyOps exScenI "GC1").toOption.map (fun f =>
      f.vehicles.map (·.map (fun r => (r.vid, r.idxStart, r.idxEnd)))) =
    some [[("v1", 0, 3)], [("v2", 1, 3)], [], []] := by decide +kernel

example : (generateIndividualFlexBand toyOps exScenI "GC1").toOption.map (fun f =>
      f.vehicles.flatten.map (fun r => [r.v2g, r.energy, r.pMin, r.pMax])) =
    some [[5/2, 25, 0, 11], [0, 20, 2, 7]] := by decide +kernel

/-- a connector without rating and a signal without limit: `TypeError` (error branch) -/
example : (generateIndividualFlexBand toyOps
    { exScen with connectors := [("GC1", Connector.new 0 (.fixed 1) none none [])]
                  events := { exScen.events with gridSignals := [⟨0, 0, .gridSignal "GC1" none none none none⟩] } }
    "GC1").toOption.isNone = true := by decide +kernel

end C13FlexBandEx
end SpiceEv
