/-
C06 (reported powers and SoCs balance: power conservation, energy bookkeeping) for the charging
strategy `schedule` (spice_ev/strategies/schedule.py, model: Model/StratSchedule.lean).
-/
import SpiceEv.Proofs.StratSchedule
set_option linter.unusedSectionVars false
namespace SpiceEv
open SpiceEv.Sched
variable {α B : Type} [Field α] [LinearOrder α] [IsStrictOrderedRing α]

/-- **schedule (individual): a vehicle's stored energy changes by exactly booked power × timestep ×
efficiency.**  For any battery obeying the energy identity of one call (`Sched.EnergyLaw`, C01): one
pass of the vehicle loop of `charge_individually` either leaves the world untouched, or
* replaces the vehicle's battery by `bat'` with
  `(soc' − soc) · capacity = avg · hours(interval) · efficiency`,
* raises the load of the station's connector by exactly that `avg` (the returned value of
  `add_load`, which is the command and the station's `current_power`),
* and changes nothing else: other vehicles, other connectors, all stationary batteries.
All look-ahead simulations (known schedule, every bisection step) run on the same battery and leave
no trace. -/
theorem C06_schedule_individual_vehicle (ops : Ops α B) (hrs : Int → α) (elaw : EnergyLaw ops hrs)
    (env : Env α) (st st' : SWorld α B × List (String × α) × Option α) (v0 : VehicleS α B)
    (h : indVehicle ops env st v0 = .ok st') :
    st' = st ∨
    ∃ v gc csId avg bat', st.1.vehicle? v0.id = some v ∧ gc ∈ st.1.gcs ∧
      st'.1.vehicles = (st.1.setVehicle { v with bat := bat' }).vehicles ∧
      st'.1.gcs = (st.1.setGc (gc.addLoad csId avg).1).gcs ∧
      (gc.addLoad csId avg).1.currentLoad = gc.currentLoad + avg ∧
      st'.1.batteries = st.1.batteries ∧
      sdGet st'.2.1 csId = some (gc.addLoad csId avg).2 ∧
      (ops.soc bat' - ops.soc v.bat) * ops.capacity v.bat = avg * hrs env.interval * ops.efficiency v.bat := by
  rcases indVehicle_inv ops env st st' v0 h with h | ⟨v, csId, cs, gc, x, sched, addP, r, h1, h2, h3, h4,
    h5, h6, h7, h8, h9⟩
  · exact Or.inl h
  · obtain ⟨b', avg, sd⟩ := r
    refine Or.inr ⟨v, gc, csId, avg, b', h1, (getGc_ok _ _ _ h4).1, by rw [h9]; rfl, by rw [h9]; rfl,
      (addLoad_currentLoad gc csId avg).1, by rw [h9]; rfl, ?_, (elaw.load_energy _ _ _ _ _ _ _ _ h8).2.2⟩
    rw [h9]
    exact sdGet_alSet_same _ _ _

/-- **schedule (individual): energy bookkeeping of the whole step.**  For any battery obeying the
energy identity of one call (`Sched.EnergyLaw`, C01), any world with distinct vehicle ids in which no
two vehicles are connected to the same station and no connector holds a load entry under the id of a
connected vehicle's station when the step begins (`Strategy.step` removes them): after the whole
`Schedule.step` in the `individual` sub-strategy, for EVERY vehicle of the world
* a vehicle that is not connected is in the resulting world unchanged (same SoC);
* a connected vehicle's battery is `bat'` with
  `(soc' − soc) · capacity = avg · hours(interval) · efficiency`
  where `avg` is the command returned for its station — one real battery call per vehicle, every
  look-ahead simulation undone, the battery pass does not touch vehicles or commands. -/
theorem C06_schedule_individual_step (ops : Ops α B) (hrs : Int → α) (elaw : EnergyLaw ops hrs)
    (env : Env α) (hc : env.collective = false) (w w' : SWorld α B) (st st' : CState α)
    (cmds : List (String × α))
    (hid : (w.vehicles.map (·.id)).Nodup) (hcs : (w.vehicles.filterMap (·.cs)).Nodup)
    (hfresh : ∀ v ∈ w.vehicles, ∀ c, v.cs = some c → ∀ g ∈ w.gcs, sdGet g.loads c = none)
    (h : step ops env w st = .ok (w', st', cmds)) :
    ∀ v ∈ w.vehicles,
      (v.cs = none → v ∈ w'.vehicles) ∧
      (∀ c, v.cs = some c → ∃ bat' avg, { v with bat := bat' } ∈ w'.vehicles ∧
        sdGet cmds c = some avg ∧
        (ops.soc bat' - ops.soc v.bat) * ops.capacity v.bat =
          avg * hrs env.interval * ops.efficiency v.bat) := by
  obtain ⟨w1, h1, h2, _⟩ := step_individual_ok ops env hc w w' st st' cmds h
  have hb := chargeIndividually_booked ops hrs elaw env (resetStations w) w1 cmds hid hcs hfresh h1
  intro v hv
  have := hb v hv
  unfold Booked at this
  rw [utilizeBatteries_vehicles ops env w1 w' h2]
  exact this

/-- **schedule: a stationary battery's stored energy changes by exactly booked power × timestep ×
efficiency (÷ efficiency when discharging).**  One pass of the battery loop of
`utilize_stationary_batteries` (both sub-strategies) either leaves the world untouched (no target),
or books 0 kW without touching the battery (target already met), or makes exactly one battery call
and books its average power — negative for a discharge — under the battery's id on the parent
connector; nothing else changes. -/
theorem C06_schedule_battery (ops : Ops α B) (law : Law ops) (hrs : Int → α) (elaw : EnergyLaw ops hrs)
    (env : Env α)
    (w w' : SWorld α B) (b0 : StatBatS α B) (h : utilBattery ops env w b0 = .ok w') :
    w' = w ∨
    ∃ b gc, w.batteries.find? (·.id == b0.id) = some b ∧ gc ∈ w.gcs ∧
      (w' = w.setGc (gc.addLoad b.id 0).1 ∨
       ∃ booked bat',
        w' = (w.setBattery { b with bat := bat' }).setGc (gc.addLoad b.id booked).1 ∧
        (gc.addLoad b.id booked).1.currentLoad = gc.currentLoad + booked ∧
        ((0 ≤ booked ∧ (ops.soc bat' - ops.soc b.bat) * ops.capacity b.bat =
            booked * hrs env.interval * ops.efficiency b.bat) ∨
         (booked ≤ 0 ∧ (ops.soc b.bat - ops.soc bat') * ops.capacity b.bat =
            (-booked) * hrs env.interval / ops.efficiency b.bat))) := by
  rcases utilBattery_inv ops env w w' b0 h with h | ⟨b, gc, hb, hgc, hcase⟩
  · exact Or.inl h
  · have hgm := (getGc_ok _ _ _ hgc).1
    refine Or.inr ⟨b, gc, hb, hgm, ?_⟩
    rcases hcase with ⟨p, r, hr, hw⟩ | ⟨p, r, hr, hw⟩ | hw
    · obtain ⟨b', avg, sd⟩ := r
      refine Or.inr ⟨-avg, b', hw, (addLoad_currentLoad gc b.id (-avg)).1, Or.inr ⟨?_, ?_⟩⟩
      · have := (law.unload_target _ _ _ _ _ _ hr).1
        linarith
      · rw [neg_neg]
        exact (elaw.unload_energy _ _ _ _ _ _ _ _ hr).2.2
    · obtain ⟨b', avg, sd⟩ := r
      refine Or.inr ⟨avg, b', hw, (addLoad_currentLoad gc b.id avg).1, Or.inl ⟨?_, ?_⟩⟩
      · exact (law.load_max _ _ _ _ _ _ _ hr).1
      · exact (elaw.load_energy _ _ _ _ _ _ _ _ hr).2.2
    · exact Or.inl hw

/-- **schedule (collective): every change of vehicles and connector loads is one booked battery
call.**  For any battery obeying `Sched.Law` and the energy identity `Sched.EnergyLaw` (C01): the whole
`Schedule.step` in the `collective` sub-strategy — inside the core standing time (evaluation at its first
step, excess branch, on-schedule branch with its retry loop, V2G pass) or outside
(`charge_vehicles`, `charge_vehicles_after_core_standing_time`) — takes the world (after the station
reset) to a world `wv` through a finite `Sched.Chain` of `Sched.Booked1` steps and then runs the battery
pass (`C06_schedule_battery` describes each of its passes).  A `Booked1` step is exactly ONE real battery
call on a connected vehicle `v` (`v.cs = some csId`): its battery is replaced by the call's result, the
load of one connector changes by exactly the call's signed average power `x` under the key `csId`
(`x ≥ 0` charge with `(soc' − soc)·capacity = x·hours·efficiency`, `x ≤ 0` V2G discharge with
`(soc − soc')·capacity = (−x)·hours/efficiency`), stationary batteries and all other vehicles and
connectors are untouched.  So a vehicle that several passes serve in one step (known finding
`C05:above_charging_curve:schedule:several_battery_calls_in_one_step`) still has its stored energy and
the booked power in balance call by call, and the look-ahead — `evaluate_core_standing_time_ahead`,
`sim_balanced_charging`, the discharge-limit and power searches of the V2G pass on the copied vehicle —
leaves no trace in the world: none of them is a chain step. -/
theorem C06_schedule_collective_step (ops : Ops α B) (law : Law ops) (hrs : Int → α)
    (elaw : EnergyLaw ops hrs) (env : Env α) (hc : env.collective = true)
    (w w' : SWorld α B) (st st' : CState α) (cmds : List (String × α))
    (h : step ops env w st = .ok (w', st', cmds)) :
    ∃ wv, Chain ops hrs env (resetStations w) wv ∧ utilizeBatteries ops env wv = .ok w' :=
  step_collective_chain ops law hrs elaw env hc w w' st st' cmds h

/-- **a chain of booked calls never touches a stationary battery** (what the vehicle passes of the
collective sub-strategy leave for the battery pass) -/
theorem C06_schedule_collective_chain_batteries (ops : Ops α B) (hrs : Int → α) (env : Env α)
    (w w' : SWorld α B) (h : Chain ops hrs env w w') : w'.batteries = w.batteries := by
  induction h with
  | refl => rfl
  | tail _ hb ih =>
    obtain ⟨_, _, _, _, _, _, _, _, _, _, _, hbat, _⟩ := hb
    rw [hbat, ih]

/-- Non-vacuity of the collective statement: the toy battery obeys both laws, and the V2G feed-in
example step (a V2G discharge is booked) succeeds, so the chain it yields is not the empty one: the
connector's load moved from −8 kW. -/
example :
    Law toyOps ∧ EnergyLaw toyOps toyHours ∧
    (∀ r, step toyOps (exEnvC 5) exWorldFeed exStateFeed = .ok r →
      ∃ wv, Chain toyOps toyHours (exEnvC 5) (resetStations exWorldFeed) wv ∧
        utilizeBatteries toyOps (exEnvC 5) wv = .ok r.1) ∧
    (match step toyOps (exEnvC 5) exWorldFeed exStateFeed with
     | .ok r => r.1.gcs.all (fun g => decide (g.currentLoad < -8))
     | .error _ => false) = true :=
  ⟨toyLaw, toyEnergyLaw,
   fun r h => C06_schedule_collective_step toyOps toyLaw toyHours toyEnergyLaw (exEnvC 5) rfl exWorldFeed r.1
     exStateFeed r.2.1 r.2.2 h,
   by decide +kernel⟩

/-- Non-vacuity of the step-level statement: the example world meets the hypotheses, the step
succeeds, and the connected vehicle's SoC change times its 40 kWh equals the command × 0.25 h × 1. -/
example :
    (exWorld.vehicles.map (·.id)).Nodup ∧ (exWorld.vehicles.filterMap (·.cs)).Nodup ∧
    (∀ v ∈ exWorld.vehicles, ∀ c, v.cs = some c → ∀ g ∈ exWorld.gcs, sdGet g.loads c = none) ∧
    (match step toyOps exEnv exWorld exState with
     | .ok r => r.1.vehicles.all (fun v => decide ((v.bat.1 - 1/2) * 40 =
          ((sdGet r.2.2 "CS1").getD 0) * (1/4) * 1 ∧ 1/2 < v.bat.1))
     | .error _ => false) = true := by
  refine ⟨by decide, by decide, ?_, by decide +kernel⟩
  intro v hv c hc g hg
  simp only [exWorld, List.mem_singleton] at hv hg
  subst hv; subst hg
  simp only [exVehicle, Option.some.injEq] at hc
  subst hc
  decide

/-- Non-vacuity: in the example world the vehicle pass books 6 kW (up to the bisection tolerance) and
the vehicle's SoC rises by `6 kW · 0.25 h / 40 kWh`; the toy battery obeys the energy identity. -/
example :
    EnergyLaw toyOps toyHours ∧
    (match indVehicle toyOps exEnv (resetStations exWorld, [], none) exVehicle with
     | .ok r => r.1.vehicles.all (fun v => decide ((v.bat.1 - 1/2) * 40 =
          ((sdGet r.2.1 "CS1").getD 0) * (1/4) * 1 ∧ 1/2 < v.bat.1))
     | .error _ => false) = true :=
  ⟨toyEnergyLaw, by decide +kernel⟩

end SpiceEv
