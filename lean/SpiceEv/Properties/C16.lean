/-
C16 — Simulations are deterministic, isolated and invariant under time relabelling.

The executable model is a pure function by construction; what is stated here is the part of the
property that has content on the model: the loop's bookkeeping treats connectors independently
(frame), and the time/bucket functions only see differences of timestamps (added when the time and
event models are integrated).  Hidden state of the Python objects is decided by paired real runs
(harness/c16.py).
-/
import SpiceEv.Proofs.ScenarioRun
set_option linter.unusedSectionVars false
namespace SpiceEv
variable {α : Type} [Field α] [LinearOrder α] [IsStrictOrderedRing α]

/-- **Frame.** Adding another connector (with arbitrary loads) to a step leaves the reported power
and generation of the existing connectors unchanged. -/
theorem C16_report_frame (eps : α) (genKeys : List String) (o : StepObs α) (g' : GcObs α) :
    (stepReport eps genKeys { o with gcs := o.gcs ++ [g'] }).loads
      = (stepReport eps genKeys o).loads ++ [(gcReport genKeys g').1] ∧
    (stepReport eps genKeys { o with gcs := o.gcs ++ [g'] }).generation
      = (stepReport eps genKeys o).generation ++ [(gcReport genKeys g').2] := by
  unfold stepReport
  simp [List.map_append]

/-- The reported power of a connector does not depend on loads registered under keys of *other*
connectors' stations: it is a function of its own load list only; permuting which station a load
belongs to elsewhere cannot change it.  (Stated as: equal load lists, rating ⇒ equal report.) -/
theorem C16_report_local (genKeys : List String) (g h : GcObs α)
    (hl : g.loads = h.loads) (hr : g.rating = h.rating) :
    gcReport genKeys g = gcReport genKeys h := by
  unfold gcReport
  rw [hl, hr]

end SpiceEv
