import sys, os, subprocess
REPO = os.environ.get("VERIF_REPO", "/repo")   # a SCRATCH copy: this script edits and `git checkout`s it
F = REPO + "/spice_ev/strategies/flex_window.py"
MUT = {
 "M1_departure_boundary": [("""                if cur_time >= sim_vehicle.estimated_time_of_departure:
                    break
                if ts_info["window"]:
                    p = ts_info["power"]""", """                if cur_time > sim_vehicle.estimated_time_of_departure:
                    break
                if ts_info["window"]:
                    p = ts_info["power"]""")],
 "M2_dropped_headroom_clamp": [("            power = min(gc.cur_max_power - gc.get_current_load(), power)\n", "            power = power\n")],
 "M3_event_off_by_one": [("                if event.start_time > cur_time:\n", "                if event.start_time >= cur_time:\n")],
 "M4_battery_bracket": [("        min_power = - gc.cur_max_power\n", "        min_power = 0\n")],
 "M5_v2g_departure_boundary": [("""                if sim_vehicle.estimated_time_of_departure < cur_time:
                    break
                if ts_info["window"] != window:
                    window_change += 1
                    window = ts_info["window"]
                connected_timesteps.append(ts_info)

            # check if vehicle ends up with desired soc, adjust min_soc accordingly
            if not cur_window and window_change >= 1:
                min_soc = vehicle.vehicle_type.discharge_limit""", """                if sim_vehicle.estimated_time_of_departure <= cur_time:
                    break
                if ts_info["window"] != window:
                    window_change += 1
                    window = ts_info["window"]
                connected_timesteps.append(ts_info)

            # check if vehicle ends up with desired soc, adjust min_soc accordingly
            if not cur_window and window_change >= 1:
                min_soc = vehicle.vehicle_type.discharge_limit""")],
 "M6_ps_filter": [('        new_timesteps = [ts for ts in timesteps if ts["window"] == charged_in_window]\n', '        new_timesteps = [ts for ts in timesteps if ts["window"]]\n')],
 "M7_forecast_sign": [('                    "power": cur_max_power - fixed_load,\n', '                    "power": cur_max_power + fixed_load,\n')],
 "M8_ps_battery_limit_cmp": [("                at_limit = all([b.soc > (self.EPS) for b in sim_batteries])\n", "                at_limit = all([b.soc >= (self.EPS) for b in sim_batteries])\n")],
 "M9_power_vec_not_subtracted": [('                ts_info["power"] -= power_vec[ts_idx]\n', '                ts_info["power"] -= 0\n')],
 "M10_needy_share": [("                f = energy_needed / total_needed if total_needed > 0 else 0\n", "                f = energy_needed / total_needed if total_needed > 1 else 0\n")],
 "M11_surplus_eps": [("""        if self.LOAD_STRAT == "balanced":
            # load vehicle with balanced strategy
            commands = self.distribute_balanced_vehicles(timesteps)
            # check if there is surplus power available
            if -gc.get_current_load() > self.EPS:""", """        if self.LOAD_STRAT == "balanced":
            # load vehicle with balanced strategy
            commands = self.distribute_balanced_vehicles(timesteps)
            # check if there is surplus power available
            if -gc.get_current_load() > 0:""")],
 "M12_avg_fixed_load_minute": None,   # in components.py, see below
 "R1_refactor": [("""            cur_time = self.current_time - self.interval
            for ts_info in timesteps:
                cur_time += self.interval
                if cur_time >= sim_vehicle.estimated_time_of_departure:
                    break
                if ts_info["window"]:
                    p = ts_info["power"]
                    p = util.clamp_power(p, sim_vehicle, cs)
                    sim_vehicle.battery.load(self.interval, max_power=p)
""", """            for step_no, ts_info in enumerate(timesteps):
                t_step = self.current_time + step_no * self.interval
                if not (t_step < sim_vehicle.estimated_time_of_departure):
                    break
                if not ts_info["window"]:
                    continue
                sim_vehicle.battery.load(
                    self.interval, max_power=util.clamp_power(ts_info["power"], sim_vehicle, cs))
"""), ("""            power = min(gc.cur_max_power - gc.get_current_load(), power)
            # apply power
            if gc.window:
                p = (power if charged_in_window
                     else gc.cur_max_power - gc.get_current_load())
            else:
                p = 0 if charged_in_window else power
""", """            headroom = gc.cur_max_power - gc.get_current_load()
            power = min(headroom, power)
            # apply power
            if charged_in_window:
                p = power if gc.window else 0
            else:
                p = headroom if gc.window else power
"""), ("""        batteries = [b for b in self.world_state.batteries.values()]
        cur_window = gc.window
""", """        batteries = list(self.world_state.batteries.values())
        cur_window = gc.window
""")],
}
name = sys.argv[1]
subprocess.check_call(["git", "-C", REPO, "checkout", "--", "."])
if name == "M12_avg_fixed_load_minute":
    G = REPO + "/spice_ev/components.py"
    s = open(G).read()
    old = """        midnight = dt.replace(hour=0, minute=0)
        timeslot = int((dt - midnight) / interval)
        return self.avg_fixed_load[weekday][timeslot]"""
    assert s.count(old) == 1
    s = s.replace(old, """        midnight = dt.replace(hour=0, minute=0)
        timeslot = int((dt - midnight) / interval) - 1
        return self.avg_fixed_load[weekday][timeslot]""")
    open(G, "w").write(s)
elif name != "none":
    s = open(F).read()
    for old, new in MUT[name]:
        assert s.count(old) == 1, (name, s.count(old), old[:60])
        s = s.replace(old, new)
    open(F, "w").write(s)
