/-
Model of the charging strategy `Distributed` (spice_ev/strategies/distributed.py), complete:
`__init__` (the state `step` uses: `strategies`, `gc_battery`, `virtual_vt`, `virtual_cs`, `connected`) and
`step`, transliterated statement by statement:

  A  reset of the station powers, look-ahead (`arriving`, `next_arrival`) over the connected vehicles and the
     arrival events in `world_state.future_events`;
  B  ranking per connector with `number_cs` (`prioritise` of Model/Distributed.lean);
  C  per connector: the vehicles that are actually connected, the virtual world (`new_world_state`), stationary
     batteries (depot: handed to the sub-strategy; opportunity station: support by raising `cur_max_power`, or a
     virtual vehicle at a virtual station while the station is vacant), the sub-strategy's `step()`
     (`ruleStep` of Model/Strategies.lean: greedy or balanced), restoring the connector limit, discharging the
     supporting batteries, moving the virtual vehicle's result back onto the battery;
  D  the final surplus pass over the vehicles that hold a charging point.

Python objects shared between the virtual and the real world are modelled by copy-in / copy-out by id.
Sub-strategies other than greedy / balanced (`strategy_opps`, `strategy_deps` accept any strategy name) are not
modelled.  Core Lean only.
-/
import SpiceEv.Model.Strategies
import SpiceEv.Model.Distributed
import SpiceEv.Model.Battery
import SpiceEv.Model.StratPeakShaving
import SpiceEv.Model.StratPeakLoadWindow
namespace SpiceEv.Distrib
open SpiceEv

/-- station type: the ending of the charging-station id -/
inductive Kind where | deps | opps
  deriving DecidableEq, Repr

def Kind.name : Kind → String
  | .deps => "deps" | .opps => "opps"

/-- `self.ARRIVAL_HORIZON = timedelta(hours=1)` (µs) -/
def arrivalHorizon : Int := 3600000000
/-- `self.CHARGE_HORIZON = timedelta(minutes=3)` (µs) -/
def chargeHorizon : Int := 180000000

/-- `components.VehicleType` of a stationary battery (`self.virtual_vt["stationary_<b_id>"]`) -/
structure VirtVT (α : Type) where
  capacity : α
  chargingCurve : Curve α
  minChargingPower : α
  efficiency : α
  v2g : Bool
  dischargeLimit : α
  dischargeCurve : Curve α

/-- an arrival `VehicleEvent` of `world_state.future_events`: the fields `step` reads
(`update.get("connected_charging_station")`, `update["soc_delta"]`, `update["desired_soc"]`, presence of
`update["estimated_time_of_departure"]`) -/
structure ArrivalEv (α : Type) where
  start : Int
  vehicleId : String
  cs : Option String
  socDelta : Option α
  desiredSoc : Option α
  hasEtd : Bool

/-- options of a sub-strategy object of class `PeakShaving` (spice_ev/strategies/peak_shaving.py) -/
structure PSCfg where
  /-- `self.HORIZON` (µs) -/
  horizon : Int
  /-- `self.perfect_foresight` -/
  perfect : Bool
  /-- bound on the iterations of each bisection of the peak-shaving model -/
  fuel : Nat

/-- what a sub-strategy object of class `PeakLoadWindow` (spice_ev/strategies/peak_load_window.py) holds that never
changes after its `__init__` (built from the parent's options: `time_windows` …) -/
structure PLWCfg (α : Type) where
  /-- `self.start_time`, `self.stop_time` (instants of the datetime model: µs since ordinal 0, UTC) -/
  start : Int
  stop : Int
  bisectFuel : Nat
  /-- `self.time_windows` -/
  windows : List (String × List Season)
  /-- `self.events`: the event table, one list per timestep -/
  events : List (List (PeakLoadWindow.Ev α))

/-- a sub-strategy object (`self.strat_opps` / `self.strat_deps`): its class and the options `step` reads -/
structure SubStrat (α : Type) where
  rule : Rule
  eps : α
  priceThreshold : α
  tsPerHour : α
  interval : Int
  /-- `some cfg`: the object is a `PeakShaving` (model: Model/StratPeakShaving.lean); `rule` is not read then -/
  ps : Option PSCfg := none
  /-- `some cfg`: the object is a `PeakLoadWindow` (model: Model/StratPeakLoadWindow.lean) -/
  plw : Option (PLWCfg α) := none

/-- battery operations: those of the rule-based strategies plus the two `Distributed` needs for the virtual vehicle -/
structure DOps (α B : Type) where
  bat : BatOps α B
  /-- `components.Vehicle({... "soc": soc ...}, self.virtual_vt).battery` -/
  newBattery : VirtVT α → α → Py B
  /-- `battery.soc = …` -/
  setSoc : B → α → B
  /-- `battery.loading_curve.max_power` (read by a peak-shaving sub-strategy) -/
  loadMaxPower : B → α
  /-- builtin `sum(list)` (read by a peak-shaving sub-strategy) -/
  sum : List α → α

/-- options and clock -/
structure DEnv (α : Type) where
  env : StratEnv α
  /-- `self.interval.total_seconds() / 3600` -/
  hours : α
  opps : SubStrat α
  deps : SubStrat α
  /-- `self.world_state.future_events` of this step, every class (the filtered copies handed to the sub-strategy
  as `new_world_state.future_events` are read by a peak-shaving sub-strategy without perfect foresight) -/
  future : List (PeakShaving.Ev α) := []
  /-- `self.current_time` as a datetime (a peak-load-window sub-strategy reads its local date and time of day) -/
  nowDt : DateTime := default
  /-- per connector `gc.grid_operator`, `gc.voltage_level`, `gc.window` (read by a peak-load-window sub-strategy) -/
  plwGc : List (String × String × Option String × Option Bool) := []
  /-- per vehicle the powers of `vehicle_type.charging_curve.points` and `vehicle.schedule` (dito) -/
  plwVeh : List (String × List α × Option α) := []

/-- the sub-strategy object is a `Greedy` / `Balanced` (neither of the other modelled classes) -/
def SubStrat.isRule {α : Type} (s : SubStrat α) : Prop := s.ps = none ∧ s.plw = none

def DEnv.sub {α : Type} (e : DEnv α) : Kind → SubStrat α
  | .deps => e.deps | .opps => e.opps

/-- the environment the sub-strategy's `step()` runs in (`strat.current_time = self.current_time`) -/
def SubStrat.env {α : Type} (s : SubStrat α) (now : Int) : StratEnv α :=
  ⟨s.eps, s.priceThreshold, s.tsPerHour, now, s.interval⟩

/-- state derived in `__init__` -/
structure DInit (α : Type) where
  /-- `self.strategies`: connector ↦ station type (the strategy object is determined by the type) -/
  strategies : List (String × Kind)
  /-- `self.gc_battery`: connector ↦ ids of its stationary batteries -/
  gcBattery : List (String × List String)
  /-- `self.virtual_vt` keyed by `stationary_<b_id>` -/
  virtualVt : List (String × VirtVT α)
  /-- `self.virtual_cs` (id = `stationary_<b_id>`; `current_power` persists between steps) -/
  virtualCs : List (StationS α)
  /-- `self.strat_opps.events` / `self.strat_deps.events` of a `PeakShaving` sub-strategy with perfect foresight
  (built by its own `__init__` from its copy of the events, past events are popped by every `step_gc`); `[]` otherwise -/
  oppsEvents : List (PeakShaving.Ev α) := []
  depsEvents : List (PeakShaving.Ev α) := []
  /-- `self.strat_opps.peak_power` / `self.strat_deps.peak_power` of a `PeakLoadWindow` sub-strategy (its `__init__`
  derives it from the event table, every step inside a window raises it); `[]` otherwise -/
  oppsPeaks : List (String × α) := []
  depsPeaks : List (String × α) := []

structure DState (α B : Type) where
  world : SWorld α B
  /-- `gc.number_cs` -/
  numberCs : List (String × Option Int)
  /-- `self.connected`: connector ↦ ids of the vehicles that hold a charging point -/
  connected : List (String × List String)
  init : DInit α
  /-- the arrival events in `world_state.future_events`, in list order -/
  future : List (ArrivalEv α)

/-- `event.signal_time = min(event.signal_time, event.start_time - self.ARRIVAL_HORIZON)` (`__init__`, for every
vehicle event of the strategy's own copy of the events) -/
def adjustSignal (signal start : Int) : Int := pymin signal (start - arrivalHorizon)

def virtName (bId : String) : String := "stationary_" ++ bId

/-- `cs_id.split("_")[-1]` -/
def stationType (csId : String) : String := (csId.splitOn "_").getLastD ""

/-- `del d[k]` / `d.pop(k)` on an insertion-ordered dict -/
def sdErase {β : Type} : List (String × β) → String → List (String × β)
  | [], _ => []
  | (k', v') :: rest, k => if k' == k then rest else (k', v') :: sdErase rest k

section
variable {α B : Type} [Add α] [Sub α] [Mul α] [Div α] [Neg α] [LT α] [LE α]
  [DecidableLT α] [DecidableLE α] [OfNat α 0] [OfNat α 1] [NatCast α] [IntCast α]

/-! ### `__init__` -/

/-- `for cs_id, cs in charging_stations.items(): …` — the station type of every connector -/
def initStrategies (stations : List (StationS α)) : Py (List (String × Kind)) :=
  stations.foldlM (fun (acc : List (String × Kind)) cs =>
    let t := stationType cs.id
    match sdGet acc cs.parent with
    | some prev => if prev.name == t then .ok acc else .error .assertion
    | none =>
      if t == "deps" then .ok (sdSet acc cs.parent Kind.deps)
      else if t == "opps" then .ok (sdSet acc cs.parent Kind.opps)
      else .error .exception) []

/-- `components.VehicleType({...})` for the battery (defaults: no V2G, power factor and discharge limit 0.5) -/
def mkVirtVT (ops : BatOps α B) (b : StatBatS α B) (cc : Curve α) : Py (VirtVT α) := do
  let half : α := 1 / (1 + 1)
  let curve ← Curve.new cc.points
  pyassert (decide (b.minChargingPower ≤ curve.maxPower))
  let dc ← defaultDischargeCurve curve half
  .ok ⟨ops.capacity b.bat, curve, b.minChargingPower, ops.efficiency b.bat, false, half, dc⟩

/-- the `# prepare batteries` loop; `curves` = `bat.charging_curve` per battery id -/
def initBattery (ops : BatOps α B) (curves : List (String × Curve α)) (strategies : List (String × Kind))
    (st : DInit α) (b : StatBatS α B) : Py (DInit α) := do
  let gcb := match sdGet st.gcBattery b.parent with
    | some (x :: xs) => sdSet st.gcBattery b.parent ((x :: xs) ++ [b.id])
    | _ => sdSet st.gcBattery b.parent [b.id]
  let st := { st with gcBattery := gcb }
  match sdGet strategies b.parent with
  | none => .ok st
  | some .deps => .ok st
  | some .opps =>
    match sdGet curves b.id with
    | none => .error .keyError
    | some cc => do
      let name := virtName b.id
      let vt ← mkVirtVT ops b cc
      let cs : StationS α := ⟨name, b.parent, cc.maxPower, b.minChargingPower, 0⟩
      .ok { st with virtualVt := sdSet st.virtualVt name vt,
                    virtualCs := (st.virtualCs.filter (fun s => !(s.id == name))) ++ [cs] }

/-- `Distributed.__init__` after `super().__init__`: derived state and `self.connected` -/
def init (ops : BatOps α B) (curves : List (String × Curve α)) (w : SWorld α B) :
    Py (DInit α × List (String × List String)) := do
  let strategies ← initStrategies w.stations
  let st ← w.batteries.foldlM (initBattery ops curves strategies) { strategies := strategies, gcBattery := [], virtualVt := [], virtualCs := [] }
  .ok (st, w.gcs.map (fun g => (g.id, [])))

/-! ### `step`, block A: look-ahead -/

structure Look (α : Type) where
  /-- `arriving`: connector ↦ (vehicle id, SoC) in append order -/
  arriving : List (String × List (String × α))
  /-- `next_arrival` -/
  nextArrival : List (String × Int)

/-- body of `for v_id, vehicle in self.world_state.vehicles.items()` -/
def lookVehicle (ops : BatOps α B) (env : StratEnv α) (w : SWorld α B) (lk : Look α) (v : VehicleS α B) :
    Py (Look α) :=
  match v.cs.bind w.station? with
  | none => .ok lk
  | some cs =>
    if env.eps < v.desiredSoc - ops.soc v.bat then
      match sdGet lk.arriving cs.parent with
      | none => .error .keyError
      | some l => .ok ⟨sdSet lk.arriving cs.parent (l ++ [(v.id, ops.soc v.bat)]),
                       sdSet lk.nextArrival cs.parent env.now⟩
    else .ok lk

/-- body of `for event in self.world_state.future_events` (arrival vehicle events only) -/
def lookEvent (ops : BatOps α B) (env : StratEnv α) (w : SWorld α B) (lk : Look α) (e : ArrivalEv α) :
    Py (Look α) :=
  match e.cs.bind w.station? with
  | none => .ok lk
  | some cs => do
    let lk ←
      if e.start ≤ env.now + chargeHorizon then
        match w.vehicle? e.vehicleId with
        | none => .error .keyError
        | some v =>
          match e.socDelta with
          | none => .error .keyError
          | some d =>
            let soc := ops.soc v.bat - d
            match e.desiredSoc with
            | none => .error .keyError
            | some des =>
              if soc < des then
                match sdGet lk.arriving cs.parent with
                | none => .error .keyError
                | some l =>
                  if e.hasEtd then
                    (.ok { lk with arriving := sdSet lk.arriving cs.parent (l ++ [(e.vehicleId, soc)]) } : Py (Look α))
                  else .error .keyError
              else .ok lk
      else .ok lk
    match sdGet lk.nextArrival cs.parent with
    | none => .ok { lk with nextArrival := sdSet lk.nextArrival cs.parent e.start }
    | some _ => .ok lk

def lookAhead (ops : BatOps α B) (env : StratEnv α) (w : SWorld α B) (future : List (ArrivalEv α)) :
    Py (Look α) := do
  let lk0 : Look α := ⟨w.gcs.map (fun g => (g.id, [])), []⟩
  let lk ← w.vehicles.foldlM (lookVehicle ops env w) lk0
  future.foldlM (lookEvent ops env w) lk

/-! ### block B: ranking -/

/-- the ranking block for one connector with `number_cs = n`; result = `self.connected[gc_id]` -/
def rankGc (w : SWorld α B) (lk : Look α) (holders : List String) (gcId : String) (n : Int) :
    Py (List String) :=
  -- `conn = {v_id: v for … if v.connected_charging_station is not None}`
  let conn := holders.filter (fun id => match w.vehicle? id with
    | some v => v.cs.isSome
    | none => false)
  if n < 0 then .error .assertion      -- `assert len(conn) <= gc.number_cs`
  else
    match sdGet lk.arriving gcId with
    | none => .error .keyError
    | some arr => prioritise n.toNat conn arr

/-- `for gc_id, gc in gcs.items()`: new `self.connected` (connectors without `number_cs` keep their entry) -/
def rank (w : SWorld α B) (numberCs : List (String × Option Int)) (lk : Look α)
    (connected : List (String × List String)) : Py (List (String × List String)) :=
  w.gcs.foldlM (fun (conn : List (String × List String)) g =>
    match (sdGet numberCs g.id).getD none with
    | none => .ok conn
    | some n =>
      match sdGet conn g.id with
      | none => .error .keyError
      | some holders => do
        let c ← rankGc w lk holders g.id n
        .ok (sdSet conn g.id c)) connected

/-- `skip_prio[gc_id]` -/
def skipPrio (numberCs : List (String × Option Int)) (gcId : String) : Bool :=
  ((sdGet numberCs gcId).getD none).isNone

/-- `vehicles = self.world_state.vehicles if skip_prio[gc_id] else self.connected[gc_id]` (ids, dict order) -/
def candidates (w : SWorld α B) (numberCs : List (String × Option Int))
    (connected : List (String × List String)) (gcId : String) : Py (List String) :=
  if skipPrio numberCs gcId then .ok (w.vehicles.map (·.id))
  else match sdGet connected gcId with
    | none => .error .keyError
    | some l => .ok l

/-! ### block C: one connector -/

/-- `connected_vehicles`: candidates with `cs_id and charging_stations[cs_id].parent == gc_id` -/
def connectedAt (w : SWorld α B) (gcId : String) (cands : List String) : Py (List (VehicleS α B)) :=
  cands.foldlM (fun (acc : List (VehicleS α B)) id =>
    match w.vehicle? id with
    | none => .ok acc
    | some v =>
      match v.cs with
      | none => .ok acc
      | some csId =>
        if csId == "" then .ok acc
        else match w.station? csId with
          | none => .error .keyError
          | some cs => if cs.parent == gcId then .ok (acc ++ [v]) else .ok acc) []

/-- `new_world_state.charging_stations[cs_id] = cs` for the connected vehicles (dict: first position kept) -/
def subStations (w : SWorld α B) (cvs : List (VehicleS α B)) : Py (List (StationS α)) :=
  cvs.foldlM (fun (acc : List (StationS α)) v =>
    match v.cs with
    | none => .ok acc
    | some csId =>
      match w.station? csId with
      | none => .error .keyError
      | some cs => if acc.any (fun s => s.id == csId) then .ok acc else .ok (acc ++ [cs])) []

/-- result of preparing the stationary batteries of an opportunity station -/
structure OppsPrep (α B : Type) where
  gc : GcS α
  /-- `avail_bat_power`: b_id ↦ power (the remembered limit is `gc_cur_max_power`, one value) -/
  avail : List (String × α)
  vveh : List (VehicleS α B)
  vcs : List (StationS α)

/-- body of `for b_id, battery in self.gc_battery.get(gc_id, {}).items()` before the sub-strategy runs -/
def oppsBattery (dops : DOps α B) (de : DEnv α) (ini : DInit α) (lk : Look α) (w : SWorld α B)
    (occupied : Bool) (gcId : String) (st : OppsPrep α B) (bId : String) : Py (OppsPrep α B) :=
  match w.batteries.find? (·.id == bId) with
  | none => .error .keyError
  | some b =>
    if occupied then do
      -- vehicle present: support GC (increase GC max power)
      let power ← dops.bat.available b.bat
      if power < b.minChargingPower then .ok st
      else do
        let pe ← fdiv power (dops.bat.efficiency b.bat)
        let energyDelta := pe * de.hours
        let socDelta ← fdiv energyDelta (dops.bat.capacity b.bat)
        if socDelta < de.env.eps then .ok st
        else .ok { st with avail := sdSet st.avail bId power,
                           gc := { st.gc with curMax := st.gc.curMax + power } }
    else
      -- vacant station: charge with strategy until vehicle arrives
      let name := virtName bId
      let arrive := (sdGet lk.nextArrival gcId).getD (de.env.now + arrivalHorizon)
      match sdGet ini.virtualVt name with
      | none => .error .exception
      | some vt =>
        match ini.virtualCs.find? (·.id == name) with
        | none => .error .keyError
        | some vcs => do
          let nb ← dops.newBattery vt (dops.bat.soc b.bat)
          let v : VehicleS α B := ⟨bId, some name, 1, some arrive, vt.minChargingPower, vt.v2g, vt.dischargeLimit, nb⟩
          .ok { st with vveh := (st.vveh.filter (fun x => !(x.id == bId))) ++ [v],
                        vcs := (st.vcs.filter (fun x => !(x.id == name))) ++ [vcs] }

/-- state threaded through the `# update stationary batteries` loop after the sub-strategy ran -/
structure OppsPost (α B : Type) where
  gc : GcS α
  cmds : List (String × α)
  bats : List (StatBatS α B)

/-- body of `for b_id, battery in self.gc_battery.get(gc_id, {}).items()` after the sub-strategy ran;
`saved` = `gc_cur_max_power`, `vveh` = the virtual vehicles after the sub-step -/
def oppsAfter (dops : DOps α B) (saved : α) (avail : List (String × α)) (vveh : List (VehicleS α B))
    (st : OppsPost α B) (bId : String) : Py (OppsPost α B) :=
  match st.bats.find? (·.id == bId) with
  | none => .error .keyError
  | some b =>
    match sdGet avail bId with
    | some _ => do
      -- battery used to support GC -> revert max_power, discharge
      let gc := { st.gc with curMax := saved }
      let powerNeeded := gc.currentLoad - gc.curMax
      let (bat', avg) ← dops.bat.unload b.bat none none (some (pymax powerNeeded 0))
      let gc' := (gc.addLoad bId (-avg)).1
      .ok { st with gc := gc', bats := st.bats.map (fun x => if x.id == bId then { b with bat := bat' } else x) }
    | none =>
      let name := virtName bId
      match sdGet st.cmds name with
      | none => .ok st
      | some _ =>
        -- battery is simulated as vehicle -> apply changes
        let cmds := sdErase st.cmds name
        match sdGet st.gc.loads name with
        | none => .error .keyError
        | some val =>
          let gc := { st.gc with loads := sdErase st.gc.loads name }
          let gc' := (gc.addLoad bId val).1
          match vveh.find? (·.id == bId) with
          | none => .error .keyError
          | some vv =>
            .ok { gc := gc', cmds := cmds,
                  bats := st.bats.map (fun x => if x.id == bId then { b with bat := dops.setSoc b.bat (dops.bat.soc vv.bat) } else x) }

/-- copy the (shared) objects of the virtual world back by id: stations and vehicles named in `ids` -/
def writeBack (w : SWorld α B) (sub : SWorld α B) (stationIds vehicleIds : List String) : SWorld α B :=
  let w := sub.stations.foldl (fun (w : SWorld α B) s => if stationIds.contains s.id then w.setStation s else w) w
  let w := sub.vehicles.foldl (fun (w : SWorld α B) v => if vehicleIds.contains v.id then w.setVehicle v else w) w
  w

/-- depot: the stationary batteries handed to the sub-strategy (`self.gc_battery.get(gc_id, {})`) -/
def depotBatteries (w : SWorld α B) (batIds : List String) : List (StatBatS α B) :=
  batIds.filterMap (fun id => w.batteries.find? (·.id == id))

/-- the objects of the virtual world are the real ones: write the sub-strategy's result back -/
def mergeDeps (w vw' : SWorld α B) (stations : List (StationS α)) (cvs : List (VehicleS α B)) : SWorld α B :=
  let w := writeBack w vw' (stations.map (·.id)) (cvs.map (·.id))
  let w := vw'.gcs.foldl (fun (w : SWorld α B) g => w.setGc g) w
  vw'.batteries.foldl (fun (w : SWorld α B) b => w.setBattery b) w

/-- REPAIRED (fixes/DIST2.diff): right after the sub-strategy's step
`for cs_id, cs in new_world_state.charging_stations.items(): cs.current_power = gc.current_loads.get(cs_id, 0)` —
the stations of the virtual world take the power booked for them at the connector (peak_shaving and
peak_load_window never write `cs.current_power`; for greedy / balanced this changes nothing) -/
def syncStations (vw : SWorld α B) : SWorld α B :=
  match vw.gcs with
  | [g] => { vw with stations := vw.stations.map (fun s => { s with currentPower := (sdGet g.loads s.id).getD 0 }) }
  | _ => vw

/-- depot connector, sub-strategy greedy / balanced: run it on `new_world_state` -/
def stepDepsRule (dops : DOps α B) (de : DEnv α) (w : SWorld α B) (ini : DInit α) (cmdsAcc : List (String × α))
    (gc : GcS α) (stations : List (StationS α)) (cvs : List (VehicleS α B)) (batIds : List String) :
    Py (SWorld α B × DInit α × List (String × α)) := do
  let (vw', cmds) ← ruleStep de.deps.rule dops.bat (de.deps.env de.env.now)
    ⟨[gc], stations, cvs, depotBatteries w batIds⟩
  .ok (mergeDeps w (syncStations vw') stations cvs, ini, sdUpdate cmdsAcc cmds)

/-- opportunity station, sub-strategy greedy / balanced: battery support / virtual vehicles, sub-strategy, restore
the limit, batteries -/
def stepOppsRule (dops : DOps α B) (de : DEnv α) (lk : Look α) (w : SWorld α B) (ini : DInit α)
    (cmdsAcc : List (String × α)) (gcId : String) (gc : GcS α) (stations : List (StationS α))
    (cvs : List (VehicleS α B)) (batIds : List String) :
    Py (SWorld α B × DInit α × List (String × α)) := do
  let saved := gc.curMax
  let prep ← batIds.foldlM (oppsBattery dops de ini lk w (!cvs.isEmpty) gcId) ⟨gc, [], [], []⟩
  let (vw', cmds) ← ruleStep de.opps.rule dops.bat (de.opps.env de.env.now)
    ⟨[prep.gc], stations ++ prep.vcs, cvs ++ prep.vveh, []⟩
  match vw'.gcs with
  | [gc1] => do
    let w := writeBack w (syncStations vw') (stations.map (·.id)) (cvs.map (·.id))
    -- the virtual stations keep their `current_power`
    let vids := prep.vcs.map (·.id)
    let ini := { ini with virtualCs := ini.virtualCs.map (fun s =>
      if vids.contains s.id then ((syncStations vw').stations.find? (·.id == s.id)).getD s else s) }
    let vveh' := vw'.vehicles.filter (fun v => prep.vveh.any (fun x => x.id == v.id))
    let post ← batIds.foldlM (oppsAfter dops saved prep.avail vveh') ⟨gc1, cmds, w.batteries⟩
    let w := { (w.setGc post.gc) with batteries := post.bats }
    .ok (w, ini, sdUpdate cmdsAcc post.cmds)
  | _ => .error .exception

/-! #### a `PeakShaving` object as sub-strategy -/

def psOps (dops : DOps α B) : PeakShaving.Ops α B := ⟨dops.bat, dops.loadMaxPower, dops.setSoc, dops.sum⟩

/-- `new_world_state.future_events`: deep copies of the connector's fixed-load / generation / operator events (list
order), then per connected vehicle (dict order) its vehicle events -/
def subFuture (future : List (PeakShaving.Ev α)) (gcId : String) (cvs : List (VehicleS α B)) :
    List (PeakShaving.Ev α) :=
  future.filter (fun e => match e with
    | .gen _ g _ _ => g == gcId | .load _ g _ _ => g == gcId | .signal _ g _ => g == gcId | _ => false)
  ++ cvs.flatMap (fun v => future.filter (fun e => match e with
    | .departure _ vid => vid == v.id | .arrival _ vid _ _ _ _ => vid == v.id | _ => false))

/-- `PeakShaving.step()` of the sub-strategy object on the virtual world ↦ (world', commands, its `self.events`
afterwards: with perfect foresight `step_gc` pops the events that started) -/
def psStep (dops : DOps α B) (sub : SubStrat α) (cfg : PSCfg) (now : Int)
    (events future : List (PeakShaving.Ev α)) (vw : SWorld α B) :
    Py (SWorld α B × List (String × α) × List (PeakShaving.Ev α)) := do
  let env : PeakShaving.Env α := ⟨sub.eps, sub.tsPerHour, now, sub.interval, cfg.horizon, cfg.perfect, cfg.fuel⟩
  let (vw', cmds, _) ← PeakShaving.step (psOps dops) env (if cfg.perfect then events else future) vw
  .ok (vw', cmds, if cfg.perfect then events.dropWhile (fun e => decide (e.start ≤ now)) else events)

/-- depot connector, sub-strategy peak_shaving -/
def stepDepsPS (dops : DOps α B) (de : DEnv α) (cfg : PSCfg) (w : SWorld α B) (ini : DInit α)
    (cmdsAcc : List (String × α)) (gc : GcS α) (stations : List (StationS α)) (cvs : List (VehicleS α B))
    (batIds : List String) : Py (SWorld α B × DInit α × List (String × α)) := do
  let (vw', cmds, evs') ← psStep dops de.deps cfg de.env.now ini.depsEvents (subFuture de.future gc.id cvs)
    ⟨[gc], stations, cvs, depotBatteries w batIds⟩
  .ok (mergeDeps w (syncStations vw') stations cvs, { ini with depsEvents := evs' }, sdUpdate cmdsAcc cmds)

/-- opportunity station, sub-strategy peak_shaving (same frame as `stepOppsRule`) -/
def stepOppsPS (dops : DOps α B) (de : DEnv α) (cfg : PSCfg) (lk : Look α) (w : SWorld α B) (ini : DInit α)
    (cmdsAcc : List (String × α)) (gcId : String) (gc : GcS α) (stations : List (StationS α))
    (cvs : List (VehicleS α B)) (batIds : List String) :
    Py (SWorld α B × DInit α × List (String × α)) := do
  let saved := gc.curMax
  let prep ← batIds.foldlM (oppsBattery dops de ini lk w (!cvs.isEmpty) gcId) ⟨gc, [], [], []⟩
  let (vw', cmds, evs') ← psStep dops de.opps cfg de.env.now ini.oppsEvents (subFuture de.future gcId cvs)
    ⟨[prep.gc], stations ++ prep.vcs, cvs ++ prep.vveh, []⟩
  match vw'.gcs with
  | [gc1] => do
    let w := writeBack w (syncStations vw') (stations.map (·.id)) (cvs.map (·.id))
    let vids := prep.vcs.map (·.id)
    let ini := { ini with virtualCs := ini.virtualCs.map (fun s =>
      if vids.contains s.id then ((syncStations vw').stations.find? (·.id == s.id)).getD s else s), oppsEvents := evs' }
    let vveh' := vw'.vehicles.filter (fun v => prep.vveh.any (fun x => x.id == v.id))
    let post ← batIds.foldlM (oppsAfter dops saved prep.avail vveh') ⟨gc1, cmds, w.batteries⟩
    let w := { (w.setGc post.gc) with batteries := post.bats }
    .ok (w, ini, sdUpdate cmdsAcc post.cmds)
  | _ => .error .exception

/-! #### a `PeakLoadWindow` object as sub-strategy -/

/-- the instant of 1970-01-01T00:00Z in the datetime model (µs since ordinal 0): times of this model are µs since the
epoch, the peak-load-window model compares vehicle departure times with `current_time.instant` -/
def epochShift : Int := 62135683200000000

/-- `PeakLoadWindow.step()` of the sub-strategy object on the virtual world ↦ (world', commands, its `peak_power`);
`extra`: charging-curve powers of virtual vehicles (not in `de.plwVeh`) -/
def plwStep (dops : DOps α B) (sub : SubStrat α) (cfg : PLWCfg α) (de : DEnv α) (peaks : List (String × α))
    (extra : List (String × List α × Option α)) (vw : SWorld α B) :
    Py (SWorld α B × List (String × α) × List (String × α)) := do
  let env : PeakLoadWindow.PEnv α := ⟨sub.eps, sub.tsPerHour, de.nowDt, sub.interval, cfg.start, cfg.stop,
    cfg.windows, cfg.events, dops.sum, cfg.bisectFuel⟩
  let pgcs : List (PeakLoadWindow.PGc α) := vw.gcs.map (fun g =>
    let a := (sdGet de.plwGc g.id).getD ("", none, none)
    ⟨g, a.1, a.2.1, a.2.2, (sdGet peaks g.id).getD 0⟩)
  let pvs : List (PeakLoadWindow.PVeh α B) := vw.vehicles.map (fun v =>
    let a := (sdGet (extra ++ de.plwVeh) v.id).getD ([], none)
    ⟨{ v with etd := v.etd.map (· + epochShift) }, a.1, a.2⟩)
  let (pw', cmds) ← PeakLoadWindow.step dops.bat env ⟨pgcs, vw.stations, pvs, vw.batteries⟩
  let vw' : SWorld α B := ⟨pw'.gcs.map (·.gc), pw'.stations,
    pw'.vehicles.map (fun pv => { pv.v with etd := pv.v.etd.map (· - epochShift) }), pw'.batteries⟩
  .ok (vw', cmds, pw'.gcs.foldl (fun acc g => sdSet acc g.gc.id g.peak) peaks)

/-- depot connector, sub-strategy peak_load_window -/
def stepDepsPLW (dops : DOps α B) (de : DEnv α) (cfg : PLWCfg α) (w : SWorld α B) (ini : DInit α)
    (cmdsAcc : List (String × α)) (gc : GcS α) (stations : List (StationS α)) (cvs : List (VehicleS α B))
    (batIds : List String) : Py (SWorld α B × DInit α × List (String × α)) := do
  let (vw', cmds, peaks') ← plwStep dops de.deps cfg de ini.depsPeaks []
    ⟨[gc], stations, cvs, depotBatteries w batIds⟩
  .ok (mergeDeps w (syncStations vw') stations cvs, { ini with depsPeaks := peaks' }, sdUpdate cmdsAcc cmds)

/-- opportunity station, sub-strategy peak_load_window (same frame as `stepOppsRule`) -/
def stepOppsPLW (dops : DOps α B) (de : DEnv α) (cfg : PLWCfg α) (lk : Look α) (w : SWorld α B) (ini : DInit α)
    (cmdsAcc : List (String × α)) (gcId : String) (gc : GcS α) (stations : List (StationS α))
    (cvs : List (VehicleS α B)) (batIds : List String) :
    Py (SWorld α B × DInit α × List (String × α)) := do
  let saved := gc.curMax
  let prep ← batIds.foldlM (oppsBattery dops de ini lk w (!cvs.isEmpty) gcId) ⟨gc, [], [], []⟩
  let extra := prep.vveh.filterMap (fun v =>
    (sdGet ini.virtualVt (virtName v.id)).map (fun vt => (v.id, vt.chargingCurve.points.map (·.2), (none : Option α))))
  let (vw', cmds, peaks') ← plwStep dops de.opps cfg de ini.oppsPeaks extra
    ⟨[prep.gc], stations ++ prep.vcs, cvs ++ prep.vveh, []⟩
  match vw'.gcs with
  | [gc1] => do
    let w := writeBack w (syncStations vw') (stations.map (·.id)) (cvs.map (·.id))
    let vids := prep.vcs.map (·.id)
    let ini := { ini with virtualCs := ini.virtualCs.map (fun s =>
      if vids.contains s.id then ((syncStations vw').stations.find? (·.id == s.id)).getD s else s), oppsPeaks := peaks' }
    let vveh' := vw'.vehicles.filter (fun v => prep.vveh.any (fun x => x.id == v.id))
    let post ← batIds.foldlM (oppsAfter dops saved prep.avail vveh') ⟨gc1, cmds, w.batteries⟩
    let w := { (w.setGc post.gc) with batteries := post.bats }
    .ok (w, ini, sdUpdate cmdsAcc post.cmds)
  | _ => .error .exception

/-- depot connector: `station_type, strat = self.strategies[gc_id]; … strat.step()` by the class of `strat` -/
def stepDeps (dops : DOps α B) (de : DEnv α) (w : SWorld α B) (ini : DInit α) (cmdsAcc : List (String × α))
    (gc : GcS α) (stations : List (StationS α)) (cvs : List (VehicleS α B)) (batIds : List String) :
    Py (SWorld α B × DInit α × List (String × α)) :=
  match de.deps.ps with
  | some cfg => stepDepsPS dops de cfg w ini cmdsAcc gc stations cvs batIds
  | none =>
    match de.deps.plw with
    | some cfg => stepDepsPLW dops de cfg w ini cmdsAcc gc stations cvs batIds
    | none => stepDepsRule dops de w ini cmdsAcc gc stations cvs batIds

/-- opportunity station, by the class of the sub-strategy -/
def stepOpps (dops : DOps α B) (de : DEnv α) (lk : Look α) (w : SWorld α B) (ini : DInit α)
    (cmdsAcc : List (String × α)) (gcId : String) (gc : GcS α) (stations : List (StationS α))
    (cvs : List (VehicleS α B)) (batIds : List String) :
    Py (SWorld α B × DInit α × List (String × α)) :=
  match de.opps.ps with
  | some cfg => stepOppsPS dops de cfg lk w ini cmdsAcc gcId gc stations cvs batIds
  | none =>
    match de.opps.plw with
    | some cfg => stepOppsPLW dops de cfg lk w ini cmdsAcc gcId gc stations cvs batIds
    | none => stepOppsRule dops de lk w ini cmdsAcc gcId gc stations cvs batIds

/-- body of `for gc_id, gc in self.world_state.grid_connectors.items()` (the charging loop) -/
def stepGc (dops : DOps α B) (de : DEnv α) (numberCs : List (String × Option Int))
    (connected : List (String × List String)) (lk : Look α)
    (st : SWorld α B × DInit α × List (String × α)) (gcId : String) :
    Py (SWorld α B × DInit α × List (String × α)) :=
  match st.1.gc? gcId with
  | none => .error .keyError
  | some gc => do
    let cands ← candidates st.1 numberCs connected gcId
    let cvs ← connectedAt st.1 gcId cands
    let batIds : List String := (sdGet st.2.1.gcBattery gcId).getD []
    if cvs.isEmpty && batIds.isEmpty then .ok st
    else
      -- GC needs to be simulated
      match sdGet st.2.1.strategies gcId with
      | none => .error .keyError
      | some kind => do
        let stations ← subStations st.1 cvs
        match kind with
        | .deps => stepDeps dops de st.1 st.2.1 st.2.2 gc stations cvs batIds
        | .opps => stepOpps dops de lk st.1 st.2.1 st.2.2 gcId gc stations cvs batIds

/-! ### block D: surplus pass -/

/-- `surplus_vehicles`: per connector the candidates whose station belongs to it (dict keyed by vehicle id) -/
def surplusIds (w : SWorld α B) (numberCs : List (String × Option Int))
    (connected : List (String × List String)) : Py (List String) :=
  w.gcs.foldlM (fun (acc : List String) g => do
    let cands ← candidates w numberCs connected g.id
    .ok (cands.foldl (fun (acc : List String) id =>
      match w.vehicle? id with
      | none => acc
      | some v =>
        match v.cs.bind w.station? with
        | none => acc
        | some cs => if cs.parent == g.id then (if acc.contains id then acc else acc ++ [id]) else acc) acc)) []

/-- `Strategy.distribute_surplus_power(vehicles)` for the given vehicles (state re-read per vehicle) -/
def distributeSurplusOn (ops : BatOps α B) (env : StratEnv α) (w : SWorld α B) (ids : List String) :
    Py (SWorld α B × List (String × α)) := do
  let cheap ← w.gcs.mapM (fun g => do let c ← gcCheap env g; pure (g.id, c))
  ids.foldlM (fun (st : SWorld α B × List (String × α)) id =>
    match st.1.vehicle? id with
    | none => .ok st
    | some v => surplusVehicle ops env cheap st.1 st.2 v) (w, [])

/-! ### `Distributed.step()` -/

def step (dops : DOps α B) (de : DEnv α) (s : DState α B) : Py (DState α B × List (String × α)) := do
  let w := resetStations s.world
  let lk ← lookAhead dops.bat de.env w s.future
  let connected ← rank w s.numberCs lk s.connected
  let (w, ini, cmds) ← (w.gcs.map (·.id)).foldlM (stepGc dops de s.numberCs connected lk) (w, s.init, [])
  let ids ← surplusIds w s.numberCs connected
  let (w, cmds2) ← distributeSurplusOn dops.bat de.env w ids
  .ok ({ s with world := w, connected := connected, init := ini }, sdUpdate cmds cmds2)

end
end SpiceEv.Distrib
