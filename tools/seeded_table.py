#!/usr/bin/env python3
"""Rewrites the seeded-changes table in DESIGN.md (between the markers) from seeded/*/meta.json."""
import glob
import json
import os
import re

V = os.path.dirname(os.path.dirname(os.path.abspath(__file__)))
rows = ["| id | change (one line) | needs | suite with change | detected by (keys of the replays) | final re-trial |",
        "|---|---|---|---|---|---|"]
n = det = rt_app = rt_det = rt_inp = 0
for d in sorted(glob.glob(os.path.join(V, "seeded", "*"))):
    m = json.load(open(os.path.join(d, "meta.json")))
    w = m["what_was_run"]
    keys = []
    for r in w["ran"]:
        for l in r["violation_lines"]:
            if "replay=" not in l:
                continue
            k = l.split("replay=")[1].split()[0].split("/")[-1]
            k = re.sub(r"-\d+\.json$", "", k)
            k = re.sub(r"^C\d\d-", "", k)
            keys.append(k + (" (no-failing-input-found)" if "no-failing-input-found" in l else ""))
    ok = m.get("confirmed_by_integrator") and w.get("detected_by")
    if m.get("confirmed_by_integrator"):
        n += 1
        det += 1 if w.get("detected_by") else 0
    rt = m.get("retrial")
    if rt is None:
        rtx = "—"
    elif not rt.get("applies"):
        rtx = "patch no longer applies (code repaired since)"
    else:
        rt_app += 1
        rt_det += 1 if rt.get("detected") else 0
        rt_inp += 1 if rt.get("detected") and rt.get("with_failing_input") else 0
        rtx = ("detected, failing input" if rt.get("with_failing_input") else "detected, no-failing-input-found") \
            if rt.get("detected") else "NOT detected"
    rows.append("| %s | %s | %s | %s | %s | %s |" % (
        os.path.basename(d), (m.get("summary") or "")[:160].replace("|", "/"), (m.get("needs") or "")[:120].replace("|", "/"),
        (m.get("suite_with_change") or (("exit %s: %s" % (w.get("suite_exit_with_change"), w.get("suite_tail"))) if w.get("suite_tail") else "not run yet"))[:30],
        ("%s: %s" % (",".join(w.get("detected_by") or ["—"]), "; ".join(sorted(set(keys))[:3])[:150])) if m.get("confirmed_by_integrator")
        else "not counted — " + (m.get("note") or "")[:120], rtx))
rows.append("")
rows.append("%d confirmed seeded changes, %d detected when they were trialled (`git -C /repo apply`, registered quick check, undo). "
            "Final re-trial on the repaired HEAD with all step ties (tools/retrial_all.py, scratch worktrees): %d patches still "
            "apply, %d detected, %d of them with a concrete failing input." % (n, det, rt_app, rt_det, rt_inp))
s = open(os.path.join(V, "DESIGN.md")).read()
block = "<!-- seeded-table -->\n" + "\n".join(rows) + "\n<!-- /seeded-table -->"
if "@SEEDED_TABLE@" in s:
    s = s.replace("@SEEDED_TABLE@", block)
else:
    s = re.sub(r"<!-- seeded-table -->.*?<!-- /seeded-table -->", lambda _: block, s, flags=re.S)
open(os.path.join(V, "DESIGN.md"), "w").write(s)
print(rows[-1])
