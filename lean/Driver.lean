/-
Line-protocol driver: one request per line on stdin, one response per line on stdout.
`<cmd> args…`; commands are registered by the modules under SpiceEv/Cmd.  Mathlib-free.
-/
import SpiceEv.Wire
import SpiceEv.Cmd.Curve
import SpiceEv.Cmd.ScenarioRun
import SpiceEv.Cmd.StrategyUtil
import SpiceEv.Cmd.Util
import SpiceEv.Cmd.GenCsv
import SpiceEv.Cmd.Report
import SpiceEv.Cmd.Events
import SpiceEv.Cmd.Gen
import SpiceEv.Cmd.Costs
import SpiceEv.Cmd.ScheduleGen
import SpiceEv.Cmd.Battery
import SpiceEv.Cmd.Strategies
import SpiceEv.Cmd.RuleSpec
import SpiceEv.Cmd.StratRun
import SpiceEv.Cmd.Distributed
import SpiceEv.Cmd.StratDistributed
import SpiceEv.Cmd.StratDistributedRun
import SpiceEv.Cmd.FlexBand
import SpiceEv.Cmd.ReportFlex
import SpiceEv.Cmd.GridFile
import SpiceEv.Cmd.ReportJson
import SpiceEv.Cmd.StratPeakShaving
import SpiceEv.Cmd.StratFlexWindow
import SpiceEv.Cmd.StratSchedule
import SpiceEv.Cmd.StratPeakLoadWindow
import SpiceEv.Cmd.StratBalancedMarket
import SpiceEv.Cmd.ScenarioCtor
import SpiceEv.Cmd.StratInit
open SpiceEv

def allHandlers : List (String × Handler) :=
  Cmd.Curve.handlers
  ++ Cmd.ScenarioRun.handlers
  ++ Cmd.StrategyUtil.handlers
  ++ Cmd.Util.handlers
  ++ Cmd.GenCsv.handlers
  ++ Cmd.Report.handlers
  ++ Cmd.Events.handlers
  ++ Cmd.Strategies.handlers
  ++ Cmd.RuleSpec.handlers
  ++ Cmd.StratRun.handlers
  ++ Cmd.Distributed.handlers
  ++ Cmd.StratDistributed.handlers
  ++ Cmd.StratDistributedRun.handlers
  ++ Cmd.FlexBand.handlers
  ++ Cmd.ReportFlex.handlers
  ++ Cmd.GridFile.handlers
  ++ Cmd.ReportJson.handlers
  ++ PeakShaving.Cmd.handlers
  ++ Cmd.StratFlexWindow.handlers
  ++ Cmd.StratSchedule.handlers
  ++ Cmd.StratPeakLoadWindow.handlers
  ++ Cmd.StratBalancedMarket.handlers
  ++ Cmd.StratInit.handlers
  ++ Cmd.Gen.handlers
  ++ Cmd.Costs.handlers
  ++ Cmd.ScheduleGen.handlers
  ++ Cmd.Battery.handlers
  ++ Cmd.ScenarioCtor.handlers

def handle (line : String) : String :=
  match (line.splitOn " ").filter (· ≠ "") with
  | [] => ""
  | cmd :: rest =>
    match allHandlers.lookup cmd with
    | none => "bad-cmd"
    | some h => (h rest).getD "bad-args"

partial def loop (h : IO.FS.Stream) (out : IO.FS.Stream) : IO Unit := do
  let line ← h.getLine
  if line.isEmpty then return ()
  out.putStrLn (handle (line.trimAscii.toString))
  loop h out

def main : IO Unit := do
  let out ← IO.getStdout
  loop (← IO.getStdin) out
  out.flush
