"""S_INIT — tie of the strategy constructors (`__init__`) to lean/SpiceEv/Model/StratInit.lean.

`tie(full)` wraps the `__init__` of the real strategy class for the duration of a `scen.run_real(full)` (or of a direct
constructor call): the constructor's INPUTS (options, components summary, raw events, the text of the window file,
start time, interval) are rendered as one request line BEFORE the real constructor runs, the state it DERIVES is rendered
afterwards (or the kind of the exception it raises) and compared with the model's line, floats by value at the bit level.
`steptie.tie_for` adds this tie to the step tie of every strategy, so every run-level check (C04, C05, C06, C09, C11, C14,
C16, C17) carries one `init_*` line per real run.

    peak_load_window → `init_plw`          (window table conversion, year replacement, connector defaults, shifted
                                             signal times, `changed`, event table, initial peak power)
    schedule         → `init_schedule`     (LOAD_STRAT validation, one connector, core standing time present)
    flex_window      → `init_flex_window`  (one connector, LOAD_STRAT → installed sort key, observed by its behaviour)
    peak_shaving     → `init_shaving`      (HORIZON as timedelta, perfect_foresight, `changed`, the sorted shifted `self.events`)
    balanced_market  → `init_market`       (HORIZON default, shifted signal times of the scenario's grid signals, `changed`)
    any other        → `init_base`         (Strategy.__init__: clock, ts_per_hour, CONCURRENCY scaling, option defaults)

The stand-alone check `./check S_INIT` adds (a) a boundary stream of direct constructor calls (window season ending
mid-run, scenario year missing from the table incl. 29 February, malformed dates / times, missing keys, empty files,
HORIZON shorter than the interval, empty event lists, bad LOAD_STRATs, zero interval) with an independent oracle for the
window table, (b) the generated-constants stream (defaults ast-extracted from the Python source vs `init_consts`).
The boundary stream is also part of the registered check C15 (kind `init`).
"""
import ast
import contextlib
import copy
import datetime
import io
import json
import os
import random
import re
import sys
import tempfile
import warnings

import engine
import scen
from wire import enc
from c10 import compare as _compare_by_value

engine.use_repo()

PID = "S_INIT"
THEOREM_MODULES = ["C15_Init", "C05_Init", "C11_Init"]
CHUNK = 20
RULE = ("boundary stream: direct calls of the real strategy constructors on scenarios of harness/scen.py with altered "
        "window files / options (one model evaluation per call); constants stream: one comparison; non-trivial = the "
        "constructor derived a state (did not raise); distinct = distinct (seed, index, variant)")
ASSUMPTIONS = ["floats compared by value (+0.0 == -0.0, int 0 == 0.0), no tolerance",
               "all datetimes of a scenario are timezone-aware with fixed offsets",
               "date / time strings of the window file: `dddd-dd-dd`, `dd:dd[:dd[.dddddd]]` are modelled; any other text "
               "is modelled as ValueError (the adapter refuses texts that Python >= 3.11 parses in another ISO form)",
               "CPython's json.load, int(), datetime (the calendar arithmetic is re-implemented in the model and compared)",
               "balanced_market / peak_shaving: `timedelta(hours=HORIZON)` in µs is an input of the model (CPython's rounding "
               "of a float number of hours is not re-implemented)",
               "`changed` is read from the constructors' print-out `<n> events signaled earlier`"]
UNPROVED = ["the calendar functions ymdToOrd / ordToYear are tied (every date of every case), not proved inverse to each other"]

KINDS = {"AssertionError", "ZeroDivisionError", "ValueError", "KeyError", "IndexError", "TypeError", "OverflowError",
         "RuntimeError", "Exception"}
US_DAY = 86400 * 1000000
DATE_RE = re.compile(r"^([0-9]{4})-([0-9]{2})-([0-9]{2})$")
TIME_RE = re.compile(r"^([0-9]{2}):([0-9]{2})(?::([0-9]{2})(?:\.([0-9]{6}))?)?$")


def f(x):
    return enc(float(x))


def tok(s):
    s = str(s)
    if not s or any(c.isspace() for c in s) or s in ("|",):
        raise AssertionError("identifier not renderable as a token: %r" % s)
    return s


def us_of(t):
    return ((t.hour * 60 + t.minute) * 60 + t.second) * 1000000 + t.microsecond


def off_us(d):
    off = d.utcoffset()
    if off is None:
        raise AssertionError("naive datetime in a scenario: not modelled")
    return (off.days * 86400 + off.seconds) * 1000000 + off.microseconds


def w_dt(d):
    return "%d %d S %d" % (d.toordinal(), us_of(d), off_us(d))


def inst(d):
    return d.toordinal() * US_DAY + us_of(d) - off_us(d)


def td_us(td):
    return (td.days * 86400 + td.seconds) * 1000000 + td.microseconds


def opt(x, g):
    return "N" if x is None else "S " + g(x)


def lst(xs, g=str):
    xs = list(xs)
    return " ".join([str(len(xs))] + [g(x) for x in xs])


def err_kind(e):
    n = type(e).__name__
    return n if n in KINDS else "Exception"


# ------------------------------------------------------------------------------------------------------------------
# request lines (inputs, rendered BEFORE the real constructor runs)

def r_base(components, start_time, kwargs):
    g = kwargs.get
    b = lambda k: opt(g(k), lambda v: "1" if v else "0")  # noqa: E731
    n = lambda k: opt(g(k), f)  # noqa: E731
    return " ".join([n("CONCURRENCY"), n("margin"), n("PRICE_THRESHOLD"), n("EPS"), b("ALLOW_NEGATIVE_SOC"),
                     b("RESET_NEGATIVE_SOC"),
                     lst(components.charging_stations.items(), lambda kv: "%s %s" % (tok(kv[0]), f(kv[1].max_power))),
                     w_dt(start_time), str(td_us(kwargs["interval"]))])


def r_datestr(s):
    if not isinstance(s, str):
        raise AssertionError("date entry of the window file is not a string: not modelled")
    m = DATE_RE.match(s)
    if m:
        return "D %d %d %d" % tuple(int(x) for x in m.groups())
    try:
        datetime.date.fromisoformat(s)
    except ValueError:
        pass
    else:
        raise AssertionError("date text %r: an ISO form other than YYYY-MM-DD, not modelled" % s)
    try:
        y = int(s[:4])
    except ValueError:
        y = None
    return "B " + opt(y, str)


def r_timestr(s):
    if not isinstance(s, str):
        raise AssertionError("time entry of the window file is not a string: not modelled")
    m = TIME_RE.match(s)
    if m:
        return "T %d %d %d %d" % tuple(int(x or 0) for x in m.groups())
    try:
        datetime.time.fromisoformat(s)
    except ValueError:
        pass
    else:
        raise AssertionError("time text %r: an ISO form other than HH:MM[:SS[.ffffff]], not modelled" % s)
    return "B"


def r_file(obj):
    def season(kv):
        name, info = kv
        parts = [tok(name), opt(info.get("start"), r_datestr), opt(info.get("end"), r_datestr)]
        if "windows" not in info:
            parts.append("N")
        else:
            def level(lw):
                lvl, ws = lw
                for t in ws:
                    if len(t) < 2:
                        raise AssertionError("window with fewer than two entries: not modelled")
                return "%s %s" % (tok(lvl), lst(ws, lambda t: r_timestr(t[0]) + " " + r_timestr(t[1])))
            parts.append("S " + lst(info["windows"].items(), level))
        return " ".join(parts)
    return lst(obj.items(), lambda kv: "%s %s" % (tok(kv[0]), lst(kv[1].items(), season)))


def r_ev(e):
    from spice_ev import events
    if type(e) is events.LocalEnergyGeneration:
        return "G %s %s %s" % (tok(e.grid_connector_id), tok(e.name), f(e.value))
    if type(e) is events.FixedLoad:
        return "L %s %s %s" % (tok(e.grid_connector_id), tok(e.name), f(e.value))
    if type(e) is events.GridOperatorSignal:
        return "S %s %s" % (tok(e.grid_connector_id), opt(e.max_power, f))
    raise AssertionError("unexpected event type %r" % type(e))


def r_lev(e):
    return "%d %d %s" % (inst(e.signal_time), inst(e.start_time), r_ev(e))


def r_vev(e):
    if e.event_type == "arrival":
        etd = e.update.get("estimated_time_of_departure")
        return "A " + opt(etd, lambda t: str(inst(t)))
    if e.event_type == "departure":
        return "D %d" % inst(e.start_time)
    return "O"


def render_init(strategy, components, start_time, kwargs):
    """the request line for the constructor of `strategy`; nothing here is computed from the constructor's result"""
    from spice_ev import events as E
    base = r_base(components, start_time, kwargs)
    if strategy == "peak_load_window":
        path = kwargs.get("time_windows")
        if path is None:
            file_txt = "N"
        else:
            with open(path, "r") as fh:
                file_txt = "S " + r_file(json.load(fh))
        evobj = kwargs["events"]
        gcs = lst(components.grid_connectors.items(), lambda kv: " ".join([
            tok(kv[0]), opt(kv[1].voltage_level, tok), opt(kv[1].grid_operator, tok),
            lst(kv[1].current_loads.items(), lambda lv: "%s %s" % (tok(lv[0]), f(lv[1])))]))
        for e in evobj.grid_operator_signals:
            if not hasattr(e, "grid_connector_id"):
                raise AssertionError("grid operator signal without connector id: not modelled")
        return " ".join(["init_plw", base, str(inst(kwargs["stop_time"])), file_txt, gcs,
                         lst(evobj.grid_operator_signals, r_lev),
                         lst(evobj.fixed_load_lists.items(),
                             lambda kv: lst(kv[1].get_events(kv[0], E.FixedLoad), r_lev)),
                         lst(evobj.local_generation_lists.items(),
                             lambda kv: lst(kv[1].get_events(kv[0], E.LocalEnergyGeneration), r_lev)),
                         lst(evobj.vehicle_events, r_vev)])
    if strategy == "schedule":
        return " ".join(["init_schedule", base, opt(kwargs.get("LOAD_STRAT"), tok),
                         opt(kwargs.get("ITERATIONS"), lambda v: str(int(v))),
                         opt(kwargs.get("warn_core_standing_time"), lambda v: "1" if v else "0"),
                         str(len(components.grid_connectors)),
                         "0" if kwargs.get("core_standing_time") is None else "1"])
    if strategy == "flex_window":
        return " ".join(["init_flex_window", base, opt(kwargs.get("LOAD_STRAT"), tok), opt(kwargs.get("HORIZON"), f),
                         str(len(components.grid_connectors))])
    if strategy == "balanced_market":
        hz = kwargs.get("HORIZON")
        return " ".join(["init_market", base, opt(hz, f),
                         opt(hz, lambda h: str(td_us(datetime.timedelta(hours=h)))),
                         lst(kwargs["events"].grid_operator_signals,
                             lambda e: "%d %d" % (inst(e.signal_time), inst(e.start_time)))])
    if strategy == "peak_shaving":
        import s_peak_shaving as ps
        evobj = kwargs["events"]
        sig = lambda e: "%d %s" % (ps.us(e.signal_time), ps.r_event(e))  # noqa: E731
        hz = kwargs.get("HORIZON")
        return " ".join(["init_shaving", base, opt(hz, lambda h: str(td_us(datetime.timedelta(hours=h)))),
                         opt(kwargs.get("perfect_foresight"), lambda v: "1" if v else "0"), str(ps.us(start_time)),
                         lst(evobj.vehicle_events, sig), lst(evobj.grid_operator_signals, sig),
                         lst(evobj.fixed_load_lists.items(), lambda kv: lst(kv[1].get_events(kv[0], E.FixedLoad), sig)),
                         lst(evobj.local_generation_lists.items(),
                             lambda kv: lst(kv[1].get_events(kv[0], E.LocalEnergyGeneration), sig))])
    return "init_base " + base


# ------------------------------------------------------------------------------------------------------------------
# implementation lines (the derived state, rendered AFTER the real constructor)

def r_base_state(strat):
    return " ".join([w_dt(strat.current_time), f(strat.ts_per_hour),
                     lst(strat.world_state.charging_stations.items(),
                         lambda kv: "%s %s" % (tok(kv[0]), f(kv[1].max_power))),
                     f(strat.margin), f(strat.PRICE_THRESHOLD), f(strat.EPS),
                     "1" if strat.ALLOW_NEGATIVE_SOC else "0", "1" if strat.RESET_NEGATIVE_SOC else "0",
                     "1" if strat.uses_schedule else "0", "1" if strat.uses_window else "0"])


def r_season_conv(info):
    parts = [str(info["start"].toordinal()), str(info["end"].toordinal())]
    if "windows" not in info:
        parts.append("N")
    else:
        parts.append("S " + lst(info["windows"].items(), lambda lw: "%s %s" % (
            tok(lw[0]), lst(lw[1], lambda ab: "%d %d" % (us_of(ab[0]), us_of(ab[1]))))))
    return " ".join(parts)


class _SortProbe:
    """a vehicle-like object on which the three sort keys of flex_window give three different values"""
    class _B:
        soc = 0.25
        capacity = 3.0
    battery = _B()
    desired_soc = 0.5
    estimated_time_of_departure = 17

    def get_delta_soc(self):
        return 7.0


def sort_key_kind(strat):
    if not hasattr(strat, "sort_key"):
        return "N"
    v = strat.sort_key(_SortProbe())
    return {(False, 17): "S g", 21.0: "S n", (True, 17): "S b"}.get(v) or ("S ?%r" % (v,)).replace(" ", "")


def render_init_result(strategy, strat, kwargs, changed):
    base = r_base_state(strat)
    if strategy == "peak_load_window":
        evobj = kwargs["events"]
        tw = lst(strat.time_windows.items(), lambda kv: "%s %s" % (tok(kv[0]), lst(
            kv[1].items(), lambda si: "%s %s" % (tok(si[0]), r_season_conv(si[1])))))
        gcs = lst(strat.world_state.grid_connectors.items(), lambda kv: " ".join([
            tok(kv[0]), opt(kv[1].voltage_level, tok), opt(kv[1].grid_operator, tok)]))
        return " | ".join([base, tw, gcs, lst(evobj.grid_operator_signals, lambda e: str(inst(e.signal_time))),
                           str(changed), lst(strat.events, lambda b: lst(b, r_lev)),
                           lst(strat.world_state.grid_connectors, lambda g: "%s %s" % (tok(g), f(strat.peak_power[g])))])
    if strategy == "schedule":
        return base + " | %s %d %d %d %d" % (tok(strat.LOAD_STRAT), strat.ITERATIONS,
                                              bool(strat.currently_in_core_standing_time),
                                              bool(strat.overcharge_necessary), bool(strat.warn_core_standing_time))
    if strategy == "flex_window":
        return base + " | %s %s %s" % (tok(strat.LOAD_STRAT), f(strat.HORIZON), sort_key_kind(strat))
    if strategy == "peak_shaving":
        import s_peak_shaving as ps
        evs = "N"
        if strat.perfect_foresight:
            evs = "S " + lst(strat.events, lambda e: "%d %s" % (ps.us(e.signal_time), ps.r_event(e)))
        return " | ".join([base, "%d %d" % (td_us(strat.HORIZON), bool(strat.perfect_foresight)), str(changed), evs])
    if strategy == "balanced_market":
        return " | ".join([base, f(strat.HORIZON),
                           lst(kwargs["events"].grid_operator_signals, lambda e: str(inst(e.signal_time))), str(changed)])
    return base


def compare(case, impl, model):
    return _compare_by_value(case, impl, model)


OWN_MODEL = ("peak_load_window", "schedule", "flex_window", "balanced_market", "peak_shaving")


@contextlib.contextmanager
def tie(full):
    """wrap the real constructor for one run.  For the three classes whose whole `__init__` is modelled here the class's
    own `__init__` is wrapped (on top of whatever other ties have put there); for every other strategy only
    `Strategy.__init__` is modelled here (`init_base`), so the BASE class constructor is wrapped and the state is read the
    moment it returns — what the subclass does afterwards (distributed's assertions, the event handling of
    balanced_market / peak_shaving) belongs to those classes' own ties."""
    from spice_ev import strategy as st_mod
    strategy = full.get("strategy")
    cls = st_mod.class_from_str(strategy)
    own = strategy in OWN_MODEL
    target = cls if own else st_mod.Strategy
    kind = strategy if own else "base"
    orig_init = target.__init__
    box = {"lines": [], "impl": [], "errors": [], "stats": set()}

    def init(self, *a, **kwargs):
        if type(self) is not cls or len(a) != 2 or "interval" not in kwargs or box["lines"]:
            return orig_init(self, *a, **kwargs)
        line = render_init(kind, a[0], a[1], kwargs)
        # `changed` is only observable through the constructor's print-out; other ties may swallow stdout, so `print`
        # is spied on in the strategy's own module for the duration of the call
        import builtins
        mod = sys.modules[cls.__module__]
        said = []

        def spy(*pa, **pk):
            said.append(" ".join(str(x) for x in pa))
            return builtins.print(*pa, **pk)
        had = "print" in mod.__dict__
        old_print = mod.__dict__.get("print")
        mod.print = spy
        try:
            orig_init(self, *a, **kwargs)
        except Exception as e:
            box["lines"].append(line)
            box["impl"].append("!" + err_kind(e))
            box["stats"].add("init_raises_" + type(e).__name__)
            raise
        finally:
            if had:
                mod.print = old_print
            else:
                del mod.print
        changed = 0
        for txt in said:
            m = re.match(r"^(\d+) events signal", txt)
            if m:
                changed = int(m.group(1))
        box["lines"].append(line)
        box["impl"].append(render_init_result(kind, self, kwargs, changed))
        box["stats"].add("init_tied_" + strategy)

    target.__init__ = init
    try:
        yield box
    finally:
        target.__init__ = orig_init


# ------------------------------------------------------------------------------------------------------------------
# boundary stream: direct constructor calls

VARIANTS = ["plain", "season_mid_run", "year_replace", "year_replace_leap", "year_mixed", "bad_date", "bad_time",
            "missing_key", "empty_file", "no_file", "gc_defaults", "early_signals", "no_events", "late_departure",
            "schedule_opts", "flex_opts", "base_opts", "market_horizon", "zero_interval", "shaving_opts"]
PLW_VARIANTS = set(VARIANTS[:14])


def _iso(d):
    return d.isoformat()


def make_case(seed, i, variant):
    rng = random.Random("S_INIT:%s:%s:%s" % (seed, i, variant))
    if variant in PLW_VARIANTS or variant == "zero_interval":
        strategy = "peak_load_window"
    elif variant == "schedule_opts":
        strategy = "schedule"
    elif variant == "flex_opts":
        strategy = "flex_window"
    elif variant == "market_horizon":
        strategy = "balanced_market"
    elif variant == "shaving_opts":
        strategy = "peak_shaving"
    else:
        strategy = rng.choice(["greedy", "balanced", "peak_shaving", "balanced_market", "distributed", "schedule",
                               "flex_window", "peak_load_window"])
    feats = {"fixed_load": True} if strategy == "peak_load_window" else {}
    if variant == "no_events":
        feats = {"fixed_load": False, "generation": False, "limit_signal": False, "price_signal": False}
    full = scen.gen_scenario(rng, strategy=strategy, feasible=True, max_steps=24, features=feats)
    sc = full["scenario"]
    opts = full["options"]
    meta = full["meta"]
    start = datetime.datetime.fromisoformat(sc["scenario"]["start_time"])
    tw = meta.get("time_windows")
    lvls = ["HV", "MV", "LV"]
    win = lambda: {lvl: [[rng.choice(["00:00", "08:15", "11:00"]), rng.choice(["12:30", "13:00", "23:59:59.999999"])],  # noqa: E731
                         ["22:10", "03:20"]] for lvl in lvls}
    if variant == "season_mid_run":
        # the season ends (or the next begins) on a day the look-ahead reaches; a gap day in no season
        d0 = start.date()
        tw["default_grid_operator"] = {
            "a": {"start": _iso(d0 - datetime.timedelta(days=rng.choice([0, 1, 30]))), "end": _iso(d0), "windows": win()},
            "gap": {"start": _iso(d0 + datetime.timedelta(days=2)), "end": _iso(d0 + datetime.timedelta(days=1))},
            "b": {"start": _iso(d0 + datetime.timedelta(days=rng.choice([1, 2]))),
                  "end": _iso(d0 + datetime.timedelta(days=40)), "windows": win()}}
    elif variant in ("year_replace", "year_replace_leap", "year_mixed"):
        y = rng.choice([2019, 2021, 2024]) if variant != "year_replace_leap" else 2024
        if variant == "year_replace_leap" or rng.random() < 0.5:
            # move the scenario into a leap February
            new_start = start.replace(year=rng.choice([2020, 2024, 2028, 2023, 2100]), month=2,
                                      day=rng.choice([27, 28]))
            _shift_scenario(sc, new_start - start)
            start = new_start
        seasons = {"w1": {"start": "%d-01-01" % y, "end": "%d-02-%02d" % (y, 29 if y % 4 == 0 else 28), "windows": win()},
                   "s": {"start": "%d-03-01" % y, "end": "%d-11-30" % y, "windows": {}},
                   "w2": {"start": "%d-12-01" % y, "end": "%d-12-31" % y, "windows": win()}}
        if variant == "year_mixed":
            # a season that starts in the year before: only the oldest year is replaced
            seasons = {"w0": {"start": "%d-11-01" % (y - 1), "end": "%d-02-28" % y, "windows": win()},
                       "s": {"start": "%d-03-01" % y, "end": "%d-10-31" % y, "windows": win()}}
        tw["default_grid_operator"] = seasons
        if rng.random() < 0.3:
            tw["op2"] = {"all": {"start": "%d-01-01" % start.year, "end": "%d-12-31" % start.year, "windows": win()}}
    elif variant == "bad_date":
        s1 = next(iter(tw["default_grid_operator"].values()))
        s1[rng.choice(["start", "end"])] = rng.choice(["2020-13-01", "2020-02-30", "2021-02-29", "2020-1-01", "junk",
                                                       "0000-01-01", "2020-00-10", "20x0-01-01", " 2020-01-01",
                                                       "2020-01-01T00:00", "", "2020-04-31"])
    elif variant == "bad_time":
        s1 = next(iter(tw["default_grid_operator"].values()))
        lvl = rng.choice(list(s1["windows"]))
        s1["windows"][lvl][rng.randrange(len(s1["windows"][lvl]))][rng.choice([0, 1])] = rng.choice(
            ["24:00", "12:60", "7:00", "noon", "23:59:60", "12:30:15", "12:30:15.250000", ""])
    elif variant == "missing_key":
        s1 = next(iter(tw["default_grid_operator"].values()))
        del s1[rng.choice(["start", "end", "windows"])]
    elif variant == "empty_file":
        meta["time_windows"] = rng.choice([{}, {"default_grid_operator": {}}, {"op0": {}, "default_grid_operator": {}}])
    elif variant == "no_file":
        del opts["time_windows"]
    elif variant == "gc_defaults":
        tw["zz_last"] = {"all": {"start": "2020-01-01", "end": "2020-12-31", "windows": win()}}
        if rng.random() < 0.3:
            tw["zz_empty"] = {}
        for g in sc["components"]["grid_connectors"].values():
            if rng.random() < 0.7:
                g.pop("voltage_level", None)
            if rng.random() < 0.7:
                # an absent (or null) key becomes components' default "default_grid_operator": the constructor's
                # `grid_operator is None` branch is reachable only for components built by hand — `construct` sets
                # the attribute to None on the built object
                g.pop("grid_operator", None)
                meta.setdefault("null_operator", []).append(1)
            else:
                meta.setdefault("null_operator", []).append(0)
                if rng.random() < 0.3:
                    g["grid_operator"] = "unknown_operator"
    elif variant == "early_signals":
        # signals announced before / at / after the scenario start; local events before the start
        for e in sc["events"]["grid_operator_signals"]:
            e["signal_time"] = _iso(start + datetime.timedelta(minutes=rng.choice([-60, 0, 0, 1, 45, 600])))
        for l in list(sc["events"].get("fixed_load", {}).values()) + list(sc["events"].get("local_generation", {}).values()):
            if "start_time" in l and rng.random() < 0.6:
                l["start_time"] = _iso(datetime.datetime.fromisoformat(l["start_time"])
                                       - datetime.timedelta(minutes=rng.choice([7, 15, 60, 600])))
    elif variant == "late_departure":
        for e in sc["events"]["vehicle_events"]:
            if e["event_type"] == "arrival" and rng.random() < 0.6:
                etd = datetime.datetime.fromisoformat(e["update"]["estimated_time_of_departure"])
                e["update"]["estimated_time_of_departure"] = _iso(etd + datetime.timedelta(hours=rng.choice([1, 30, 72])))
            elif e["event_type"] == "arrival" and rng.random() < 0.1:
                del e["update"]["estimated_time_of_departure"]
            elif e["event_type"] == "departure" and rng.random() < 0.5:
                # a departure later than every announced departure and than the scenario's stop time
                e["start_time"] = _iso(datetime.datetime.fromisoformat(e["start_time"])
                                       + datetime.timedelta(hours=rng.choice([1, 30, 100])))
    elif variant == "schedule_opts":
        opts["LOAD_STRAT"] = rng.choice(["collective", "individual", "Collective", "balanced", "individual ".strip(), "x"])
        if rng.random() < 0.3:
            del opts["LOAD_STRAT"]
        if rng.random() < 0.3:
            opts["ITERATIONS"] = rng.choice([1, 5, 12, 30])
        if rng.random() < 0.3:
            opts["warn_core_standing_time"] = rng.choice([True, False])
        if rng.random() < 0.4:
            sc["scenario"].pop("core_standing_time", None)
        elif "core_standing_time" not in sc["scenario"] and rng.random() < 0.7:
            sc["scenario"]["core_standing_time"] = {"times": [{"start": [22, 0], "end": [5, 0]}], "no_drive_days": [6]}
    elif variant == "flex_opts":
        opts["LOAD_STRAT"] = rng.choice(["balanced", "greedy", "needy", "fair", "Balanced", "greedy_", "fair", "x"])
        if rng.random() < 0.2:
            del opts["LOAD_STRAT"]
        if rng.random() < 0.5:
            opts["HORIZON"] = rng.choice([0.1, 0.25, 1, 2, 24, 48])
    elif variant == "market_horizon":
        opts["HORIZON"] = rng.choice([0, 0.1, 0.25, 1, 24, 100])
    elif variant == "shaving_opts":
        if rng.random() < 0.7:
            opts["HORIZON"] = rng.choice([0, 0.1, 0.25, 1, 3, 24, 100])
        if rng.random() < 0.5:
            opts["perfect_foresight"] = rng.choice([True, False, 0, 1])
        for e in sc["events"]["grid_operator_signals"] + sc["events"]["vehicle_events"]:
            if rng.random() < 0.4:
                e["signal_time"] = _iso(start + datetime.timedelta(minutes=rng.choice([-60, 0, 1, 45, 600])))
    elif variant == "zero_interval":
        meta["interval_override_us"] = rng.choice([0, 0, 420000000, 60000000])
    if variant in ("base_opts", "schedule_opts", "flex_opts", "plain", "market_horizon") or rng.random() < 0.3:
        if rng.random() < 0.6:
            opts["CONCURRENCY"] = rng.choice([0.0, 0.3, 0.5, 1, 1.0, 0.9999999999999999])
        if rng.random() < 0.4:
            opts["margin"] = rng.choice([0, 0.05, 0.1, 1])
        if rng.random() < 0.4:
            opts["PRICE_THRESHOLD"] = rng.choice([-0.1, 0, 0.05])
        if rng.random() < 0.3:
            opts["EPS"] = rng.choice([1e-5, 1e-9, 0.001])
        if rng.random() < 0.4:
            opts["ALLOW_NEGATIVE_SOC"] = rng.choice([True, False, 1, 0])
        if rng.random() < 0.4:
            opts["RESET_NEGATIVE_SOC"] = rng.choice([True, False])
    full["pid"] = PID
    full["meta"]["init_variant"] = variant
    return full


def _shift_scenario(sc, delta):
    """move every datetime text of the scenario by `delta`"""
    def walk(o):
        if isinstance(o, dict):
            for k, v in list(o.items()):
                o[k] = walk(v)
            return o
        if isinstance(o, list):
            return [walk(v) for v in o]
        if isinstance(o, str) and re.match(r"^\d{4}-\d{2}-\d{2}T", o):
            try:
                return (datetime.datetime.fromisoformat(o) + delta).isoformat()
            except ValueError:
                return o
        return o
    walk(sc)


def construct(full):
    """build the Scenario and call the strategy constructor exactly as `Scenario.run` does (no steps are run)"""
    import pathlib
    from spice_ev import scenario as sc_mod, strategy as st_mod
    options = dict(full["options"])
    tmp = None
    if options.get("time_windows") == "@TIME_WINDOWS":
        tmp = tempfile.NamedTemporaryFile("w", suffix=".json", delete=False)
        json.dump(full["meta"]["time_windows"], tmp)
        tmp.close()
        options["time_windows"] = tmp.name
    try:
        with warnings.catch_warnings():
            warnings.simplefilter("ignore")
            with contextlib.redirect_stdout(io.StringIO()):
                s = sc_mod.Scenario(copy.deepcopy(full["scenario"]), pathlib.Path(""))
                for gc, flag in zip(s.components.grid_connectors.values(), full.get("meta", {}).get("null_operator", [])):
                    if flag:
                        gc.grid_operator = None
                if "interval_override_us" in full.get("meta", {}):
                    s.interval = datetime.timedelta(microseconds=full["meta"]["interval_override_us"])
                events_copy = copy.deepcopy(s.events)
                options['events'] = events_copy
                options['interval'] = s.interval
                options['stop_time'] = s.stop_time
                options['n_intervals'] = s.n_intervals
                options['core_standing_time'] = s.core_standing_time
                try:
                    strat = st_mod.class_from_str(full["strategy"])(s.components, s.start_time, **options)
                    return s, strat, None
                except Exception as e:
                    return s, None, e
    finally:
        if tmp is not None:
            os.unlink(tmp.name)


# independent oracle for the window table: the property's predicate (C15) read off the TEXT of the file

def _text_date(s, replace):
    y, m, d = (int(x) for x in s.split("-"))
    if replace and y == replace[0]:
        y = replace[1]
    return (y, m, d)


def oracle_windows(file_obj, op, level, start_year, instants):
    """for every instant: inside a window according to the file text (first season containing the date, bounds
    inclusive, start <= t < end, wrapping) — dates compared as (y, m, d) triples, times as texts padded to µs;
    `replace`: the documented year replacement (oldest start year → scenario year, month and day kept)"""
    seasons = file_obj[op]
    years = sorted({int(info["start"][:4]) for o in file_obj.values() for info in o.values()})
    replace = None if start_year in years else (years[0], start_year)

    def tkey(s):
        m = TIME_RE.match(s)
        return tuple(int(x or 0) for x in m.groups())
    out = []
    for d in instants:
        dk = (d.year, d.month, d.day)
        tk = (d.hour, d.minute, d.second, d.microsecond)
        res = False
        for info in seasons.values():
            if _text_date(info["start"], replace) <= dk <= _text_date(info["end"], replace):
                for a, b in info.get("windows", {}).get(level, []):
                    a, b = tkey(a), tkey(b)
                    if (a <= tk < b) if a <= b else (tk >= a or tk < b):
                        res = True
                        break
                break
        out.append(res)
    return out


def eval_init_case(case):
    from spice_ev import util
    full = case if "scenario" in case else make_case(case["seed"], case["i"], case["variant"])
    variant = full["meta"].get("init_variant", "replay")
    with tie(full) as box:
        s, strat, exc = construct(full)
    if box["errors"]:
        raise RuntimeError("s_init adapter: %s" % box["errors"][:2])
    viol = []
    stats = ["init:" + variant, "init:" + full["strategy"]] + sorted(box["stats"])
    # oracle (C15): the converted table denotes the instants the file's text denotes
    if strat is not None and full["strategy"] == "peak_load_window":
        file_obj = full["meta"]["time_windows"]
        step = s.interval if s.interval > datetime.timedelta(0) else datetime.timedelta(minutes=15)
        n = min(len(strat.events) + 8, 400)
        instants = [s.start_time + k * step for k in range(-4, n)]
        for gid, gc in strat.world_state.grid_connectors.items():
            if gc.grid_operator not in file_obj:
                continue
            got = [util.datetime_within_time_window(d, strat.time_windows[gc.grid_operator], gc.voltage_level)
                   for d in instants]
            want = oracle_windows(file_obj, gc.grid_operator, gc.voltage_level, s.start_time.year, instants)
            bad = [(d, g, w) for d, g, w in zip(instants, got, want) if bool(g) != w]
            if bad:
                d, g, w = bad[0]
                years = {int(info["start"][:4]) for o in file_obj.values() for info in o.values()}
                key = "C15:plw_window_table" if s.start_time.year in years else "C15:plw_window_table_year_replaced"
                viol.append(("plw_window_table", key,
                             "%d of %d instants: converted table says %s, file text says %s at %s (connector %s level %s)"
                             % (len(bad), len(instants), g, w, d.isoformat(), gid, gc.voltage_level)))
            if any(got):
                stats.append("init:in_window_seen")
            if any(got) and not all(got):
                stats.append("init:window_change_seen")
        if any(p > 0 for p in strat.peak_power.values()):
            stats.append("init:peak_positive")
        # oracle (C11/C04 premise): the initial peak is the largest in-window sum of the loads of the event table
        # — recomputed from the table without the model
        if strat is not None:
            for gid, gc in strat.world_state.grid_connectors.items():
                loads = dict(s.components.grid_connectors[gid].current_loads)
                best = 0
                t = s.start_time - s.interval
                from spice_ev import events as E
                for bucket in strat.events:
                    t += s.interval
                    for e in bucket:
                        if e.grid_connector_id == gid and type(e) is E.FixedLoad:
                            loads[e.name] = e.value
                        elif e.grid_connector_id == gid and type(e) is E.LocalEnergyGeneration:
                            loads[e.name] = -e.value
                    if util.datetime_within_time_window(t, strat.time_windows[gc.grid_operator], gc.voltage_level):
                        best = max(best, sum(loads.values()))
                if abs(best - strat.peak_power[gid]) > 1e-9 * max(1.0, abs(best)):
                    viol.append(("plw_initial_peak", "C11:plw_initial_peak",
                                 "connector %s: peak_power %r, largest in-window load sum %r" % (gid, strat.peak_power[gid], best)))
    if strat is not None and full["strategy"] == "peak_load_window":
        # oracle (C07's rule for the look-ahead table): every local event sits in the bucket of the first step at or
        # after its start time (bucket 0 = the scenario start takes everything earlier), is announced at the scenario
        # start at the latest, and no event up to the last step time is missing or doubled
        from spice_ev import events as E
        raw = list(s.events.grid_operator_signals)
        n_expected = None
        if s.interval > datetime.timedelta(0) and strat.events:
            last = s.start_time + (len(strat.events) - 1) * s.interval
            ev_copy = copy.deepcopy(s.events)
            allev = list(ev_copy.grid_operator_signals)
            for name, l in ev_copy.fixed_load_lists.items():
                allev += l.get_events(name, E.FixedLoad)
            for name, l in ev_copy.local_generation_lists.items():
                allev += l.get_events(name, E.LocalEnergyGeneration)
            n_expected = sum(1 for e in allev if e.start_time <= last)
            got = sum(len(b) for b in strat.events)
            if got != n_expected:
                viol.append(("plw_table_complete", "C07:plw_table_complete",
                             "%d events in the table, %d local events start at or before its last step" % (got, n_expected)))
            for k, bucket in enumerate(strat.events):
                tk = s.start_time + k * s.interval
                for e in bucket:
                    if e.start_time > tk or (k > 0 and e.start_time <= tk - s.interval):
                        viol.append(("plw_table_bucket", "C07:plw_table_bucket",
                                     "event starting %s in the bucket of step %s" % (e.start_time, tk)))
                    if e.signal_time > s.start_time:
                        viol.append(("plw_table_signal", "C07:plw_table_signal",
                                     "event signalled %s, after the scenario start" % (e.signal_time,)))
            stats.append("init:table_oracle")
        del raw
    if strat is not None and full["strategy"] == "balanced_market":
        # oracle (C07/C11): no price signal is announced after its own start unless it starts before the scenario
        hz = datetime.timedelta(hours=strat.HORIZON)
        for e in strat.events.grid_operator_signals:
            if hz >= datetime.timedelta(0) and e.start_time >= s.start_time and e.signal_time > e.start_time:
                viol.append(("market_signal_before_start", "C11:market_signal_after_start",
                             "signal %s after start %s" % (e.signal_time, e.start_time)))
            if e.signal_time < s.start_time:
                viol.append(("market_signal_not_before_run", "C11:market_signal_before_scenario",
                             "signal %s before scenario start" % (e.signal_time,)))
    if exc is not None:
        stats.append("init:raises_" + type(exc).__name__)
    return {"lines": list(box["lines"]), "impl": list(box["impl"]), "violations": viol, "nontrivial": strat is not None,
            "stats": stats, "replay_case": full}


# ------------------------------------------------------------------------------------------------------------------
# generated-constants stream: defaults extracted from the Python source by ast

def _literal(node):
    try:
        return ast.literal_eval(node)
    except Exception:
        return None


def source_constants():
    """attribute defaults assigned in the constructors (`self.X = <literal>` before `super().__init__` / the kwargs
    loop) and the `kwargs.get('CONCURRENCY', <literal>)` default, read from the source text"""
    import pathlib
    root = pathlib.Path(engine.REPO) / "spice_ev"
    out = {}

    def init_assigns(path, cls):
        tree = ast.parse(path.read_text())
        res = {}
        for node in ast.walk(tree):
            if isinstance(node, ast.ClassDef) and node.name == cls:
                for fn in node.body:
                    if isinstance(fn, ast.FunctionDef) and fn.name == "__init__":
                        for st in ast.walk(fn):
                            if isinstance(st, ast.Assign) and len(st.targets) == 1:
                                t = st.targets[0]
                                if isinstance(t, ast.Attribute) and isinstance(t.value, ast.Name) and t.value.id == "self":
                                    v = _literal(st.value)
                                    if v is not None or (isinstance(st.value, ast.Constant) and st.value.value is None):
                                        res.setdefault(t.attr, v)
                            if isinstance(st, ast.Call) and isinstance(st.func, ast.Attribute) and st.func.attr == "get" \
                                    and st.args and _literal(st.args[0]) == "CONCURRENCY" and len(st.args) > 1:
                                res["CONCURRENCY"] = _literal(st.args[1])
        return res
    base = init_assigns(root / "strategy.py", "Strategy")
    sch = init_assigns(root / "strategies" / "schedule.py", "Schedule")
    fw = init_assigns(root / "strategies" / "flex_window.py", "FlexWindow")
    plw = init_assigns(root / "strategies" / "peak_load_window.py", "PeakLoadWindow")
    bm = init_assigns(root / "strategies" / "balanced_market.py", "BalancedMarket")
    psh = init_assigns(root / "strategies" / "peak_shaving.py", "PeakShaving")
    # `gc.voltage_level = "MV"` is an assignment to gc, not self: take it from the source text
    src = (root / "strategies" / "peak_load_window.py").read_text()
    m = re.search(r"gc\.voltage_level\s*=\s*[\"'](\w+)[\"']", src)
    del plw
    b = lambda v: "1" if v else "0"  # noqa: E731
    out = ["margin", f(base["margin"]), "PRICE_THRESHOLD", f(base["PRICE_THRESHOLD"]), "EPS", f(base["EPS"]),
           "ALLOW_NEGATIVE_SOC", b(base["ALLOW_NEGATIVE_SOC"]), "RESET_NEGATIVE_SOC", b(base["RESET_NEGATIVE_SOC"]),
           "uses_schedule", b(base["uses_schedule"]), "uses_window", b(base["uses_window"]),
           "CONCURRENCY", "1", "cs", f(base["CONCURRENCY"]),
           "schedule.LOAD_STRAT", tok(sch["LOAD_STRAT"]), "schedule.ITERATIONS", str(sch["ITERATIONS"]),
           "schedule.currently_in_core_standing_time", b(sch["currently_in_core_standing_time"]),
           "schedule.overcharge_necessary", b(sch["overcharge_necessary"]),
           "schedule.warn_core_standing_time", b(sch["warn_core_standing_time"]),
           "flex_window.LOAD_STRAT", tok(fw["LOAD_STRAT"]), "flex_window.HORIZON", f(fw["HORIZON"]),
           "balanced_market.HORIZON", f(bm["HORIZON"]),
           "peak_shaving.HORIZON_us", str(td_us(datetime.timedelta(hours=psh["HORIZON"]))),
           "peak_shaving.perfect_foresight", b(psh["perfect_foresight"]),
           "peak_load_window.voltage_level", m.group(1) if m else "?"]
    return " ".join(out)


def eval_consts_case(case):
    return {"lines": ["init_consts"], "impl": [source_constants()], "violations": [], "nontrivial": True,
            "stats": ["init:consts"]}


# ------------------------------------------------------------------------------------------------------------------
# check module interface

def init_cases(tier, seed):
    """the cases other checks (C15) add to their own stream"""
    n = 6 if tier == "quick" else 60
    yield {"k": "init", "consts": 1, "pid": PID}
    for i in range(n):
        for v in VARIANTS:
            yield {"k": "init", "seed": seed, "i": i, "variant": v, "pid": PID}


def eval_any(case):
    if case.get("consts"):
        return eval_consts_case(case)
    return eval_init_case(case)


def gen_cases(tier, seed):
    n = 12 if tier == "quick" else 120
    yield {"k": "init", "consts": 1, "pid": PID}
    for i in range(n):
        for v in VARIANTS:
            yield {"k": "init", "seed": seed, "i": i, "variant": v, "pid": PID}


def eval_case(case):
    return eval_any(case)
