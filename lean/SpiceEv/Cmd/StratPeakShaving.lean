/- driver command for Model/StratPeakShaving.lean (`PeakShaving.step` on the Float battery model) -/
import SpiceEv.Wire
import SpiceEv.Model.StratPeakShaving
import SpiceEv.Cmd.Strategies
namespace SpiceEv.PeakShaving.Cmd
open SpiceEv SpiceEv.Cmd.Strategies

/-- one visible event:
`G|L start gc name value`, `S start gc <opt max_power>`, `D start vid`,
`A start vid <opt cs> <opt desired_soc> <opt soc_delta> <M | N | S etd>`, `O start` -/
def pEv : P (Ev Float) := do
  let k ← P.tok
  let start ← P.int
  if k == "G" then do
    let gc ← P.tok; let name ← P.tok; let v ← P.num Float; pure (.gen start gc name v)
  else if k == "L" then do
    let gc ← P.tok; let name ← P.tok; let v ← P.num Float; pure (.load start gc name v)
  else if k == "S" then do
    let gc ← P.tok; let mp ← P.opt (P.num Float); pure (.signal start gc mp)
  else if k == "D" then do
    let vid ← P.tok; pure (.departure start vid)
  else if k == "A" then do
    let vid ← P.tok; let cs ← P.opt P.tok; let des ← P.opt (P.num Float); let sd ← P.opt (P.num Float)
    let t ← P.tok
    let etd ← (if t == "M" then pure none else if t == "N" then pure (some none)
               else if t == "S" then (fun x => some (some x)) <$> P.int else failure)
    pure (.arrival start vid cs des sd etd)
  else if k == "O" then pure (.other start)
  else failure

/-- inverse of `pEv` -/
def rEv : Ev Float → String
  | .gen s gc name v => s!"G {s} {gc} {name} {rNum v}"
  | .load s gc name v => s!"L {s} {gc} {name} {rNum v}"
  | .signal s gc mp => s!"S {s} {gc} {renderOpt rNum mp}"
  | .departure s vid => s!"D {s} {vid}"
  | .arrival s vid cs des sd etd =>
    let e := match etd with
      | none => "M" | some none => "N" | some (some t) => s!"S {t}"
    s!"A {s} {vid} {renderOpt id cs} {renderOpt rNum des} {renderOpt rNum sd} {e}"
  | .other s => s!"O {s}"

def pSig : P (Signalled Float) := do let s ← P.int; let e ← pEv; pure ⟨s, e⟩

/-- `init_peak_shaving horizon scenarioStart <vehicle events> <signals> <n lists of fixed-load events>
<n lists of generation events>` (every event preceded by its signal time) → `changed | n (signal event)…` -/
def cmdInit : P String := do
  let horizon ← P.int; let start ← P.int
  let ves ← P.list pSig; let sigs ← P.list pSig
  let loads ← P.list (P.list pSig); let gens ← P.list (P.list pSig)
  let (evs, changed) := initEvents horizon start ves sigs loads gens
  pure (toString changed ++ " | " ++ renderList (fun e => toString e.signal ++ " " ++ rEv e.ev) evs)

/-- the battery operations of `peak_shaving` for one fixed interval `T` (hours) -/
def floatOpsPS (T : Float) : Ops Float (Battery Float) where
  bat := floatOps T
  loadMaxPower b := b.loadingCurve.maxPower
  setSoc b s := { b with soc := s }
  sum := floatSum

/-- `step_peak_shaving eps tsPerHour now interval horizon perfect fuel <gcs> <stations> <vehicles> <batteries>
<events>` → `commands | loads per connector | station power | vehicle SoCs | battery SoCs | fast_charge results`
or the exception -/
def cmdStep : P String := do
  let eps ← P.num Float; let tsph ← P.num Float
  let now ← P.int; let interval ← P.int; let horizon ← P.int; let perfect ← P.bool; let fuel ← P.nat
  let gcs ← P.list pGc; let css ← P.list pCs; let vs ← P.list pVeh; let bs ← P.list pBat
  let evs ← P.list pEv
  let env : Env Float := ⟨eps, tsph, now, interval, horizon, perfect, fuel⟩
  let ops := floatOpsPS (SpiceEv.Cmd.Battery.hoursOfMicros interval)
  match step ops env evs ⟨gcs, css, vs, bs⟩ with
  | .error e => pure (renderErr e)
  | .ok (w, cmds, fc) =>
    pure (renderList rKV cmds ++ " | " ++
      " ; ".intercalate (w.gcs.map (fun g => g.id ++ " " ++ renderList rKV g.loads)) ++ " | " ++
      " ".intercalate (w.stations.map (fun s => rNum s.currentPower)) ++ " | " ++
      " ".intercalate (w.vehicles.map (fun v => rNum v.bat.soc)) ++ " | " ++
      " ".intercalate (w.batteries.map (fun b => rNum b.bat.soc)) ++ " | " ++
      renderList rNum fc)

def handlers : List (String × Handler) :=
  [("step_peak_shaving", runP cmdStep), ("init_peak_shaving", runP cmdInit)]

end SpiceEv.PeakShaving.Cmd
