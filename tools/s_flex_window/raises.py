import sys, os, traceback, collections
os.environ.setdefault("VERIF_REPO", "/repo")
sys.path.insert(0, os.path.join(os.path.dirname(os.path.abspath(__file__)), "..", "..", "harness"))
import warnings; warnings.simplefilter("ignore")
import engine, scen, s_flex_window as S
from spice_ev import strategy as st_mod
cls = st_mod.class_from_str("flex_window")
orig = cls.step
seen = collections.Counter()
def wrapped(self):
    try:
        return orig(self)
    except Exception as e:
        tb = traceback.extract_tb(e.__traceback__)
        fr = [f for f in tb if "flex_window.py" in f.filename][-1]
        key = (type(e).__name__, fr.lineno, fr.line)
        seen[key] += 1
        if seen[key] == 1:
            print("CASE", cur, self.LOAD_STRAT, self.current_time, key, str(e)[:100], "last frame:", tb[-1].filename.split('/')[-1], tb[-1].lineno, file=sys.stderr)
        raise
cls.step = wrapped
for seed in (0,):
    for i in range(200):
        cur = (seed, i)
        full = S.gen_full({"seed": seed, "i": i})
        scen.run_real(full, timeout_s=300, collect_ops=False)
print(seen)
