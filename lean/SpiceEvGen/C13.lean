/-
C13 on the GENERATED definition of `generate_schedule.aggressive_round` (SpiceEvGen/Src.lean, re-translated from the
Python source on every run by harness/py2lean.py).  Only `theorem C13_gen_…` + a non-vacuity example.
-/
import SpiceEvGen.Src
import SpiceEv.Properties.C13
set_option linter.unusedSectionVars false
namespace SpiceEv
open SpiceEv.ScheduleGen
variable {α : Type} [Field α] [LinearOrder α] [IsStrictOrderedRing α]

/-- **The translated source is the hand model** of `aggressive_round` (the function every written schedule value and
per-vehicle value passes through), for every `EPS` and rounding function. -/
theorem C13_gen_aggressive_round_is_model (eps : α) (rnd : α → α) (f : α) :
    Gen.aggressive_round eps rnd f = aggressiveRound eps rnd f := by
  first
    | rfl
    | (simp only [Gen.aggressive_round, aggressiveRound]
       grind)

/-- **Written value, stated about the translated source**: row `t` of the written schedule carries the translated
`aggressive_round` of the scheduled value; values within `±EPS` of zero are written as exactly `0`, all others as their
rounding; and the row count is the number of timesteps. -/
theorem C13_gen_written_value (eps : α) (rnd : α → α) (individual : Bool) (cells : Array (Cell α)) :
    (writeRows eps rnd individual cells).length = cells.size ∧
    (∀ t (ht : t < cells.size) (hr : t < (writeRows eps rnd individual cells).length),
      (writeRows eps rnd individual cells)[t].sched = Gen.aggressive_round eps rnd cells[t].sched) ∧
    (∀ f : α, -eps < f → f < eps → Gen.aggressive_round eps rnd f = 0) ∧
    (∀ f : α, (f ≤ -eps ∨ eps ≤ f) → Gen.aggressive_round eps rnd f = rnd f) := by
  obtain ⟨h1, h2⟩ := C13_written_value eps rnd individual cells
  refine ⟨h1, fun t ht hr => by rw [C13_gen_aggressive_round_is_model]; exact h2 t ht hr, ?_, ?_⟩
  · intro f ha hb
    rw [C13_gen_aggressive_round_is_model]; unfold aggressiveRound; rw [if_pos ⟨ha, hb⟩]
  · intro f h
    rw [C13_gen_aggressive_round_is_model]; unfold aggressiveRound
    rw [if_neg]
    rintro ⟨ha, hb⟩
    rcases h with h | h
    · exact absurd ha (not_lt.mpr h)
    · exact absurd hb (not_lt.mpr h)

/-- Non-vacuity: 1/2000 is written as 0 at EPS = 1/1000, 5 stays 5. -/
example : Gen.aggressive_round (1/1000 : ℚ) id (1/2000) = 0 ∧ Gen.aggressive_round (1/1000 : ℚ) id 5 = 5 := by
  decide +kernel

end SpiceEv
