/-
C07 — frame of the `schedule` strategy's own step (`Sched.step`, Model/StratSchedule.lean) with respect to the state
that events set on a grid connector: the invariant `Keeps.Inv S gcs0` (Proofs/C07Keeps.lean) is threaded through every
function of the model that returns a world.  Purely structural, instance-free (the typeclass context is the one of the
model's section: plain operations, no algebraic axioms).

Covered (one lemma each): `commit`, `indVehicle`, `chargeIndividually`, `utilBattery`, `utilizeBatteries`,
`excessVehicle`, `csLoop`, `dcExcess`, `dcOnSchedule`, `duringCst`, `cvVehicle`, `cvGroup`, `chargeVehicles`,
`acVehicle`, `afterCst`, `v2gApply`, `v2gVehicle`, `v2gCst`, `step`.
(`csRetry`, `dcRemaining`, `dcClose`, `evaluate` return no world.)
-/
import SpiceEv.Proofs.C07Keeps
import SpiceEv.Model.StratSchedule
set_option linter.unusedSectionVars false
set_option linter.unusedSimpArgs false
set_option linter.unusedVariables false
namespace SpiceEv
namespace Keeps
namespace Sched
open SpiceEv.Sched

variable {α B : Type} [Add α] [Sub α] [Mul α] [Div α] [Neg α] [LT α] [LE α]
  [DecidableLT α] [DecidableLE α] [OfNat α 0] [OfNat α 1] [OfNat α 2] [NatCast α] [IntCast α]
variable {S : String → Bool} {gcs0 : List (GcS α)}

/-! ### lookups -/

theorem getGc_mem {w : SWorld α B} {id : String} {g : GcS α} (h : getGc w id = .ok g) : g ∈ w.gcs := by
  unfold getGc at h
  split at h
  · rename_i g' hg; cases h; exact mem_of_find? hg
  · cases h

theorem getStation_S {w : SWorld α B} (hi : Inv S gcs0 w) {id : String} {cs : StationS α}
    (h : getStation w id = .ok cs) : S id = true ∧ S cs.id = true := by
  unfold getStation at h
  split at h
  · rename_i s hs; cases h
    exact ⟨hi.S_of_station? hs, hi.st _ (mem_of_find? hs)⟩
  · cases h

/-! ### `commit` -/

theorem commit_keeps (w : SWorld α B) (cmds : List (String × α)) (v : VehicleS α B) (bat' : B)
    (cs : StationS α) (gc : GcS α) (csId : String) (avg : α) (hi : Inv S gcs0 w) (hg : gc ∈ w.gcs)
    (hS : S csId = true) (hcs : S cs.id = true) : Inv S gcs0 (commit w cmds v bat' cs gc csId avg).1 := by
  unfold commit
  exact ((hi.setVehicle _).setGc _ (hi.key_addLoad hg csId avg hS)).setStation _ hcs

/-! ### individual mode -/

theorem indVehicle_keeps (ops : Ops α B) (env : Env α)
    (st st' : SWorld α B × List (String × α) × Option α) (v0 : VehicleS α B)
    (hi : Inv S gcs0 st.1) (h : indVehicle ops env st v0 = .ok st') : Inv S gcs0 st'.1 := by
  unfold indVehicle at h
  split at h
  · cases h; exact hi
  · split at h
    · cases h; exact hi
    · rename_i csId _
      split at h
      · cases h
      · rename_i cs hcs
        obtain ⟨hS, hSid⟩ := getStation_S hi hcs
        split at h
        · cases h
        · rename_i gc hgc
          have hgm := getGc_mem hgc
          split at h
          · cases h
          · split at h
            · cases h
            · split at h
              · cases h
              · cases h
              · dsimp only at h
                split at h
                · cases h
                · cases h
                  exact commit_keeps _ st.2.1 _ _ _ _ _ _ hi hgm hS hSid

theorem chargeIndividually_keeps (ops : Ops α B) (env : Env α) (w w' : SWorld α B)
    (cmds : List (String × α)) (hi : Inv S gcs0 w)
    (h : chargeIndividually ops env w = .ok (w', cmds)) : Inv S gcs0 w' := by
  unfold chargeIndividually at h
  simp only [bind, Except.bind, pure, Except.pure] at h
  split at h
  · cases h
  · rename_i r hr
    simp only [Except.ok.injEq, Prod.mk.injEq] at h
    obtain ⟨rfl, -⟩ := h
    exact foldlM_inv _ (fun (s : SWorld α B × List (String × α) × Option α) => Inv S gcs0 s.1)
      (fun s v s' hs hf => indVehicle_keeps ops env s s' v hs hf) _ _ _ hi hr

/-! ### stationary batteries -/

theorem utilBattery_keeps (ops : Ops α B) (env : Env α) (w w' : SWorld α B) (b0 : StatBatS α B)
    (hi : Inv S gcs0 w) (h : utilBattery ops env w b0 = .ok w') : Inv S gcs0 w' := by
  unfold utilBattery at h
  split at h
  · cases h; exact hi
  · rename_i b hb
    have hbS : S b.id = true := hi.S_of_battery (mem_of_find? hb)
    split at h
    · cases h
    · rename_i gc hgc
      have hgm := getGc_mem hgc
      split at h
      · cases h
      · split at h
        · cases h; exact hi
        · dsimp only at h
          split at h
          · split at h
            · cases h
            · cases h
              exact Inv.setGc (Inv.setBattery hi _ (by exact hbS)) _ (hi.key_addLoad hgm b.id _ hbS)
          · split at h
            · split at h
              · cases h
              · cases h
                exact Inv.setGc (Inv.setBattery hi _ (by exact hbS)) _ (hi.key_addLoad hgm b.id _ hbS)
            · cases h
              exact Inv.setGc hi _ (hi.key_addLoad hgm b.id _ hbS)

theorem utilizeBatteries_keeps (ops : Ops α B) (env : Env α) (w w' : SWorld α B)
    (hi : Inv S gcs0 w) (h : utilizeBatteries ops env w = .ok w') : Inv S gcs0 w' := by
  unfold utilizeBatteries at h
  exact foldlM_inv _ (fun (s : SWorld α B) => Inv S gcs0 s)
    (fun s b s' hs hf => utilBattery_keeps ops env s s' b hs hf) _ _ _ hi h

/-- the world part of `step` after the strategy-specific pass: the battery pass -/
theorem step_inv_individual (ops : Ops α B) (env : Env α) (hc : env.collective = false)
    (w w' : SWorld α B) (st st' : CState α) (cmds : List (String × α)) (hi : Inv S gcs0 w)
    (h : step ops env w st = .ok (w', st', cmds)) : Inv S gcs0 w' := by
  unfold step at h
  simp only [hc, Bool.false_eq_true, if_false, bind, Except.bind, pure, Except.pure] at h
  split at h
  · cases h
  · rename_i r hr
    split at hr
    · cases hr
    · rename_i r1 hr1
      simp only [Except.ok.injEq] at hr
      subst hr
      split at h
      · cases h
      · rename_i w2 hw2
        simp only [Except.ok.injEq, Prod.mk.injEq] at h
        obtain ⟨rfl, -, -⟩ := h
        have i1 : Inv S gcs0 r1.1 :=
          chargeIndividually_keeps ops env _ r1.1 r1.2 hi.resetStations (by rw [hr1])
        exact utilizeBatteries_keeps ops env _ _ i1 hw2

/-! ### collective mode: inside the core standing time -/

theorem excessVehicle_keeps (ops : Ops α B) (env : Env α) (dt : Int)
    (st st' : SWorld α B × List (String × α) × List (String × α)) (kv : String × α)
    (hi : Inv S gcs0 st.1) (h : excessVehicle ops env dt st kv = .ok st') : Inv S gcs0 st'.1 := by
  unfold excessVehicle at h
  simp only [bind, Except.bind] at h
  split at h
  · cases h
  · split at h
    · cases h; exact hi
    · rename_i csId _
      split at h
      · cases h
      · rename_i cs hcs
        obtain ⟨hS, hSid⟩ := getStation_S hi hcs
        split at h
        · cases h
        · rename_i gc hgc
          have hgm := getGc_mem hgc
          split at h
          · cases h
          · split at h
            · cases h
            · split at h
              · cases h
              · cases h
                exact commit_keeps _ st.2.2 _ _ _ _ _ _ hi hgm hS hSid

theorem csLoop_keeps (ops : Ops α B) (env : Env α) (fraction : α) (nVeh : Nat)
    (gid : String) (fuel i : Nat) (q lo : List (String × α)) (extra rem : α) (w : SWorld α B)
    (cmds : List (String × α)) (r : SWorld α B × List (String × α)) (hi : Inv S gcs0 w)
    (h : csLoop ops env fraction nVeh gid fuel i q lo extra rem w cmds = .ok r) : Inv S gcs0 r.1 := by
  induction fuel generalizing i q lo extra rem w cmds with
  | zero =>
    cases q with
    | nil => unfold csLoop at h; cases h; exact hi
    | cons x xs => unfold csLoop at h; cases h
  | succ f ih =>
    cases q with
    | nil => unfold csLoop at h; cases h; exact hi
    | cons x xs =>
      obtain ⟨vid, en⟩ := x
      unfold csLoop at h
      split at h
      · cases h
      · rename_i v _
        split at h
        · exact ih _ _ _ _ _ _ _ hi h
        · rename_i csId _
          split at h
          · cases h
          · rename_i cs hcs
            obtain ⟨hS, hSid⟩ := getStation_S hi hcs
            split at h
            · cases h
            · rename_i gc hgc
              have hgm := getGc_mem hgc
              simp only at h
              split at h
              · cases h
              · rename_i res hres
                have hc := commit_keeps w cmds v res.1 cs gc csId res.2.1 hi hgm hS hSid
                split at h
                · cases h; exact hc
                · split at h
                  · cases h; exact hc
                  · split at h
                    · exact ih _ _ _ _ _ _ _ hc h
                    · exact ih _ _ _ _ _ _ _ hc h

theorem dcExcess_keeps (ops : Ops α B) (env : Env α) (w : SWorld α B) (st : CState α) (dtEnd : Int)
    (tsCharge : Nat) (r : SWorld α B × CState α × List (String × α)) (hi : Inv S gcs0 w)
    (h : dcExcess ops env w st dtEnd tsCharge = .ok r) : Inv S gcs0 r.1 := by
  unfold dcExcess at h
  simp only at h
  split at h
  · cases h
  · rename_i r2 hr2
    cases h
    exact foldlM_inv _ (fun (s : SWorld α B × List (String × α) × List (String × α)) => Inv S gcs0 s.1)
      (fun s kv s' hs hf => excessVehicle_keeps ops env _ s s' kv hs hf) _ _ _ hi hr2

theorem dcOnSchedule_keeps (ops : Ops α B) (env : Env α) (w : SWorld α B) (st : CState α) (p : α)
    (r : SWorld α B × CState α × List (String × α)) (hi : Inv S gcs0 w)
    (h : dcOnSchedule ops env w st p = .ok r) : Inv S gcs0 r.1 := by
  unfold dcOnSchedule at h
  simp only at h
  split at h
  · cases h
  · split at h
    · cases h
    · split at h
      · cases h
      · split at h
        · cases h
        · split at h
          · cases h
          · rename_i res hres
            cases h
            exact csLoop_keeps ops env _ _ _ _ _ _ _ _ _ w [] res hi hres

theorem duringCst_keeps (ops : Ops α B) (env : Env α) (w : SWorld α B) (st : CState α)
    (r : SWorld α B × CState α × List (String × α)) (hi : Inv S gcs0 w)
    (h : duringCst ops env w st = .ok r) : Inv S gcs0 r.1 := by
  unfold duringCst at h
  split at h
  · cases h
  · simp only at h
    split at h
    · cases h
    · split at h
      · cases h
      · rename_i r1 hr1
        cases h
        simp only
        split at hr1
        · exact dcExcess_keeps ops env w _ _ _ r1 hi hr1
        · exact dcOnSchedule_keeps ops env w _ _ r1 hi hr1

/-! ### collective mode: outside the core standing time -/

theorem cvVehicle_keeps (ops : Ops α B) (env : Env α) (gid : String)
    (st st' : SWorld α B × List (String × α)) (kid : α × String)
    (hi : Inv S gcs0 st.1) (h : cvVehicle ops env gid st kid = .ok st') : Inv S gcs0 st'.1 := by
  unfold cvVehicle at h
  split at h
  · cases h
  · split at h
    · cases h
    · rename_i csId _
      split at h
      · cases h
      · rename_i cs hcs
        obtain ⟨hS, hSid⟩ := getStation_S hi hcs
        split at h
        · cases h
        · rename_i gc hgc
          have hgm := getGc_mem hgc
          split at h
          · cases h
          · cases h
            exact commit_keeps _ st.2 _ _ _ _ _ _ hi hgm hS hSid

theorem cvGroup_keeps (ops : Ops α B) (env : Env α)
    (st st' : SWorld α B × List (String × α)) (grp : String × List String)
    (hi : Inv S gcs0 st.1) (h : cvGroup ops env st grp = .ok st') : Inv S gcs0 st'.1 := by
  unfold cvGroup at h
  split at h
  · cases h
  · split at h
    · cases h
    · split at h
      · cases h
      · split at h
        · cases h
        · split at h
          · cases h; exact hi
          · exact foldlM_inv _ (fun (s : SWorld α B × List (String × α)) => Inv S gcs0 s.1)
              (fun s kid s' hs hf => cvVehicle_keeps ops env grp.1 s s' kid hs hf) _ _ _ hi h

theorem chargeVehicles_keeps (ops : Ops α B) (env : Env α) (w w' : SWorld α B)
    (cmds : List (String × α)) (hi : Inv S gcs0 w)
    (h : chargeVehicles ops env w = .ok (w', cmds)) : Inv S gcs0 w' := by
  unfold chargeVehicles at h
  split at h
  · cases h
  · exact foldlM_inv _ (fun (s : SWorld α B × List (String × α)) => Inv S gcs0 s.1)
      (fun s g s' hs hf => cvGroup_keeps ops env s s' g hs hf) _ (w, []) (w', cmds) hi h

theorem acVehicle_keeps (ops : Ops α B) (env : Env α) (gid : String)
    (s s' : SWorld α B × List (String × α)) (v0 : VehicleS α B)
    (hi : Inv S gcs0 s.1) (h : acVehicle ops env gid s v0 = .ok s') : Inv S gcs0 s'.1 := by
  unfold acVehicle at h
  split at h
  · cases h; exact hi
  · split at h
    · cases h; exact hi
    · rename_i csId _
      split at h
      · cases h
      · rename_i cs hcs
        obtain ⟨hS, hSid⟩ := getStation_S hi hcs
        split at h
        · cases h
        · split at h
          · cases h
          · rename_i gc hgc
            have hgm := getGc_mem hgc
            split at h
            · cases h
            · split at h
              · cases h
              · split at h
                · cases h
                · cases h
                  exact commit_keeps _ s.2 _ _ _ _ _ _ hi hgm hS hSid

theorem afterCst_keeps (ops : Ops α B) (env : Env α) (w : SWorld α B) (st : CState α)
    (cmds : List (String × α)) (r : SWorld α B × CState α × List (String × α)) (hi : Inv S gcs0 w)
    (h : afterCst ops env w st cmds = .ok r) : Inv S gcs0 r.1 := by
  unfold afterCst at h
  split at h
  · cases h
  · split at h
    · cases h
    · simp only at h
      split at h
      · cases h; exact hi
      · split at h
        · cases h; exact hi
        · split at h
          · cases h
          · rename_i r2 hr2
            cases h
            exact foldlM_inv _ (fun (s : SWorld α B × List (String × α)) => Inv S gcs0 s.1)
              (fun s v s' hs hf => acVehicle_keeps ops env _ s s' v hs hf) _ (w, cmds) r2 hi hr2

/-! ### the V2G pass -/

theorem v2gApply_keeps (ops : Ops α B) (env : Env α) (chargeNow : Bool)
    (w : SWorld α B) (cmds : List (String × α)) (v : VehicleS α B) (cs : StationS α) (gc : GcS α)
    (csId : String) (mdp : α) (dl : Option α) (total : α) (r : SWorld α B × List (String × α))
    (hi : Inv S gcs0 w) (hg : gc ∈ w.gcs) (hS : S csId = true) (hcs : S cs.id = true)
    (h : v2gApply ops env chargeNow w cmds v cs gc csId mdp dl total = .ok r) : Inv S gcs0 r.1 := by
  unfold v2gApply at h
  split at h
  · split at h
    · cases h
    · cases h
      exact ((hi.setVehicle _).setGc _ (hi.key_addLoad hg csId _ hS)).setStation _ hcs
  · split at h
    · cases h
    · cases h
      exact ((hi.setVehicle _).setGc _ (hi.key_addLoad hg csId _ hS)).setStation _ hcs

theorem v2gVehicle_keeps (ops : Ops α B) (env : Env α) (gid : String) (chargeNow : Bool)
    (chargeWindow : List Bool) (issues : List String)
    (st st' : SWorld α B × List (String × α) × Option α) (vid : String) (hi : Inv S gcs0 st.1)
    (h : v2gVehicle ops env gid chargeNow chargeWindow issues st vid = .ok st') : Inv S gcs0 st'.1 := by
  unfold v2gVehicle at h
  split at h
  · cases h; exact hi
  · split at h
    · cases h
    · split at h
      · cases h
      · rename_i csId _
        split at h
        · cases h
        · rename_i cs hcs
          obtain ⟨hS, hSid⟩ := getStation_S hi hcs
          split at h
          · cases h
          · simp only at h
            split at h
            · cases h
            · rename_i gc hgc
              have hgm := getGc_mem hgc
              split at h
              · cases h
              · split at h
                · cases h
                · cases h; exact hi
                · split at h
                  · cases h
                  · split at h
                    · cases h
                    · rename_i r hr
                      cases h
                      exact v2gApply_keeps ops env chargeNow st.1 st.2.1 _ cs gc csId _ _ _ r hi hgm hS hSid hr

theorem v2gCst_keeps (ops : Ops α B) (env : Env α) (w : SWorld α B) (st : CState α)
    (cmds : List (String × α)) (r : SWorld α B × CState α × List (String × α)) (hi : Inv S gcs0 w)
    (h : v2gCst ops env w st cmds = .ok r) : Inv S gcs0 r.1 := by
  unfold v2gCst at h
  simp only [bind, Except.bind] at h
  split at h
  · cases h
  · split at h
    · cases h
    · split at h
      · cases h
      · rename_i r2 hr2
        cases h
        exact foldlM_inv _ (fun (s : SWorld α B × List (String × α) × Option α) => Inv S gcs0 s.1)
          (fun s vid s' hs hf => v2gVehicle_keeps ops env _ _ _ _ s s' vid hs hf) _ (w, cmds, none) r2 hi hr2

/-! ### `step` -/

/-- **schedule.**  The step keeps the invariant: ids, limits, costs and non-station entries of the connectors. -/
theorem step_inv (ops : Ops α B) (env : Env α) (w w' : SWorld α B) (st st' : CState α)
    (cmds : List (String × α)) (hi : Inv S gcs0 w)
    (h : step ops env w st = .ok (w', st', cmds)) : Inv S gcs0 w' := by
  cases hc : env.collective with
  | false => exact step_inv_individual ops env hc w w' st st' cmds hi h
  | true =>
    unfold step at h
    simp only [hc, if_true, bind, Except.bind, pure, Except.pure] at h
    have hi0 : Inv S gcs0 (resetStations w) := hi.resetStations
    split at h
    · cases h
    · rename_i r hr
      have hir : Inv S gcs0 r.1 := by
        split at hr
        · cases hr
        · split at hr
          · -- inside the core standing time
            split at hr
            · cases hr
            · rename_i st1 _
              split at hr
              · cases hr
              · rename_i r2 hr2
                have i2 := duringCst_keeps ops env _ st1 r2 hi0 hr2
                split at hr
                · exact v2gCst_keeps ops env r2.1 r2.2.1 r2.2.2 r i2 hr
                · cases hr; exact i2
          · -- outside
            split at hr
            · cases hr
            · rename_i r1 hr1
              have i1 : Inv S gcs0 r1.1 := chargeVehicles_keeps ops env _ r1.1 r1.2 hi0 (by rw [hr1])
              split at hr
              · exact afterCst_keeps ops env r1.1 st r1.2 r i1 hr
              · cases hr; exact i1
      split at h
      · cases h
      · rename_i w2 hw2
        simp only [Except.ok.injEq, Prod.mk.injEq] at h
        obtain ⟨rfl, -, -⟩ := h
        exact utilizeBatteries_keeps ops env r.1 _ hir hw2

/-- the frame of `Sched.step` relative to the station / battery names of the world before the step -/
theorem step_keeps (ops : Ops α B) (env : Env α) (w w' : SWorld α B) (st st' : CState α)
    (cmds : List (String × α)) (h : step ops env w st = .ok (w', st', cmds)) :
    GcKeeps (sbName w) w.gcs w'.gcs :=
  (step_inv ops env w w' st st' cmds (Inv.init w) h).keeps

end Sched
end Keeps
end SpiceEv
